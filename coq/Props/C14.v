(* C14 - Integers are exact at every magnitude.
   This file contains statements only; every proof is [exact <lemma>].  [ok r z] means: the model
   operation returned a value (no panic, no error), in canonical form, denoting the integer z. *)
From Coq Require Import ZArith Bool String List.
From Xr Require Import Base.Res Int.Lbi Int.IntFns Int.LbiProofs Int.IntSpec Int.IntProofs.
Import ListNotations.
Open Scope Z_scope.

Theorem C14_add : forall a b, wf a = true -> wf b = true -> ok (add a b) (den a + den b).
Proof. exact add_ok. Qed.
Theorem C14_sub : forall a b, wf a = true -> wf b = true -> ok (sub a b) (den a - den b).
Proof. exact sub_ok. Qed.
Theorem C14_mul : forall a b, wf a = true -> wf b = true -> ok (mul a b) (den a * den b).
Proof. exact mul_ok. Qed.
Theorem C14_mul_assign : forall a b, wf a = true -> wf b = true -> ok (mul_assign a b) (den a * den b).
Proof. exact mul_assign_ok. Qed.
Theorem C14_neg : forall a, wf a = true -> ok (neg a) (- den a).
Proof. exact neg_ok. Qed.
Theorem C14_abs : forall a, wf a = true -> ok (x_abs a) (Z.abs (den a)).
Proof. exact x_abs_ok. Qed.
Theorem C14_sign : forall a, wf a = true -> ok (Val (x_sign a)) (Z.sgn (den a)).
Proof. exact x_sign_ok. Qed.

(* floored modulo: the result has the sign of the divisor (Z.modulo) *)
Theorem C14_mod : forall a b, wf a = true -> wf b = true ->
  (den b = 0 /\ int_mod a b = Err "Modulo by zero") \/ (den b <> 0 /\ ok (int_mod a b) (den a mod den b)).
Proof. exact int_mod_ok. Qed.
Theorem C14_div_floor : forall a b, wf a = true -> wf b = true ->
  (den b = 0 /\ int_div_floor a b = Err "Division by zero") \/
  (den b <> 0 /\ ok (int_div_floor a b) (den a / den b)).
Proof. exact int_div_floor_ok. Qed.
Theorem C14_div_ceil : forall a b, wf a = true -> wf b = true ->
  (den b = 0 /\ int_div_ceil a b = Err "Division by zero") \/
  (den b <> 0 /\ ok (int_div_ceil a b) (- ((- den a) / den b))).
Proof. exact int_div_ceil_ok. Qed.
Theorem C14_trunc_div : forall a b, wf a = true -> wf b = true -> den b <> 0 ->
  ok (div a b) (Z.quot (den a) (den b)).
Proof. exact div_ok. Qed.
Theorem C14_trunc_rem : forall a b, wf a = true -> wf b = true -> den b <> 0 ->
  ok (rem a b) (Z.rem (den a) (den b)).
Proof. exact rem_ok. Qed.

Theorem C14_pow : forall a b, wf a = true -> wf b = true ->
  (den b < 0 /\ exists m, int_pow a b = Err m) \/
  (den b = 0 /\ den a = 0 /\ exists m, int_pow a b = Err m) \/
  (0 <= den b /\ ~ (den b = 0 /\ den a = 0) /\ ok (int_pow a b) (den a ^ den b)).
Proof. exact int_pow_ok. Qed.

Theorem C14_bit_and : forall a b, wf a = true -> wf b = true -> ok (bit_and a b) (Z.land (den a) (den b)).
Proof. exact bit_and_ok. Qed.
Theorem C14_bit_or : forall a b, wf a = true -> wf b = true -> ok (bit_or a b) (Z.lor (den a) (den b)).
Proof. exact bit_or_ok. Qed.
Theorem C14_bit_xor : forall a b, wf a = true -> wf b = true -> ok (bit_xor a b) (Z.lxor (den a) (den b)).
Proof. exact bit_xor_ok. Qed.

Theorem C14_cmp : forall a b, wf a = true -> wf b = true -> cmp a b = Z.compare (den a) (den b).
Proof. exact cmp_spec. Qed.
Theorem C14_eq : forall a b, wf a = true -> wf b = true -> eqb a b = (den a =? den b).
Proof. exact eqb_spec. Qed.

(* equal integers are indistinguishable: the canonical representation is unique, so anything
   computed from it (hash, text, ...) coincides *)
Theorem C14_indistinguishable : forall a b, wf a = true -> wf b = true -> den a = den b -> a = b.
Proof. exact canonical_unique. Qed.
Theorem C14_hash_range : forall a, wf a = true -> wf (int_hash a) = true /\ 0 <= den (int_hash a) < 2 ^ 64.
Proof. exact int_hash_ok. Qed.

Theorem C14_gcd : forall fuel a b g, wf a = true -> wf b = true ->
  x_gcd_f fuel a b = Val g -> wf g = true /\ den g = Z.gcd (den a) (den b).
Proof. exact x_gcd_f_ok. Qed.
Theorem C14_lcm : forall fuel a b l, wf a = true -> wf b = true ->
  x_lcm_f fuel a b = Val l -> wf l = true /\ den l = Z.lcm (den a) (den b).
Proof. exact x_lcm_f_ok. Qed.

Theorem C14_binom : forall a b, wf a = true -> wf b = true -> 0 <= den b <= den a ->
  ok (int_binom a b) (choose (Z.to_nat (den a)) (Z.to_nat (den b))).
Proof. exact int_binom_ok. Qed.

Theorem C14_digits : forall n b ds, wf n = true -> wf b = true -> int_digits n b = Val ds ->
  2 <= den b /\ Forall (fun d => wf d = true /\ Z.abs (den d) < den b) ds /\
  from_digits (map den ds) (den b) = den n.
Proof. exact int_digits_ok. Qed.

Theorem C14_factorial : forall n r, wf n = true -> 0 <= den n -> x_factorial n lone = Val r ->
  wf r = true /\ den r = zfact (Z.to_nat (den n)).
Proof. exact x_factorial_ok. Qed.

(* conversion from a float holding an integer exactly (floor/ceil/trunc of n.to_float()) *)
Theorem C14_from_float : forall z, ok (from_f64_exact z) z.
Proof. exact from_f64_exact_ok. Qed.

(* non-vacuity: canonical values exist on both sides of the 64-bit boundary, the fuelled
   functions do return values, and the boundary cases that used to fail are covered *)
Example C14_nonvacuous :
  wf (Short (-9223372036854775808)) = true /\ wf (Long 9223372036854775808) = true /\
  mul (Long 9223372036854775808) (Short (-1)) = Val (Short (-9223372036854775808)) /\
  sub (Short 1) (Long 18446744073709551616) = Val (Long (-18446744073709551615)) /\
  int_binom (Short 30) (Short 15) = Val (Short 155117520) /\
  x_gcd (Long (2 ^ 70)) (Long (3 * 2 ^ 65)) = Val (Long (2 ^ 65)) /\
  x_lcm (Long 1152921504606846977000) (Short 1) = Val (Long 1152921504606846977000) /\
  int_mod (Short (-7)) (Short 3) = Val (Short 2) /\
  int_digits (Short 123) (Short 10) = Val [Short 3; Short 2; Short 1] /\
  x_factorial (Short 25) lone = Val (Long 15511210043330985984000000).
Proof. vm_compute. repeat split; reflexivity. Qed.

Print Assumptions C14_add.
Print Assumptions C14_sub.
Print Assumptions C14_mul.
Print Assumptions C14_mul_assign.
Print Assumptions C14_neg.
Print Assumptions C14_abs.
Print Assumptions C14_sign.
Print Assumptions C14_mod.
Print Assumptions C14_div_floor.
Print Assumptions C14_div_ceil.
Print Assumptions C14_trunc_div.
Print Assumptions C14_trunc_rem.
Print Assumptions C14_pow.
Print Assumptions C14_bit_and.
Print Assumptions C14_bit_or.
Print Assumptions C14_bit_xor.
Print Assumptions C14_cmp.
Print Assumptions C14_eq.
Print Assumptions C14_indistinguishable.
Print Assumptions C14_hash_range.
Print Assumptions C14_gcd.
Print Assumptions C14_lcm.
Print Assumptions C14_binom.
Print Assumptions C14_digits.
Print Assumptions C14_factorial.
Print Assumptions C14_nonvacuous.
Print Assumptions C14_from_float.
