(* C13 - floats are always finite.  Statements only.  [Extracted.Floatsites] is regenerated from the Rust source. *)
From Coq Require Import ZArith Bool String List.
From Flocq Require Import IEEE754.BinarySingleNaN IEEE754.Binary IEEE754.Bits.
From Xr Require Import Base.Res Rt.FloatSites Rt.Floats Rt.FloatsProofs Extracted.Floatsites.
Import ListNotations.
Open Scope string_scope.

(* every place where the source constructs a float value is of a known kind (none bypasses the analysis) *)
Theorem C13_sites_covered : forallb (fun s => site_known (snd s)) extracted_float_sites = true.
Proof. vm_compute. reflexivity. Qed.

(* the checked constructor, the literal check and the int->float conversion test finiteness (not e.g. infiniteness) *)
Theorem C13_predicates :
  extracted_ctor_predicate = "is_finite" /\ extracted_literal_predicate = "is_finite" /\
  extracted_int_to_float_predicate = "is_finite".
Proof. repeat split; reflexivity. Qed.

(* the checked constructor only lets finite floats through *)
Theorem C13_checked_finite : forall x y, mkfloat x = Val y -> finite y = true.
Proof. exact mkfloat_finite. Qed.

(* direct construction by negation preserves finiteness (IEEE-754, Flocq) *)
Theorem C13_neg_finite : forall x, finite x = true -> finite (fneg x) = true.
Proof. exact fneg_finite. Qed.

(* arithmetic: a result is either an error value or finite *)
Theorem C13_add_finite : forall a b y, fadd a b = Val y -> finite y = true.
Proof. exact fadd_finite. Qed.
Theorem C13_sub_finite : forall a b y, fsub a b = Val y -> finite y = true.
Proof. exact fsub_finite. Qed.
Theorem C13_mul_finite : forall a b y, fmul a b = Val y -> finite y = true.
Proof. exact fmul_finite. Qed.
Theorem C13_div_finite : forall a b y, fdiv a b = Val y -> finite y = true.
Proof. exact fdiv_finite. Qed.
Theorem C13_sqrt_finite : forall a y, fsqrt a = Val y -> finite y = true.
Proof. exact fsqrt_finite. Qed.

(* language invariant: whatever sequence of known construction sites runs, every float in existence is finite *)
Theorem C13_language_invariant : forall st, reach st -> Forall (fun x => finite x = true) st.
Proof. exact all_reachable_floats_finite. Qed.

(* non-vacuity: 1e308 + 1e308 overflows to an error value, 1.0 + 2.0 is the float 3.0, -(3.0) is finite *)
Example C13_nonvacuous :
  show_bits (fadd (b64_of_bits 0x7FE1CCF385EBC8A0) (b64_of_bits 0x7FE1CCF385EBC8A0))
    = Err "floating-point operation resulted in infinite value" /\
  show_bits (fadd (b64_of_bits 0x3FF0000000000000) (b64_of_bits 0x4000000000000000)) = Val 0x4008000000000000%Z /\
  finite (fneg (b64_of_bits 0x4008000000000000)) = true.
Proof. vm_compute. repeat split; reflexivity. Qed.

Print Assumptions C13_sites_covered.
Print Assumptions C13_predicates.
Print Assumptions C13_checked_finite.
Print Assumptions C13_neg_finite.
Print Assumptions C13_add_finite.
Print Assumptions C13_sub_finite.
Print Assumptions C13_mul_finite.
Print Assumptions C13_div_finite.
Print Assumptions C13_sqrt_finite.
Print Assumptions C13_language_invariant.
Print Assumptions C13_nonvacuous.
