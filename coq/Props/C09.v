(* C09 - the size limit is enforced and memory accounting balances.  Statements only. *)
From Coq Require Import NArith List Bool String.
From Xr Require Import Base.Res Rt.Alloc Rt.AllocProofs.
Import ListNotations.
Open Scope N_scope.

(* for every history of accounting events: the counter is the sum of the recorded sizes of the live
   values and never exceeds the limit - whether the run completed or stopped at a violation *)
Theorem C09_conservation_and_bound : forall L evs s n o,
  run L init evs 0 = (s, n, o) -> size s = sum (live s) /\ size s <= L.
Proof. exact conservation. Qed.

(* a deallocation of a live value never underflows and never gets stuck *)
Theorem C09_no_underflow : forall L s sz, Inv L s -> In sz (live s) ->
  sz <= size s /\ exists s', step L s (ED sz) = Val s'.
Proof. exact step_dealloc_live. Qed.

(* baseline: dropping everything that is live brings the counter back to zero, after any run *)
Theorem C09_baseline : forall L evs s n o, run L init evs 0 = (s, n, o) ->
  exists s' n', run L s (drop_all s) n = (s', n', None) /\ size s' = 0.
Proof. exact baseline. Qed.

(* raising the limit never turns a passing run into a failing one, and does not change it *)
Theorem C09_monotone : forall L L', L <= L' -> forall evs s n s' n',
  run L s evs n = (s', n', None) -> run L' s evs n = (s', n', None).
Proof. exact run_mono. Qed.

(* a violation is raised exactly at the first event whose guard fails, with the state untouched *)
Theorem C09_exact_failure_point : forall L evs s n s' n',
  run L s evs n = (s', n', Some (Viol VAlloc)) ->
  exists pre e post, evs = (pre ++ e :: post)%list /\ n' = n + N.of_nat (List.length pre) /\
    run L s pre n = (s', n', None) /\ step L s' e = Viol VAlloc.
Proof. exact run_stops_at_guard. Qed.

(* payload: a long integer's record covers all its 64-bit digits, a string's record all its bytes *)
Theorem C09_payload_int : forall m, m < 2 ^ (64 * u64_digits m).
Proof. exact u64_digits_cover. Qed.
Theorem C09_payload_str : forall bytes chars ascii, bytes <= str_size bytes chars ascii.
Proof. exact str_payload. Qed.

Theorem C09_payload_seq : forall len, len * 8 <= seq_dyn len.
Proof. exact seq_payload. Qed.
Theorem C09_payload_map : forall nb len, len * 16 <= map_dyn nb len.
Proof. exact map_payload. Qed.
Theorem C09_payload_set : forall nb len, len * 8 <= set_dyn nb len.
Proof. exact set_payload. Qed.

Example C09_nonvacuous :
  run 100 init [EA 32; EA 40; EC 20; ED 32; EA 70; ED 40] 0 = (mk 40 [40], 4, Some (Viol VAlloc)) /\
  run 200 init [EA 32; EA 40; EC 20; ED 32; EA 70; ED 40] 0 = (mk 70 [70], 6, None).
Proof. vm_compute. split; reflexivity. Qed.

Print Assumptions C09_conservation_and_bound.
Print Assumptions C09_no_underflow.
Print Assumptions C09_baseline.
Print Assumptions C09_monotone.
Print Assumptions C09_exact_failure_point.
Print Assumptions C09_payload_int.
Print Assumptions C09_payload_str.
Print Assumptions C09_nonvacuous.
Print Assumptions C09_payload_seq.
Print Assumptions C09_payload_map.
Print Assumptions C09_payload_set.
