(* C17 - mappings and sets are finite maps under any consistent hash.  Statements only.
   K, V, the equality keq and the hash function are arbitrary; the only hypotheses are the ones the property
   states: keq is an equivalence and equal keys hash equally. *)
From Coq Require Import List NArith ZArith Bool String.
From Xr Require Import Base.Res Map.XMap Map.MapProofs Map.SetProofs Map.MapInst.
Import ListNotations.

Section C17.
  Variables K V : Type.
  Variable keq : K -> K -> bool.
  Variable hash : K -> N.
  Hypothesis keq_refl : forall a, keq a a = true.
  Hypothesis keq_sym : forall a b, keq a b = keq b a.
  Hypothesis keq_trans : forall a b c, keq a b = true -> keq b c = true -> keq a c = true.
  Hypothesis hash_compat : forall a b, keq a b = true -> hash a = hash b.

  Notation Inv := (Inv K V keq hash).
  Notation lookup := (lookup K V keq hash).
  Notation set := (set K V keq hash).

  Theorem C17_empty : Inv empty /\ forall k, lookup empty k = None.
  Proof. split; [apply inv_empty | reflexivity]. Qed.

  (* insertion / overwrite: the finite-map law, whatever the collisions *)
  Theorem C17_set : forall m k v, Inv m ->
    Inv (set m k v) /\
    (forall k', lookup (set m k v) k' = if keq k k' then Some v else lookup m k') /\
    len (set m k v) = if contains K V keq hash m k then len m else S (len m).
  Proof.
    intros m k v Hi. split; [now apply set_inv|]. split; [intros k'; now apply lookup_set | now apply len_set].
  Qed.

  Theorem C17_set_default : forall m k v, Inv m ->
    Inv (set_default K V keq hash m k v) /\
    forall k', lookup (set_default K V keq hash m k v) k' =
               match lookup m k' with Some x => Some x | None => if keq k k' then Some v else None end.
  Proof. intros; now apply set_default_spec. Qed.

  Theorem C17_pop : forall m k, Inv m ->
    match lookup m k with
    | None => exists e, pop K V keq hash m k = Err e
    | Some _ => exists m', pop K V keq hash m k = Val m' /\ Inv m' /\ S (len m') = len m /\
                  forall k', lookup m' k' = if keq k k' then None else lookup m k'
    end.
  Proof. intros; now apply pop_spec. Qed.

  Theorem C17_discard : forall m k, Inv m ->
    Inv (discard K V keq hash m k) /\
    (forall k', lookup (discard K V keq hash m k) k' = if keq k k' then None else lookup m k') /\
    len (discard K V keq hash m k) = if contains K V keq hash m k then pred (len m) else len m.
  Proof. intros; now apply discard_spec. Qed.

  Theorem C17_bulk_update : forall kvs m, Inv m -> Inv (update K V keq hash m kvs).
  Proof. intros; now apply update_inv. Qed.

  (* the length is the number of entries stored, one per equivalence class: entries of different buckets
     are never equivalent, entries of one bucket are pairwise inequivalent (bnodup, part of Inv) *)
  Theorem C17_len : forall m, Inv m -> len m = List.length (entries K V m).
  Proof. intros m Hi. exact (len_is_entries K V keq hash m Hi). Qed.
End C17.

Section C17_sets.
  Variable K : Type.
  Variable keq : K -> K -> bool.
  Variable hash : K -> N.
  Hypothesis keq_refl : forall a, keq a a = true.
  Hypothesis keq_sym : forall a b, keq a b = keq b a.
  Hypothesis keq_trans : forall a b c, keq a b = true -> keq b c = true -> keq a c = true.
  Hypothesis hash_compat : forall a b, keq a b = true -> hash a = hash b.
  Notation Inv := (Inv K unit keq hash).
  Notation scontains := (scontains K keq hash).

  Theorem C17_set_add : forall s k x, scontains (sadd K keq hash s k) x = keq k x || scontains s x.
  Proof. intros; now apply scontains_sadd. Qed.
  Theorem C17_set_union : forall a b x, Inv a -> Inv b ->
    scontains (sunion K keq hash a b) x = scontains a x || scontains b x.
  Proof. intros; now apply sunion_spec. Qed.
  Theorem C17_set_inter : forall a b x, Inv a -> Inv b ->
    scontains (sinter K keq hash a b) x = scontains a x && scontains b x.
  Proof. intros; now apply sinter_spec. Qed.
  Theorem C17_set_sub : forall a b x, Inv a -> Inv b ->
    scontains (ssub K keq hash a b) x = scontains a x && negb (scontains b x).
  Proof. intros; now apply ssub_spec. Qed.
  Theorem C17_set_algebra_inv : forall a b, Inv a -> Inv b ->
    Inv (sunion K keq hash a b) /\ Inv (ssub K keq hash a b) /\ Inv (sinter K keq hash a b).
  Proof. intros; now apply algebra_inv. Qed.
End C17_sets.

(* non-vacuity: congruence modulo 3 with a constant hash satisfies the hypotheses, and the model runs *)
Example C17_nonvacuous :
  (forall a b, zkeq 3 a b = true -> zhash 3 1 a = zhash 3 1 b) /\
  mrun 3 1 [0;1;2;3;4;5]%Z [(0%nat, MSet 4 10); (1%nat, MSet 7 11); (2%nat, MSet 2 5); (3%nat, MPop 5); (3%nat, MPop 9)]%Z
  = ["0:[None, None, None, None, None, None]"; "1:[None, 10, None, None, 10, None]"; "1:[None, 11, None, None, 11, None]";
     "2:[None, 11, 5, None, 11, 5]"; "1:[None, 11, None, None, 11, None]"; "E:key not found"]%string.
Proof. split; [intros a b; apply zhash_compat | vm_compute; reflexivity]. Qed.

Print Assumptions C17_empty.
Print Assumptions C17_set.
Print Assumptions C17_set_default.
Print Assumptions C17_pop.
Print Assumptions C17_discard.
Print Assumptions C17_bulk_update.
Print Assumptions C17_len.
Print Assumptions C17_set_add.
Print Assumptions C17_set_union.
Print Assumptions C17_set_inter.
Print Assumptions C17_set_sub.
Print Assumptions C17_set_algebra_inv.
Print Assumptions C17_nonvacuous.
