(* C10 - limits bound all work.  Statements only; proofs in Rt/Budget.v.
   The budgeted loops of the model are structurally recursive on the remaining budget; boundedness is the extensional
   statement that their outcome is a function of the first L+1 elements of the (possibly endless) stream. *)
From Coq Require Import List ZArith Arith.
From Xr Require Import Rt.Budget Rt.BudgetMore.

Theorem C10_search_bounded : forall (A : Type) L s s' (acc : A) step,
  (forall k, k <= L -> s k = s' k) -> search L s acc step = search L s' acc step.
Proof. exact @search_bounded. Qed.

Theorem C10_search_transparent : forall (A : Type) L L' s (acc : A) step r,
  search L s acc step = Done r -> L <= L' -> search L' s acc step = Done r.
Proof. exact @search_transparent. Qed.

Theorem C10_long_stream_is_violation : forall L s, (forall k, k <= L -> s k <> None) -> gen_len L s = Viol.
Proof. exact len_of_long_stream_is_violation. Qed.

Theorem C10_filter_bounded : forall La Lc s s' p,
  (forall k, k <= La -> s k = s' k) -> filter_len La Lc s 0 p 0 = filter_len La Lc s' 0 p 0.
Proof. exact filter_len_bounded. Qed.

Theorem C10_skip_until_bounded : forall La s s' p,
  (forall k, k <= La -> s k = s' k) -> skip_until_first La s 0 p = skip_until_first La s' 0 p.
Proof. exact skip_until_bounded. Qed.

Theorem C10_filter_never_on_endless : forall La Lc s,
  (forall k, s k <> None) -> filter_len La Lc s 0 (fun _ => false) 0 = Viol.
Proof. exact filter_never_on_endless_is_violation. Qed.

Theorem C10_take_while_bounded : forall La s s' p,
  (forall k, k <= La -> s k = s' k) -> take_while_len La s 0 p 0 = take_while_len La s' 0 p 0.
Proof. exact take_while_bounded. Qed.

Theorem C10_nth_match_bounded : forall La s s' p k,
  (forall j, j <= La -> s j = s' j) -> nth_match La s 0 p k = nth_match La s' 0 p k.
Proof. exact nth_match_bounded. Qed.

Theorem C10_group_bounded : forall La s s' eqf,
  (forall k, k <= La -> s k = s' k) -> first_group_len La s 0 eqf None 0 = first_group_len La s' 0 eqf None 0.
Proof. exact first_group_bounded. Qed.

Theorem C10_endless_run_is_violation : forall La c,
  first_group_len La (fun _ => Some c) 0 (fun a b => Z.eqb a b) None 0 = Viol.
Proof. exact endless_run_is_violation. Qed.

Example C10_instances :
  gen_len 5 (s_range 5) = Done 5 /\ gen_len 5 (s_range 6) = Viol /\ gen_len 5 s_count = Viol /\
  filter_len 10 10 (s_range 10) 0 (fun x => Z.even x) 0 = Done 5 /\ filter_len 9 10 (s_range 10) 0 (fun x => Z.even x) 0 = Viol /\
  filter_len 100 4 (s_range 10) 0 (fun x => Z.even x) 0 = Viol /\
  skip_until_first 4 s_count 0 (fun x => Z.ltb 2 x) = Done (Some 3%Z) /\ skip_until_first 3 s_count 0 (fun x => Z.ltb 2 x) = Viol.
Proof. vm_compute. repeat split; reflexivity. Qed.

Print Assumptions C10_search_bounded.
Print Assumptions C10_search_transparent.
Print Assumptions C10_long_stream_is_violation.
Print Assumptions C10_filter_bounded.
Print Assumptions C10_skip_until_bounded.
Print Assumptions C10_filter_never_on_endless.
Print Assumptions C10_take_while_bounded.
Print Assumptions C10_nth_match_bounded.
Print Assumptions C10_group_bounded.
Print Assumptions C10_endless_run_is_violation.
Print Assumptions C10_instances.
