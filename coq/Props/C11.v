(* C11 - side effects happen only with permission.  Statements only.
   [Extracted.Perms] is regenerated from /repo's source on every run by translator/perms.py. *)
From Coq Require Import String List Bool.
From Xr Require Import Base.Res Rt.Perm Rt.PermProofs Extracted.Perms.
Import ListNotations.
Open Scope string_scope.

(* the permission table of the source has exactly the documented defaults *)
Theorem C11_defaults :
  extracted_defaults = map (fun p => (perm_id p, default p)) all_perms.
Proof. reflexivity. Qed.

(* every effect site found in the source is preceded by a guard for a permission that covers the effect *)
Theorem C11_sites_guarded :
  forallb (fun x => site_ok (mk_site (snd x) (snd (fst x)))) extracted_sites = true.
Proof. vm_compute. reflexivity. Qed.

(* every kind of effect the property names has at least one site in the inventory (the translator found them) *)
Theorem C11_inventory_covers_all_effect_kinds :
  forallb (fun e => existsb (fun x => match snd (fst x), e with
                                     | EWrite, EWrite | EClock, EClock | ERng, ERng | ERegex, ERegex | ESleep, ESleep => true
                                     | _, _ => false end) extracted_sites)
          [EWrite; EClock; ERng; ERegex; ESleep] = true.
Proof. vm_compute. reflexivity. Qed.

(* for all configurations and all sequences of guarded sites (= all evaluation paths): *)
Theorem C11_no_effect_without_permission : forall c ss es v,
  forallb site_ok ss = true -> run c ss = (es, v) ->
  Forall (fun pe => enabled c (fst pe) = true /\ eff_allowed_by (snd pe) (fst pe) = true) es.
Proof. exact run_effects_permitted. Qed.

Theorem C11_disabled_effect_never_happens : forall c ss es v e,
  forallb site_ok ss = true -> run c ss = (es, v) ->
  (forall p, eff_allowed_by e p = true -> enabled c p = false) -> ~ In e (map snd es).
Proof. exact disabled_never_happens. Qed.

Theorem C11_violation_names_it : forall c ss es p,
  forallb site_ok ss = true -> run c ss = (es, Some p) ->
  enabled c p = false /\
  exists pre s post, ss = (pre ++ s :: post)%list /\ s_guard s = Some p /\ List.length es = List.length pre /\
    Forall (fun s' => exists q, s_guard s' = Some q /\ enabled c q = true) pre.
Proof. exact run_violation_names. Qed.

Theorem C11_enabled_runs_to_completion : forall c ss es,
  forallb site_ok ss = true -> run c ss = (es, None) -> map snd es = map s_eff ss.
Proof. exact run_complete. Qed.

Example C11_nonvacuous :
  let c : config := fun p => match p with PPrint => Some false | PRegex => Some true | _ => None end in
  run c [mk_site (Some PRegex) ERegex; mk_site (Some PNow) EClock; mk_site (Some PPrint) EWrite; mk_site (Some PRandom) ERng]
  = ([(PRegex, ERegex); (PNow, EClock)], Some PPrint).
Proof. reflexivity. Qed.

Print Assumptions C11_defaults.
Print Assumptions C11_sites_guarded.
Print Assumptions C11_inventory_covers_all_effect_kinds.
Print Assumptions C11_no_effect_without_permission.
Print Assumptions C11_disabled_effect_never_happens.
Print Assumptions C11_violation_names_it.
Print Assumptions C11_enabled_runs_to_completion.
Print Assumptions C11_nonvacuous.
