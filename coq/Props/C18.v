(* C18 - strings are code-point sequences; literals mean what they say.  Statements only. *)
From Coq Require Import List NArith ZArith Arith Bool String.
From Xr Require Import Base.Res Str.Fenced Str.FencedProofs Str.StrFns Str.Escapes Str.EscapesProofs Str.StrInst.
Import ListNotations.

(* construction establishes the representation invariant; the reported length is the number of code points *)
Theorem C18_from_string_inv : forall l, FInv (from_cps l).
Proof. exact from_cps_inv. Qed.
Theorem C18_len_is_code_points : forall s, FInv s -> flen s = List.length (cps s).
Proof. exact flen_spec. Qed.

(* slicing / indexing operate on code points whichever representation (ASCII without table, or offset table) is used *)
Theorem C18_substring_code_points : forall s (a e : nat), FInv s -> (a <= e)%nat -> (a <= List.length (cps s))%nat ->
  cps (substring s a e) = sublist a e (cps s).
Proof. exact substring_cps. Qed.

(* find / rfind: a byte offset at a character boundary converts back to exactly that character index *)
Theorem C18_byte_to_char_index : forall s (i : nat), FInv s -> (i <= List.length (cps s))%nat ->
  char_index_of_byte s (bytes (firstn i (cps s))) = i.
Proof. exact char_index_of_byte_spec. Qed.

(* literals: the canonical escaped spelling of ANY text reads back as that text; every input is text or BadEscape *)
Theorem C18_literal_roundtrip : forall t, apply_escapes (esc t) = Val t.
Proof. exact apply_escapes_esc. Qed.
Theorem C18_escapes_total : forall fuel l, (List.length l < fuel)%nat ->
  (exists t, unesc fuel l = Val t) \/ (exists e, unesc fuel l = Err e).
Proof. exact unesc_total. Qed.

Example C18_nonvacuous :
  (* "héllo" : 5 code points, 6 bytes, table present; find("l") = 2 ; "h\u{e9}\n" unescapes *)
  flen (S_ [104; 233; 108; 108; 111]%N) = 5%nat /\
  roz (s_find (S_ [104; 233; 108; 108; 111]%N) (S_ [108]%N) 0%Z) = "2"%string /\
  roz (s_rfind (S_ [104; 233; 108; 108; 111]%N) (S_ [108]%N) None) = "3"%string /\
  rfs (s_get (S_ [104; 233; 108]%N) 5%Z) = "E:index out of bounds"%string /\
  rcps (apply_escapes [104; 92; 117; 123; 101; 57; 125; 92; 110]%N) = "[104, 233, 10]"%string /\
  rlfs (x_split (S_ [97; 97; 97; 97]%N) (S_ [97; 97]%N)) = "[[], [], []]"%string.
Proof. vm_compute. repeat split; reflexivity. Qed.

Print Assumptions C18_from_string_inv.
Print Assumptions C18_len_is_code_points.
Print Assumptions C18_substring_code_points.
Print Assumptions C18_byte_to_char_index.
Print Assumptions C18_literal_roundtrip.
Print Assumptions C18_escapes_total.
Print Assumptions C18_nonvacuous.
