(* C05 - overload resolution is ranked, unambiguous and stable.  Statements only; proofs in Ty/OverloadProofs.v and
   Ty/Rename.v.  A candidate is (identity, class, matching predicate); for user functions the matching predicate is
   [func_bind_own] of Ty/Types.v, for standard-library dynamic functions it is whatever their factory decides. *)
From Coq Require Import List NArith Bool Arith Permutation.
From Xr Require Import Ty.Types Ty.Overload Ty.OverloadProofs Ty.Rename Ty.TyInst Ty.ToStrProofs.
Import ListNotations.

(* not on declaration order *)
Theorem C05_order_independent : forall cs cs' args, Permutation cs cs' -> resolve_call cs args = resolve_call cs' args.
Proof. exact resolve_perm. Qed.

(* not on the presence of overloads that do not match, wherever they are declared *)
Theorem C05_nonmatching_irrelevant : forall c cs1 cs2 args,
  c_match c args = false -> resolve_call (cs1 ++ c :: cs2) args = resolve_call (cs1 ++ cs2) args.
Proof. exact resolve_irrelevant_anywhere. Qed.

(* only on (identity, class, does it match) of each candidate ... *)
Theorem C05_depends_only_on_matching : forall cs cs' args,
  Forall2 (fun c c' => c_id c = c_id c' /\ c_kind c = c_kind c' /\ c_match c args = c_match c' args) cs cs' ->
  resolve_call cs args = resolve_call cs' args.
Proof. exact resolve_ext. Qed.

(* ... and neither of these depends on the names of the candidate's generic parameters *)
Theorem C05_alpha : forall rho, (forall a b, rho a = rho b -> a = b) -> forall own,
  (forall g, existsb (N.eqb g) own = false -> rho g = g) -> forall id nreq ps args,
  c_match (static_cand id (map rho own) nreq (rens rho ps)) args = c_match (static_cand id own nreq ps) args /\
  c_kind (static_cand id (map rho own) nreq (rens rho ps)) = c_kind (static_cand id own nreq ps).
Proof. exact static_cand_alpha. Qed.

(* ranking: non-generic before generic before dynamic; several best matches are an ambiguity; no match is an error *)
Theorem C05_ranking : forall cs args,
  match resolve_call cs args with
  | Chosen id =>
      exists c, c_id c = id /\ c_match c args = true /\ In c cs /\
        (forall c', In c' cs -> c_match c' args = true ->
           match c_kind c, c_kind c' with
           | KGeneric, KExact | KDynamic, KExact | KDynamic, KGeneric => False
           | _, _ => True end)
  | Ambiguous k n => 2 <= n /\ n = length (bucket k cs args) /\
        (forall c', In c' cs -> c_match c' args = true ->
           match k, c_kind c' with KGeneric, KExact | KDynamic, KExact | KDynamic, KGeneric => False | _, _ => True end)
  | NoOverload => forall c, In c cs -> c_match c args = false
  end.
Proof. exact ranking. Qed.

Theorem C05_unique_best_wins : forall cs args c,
  NoDup (map c_id cs) -> In c cs -> c_match c args = true ->
  (forall c', In c' cs -> c_match c' args = true -> c_id c' <> c_id c -> strictly_better (c_kind c) (c_kind c')) ->
  resolve_call cs args = Chosen (c_id c).
Proof. exact unique_best_wins. Qed.

(* the same holds through the inner lookups of a dynamic library function (modelled for to_str: a container's to_str
   matches when the lookup of to_str for its components, made among the same visible overloads, finds a single best one) *)
Theorem C05_inner_lookup_order_independent : forall fuel statics statics' args,
  Permutation statics statics' -> resolve_to_str fuel statics args = resolve_to_str fuel statics' args.
Proof. exact resolve_to_str_perm. Qed.

Example C05_instances :
  let int := TPrim 1 in let flt := TPrim 2 in let seq t := TCon (CNat 0) (TCons t TNil) in
  let f_int := static_cand 1 [] 1 (TCons int TNil) in
  let f_flt := static_cand 2 [] 1 (TCons flt TNil) in
  let f_gen := static_cand 3 [0%N] 1 (TCons (TGen 0) TNil) in
  let f_seq := static_cand 4 [0%N] 1 (TCons (seq (TGen 0)) TNil) in
  let f_opt := static_cand 5 [] 1 (TCons int (TCons int TNil)) in          (* inc(x, a ?= 1) *)
  let f_opt2 := static_cand 6 [] 1 (TCons int (TCons flt TNil)) in
  let dyn := {| c_id := 9; c_kind := KDynamic; c_match := fun _ => true |} in
  resolve_call [f_int; f_flt; f_gen; dyn] (TCons int TNil) = Chosen 1 /\
  resolve_call [dyn; f_gen; f_flt] (TCons int TNil) = Chosen 3 /\
  resolve_call [dyn; f_flt] (TCons int TNil) = Chosen 9 /\
  resolve_call [f_gen; f_seq; dyn] (TCons (seq int) TNil) = Ambiguous KGeneric 2 /\
  resolve_call [f_flt] (TCons int TNil) = NoOverload /\
  resolve_call [f_opt; f_opt2] (TCons int TNil) = Ambiguous KExact 2 /\
  resolve_call [f_opt; f_opt2] (TCons int (TCons flt TNil)) = Chosen 6.
Proof. vm_compute. repeat split; reflexivity. Qed.

Print Assumptions C05_order_independent.
Print Assumptions C05_nonmatching_irrelevant.
Print Assumptions C05_depends_only_on_matching.
Print Assumptions C05_alpha.
Print Assumptions C05_ranking.
Print Assumptions C05_unique_best_wins.
Print Assumptions C05_inner_lookup_order_independent.
Print Assumptions C05_instances.
