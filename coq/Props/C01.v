(* C01 - accepted programs never go wrong.  Statements only; proofs in Ty/SoundProofs.v.
   [tc] is the checker of the core calculus, built from the functions of Ty/Types.v that model the compiler
   (accepts_declared, common, literal_type, value_call_type, call_type with the generic signatures of if / orelse / add);
   [eval] dispatches on run-time tags and answers [Stuck] where the interpreter would crash (wrong tag, wrong number of
   arguments, unbound cell); [shape v t]: the value has the shape of the static type (an error value has every shape). *)
From Coq Require Import List NArith ZArith Bool Arith.
From Xr Require Import Ty.Types Ty.TypesProofs Ty.Sound Ty.SoundProofs.
Import ListNotations.

(* FULL STATEMENT (not proved as a whole): every program the COMPILER accepts, over the whole language and library, runs
   without the INTERPRETER failing.  PROVED: the statement for the checker and evaluator of the core calculus below;
   the compiler and interpreter are tied to them by the correspondence of props/c01.py; everything outside the calculus
   is covered by the no-crash sweep only.  Hence the suffix _partial. *)
Theorem C01_soundness_partial : forall fuel e t, tc [] e = Some t ->
  match eval fuel VNil e with Val v => shape v t | Stuck => False | OutOfFuel => True end.
Proof. exact soundness. Qed.

(* open form: in any environment of the right shapes, for expressions and for argument lists *)
Theorem C01_soundness_open_partial : forall fuel,
  (forall e G env t, tc G e = Some t -> env_shape env G -> ok_res (eval fuel env e) t) /\
  (forall es G env ts, tcs G es = Some ts -> env_shape env G -> ok_ress (evals fuel env es) ts).
Proof. exact soundness_both. Qed.

(* what makes it true: assignability to a spelled first-order type is the information order, and shapes are upward closed *)
Theorem C01_assignable_is_safe : forall r s v,
  ufree r = true -> fnfree r = true -> accepts_declared r s = true -> shape v s -> shape v r.
Proof. intros r s v U F A S. eapply shape_le. exact S. now apply declared_le. Qed.

Theorem C01_bottom_is_uninhabited : forall v, shape v TUnk -> v = VErr.
Proof. exact shape_unk. Qed.

(* closed instances: accepted programs compute; the programs that crashed the interpreter before the checker was
   repaired (wrong argument count / type in a call through a function value) are rejected by the modelled rules *)
Example C01_instances :
  let inc := ELam (TCons tint TNil) (EAdd (EVar 0) (EInt 1)) in
  tc [] (EApp inc (ECons (EInt 41) ENil)) = Some tint /\
  eval 10 VNil (EApp inc (ECons (EInt 41) ENil)) = Val (VInt 42) /\
  tc [] (EApp inc ENil) = None /\
  tc [] (EApp inc (ECons (EInt 1) (ECons (EInt 2) ENil))) = None /\
  tc [] (EApp inc (ECons (EBool true) ENil)) = None /\
  tc [] (EApp inc (ECons EErr ENil)) = Some tint /\
  eval 10 VNil (EApp inc (ECons EErr ENil)) = Val VErr /\
  tc [] (ESeq (ECons ENone (ECons (ESome (EInt 1)) ENil))) = Some (tseq (topt tint)) /\
  tc [] (EAdd (EOrElse ENone (EInt 2)) (EInt 1)) = Some tint /\
  tc [] (EAdd (EOrElse (EProj (ETup (ECons ENone (ECons (ESome (EInt 1)) ENil))) 0) (EBool true)) (EInt 1)) = None /\
  (* without the checks, evaluation does get stuck: the theorem is not vacuous *)
  eval 10 VNil (EApp inc ENil) = Stuck /\ eval 10 VNil (EApp inc (ECons (EBool true) ENil)) = Stuck.
Proof. vm_compute. repeat split; reflexivity. Qed.

Print Assumptions C01_soundness_partial.
Print Assumptions C01_soundness_open_partial.
Print Assumptions C01_assignable_is_safe.
Print Assumptions C01_bottom_is_uninhabited.
Print Assumptions C01_instances.
