(* C15 - sequences behave as lists whatever their representation.  Statements only. *)
From Coq Require Import List ZArith NArith Bool String.
From Xr Require Import Base.Res Seq.XSeq Seq.XSeqProofs Seq.SeqInst.
Import ListNotations.
Open Scope N_scope.

(* index normalisation: valid indices are -len .. len-1, everything else is an error value *)
Theorem C15_index_norm_finite : forall s n i, len s = Val (Some n) -> n < 2 ^ 64 ->
  ((0 <= i < Z.of_N n)%Z -> value_to_idx s i = Val (Z.to_N i)) /\
  ((- Z.of_N n <= i < 0)%Z -> value_to_idx s i = Val (Z.to_N (Z.of_N n + i))) /\
  ((i < - Z.of_N n \/ Z.of_N n <= i)%Z -> exists e, value_to_idx s i = Err e).
Proof. exact value_to_idx_finite. Qed.
Theorem C15_index_norm_infinite : forall s i, len s = Val None ->
  ((0 <= i < 2 ^ 64)%Z -> value_to_idx s i = Val (Z.to_N i)) /\
  ((i < 0 \/ 2 ^ 64 <= i)%Z -> exists e, value_to_idx s i = Err e).
Proof. exact value_to_idx_infinite. Qed.

(* slicing (take / skip / take_while / skip_until all go through slice): elements are those of the base
   shifted by start - also when slices of slices are merged -, the length is min(stop,len) - start *)
Theorem C15_slice_elements : forall base a b r i,
  slice base a b = Val (Some r) -> r <> SEmpty -> get r i = get base (i + a).
Proof. exact slice_get. Qed.
Theorem C15_slice_length : forall base l a b r, len base = Val l -> slice base a b = Val (Some r) ->
  len r = Val (spec_slice_len l a b).
Proof. exact slice_len. Qed.
Theorem C15_slice_identity : forall base l a b, len base = Val l -> slice base a b = Val None ->
  a = 0 /\ spec_slice_len l a b = l.
Proof. exact slice_none. Qed.

(* concatenation of two plain sequences (partial: operands that are themselves chains are covered by the
   correspondence only, see DESIGN.md) *)
Theorem C15_concat_partial : forall s0 s1 n0 l1,
  not_chain s0 -> not_chain s1 -> is_empty s0 = false -> is_empty s1 = false ->
  len s0 = Val (Some n0) -> len s1 = Val l1 ->
  (forall n1, l1 = Some n1 -> n0 + n1 < 2 ^ 64) ->
  exists r, add s0 s1 = Val r /\
    len r = Val (match l1 with Some n1 => Some (n1 + n0) | None => None end) /\
    forall i, get r i = if i <? n0 then get s0 i else get s1 (i - n0).
Proof. exact chain_flat. Qed.

(* ranges: the length is exactly the number of terms before the end, for every start/end/step in i64 *)
Theorem C15_range_length_exact : forall a b c n, range_len a b c = Val n ->
  (0 < c -> forall i : Z, 0 <= i -> (a + i * c < b <-> i < Z.of_N n))%Z /\
  (c < 0 -> forall i : Z, 0 <= i -> (b < a + i * c <-> i < Z.of_N n))%Z.
Proof. exact range_len_exact. Qed.
Theorem C15_range_never_stuck : forall a b c r, mk_range a b c = Val r -> exists l, len r = Val l.
Proof. exact mk_range_never_stuck. Qed.
Theorem C15_range_element : forall a b c i, get (SRange a b c) i = Val (EI (a + Z.of_N i * c)%Z).
Proof. exact range_get. Qed.
Theorem C15_map_pointwise : forall s f i, get (SMap s f) i = bind (get s i) (ap f).
Proof. exact map_get. Qed.

Example C15_nonvacuous :
  srun [ORange 0 10 1; OSkip 0 3; OTake 1 4; OArr [7; 8]%Z; OAdd 2 3; OSwap 4 0 (-1); OReverse 5]
  = ("10|[0, 1, 2, 3, 4, 5, 6, 7, 8, 9]|0,9,E:index out of bounds,9,0,E:index too low#" ++
     "7|[3, 4, 5, 6, 7, 8, 9]|3,9,E:index out of bounds,9,3,E:index too low#" ++
     "4|[3, 4, 5, 6]|3,6,E:index out of bounds,6,3,E:index too low#" ++
     "2|[7, 8]|7,8,E:index out of bounds,8,7,E:index too low#" ++
     "6|[3, 4, 5, 6, 7, 8]|3,8,E:index out of bounds,8,3,E:index too low#" ++
     "6|[8, 4, 5, 6, 7, 3]|8,3,E:index out of bounds,3,8,E:index too low#" ++
     "6|[3, 7, 6, 5, 4, 8]|3,8,E:index out of bounds,8,3,E:index too low")%string.
Proof. vm_compute. reflexivity. Qed.

Print Assumptions C15_index_norm_finite.
Print Assumptions C15_index_norm_infinite.
Print Assumptions C15_slice_elements.
Print Assumptions C15_slice_length.
Print Assumptions C15_slice_identity.
Print Assumptions C15_concat_partial.
Print Assumptions C15_range_length_exact.
Print Assumptions C15_range_never_stuck.
Print Assumptions C15_range_element.
Print Assumptions C15_map_pointwise.
Print Assumptions C15_nonvacuous.
