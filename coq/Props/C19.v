(* C19 - derived equality, order and text are coherent; sorting is right.  Statements only; proofs in Ord/DerivedProofs.v.
   [vcmp] is the component-wise, lexicographic comparison the library derives for nested values; [isort] the reference
   stable sort the interpreter's sort / order-statistic functions are compared with. *)
From Coq Require Import List ZArith NArith Bool Permutation Sorted Lia.
From Xr Require Import Ord.Derived Ord.DerivedProofs Ord.Pad Ord.TimSort Ord.TimSortProofs Ord.TimSortTrace Ord.TimSortTraceProofs.
Import ListNotations.

Theorem C19_cmp_consistent_with_eq : forall a b, vcmp a b = Eq <-> a = b.
Proof. exact vcmp_eq. Qed.

Theorem C19_cmp_antisymmetric : forall a b, vcmp b a = CompOpp (vcmp a b).
Proof. exact vcmp_antisym. Qed.

Theorem C19_cmp_transitive : forall a b c, vcmp a b = Lt -> vcmp b c = Lt -> vcmp a c = Lt.
Proof. exact vcmp_trans. Qed.

Theorem C19_sort_is_permutation : forall (A : Type) (le : A -> A -> bool) l, Permutation (isort le l) l.
Proof. exact @isort_perm. Qed.

Theorem C19_sort_is_ordered : forall (A : Type) (le : A -> A -> bool),
  (forall a b, le a b = true \/ le b a = true) -> forall l, Sorted (leP le) (isort le l).
Proof. exact @isort_sorted. Qed.

Theorem C19_sort_is_stable : forall (A : Type) (le : A -> A -> bool),
  (forall a b, le a b = true \/ le b a = true) -> (forall a b c, le a b = true -> le b c = true -> le a c = true) ->
  forall l x, filter (equiv le x) (isort le l) = filter (equiv le x) l.
Proof. exact @isort_stable. Qed.

(* the merge sort the interpreter runs on more than 20 elements (model of src/util/trysort.rs: natural runs from the end,
   strictly descending runs reversed, extension to 10 elements by insertion, collapse rule on the top four runs, forward
   and backward merges) and the insertion sort it runs on up to 20 return the reference sort for every total preorder and
   every input: the model never runs out of fuel and always ends with exactly one run *)
Theorem C19_merge_sort_model_is_reference_sort : forall (A : Type) (le : A -> A -> bool),
  (forall a b, le a b = true \/ le b a = true) -> (forall a b c, le a b = true -> le b c = true -> le a c = true) ->
  forall l, tsort le l = Some (isort le l).
Proof. exact @tsort_is_isort. Qed.

(* the `sort` builtin with a three-way comparator (sortedness pre-pass that stops at the first positive answer, then the
   merge sort above with `is_less a b := cmp a b < 0`): for every comparator whose "not greater" relation is a total
   preorder and whose sign flips with its arguments, the result is the reference stable sort; and the model that also
   lists the comparator calls (the list the check compares with what the comparator prints when the interpreter
   sorts) computes exactly that result *)
Theorem C19_sort_builtin_is_reference_sort : forall (A : Type) (cmp : A -> A -> comparison),
  (forall a b, le_of cmp a b = true \/ le_of cmp b a = true) ->
  (forall a b c, le_of cmp a b = true -> le_of cmp b c = true -> le_of cmp a c = true) ->
  (forall a b, cmp a b = Lt -> cmp b a = Gt) ->
  forall l, xsort cmp l = Some (isort (le_of cmp) l).
Proof. exact @xsort_is_isort. Qed.

Theorem C19_sort_trace_model_erases : forall (A : Type) (cmp : A -> A -> comparison) l,
  fst (xsortT cmp l) = xsort cmp l.
Proof. exact @xsortT_erase. Qed.

(* the hypotheses are met by the comparators the check uses (key = residue) *)
Example C19_key_comparator_ok : forall m : Z, (0 < m)%Z ->
  let cmp := fun a b : Z => Z.compare (a mod m) (b mod m) in
  (forall a b, le_of cmp a b = true \/ le_of cmp b a = true) /\
  (forall a b c, le_of cmp a b = true -> le_of cmp b c = true -> le_of cmp a c = true) /\
  (forall a b, cmp a b = Lt -> cmp b a = Gt).
Proof.
  intros m Hm cmp. unfold le_of, isl, cmp. repeat split.
  - intros a b. destruct (Z.compare_spec (b mod m) (a mod m)), (Z.compare_spec (a mod m) (b mod m)); auto; lia.
  - intros a b c. destruct (Z.compare_spec (b mod m) (a mod m)), (Z.compare_spec (c mod m) (b mod m)),
      (Z.compare_spec (c mod m) (a mod m)); cbn; auto; lia.
  - intros a b H. apply Z.compare_lt_iff in H. apply Z.compare_gt_iff. exact H.
Qed.

(* the padding rule of the format-specifier grammar: exactly as wide as asked and never truncated; only fill characters
   are added, sign and body keep their order; a text that fills the width is unchanged *)
Theorem C19_pad_length : forall fill al width sign body,
  length (pad fill al width sign body) = Nat.max width (length sign + length body).
Proof. exact pad_length. Qed.

Theorem C19_pad_shape : forall fill al width sign body,
  exists a b c, pad fill al width sign body = repeat fill a ++ sign ++ repeat fill b ++ body ++ repeat fill c /\
                a + b + c = width - (length sign + length body).
Proof. exact pad_shape. Qed.

Theorem C19_pad_noop : forall fill al width sign body,
  width <= length sign + length body -> pad fill al width sign body = sign ++ body.
Proof. exact pad_noop. Qed.

Example C19_instances :
  vcmp (VQ (VCons (VI 1) (VCons (VI 2) VNil))) (VQ (VCons (VI 1) (VCons (VI 2) (VCons (VI 3) VNil)))) = Lt /\
  vcmp (VT (VCons (VI 1) (VCons (VS [97%N]) VNil))) (VT (VCons (VI 1) (VCons (VS [98%N]) VNil))) = Lt /\
  isort (fun a b => Z.leb (a mod 5) (b mod 5)) [7; 2; 12; 5; 10; 1; 6]%Z = [5; 10; 1; 6; 7; 2; 12]%Z.
Proof. vm_compute. repeat split; reflexivity. Qed.

Print Assumptions C19_cmp_consistent_with_eq.
Print Assumptions C19_cmp_antisymmetric.
Print Assumptions C19_cmp_transitive.
Print Assumptions C19_sort_is_permutation.
Print Assumptions C19_sort_is_ordered.
Print Assumptions C19_sort_is_stable.
Print Assumptions C19_merge_sort_model_is_reference_sort.
Print Assumptions C19_sort_builtin_is_reference_sort.
Print Assumptions C19_sort_trace_model_erases.
Print Assumptions C19_key_comparator_ok.
Print Assumptions C19_pad_length.
Print Assumptions C19_pad_shape.
Print Assumptions C19_pad_noop.
Print Assumptions C19_instances.
