(* C02 - core evaluation follows the documented semantics.  Statements only.
   The documented semantics IS the reference evaluator coq/Lang/Eval.v (lexical environments, strict left-to-right
   argument evaluation, documented short circuits); the theorems below are its structural guarantees; that the
   interpreter computes what the reference computes is decided by the correspondence check (see DESIGN.md: partial). *)
From Coq Require Import List ZArith NArith String Bool.
From Xr Require Import Base.Res Base.Show Lang.Syntax Lang.Eval Lang.EvalProofs Lang.Prec Lang.PrecInst Extracted.Ops.
Import ListNotations.
Open Scope string_scope.

(* strict evaluation: arguments left to right, each once; when all are values the call sees exactly those values *)
Theorem C02_strict_all_values : forall ms s vs ss,
  Forall2 (fun m vs' => forall s0, m s0 = (Val vs', s0)) ms vs -> ss = s -> seq_eval ms s = (Val vs, s).
Proof. exact seq_eval_all_values. Qed.

(* ... and the leftmost argument that is not a value decides the outcome; later arguments are not evaluated *)
Theorem C02_leftmost_failure : forall pre m post s s1 s2 (vs : list value) (r : res value),
  seq_eval pre s = (Val vs, s1) -> m s1 = (r, s2) -> is_val r = false ->
  fst (seq_eval (pre ++ m :: post) s) = match r with Err e => Err e | Viol v => Viol v | Stuck w => Stuck w | _ => Fuel end /\
  snd (seq_eval (pre ++ m :: post) s) = s2.
Proof. exact seq_eval_first_failure. Qed.

(* an operator is the named function it aliases: the desugared AST of `a + b` IS the call of `add`; programs are
   compared with operators spelled as operators, functions and methods, and all three evaluate one term *)
Example C02_operator_is_function :
  let prog := [DFn "main" [] [] (ECall (EVar "add") [EInt 2%Z; ECall (EVar "mul") [EInt 3%Z; EInt 4%Z]])] in
  run_program 100 nolimits prog ["main"] = "14||1".
Proof. vm_compute. reflexivity. Qed.

(* evaluation order is observable through output: display(1) + display(2) prints 1 then 2, exactly once each,
   and a short-circuit function skips the unselected argument *)
Example C02_order_and_short_circuit :
  let d n := ECall (EVar "display") [EInt n] in
  let prog := [DFn "main" [] [] (ECall (EVar "add") [d 1%Z; ECall (EVar "if") [EBool true; d 2%Z; d 3%Z]])] in
  run_program 100 nolimits prog ["main"] = "3|1\n2|1".
Proof. vm_compute. reflexivity. Qed.

(* ---- operators with their precedence and associativity.
   The operator table (levels, associativity, token -> function alias, unary operators) is EXTRACTED from src/parser.rs and
   src/xray.pest on every run (Extracted/Ops.v); it must be the table the reference evaluator and the generators assume ... *)
Theorem C02_operator_table : x_levels = model_levels /\ x_unary = model_unary.
Proof. split; reflexivity. Qed.
(* ... every level has one associativity, no token is listed twice, and the book's list (also extracted: binary operators
   "in the order they are resolved", unary operators) agrees with it: same tokens, same aliases, level never increasing *)
Theorem C02_operator_table_wellformed :
  levels_uniform = true /\ nodupb (map tok_of (List.concat x_levels)) = true /\ book_agrees = true.
Proof. vm_compute. repeat split; reflexivity. Qed.
(* pest's precedence climber, run with that table on ANY sequence  operand (operator operand)*  - any length, any operators -
   never runs out of its 2n+1 fuel, consumes the whole sequence, keeps operands and operators in order, and groups them so
   that at every node the left operand's root does not bind into the node's right (looser, or equal and left-associative
   seen from the right) and the right operand's root does (tighter, or equal level and right-associative) *)
Theorem C02_climber_groups_by_table : forall a rest,
  exists t, parse string string xprec xright a rest = Some (t, []) /\
            first string string t = a /\ toks string string t = rest /\ ok string string xprec xright t.
Proof. exact (climber_sound string string xprec xright). Qed.
(* ... and that grouping is the ONLY one that respects the table: two table-respecting trees with the same operands and
   operators in the same order are equal; hence the flat spelling (no parentheses) of any table-respecting tree is parsed back
   to exactly that tree - for every tree, of any size *)
Theorem C02_grouping_unique : forall t1 t2,
  ok string string xprec xright t1 -> ok string string xprec xright t2 ->
  first string string t1 = first string string t2 -> toks string string t1 = toks string string t2 -> t1 = t2.
Proof. exact (ok_unique string string xprec xright). Qed.
Theorem C02_climber_complete : forall t, ok string string xprec xright t ->
  parse string string xprec xright (first string string t) (toks string string t) = Some (t, []).
Proof. exact (climber_complete string string xprec xright). Qed.

Example C02_precedence_example :
  group "1" [("+", "2"); ("*", "3"); ("**", "2"); ("**", "2"); ("-", "4"); ("<", "5"); ("&&", "t"); ("||", "u")]
  = "(((((1 + (2 * (3 ** (2 ** 2)))) - 4) < 5) && t) || u)" /\
  group_calls "1" [("-", "2"); ("%", "3"); ("|", "4")] = "bit_or(sub(1, mod(2, 3)), 4)".
Proof. vm_compute. split; reflexivity. Qed.

Print Assumptions C02_strict_all_values.
Print Assumptions C02_leftmost_failure.
Print Assumptions C02_operator_is_function.
Print Assumptions C02_order_and_short_circuit.
Print Assumptions C02_operator_table.
Print Assumptions C02_operator_table_wellformed.
Print Assumptions C02_climber_groups_by_table.
Print Assumptions C02_precedence_example.
Print Assumptions C02_grouping_unique.
Print Assumptions C02_climber_complete.
