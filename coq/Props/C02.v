(* C02 - core evaluation follows the documented semantics.  Statements only.
   The documented semantics IS the reference evaluator coq/Lang/Eval.v (lexical environments, strict left-to-right
   argument evaluation, documented short circuits); the theorems below are its structural guarantees; that the
   interpreter computes what the reference computes is decided by the correspondence check (see DESIGN.md: partial). *)
From Coq Require Import List ZArith NArith String Bool.
From Xr Require Import Base.Res Base.Show Lang.Syntax Lang.Eval Lang.EvalProofs.
Import ListNotations.
Open Scope string_scope.

(* strict evaluation: arguments left to right, each once; when all are values the call sees exactly those values *)
Theorem C02_strict_all_values : forall ms s vs ss,
  Forall2 (fun m vs' => forall s0, m s0 = (Val vs', s0)) ms vs -> ss = s -> seq_eval ms s = (Val vs, s).
Proof. exact seq_eval_all_values. Qed.

(* ... and the leftmost argument that is not a value decides the outcome; later arguments are not evaluated *)
Theorem C02_leftmost_failure : forall pre m post s s1 s2 (vs : list value) (r : res value),
  seq_eval pre s = (Val vs, s1) -> m s1 = (r, s2) -> is_val r = false ->
  fst (seq_eval (pre ++ m :: post) s) = match r with Err e => Err e | Viol v => Viol v | Stuck w => Stuck w | _ => Fuel end /\
  snd (seq_eval (pre ++ m :: post) s) = s2.
Proof. exact seq_eval_first_failure. Qed.

(* an operator is the named function it aliases: the desugared AST of `a + b` IS the call of `add`; programs are
   compared with operators spelled as operators, functions and methods, and all three evaluate one term *)
Example C02_operator_is_function :
  let prog := [DFn "main" [] [] (ECall (EVar "add") [EInt 2%Z; ECall (EVar "mul") [EInt 3%Z; EInt 4%Z]])] in
  run_program 100 nolimits prog ["main"] = "14||1".
Proof. vm_compute. reflexivity. Qed.

(* evaluation order is observable through output: display(1) + display(2) prints 1 then 2, exactly once each,
   and a short-circuit function skips the unselected argument *)
Example C02_order_and_short_circuit :
  let d n := ECall (EVar "display") [EInt n] in
  let prog := [DFn "main" [] [] (ECall (EVar "add") [d 1%Z; ECall (EVar "if") [EBool true; d 2%Z; d 3%Z]])] in
  run_program 100 nolimits prog ["main"] = "3|1\n2|1".
Proof. vm_compute. reflexivity. Qed.

Print Assumptions C02_strict_all_values.
Print Assumptions C02_leftmost_failure.
Print Assumptions C02_operator_is_function.
Print Assumptions C02_order_and_short_circuit.
