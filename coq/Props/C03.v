(* C03 - lexical scoping, closures and one-time defaults.  Statements only.
   [Extracted.Idents] is regenerated from the Rust source on every run. *)
From Coq Require Import List ZArith NArith String.
From Xr Require Import Base.Res Base.Show Lang.Syntax Lang.Eval Lang.Ident Extracted.Idents.
Import ListNotations.
Open Scope string_scope.

(* distinct identifiers never alias: the interner model is injective on ALL strings ... *)
Theorem C03_intern_injective : forall s t, intern s = intern t -> s = t.
Proof. exact intern_injective. Qed.

(* ... and the source still uses the anchored, canonical-digits pattern and the bound the model is written for *)
Theorem C03_interner_pattern :
  extracted_item_regex = "^item(0|[1-9][0-9]*)$" /\ extracted_item_bound = 65536%N /\ extracted_regex_uses = 1%N.
Proof. repeat split; reflexivity. Qed.

Theorem C03_intern_examples :
  intern "item1" = Item 1 /\ intern "item1x" = Regular "item1x" /\ intern "item01" = Regular "item01" /\
  intern "item0" = Item 0 /\ intern "item" = Regular "item" /\ intern "xitem1" = Regular "xitem1" /\
  intern "item99999999999999999999999" = Regular "item99999999999999999999999" /\ intern "item65536" = Item 65536 /\
  intern "item65537" = Regular "item65537".
Proof. exact intern_examples. Qed.

(* the reference semantics is lexical by construction: a closure carries the environment of its creation.
   Closed instances: a later shadowing declaration does not change an earlier closure; defaults are computed once,
   when the function is created; an escaping closure keeps its bindings. *)
Example C03_lexical_closed_instances :
  let C f args := ECall (EVar f) args in
  let prog :=
    [DLet "x" (EInt 1%Z);
     DFn "getx" [] [] (EVar "x");
     DLet "x" (EInt 2%Z);                                                  (* shadows: getx still sees 1 *)
     DFn "mk" [("k", None)] [] (ELam [("y", None)] [] (C "add" [EVar "k"; EVar "y"]));
     DLet "add5" (C "mk" [EInt 5%Z]);
     DFn "dflt" [("a", Some (C "display" [EInt 42%Z]))] [] (EVar "a");   (* default evaluated once, here *)
     DFn "main" [] [] (ETup [C "getx" []; EVar "x"; C "add5" [EInt 10%Z]; C "dflt" []; C "dflt" []; C "dflt" [EInt 7%Z]])] in
  run_program 200 nolimits prog ["main"] = "(1, 2, 15, 42, 42, 7)|42|7".
Proof. vm_compute. reflexivity. Qed.

Print Assumptions C03_intern_injective.
Print Assumptions C03_interner_pattern.
Print Assumptions C03_intern_examples.
Print Assumptions C03_lexical_closed_instances.
