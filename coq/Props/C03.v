(* C03 - lexical scoping, closures and one-time defaults.  Statements only.
   [Extracted.Idents] is regenerated from the Rust source on every run. *)
From Coq Require Import List ZArith NArith String.
From Xr Require Import Base.Res Base.Show Lang.Syntax Lang.Eval Lang.Ident Extracted.Idents Lang.Cells Lang.Forward Lang.ForwardProofs.
Import ListNotations.
Open Scope string_scope.

(* distinct identifiers never alias: the interner model is injective on ALL strings ... *)
Theorem C03_intern_injective : forall s t, intern s = intern t -> s = t.
Proof. exact intern_injective. Qed.

(* ... and the source still uses the anchored, canonical-digits pattern and the bound the model is written for *)
Theorem C03_interner_pattern :
  extracted_item_regex = "^item(0|[1-9][0-9]*)$" /\ extracted_item_bound = 65536%N /\ extracted_regex_uses = 1%N.
Proof. repeat split; reflexivity. Qed.

Theorem C03_intern_examples :
  intern "item1" = Item 1 /\ intern "item1x" = Regular "item1x" /\ intern "item01" = Regular "item01" /\
  intern "item0" = Item 0 /\ intern "item" = Regular "item" /\ intern "xitem1" = Regular "xitem1" /\
  intern "item99999999999999999999999" = Regular "item99999999999999999999999" /\ intern "item65536" = Item 65536 /\
  intern "item65537" = Regular "item65537".
Proof. exact intern_examples. Qed.

(* the reference semantics is lexical by construction: a closure carries the environment of its creation.
   Closed instances: a later shadowing declaration does not change an earlier closure; defaults are computed once,
   when the function is created; an escaping closure keeps its bindings. *)
Example C03_lexical_closed_instances :
  let C f args := ECall (EVar f) args in
  let prog :=
    [DLet "x" (EInt 1%Z);
     DFn "getx" [] [] (EVar "x");
     DLet "x" (EInt 2%Z);                                                  (* shadows: getx still sees 1 *)
     DFn "mk" [("k", None)] [] (ELam [("y", None)] [] (C "add" [EVar "k"; EVar "y"]));
     DLet "add5" (C "mk" [EInt 5%Z]);
     DFn "dflt" [("a", Some (C "display" [EInt 42%Z]))] [] (EVar "a");   (* default evaluated once, here *)
     DFn "main" [] [] (ETup [C "getx" []; EVar "x"; C "add5" [EInt 10%Z]; C "dflt" []; C "dflt" []; C "dflt" [EInt 7%Z]])] in
  run_program 200 nolimits prog ["main"] = "(1, 2, 15, 42, 42, 7)|42|7".
Proof. vm_compute. reflexivity. Qed.

(* captured variables are addressed by (ancestor depth, cell index) pairs; closing a function's scope re-threads every capture
   that reaches beyond the parent through a new cell of the parent (Lang/Cells.v, model of into_static_ud).  For EVERY nest of
   scopes - any depth, any number and arrangement of captures - closing all scopes, innermost first, leaves what every cell of
   every scope denotes (which variable cell of which ancestor) unchanged, and closed non-root scopes use depth 1 only *)
Theorem C03_rethreading_preserves_denotation : forall st k j r,
  (k < List.length st)%nat -> walk (skipn k st) 0 j = Some r -> walk (skipn k (close_all st)) 0 j = Some r.
Proof. exact close_all_preserves_every_scope. Qed.
Theorem C03_closed_captures_have_depth_one : forall st sc c,
  In sc (removelast (close_all st)) -> In c sc -> c = CVar \/ exists ci, c = CCap 0 ci \/ c = CCap 1 ci.
Proof. intros st sc c. apply closed_depth_one. apply le_n. Qed.
(* one step: the child's cells denote the same, the parent's old cells are untouched (it only grows) *)
Theorem C03_rethreading_one_scope : forall child parent specs parent' rest i r,
  fin child parent = (specs, parent') ->
  (exists e, parent' = (parent ++ e)%list) /\
  (walk (child :: parent :: rest) 0 i = Some r -> walk (specs :: parent' :: rest) 0 i = Some r).
Proof.
  intros child parent specs parent' rest i r H. destruct (fin_spec _ _ _ _ H) as (He & _ & _ & Hn). split; [exact He|].
  cbn [walk]. destruct (nth_error child i) as [c|] eqn:E; [|discriminate].
  destruct (Hn rest i c E) as (c' & -> & Hm). destruct c as [|[|d] ci]; [subst; auto|subst; auto|].
  destruct Hm as (pi & -> & Hw). exact (Hw r).
Qed.
(* ... and what that denotation means when the program runs: a function value copies, for every depth-1 capture, the parent
   frame's cell at its creation; over the closed specs of ANY nest, every cell of the innermost frame then holds the value of the
   variable the ORIGINAL (ancestor depth, cell index) pair named *)
Theorem C03_captured_value_is_the_named_variable : forall (value : Type) st (fs : list (frame value)),
  (forall c, In c (last (close_all st) []) -> c = CVar) ->
  consistent value (close_all st) fs ->
  forall i h j, walk st 0 i = Some (h, j) ->
  match fs with f :: _ => cell_at value fs h j = nth_error f i | [] => True end.
Proof. exact captured_value_is_the_named_variable. Qed.
(* a nest four deep: the innermost function uses a root variable, a variable two scopes up twice, and its parent's parameter *)
Example C03_cells_nonvacuous :
  let st := [[CVar; CCap 3 0; CCap 2 1; CCap 2 1; CCap 1 0]; [CVar; CCap 1 0]; [CVar; CVar]; [CVar]] in
  close_all st = [[CVar; CCap 1 2; CCap 1 3; CCap 1 4; CCap 1 0]; [CVar; CCap 1 0; CCap 1 2; CCap 1 1; CCap 1 1];
                  [CVar; CVar; CCap 1 0]; [CVar]] /\
  map (walk (close_all st) 0) [0; 1; 2; 3; 4] = [Some (3, 0); Some (0, 0); Some (1, 1); Some (1, 1); Some (2, 0)] /\
  map (walk st 0) [0; 1; 2; 3; 4] = map (walk (close_all st) 0) [0; 1; 2; 3; 4].
Proof. vm_compute. repeat split; reflexivity. Qed.

(* forward declarations, UNBOUNDED: after ANY program of forward declarations, definitions (a callee has a smaller name than its
   caller) and invocations - any length, any number of functions - an invocation that the compiler's bookkeeping accepts
   (requirements recorded when a function is defined, checked transitively through the implementations of fulfilled declarations)
   reaches no function without a body: "a function that depends on a forward declaration cannot be invoked before that declaration
   is fulfilled" *)
Theorem C03_forward_gate_sound : forall es s f, Forall wf_event es -> run empty es = Ok s ->
  step s (Use f) = Ok s -> safe_now s f = true /\ Safe s f.
Proof. exact gate_sound. Qed.
(* ... and, also for every program, an invocation the gate rejects (MissingForwardImplementation) really is unsafe: the gate is exact *)
Theorem C03_forward_gate_exact : forall es s f, Forall wf_event es -> run empty es = Ok s ->
  step s (Use f) = MissingForward -> safe_now s f = false /\ ~ Safe s f.
Proof. exact gate_exact. Qed.

(* the same equivalence as an exhaustive sweep (kept as a cross-check of the definitions; the unbounded theorems above subsume it):
   every program of at most 9 events over 3 function names, and of at most 7 events over 4 names *)
Theorem C03_forward_gate_bounded :
  (forall es, List.length es <= 9 -> Forall (fun e => In e (universe 3)) es -> gate_right empty es = true) /\
  (forall es, List.length es <= 7 -> Forall (fun e => In e (universe 4)) es -> gate_right empty es = true).
Proof. split; apply all_runs_sound; vm_compute; reflexivity. Qed.
(* the rule in force before the repair (met = declared function has an implementation) accepts an unsafe invocation *)
Example C03_forward_shallow_rule_refuted :
  match run empty [Fwd 1; Fwd 0; Def 2 [1]; Def 1 [0]] with
  | Ok s => existsb (shallow_unmet s) [1] = false /\ safe_now s 2 = false /\ step s (Use 2) = MissingForward
  | _ => False
  end.
Proof. exact shallow_rule_refuted. Qed.

Print Assumptions C03_intern_injective.
Print Assumptions C03_interner_pattern.
Print Assumptions C03_intern_examples.
Print Assumptions C03_lexical_closed_instances.
Print Assumptions C03_rethreading_preserves_denotation.
Print Assumptions C03_closed_captures_have_depth_one.
Print Assumptions C03_rethreading_one_scope.
Print Assumptions C03_cells_nonvacuous.
Print Assumptions C03_forward_gate_bounded.
Print Assumptions C03_forward_shallow_rule_refuted.
Print Assumptions C03_forward_gate_sound.
Print Assumptions C03_forward_gate_exact.
Print Assumptions C03_captured_value_is_the_named_variable.
