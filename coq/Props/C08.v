(* C08 - depth, recursion, call and search limits are exact and transparent.  Statements only. *)
From Coq Require Import List NArith ZArith Bool String.
From Xr Require Import Base.Res Base.Show Lang.Limits Lang.Syntax Lang.Eval Lang.EvalProofs Seq.XSeq Seq.SeqInst.
Import ListNotations.
Open Scope N_scope.

(* over every history of call / return / tail-iteration / host-reset events: *)
Theorem C08_calls_exact : forall c s L, Lcalls c = Some L ->
  (mstep c s Enter = Viol VCalls <-> L <= ncalls s + 1).
Proof. exact calls_exact. Qed.
Theorem C08_depth_exact : forall c s L, Ldepth c = Some L -> reached (Lcalls c) (ncalls s + 1) = false ->
  (mstep c s Enter = Viol VDepth <-> L <= height s + 1).
Proof. exact depth_exact. Qed.
Theorem C08_recursion_exact : forall c s L k r, Lrec c = Some L -> recs s = k :: r ->
  (mstep c s TailIter = Viol VRecursion <-> L < k + 1).
Proof. exact Limits.recursion_exact. Qed.

(* transparency: a run in which no guard trips is step for step the unlimited run *)
Theorem C08_transparent : forall c evs s s', mrun c s evs = Val s' -> mrun unlimited s evs = Val s'.
Proof. exact mrun_transparent. Qed.
Theorem C08_unlimited_never_trips : forall s e v, mstep unlimited s e <> Viol v.
Proof. exact mstep_unlimited_no_viol. Qed.

(* the counter is the number of user calls since the last reset: a host reset restores the full budget *)
Theorem C08_reset : forall c evs s s', mrun c s evs = Val s' -> ncalls s' = calls_since_reset evs (ncalls s).
Proof. exact counter_is_calls_since_reset. Qed.

(* the comparisons used by the reference evaluator: reach for depth / calls, exceed for recursion; monotone in L *)
Theorem C08_eval_guards : forall L n,
  (limit_reached (Some L) n false = true <-> L <= n) /\ (limit_reached (Some L) n true = true <-> L < n).
Proof. intros L n. split; [apply depth_calls_exact | apply EvalProofs.recursion_exact]. Qed.
Theorem C08_guard_monotone : forall L L' n b, L <= L' -> limit_reached (Some L) n b = false -> limit_reached (Some L') n b = false.
Proof. exact limit_monotone. Qed.

(* search limit: a scan that has to examine k elements ends in MaximumSearch exactly when k > L *)
Example C08_search_exact :
  let s := SRange 0 100 1 in
  show_res (fun _ => "ok"%string) (x_take_while_lim (Some 10) s (PGt (-1)%Z)) = "X:MaximumSearch"%string /\
  show_res (fun _ => "ok"%string) (x_take_while_lim (Some 11) (SRange 0 100 1) (PMod 11 10%Z)) = "ok"%string /\
  show_res (fun _ => "ok"%string) (x_take_while_lim (Some 100) s (PGt (-1)%Z)) = "ok"%string.
Proof. vm_compute. repeat split; reflexivity. Qed.

Example C08_nonvacuous :
  mrun (mkcfg (Some 3) (Some 5) (Some 2)) m0 [Enter; Enter; Leave; TailIter; TailIter; Reset; Enter] = Val (mkm 2 1 [0; 2]) /\
  mrun (mkcfg (Some 3) (Some 5) (Some 2)) m0 [Enter; Enter; Enter] = Viol VDepth /\
  mrun (mkcfg (Some 9) (Some 3) None) m0 [Enter; Leave; Enter; Leave; Enter] = Viol VCalls.
Proof. vm_compute. repeat split; reflexivity. Qed.

Print Assumptions C08_calls_exact.
Print Assumptions C08_depth_exact.
Print Assumptions C08_recursion_exact.
Print Assumptions C08_transparent.
Print Assumptions C08_unlimited_never_trips.
Print Assumptions C08_reset.
Print Assumptions C08_eval_guards.
Print Assumptions C08_guard_monotone.
Print Assumptions C08_search_exact.
Print Assumptions C08_nonvacuous.
