(* C16 - generators denote fixed lazy streams.  Statements only; proofs in Gen/XGenProofs.v.
   The reference semantics (Gen/XGen.v) is the list semantics of each operation; the interpreter's generators are compared
   with it by props/c16.py.  Proved here: the merged representation of nested skip/take denotes the composition, and the
   element-wise / prefix operations are prefix-closed (extending the input only extends the output), which is what makes a
   pipeline over an endless source well defined on prefixes. *)
From Coq Require Import List ZArith Arith.
From Xr Require Import Gen.XGen Gen.XGenProofs Gen.XGenStable.
Import ListNotations.

Theorem C16_slice_merge : forall (i o : slice) (l : list Z),
  slice_apply (slice_merge i o) l = slice_apply o (slice_apply i l).
Proof. exact slice_merge_correct. Qed.

Theorem C16_skip_then_take : forall a b (l : list Z),
  slice_apply (slice_merge (a, None) (0%nat, Some b)) l = firstn b (skipn a l).
Proof. exact skip_then_take. Qed.

Theorem C16_take_then_skip : forall a b (l : list Z),
  slice_apply (slice_merge (0%nat, Some a) (b, None)) l = skipn b (firstn a l).
Proof. exact take_then_skip. Qed.

Theorem C16_lazy_ops_prefix_closed : forall p o,
  match o with
  | OMapAdd _ | OMapMul _ | OMapMod _ | OFilterMod _ _ | OFilterLt _ | OTake _ | OTakeWhileLt _ | OSkipUntilGt _
  | OAggSum None | OEnumMix _ _ | ODistinct | OWithCountMix => prefix_closed (apply p o)
  | _ => True
  end.
Proof. exact lazy_ops_prefix_closed. Qed.

(* stability of the prefix method used by the correspondence: over count / range / successors sources a pipeline of the
   element-wise and prefix operations evaluated with a longer look-ahead only EXTENDS the result *)
Theorem C16_run_stable : forall s ops n m,
  (match s with SCycle _ => False | _ => True end) -> forallb simple_lazy ops = true -> (n <= m)%nat ->
  is_prefix (run n s ops) (run m s ops).
Proof. exact run_stable. Qed.

Example C16_instances :
  run 50 (SRange 10) [OSkip 2; OTake 3] = [2; 3; 4]%Z /\
  run 50 (SRange 10) [OTake 5; OSkip 2] = [2; 3; 4]%Z /\
  run 50 (SRange 10) [OSkip 1; OTake 6; OSkip 2; OTake 2] = [3; 4]%Z /\
  run 20 (SCount 0 1) [OEnumMix 5 2; OTake 3] = [5000; 7001; 9002]%Z /\
  run 50 (SRange 7) [OChunksSum 3] = [3; 12; 6]%Z /\ run 50 (SRange 6) [OWindowsSum 3] = [3; 6; 9; 12]%Z /\
  run 50 (SRange 7) [OMapMod 3; OWithCountMix] = [1; 101; 201; 2; 102; 202; 3]%Z /\
  run 50 (SRange 6) [OGroupNear 1] = [2000; 2002; 2004]%Z /\
  run 50 (SRange 7) [OAggSum (Some 0%Z)] = [0; 0; -1; -3; -6; -10; -15; -21]%Z /\
  run 50 (SRange 5) [OMapAdd 100; OAggSum None] = [100; -1; -103; -206; -310]%Z /\
  run 50 (SRange 3) [ORepeat 2] = [0; 1; 2; 0; 1; 2]%Z /\ run 9 (SCycle [1; 2; 3]%Z) [OTake 7] = [1; 2; 3; 1; 2; 3; 1]%Z.
Proof. vm_compute. repeat split; reflexivity. Qed.

Print Assumptions C16_slice_merge.
Print Assumptions C16_skip_then_take.
Print Assumptions C16_take_then_skip.
Print Assumptions C16_lazy_ops_prefix_closed.
Print Assumptions C16_run_stable.
Print Assumptions C16_instances.
