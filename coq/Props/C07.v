(* C07 - tail-call optimisation is semantically transparent.  Statements only. *)
From Coq Require Import List Arith NArith ZArith String.
From Xr Require Import Base.Res Lang.Tco Lang.Limits Lang.Syntax Lang.Eval Extracted.Tails Lang.TailTable.
Import ListNotations.
Open Scope nat_scope.

(* for every body, argument and iteration count: the trampoline returns what plain recursion returns; its iteration
   count is the nesting depth plain recursion needed, while the trampoline itself stays at one depth *)
Theorem C07_transparent : forall (A V : Type) (body : A -> V + A) fuel a d v maxd,
  plain A V body fuel a d = Some (v, maxd) ->
  forall i, tramp A V body fuel None a i = Some (Val v, (i + (maxd - d))%nat) /\ (d <= maxd)%nat.
Proof. exact tramp_transparent. Qed.

(* bounded by the recursion limit only, exactly: L >= iterations passes unchanged, L < iterations is MaximumRecursion *)
Theorem C07_recursion_limit_exact : forall (A V : Type) (body : A -> V + A) fuel a i v n L,
  tramp A V body fuel None a i = Some (Val v, n) ->
  ((n <= L)%nat -> tramp A V body fuel (Some L) a i = Some (Val v, n)) /\
  ((i <= L)%nat -> (L < n)%nat -> tramp A V body fuel (Some L) a i = Some (Viol VRecursion, S L)).
Proof. exact tramp_limit_exact. Qed.

(* a tail iteration changes neither the frame height nor the call counter *)
Theorem C07_no_depth_no_call : forall c s s', mstep c s TailIter = Val s' ->
  height s' = height s /\ ncalls s' = ncalls s.
Proof. exact tail_iter_keeps_height. Qed.

(* the reference evaluator: 1000 tail iterations under depth limit 3 succeed, the non-tail shape does not, and the
   result equals the one computed with the optimisation switched off *)
Example C07_nonvacuous :
  let C f args := ECall (EVar f) args in
  let loop := DFn "loop" [("n", None); ("acc", None)] []
                (C "if" [C "eq" [EVar "n"; EInt 0%Z]; EVar "acc"; C "loop" [C "sub" [EVar "n"; EInt 1%Z]; C "add" [EVar "acc"; EVar "n"]]]) in
  let nontail := DFn "nt" [("n", None)] [] (C "if" [C "eq" [EVar "n"; EInt 0%Z]; EInt 0%Z; C "add" [EInt 1%Z; C "nt" [C "sub" [EVar "n"; EInt 1%Z]]]]) in
  let prog := [loop; nontail; DFn "a" [] [] (C "loop" [EInt 1000%Z; EInt 0%Z]); DFn "b" [] [] (C "nt" [EInt 5%Z])] in
  run_program (N.to_nat 50000) (mklim (Some 3%N) None None true) prog ["a"; "b"] = "500500#X:MaximumStackDepth||5"%string /\
  run_program (N.to_nat 50000) (mklim None None None false) prog ["a"] = "500500||1002"%string.
Proof. vm_compute. split; reflexivity. Qed.

(* the native functions that hand the caller's tail position on - and the argument they hand it to - are, in today's Rust
   sources (extracted on every run), exactly the documented short-circuit functions and identities the model assumes; no other
   native forwards the flag, and the evaluator's tail positions are those of the corresponding sites *)
Theorem C07_tail_forwarders_as_modelled :
  x_tail_sites = model_tail_sites /\ x_tail_literal_true = model_literal_true /\ evaluator_agrees = true.
Proof. repeat split; reflexivity. Qed.

(* every modelled carrier (if, and, or, or on optionals, if_error, map_or) really is a tail position of the reference evaluator:
   2000 iterations through each under a depth limit of 4 (entry, the loop, and the mapped function of map_or) *)
Example C07_carriers_nonvacuous :
  let C f args := ECall (EVar f) args in
  let dec := C "sub" [EVar "n"; EInt 1%Z] in
  let f_and := DFn "la" [("n", None)] [] (C "and" [C "gt" [EVar "n"; EInt 0%Z]; C "la" [dec]]) in
  let f_or := DFn "lo" [("n", None)] [] (C "or" [C "eq" [EVar "n"; EInt 0%Z]; C "lo" [dec]]) in
  let f_oru := DFn "lu" [("n", None)] [] (C "or_unwrap" [C "if" [C "eq" [EVar "n"; EInt 0%Z]; C "some" [EInt 7%Z]; C "none" []]; C "lu" [dec]]) in
  let f_ife := DFn "le_" [("n", None)] [] (C "if_error" [C "div_floor" [EInt 1%Z; C "if" [C "eq" [EVar "n"; EInt 0%Z]; EInt 1%Z; EInt 0%Z]]; C "le_" [dec]]) in
  let f_mo := DFn "lm" [("n", None)] []
                (C "map_or" [C "if" [C "eq" [EVar "n"; EInt 0%Z]; C "some" [EInt 7%Z]; C "none" []]; ELam [("x", None)] [] (EVar "x"); C "lm" [dec]]) in
  let prog := [f_and; f_or; f_oru; f_ife; f_mo;
               DFn "a" [] [] (C "la" [EInt 2000%Z]); DFn "b" [] [] (C "lo" [EInt 2000%Z]); DFn "c" [] [] (C "lu" [EInt 2000%Z]);
               DFn "d" [] [] (C "le_" [EInt 2000%Z]); DFn "e" [] [] (C "lm" [EInt 2000%Z])] in
  run_program (N.to_nat 200000) (mklim (Some 4%N) None None true) prog ["a"; "b"; "c"; "d"; "e"] = "false#true#7#1#7||11"%string.
Proof. vm_compute. reflexivity. Qed.

Print Assumptions C07_transparent.
Print Assumptions C07_recursion_limit_exact.
Print Assumptions C07_no_depth_no_call.
Print Assumptions C07_nonvacuous.
Print Assumptions C07_tail_forwarders_as_modelled.
Print Assumptions C07_carriers_nonvacuous.
