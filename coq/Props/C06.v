(* C06 - errors propagate as values; violations cannot be caught.  Statements only. *)
From Coq Require Import List ZArith NArith String Bool.
From Xr Require Import Base.Res Base.Show Lang.Syntax Lang.Eval Lang.EvalProofs.
Import ListNotations.
Open Scope string_scope.

(* every composition of the evaluator is [mbind]; an error value or a violation of the first part is the outcome *)
Theorem C06_error_propagates : forall (A B : Type) (m : M A) (k : A -> M B) s e s', m s = (Err e, s') -> mbind m k s = (Err e, s').
Proof. intros A B. exact (@mbind_err A B). Qed.
Theorem C06_violation_propagates : forall (A B : Type) (m : M A) (k : A -> M B) s v s', m s = (Viol v, s') -> mbind m k s = (Viol v, s').
Proof. intros A B. exact (@mbind_viol A B). Qed.

(* the ONLY handler of the evaluator (used by if_error, is_error, get_error) intercepts error values, never violations *)
Theorem C06_violation_uncatchable : forall (A : Type) (m : M A) h s v s', m s = (Viol v, s') -> mcatch m h s = (Viol v, s').
Proof. intros A. exact (@mcatch_viol A). Qed.
Theorem C06_handler_sees_error : forall (A : Type) (m : M A) h s e s', m s = (Err e, s') -> mcatch m h s = h e s'.
Proof. intros A. exact (@mcatch_err A). Qed.

(* strict calls and constructions: the leftmost argument that is not a value decides, later ones are not evaluated *)
Theorem C06_leftmost_error : forall pre m post s s1 s2 (vs : list value) (r : res value),
  seq_eval pre s = (Val vs, s1) -> m s1 = (r, s2) -> is_val r = false ->
  fst (seq_eval (pre ++ m :: post) s) = match r with Err e => Err e | Viol v => Viol v | Stuck w => Stuck w | _ => Fuel end /\
  snd (seq_eval (pre ++ m :: post) s) = s2.
Proof. exact seq_eval_first_failure. Qed.

(* closed instances on the reference evaluator: a user function called with an error argument does not run its body;
   the leftmost of two errors wins; a depth violation inside if_error / is_error is the outcome *)
Example C06_nonvacuous :
  let C f args := ECall (EVar f) args in
  let err m := C "error" [EStr m] in
  let prog := [DFn "f" [("a", None); ("b", None)] [] (C "display" [EInt 5%Z]);
               DFn "deep" [("n", None)] [] (C "add" [EInt 1%Z; C "deep" [C "add" [EVar "n"; EInt 1%Z]]]);
               DFn "t1" [] [] (C "f" [EInt 1%Z; err "boom"]);
               DFn "t2" [] [] (C "add" [err "left"; err "right"]);
               DFn "t3" [] [] (C "if_error" [C "deep" [EInt 0%Z]; EInt 7%Z]);
               DFn "t4" [] [] (C "is_error" [C "deep" [EInt 0%Z]])] in
  run_program (N.to_nat 5000) (mklim (Some 20%N) None None true) prog ["t1"; "t2"; "t3"; "t4"]
  = "E:boom#E:left#X:MaximumStackDepth#X:MaximumStackDepth||42".
Proof. vm_compute. reflexivity. Qed.

Print Assumptions C06_error_propagates.
Print Assumptions C06_violation_propagates.
Print Assumptions C06_violation_uncatchable.
Print Assumptions C06_handler_sees_error.
Print Assumptions C06_leftmost_error.
Print Assumptions C06_nonvacuous.
