(* C20 - documented conversions are mutually inverse and canonical.  Statements only.
   JSON: serialiser and reader modelled in Conv/Json.v (float -> shortest decimal is supplied by the correspondence). *)
From Coq Require Import List ZArith Bool String.
From Xr Require Import Conv.Json Conv.JsonProofs Base.Res Conv.Dates Conv.DatesProofs Conv.Fractions Conv.FractionsProofs Conv.ConvInst
                       Int.Lbi Int.IntFns Int.IntSpec Int.IntProofs.
Import ListNotations.
Open Scope Z_scope.

(* Julian day -> calendar date -> Julian day is the identity for EVERY integer day number (the +-3,000,000 of the
   property included), by 400-year periodicity of both conversions and an exhaustive sweep of one period *)
Theorem C20_jd_date_roundtrip : forall j, julian_day (date_of j) = j.
Proof. exact jd_date_roundtrip. Qed.
Theorem C20_date_is_valid : forall j, valid_date (date_of j) = true.
Proof. exact date_of_valid. Qed.
Theorem C20_weekday_in_range : forall j, 0 <= weekday (date_of j) < 7.
Proof. exact weekday_range. Qed.
Theorem C20_weekday_consistent : forall j, weekday (date_of (j + 1)) = (weekday (date_of j) + 1) mod 7.
Proof. exact weekday_succ. Qed.

(* Unix seconds (integral): datetime -> unix is the identity, negative times included; fields are in range *)
Theorem C20_unix_roundtrip : forall t, unix (datetime_of t) = t.
Proof. exact unix_roundtrip. Qed.
Theorem C20_datetime_fields : forall t,
  0 <= hours (datetime_of t) < 24 /\ 0 <= minutes (datetime_of t) < 60 /\ 0 <= seconds (datetime_of t) < 60.
Proof. exact datetime_fields_in_range. Qed.

(* fractions: lowest terms, positive denominator, exact value; arithmetic is exact and canonical *)
Theorem C20_fraction_canonical : forall n d f, fraction n d = Val f ->
  d <> 0 /\ canonical f /\ fnum f * d = n * fden f.
Proof. exact fraction_canonical. Qed.
Theorem C20_fraction_zero_denominator : forall n, exists e, fraction n 0 = Err e.
Proof. exact fraction_zero_den. Qed.
Theorem C20_fraction_add : forall a b c, 0 < fden a -> 0 < fden b -> fadd a b = Val c ->
  canonical c /\ fnum c * (fden a * fden b) = (fnum a * fden b + fnum b * fden a) * fden c.
Proof. exact fadd_exact. Qed.
Theorem C20_fraction_sub : forall a b c, 0 < fden a -> 0 < fden b -> fsub a b = Val c ->
  canonical c /\ fnum c * (fden a * fden b) = (fnum a * fden b - fnum b * fden a) * fden c.
Proof. exact fsub_exact. Qed.
Theorem C20_fraction_mul : forall a b c, fmul a b = Val c ->
  canonical c /\ fnum c * (fden a * fden b) = (fnum a * fnum b) * fden c.
Proof. exact fmul_exact. Qed.
Theorem C20_fraction_div : forall a b c, fdiv a b = Val c ->
  fnum b <> 0 /\ canonical c /\ fnum c * (fden a * fnum b) = (fnum a * fden b) * fden c.
Proof. exact fdiv_exact. Qed.
Theorem C20_fraction_unique : forall a b, canonical a -> canonical b -> fnum a * fden b = fnum b * fden a -> a = b.
Proof. exact canonical_unique. Qed.

(* integer <-> digits in any base >= 2 (the digits builtin; text conversion uses the same positional value) *)
Theorem C20_radix_digits : forall n b ds, wf n = true -> wf b = true -> int_digits n b = Val ds ->
  2 <= den b /\ Forall (fun d => wf d = true /\ Z.abs (den d) < den b) ds /\
  from_digits (map den ds) (den b) = den n.
Proof. exact int_digits_ok. Qed.

(* JSON: what the serialiser writes, the reader (an RFC 8259 reader with serde_json's recursion limit) reads back as the same
   document, for every well-formed value (strings of arbitrary non-negative code points, canonical decimals, any arrays and
   objects) nested less than 128 deep ... *)
Theorem C20_json_roundtrip : forall v, wfj v = true -> (jdepth v < depth_limit)%nat -> jparse (jser v) = Some v.
Proof. exact json_roundtrip. Qed.
(* ... and the statement is FALSE without the depth bound (known finding: a document nested 128 deep is serialised but the
   reader refuses it) *)
Theorem C20_json_depth_limit_refuted : exists v, wfj v = true /\ jparse (jser v) = None.
Proof. exact json_depth_limit_refuted. Qed.
(* hence different documents never serialise to the same text *)
Theorem C20_json_serialise_injective : forall v w, wfj v = true -> wfj w = true ->
  (jdepth v < depth_limit)%nat -> (jdepth w < depth_limit)%nat -> jser v = jser w -> v = w.
Proof. exact jser_injective. Qed.
(* every part on its own: strings (all escapes), numbers (all four layouts of the float text), inside any context *)
Theorem C20_json_string_roundtrip : forall s rest, forallb char_ok s = true ->
  pstr (flat_map esc_char s ++ 34 :: rest) = Some (s, rest).
Proof. exact pstr_ser. Qed.
Theorem C20_json_number_roundtrip : forall d rest, wf_dec d = true -> follow_ok rest = true ->
  pnum (ser_num d ++ rest) = Some (d, rest).
Proof. exact pnum_ser. Qed.
Example C20_json_nonvacuous :
  wfj (JObj [([97; 233], JArr [JNum (mkd true [1; 5] 1); JStr [34; 10; 1; 128512]; JNum (mkd false [1] 17)])]) = true /\
  jparse [32; 123; 34; 92; 117; 100; 56; 51; 100; 92; 117; 100; 101; 48; 48; 34; 32; 58; 91; 49; 46; 53; 48; 69; 43; 49;
          44; 10; 45; 48; 93; 125; 10]
  = Some (JObj [([128512], JArr [JNum (mkd false [1; 5] 2); JNum dzero])]).
Proof. vm_compute. split; reflexivity. Qed.

Example C20_nonvacuous :
  show_date (date_of (-1000000)) = "Date(-7451, 12, 28)"%string /\ julian_day (mkdate 1970 1 1) = 2440588 /\
  show_dt (datetime_of (-1)) = "Datetime(Date(1969, 12, 31), 23, 59, 59)"%string /\
  rfrac (fraction (2 ^ 70) (- 2 ^ 69)) = "(-2, 1)"%string /\ rfrac (fadd (F (-3) 2) (F 1 4)) = "(-5, 4)"%string /\
  to_int [45; 122; 122]%Z 36 = Val (-1295).
Proof. vm_compute. repeat split; reflexivity. Qed.

Print Assumptions C20_jd_date_roundtrip.
Print Assumptions C20_date_is_valid.
Print Assumptions C20_weekday_in_range.
Print Assumptions C20_weekday_consistent.
Print Assumptions C20_unix_roundtrip.
Print Assumptions C20_datetime_fields.
Print Assumptions C20_fraction_canonical.
Print Assumptions C20_fraction_zero_denominator.
Print Assumptions C20_fraction_add.
Print Assumptions C20_fraction_sub.
Print Assumptions C20_fraction_mul.
Print Assumptions C20_fraction_div.
Print Assumptions C20_fraction_unique.
Print Assumptions C20_radix_digits.
Print Assumptions C20_nonvacuous.
Print Assumptions C20_json_roundtrip.
Print Assumptions C20_json_depth_limit_refuted.
Print Assumptions C20_json_string_roundtrip.
Print Assumptions C20_json_number_roundtrip.
Print Assumptions C20_json_nonvacuous.
Print Assumptions C20_json_serialise_injective.
