(* C12 - compilation is total, effect-free and deterministic.  Statements only.
   The modelled compile-time stages are total functions whose outcomes are classified here: number literals
   (Lang/Literals.v), the identifier interner (Lang/Ident.v, injective and total on all strings: C03), string escapes
   (Str/Escapes.v: C18).  The pest-generated parser and the rest of feed_file are outside the model: for them totality,
   purity and determinism are observed by the robustness / repetition stream of props/c12.py. *)
From Coq Require Import List ZArith Bool String.
From Xr Require Import Lang.Literals Lang.Ident.
Import ListNotations.
Open Scope Z_scope.

Theorem C12_literal_int_exact : forall s z, convert s = OInt z -> is_integer_spelling s = true /\ z = value_of s /\ z <= i128_max.
Proof. exact convert_int. Qed.

Theorem C12_integer_spelling_never_float : forall s, is_integer_spelling s = true -> convert s <> OFloat.
Proof. exact integer_spelling_never_float. Qed.

Theorem C12_integer_in_range_accepted : forall s,
  is_integer_spelling s = true -> (match s with SHex [] | SBin [] => False | _ => True end) ->
  value_of s <= i128_max -> convert s = OInt (value_of s).
Proof. exact integer_in_range_accepted. Qed.

Theorem C12_float_only_if_finite : forall s, convert s = OFloat ->
  match s with SDec ip frac exp => is_integer_spelling s = false /\ dec_finite ip frac exp = true | _ => False end.
Proof. exact convert_float. Qed.

(* the conversion's shortcuts for astronomically large exponents agree with the exact comparison for every spelling *)
Theorem C12_float_test_exact : forall ip frac exp,
  digits_ok 10 (ip ++ match frac with Some f => f | None => [] end) ->
  (match exp with Some (_, ds) => digits_ok 10 ds | None => True end) ->
  dec_finite ip frac exp = dec_finite_exact ip frac exp.
Proof. exact dec_finite_correct. Qed.

(* the interner is a total function (a Gallina definition) that never identifies two names *)
Theorem C12_intern_injective : forall s t : string, intern s = intern t -> s = t.
Proof. exact intern_injective. Qed.

Example C12_literal_instances :
  convert (SHex (8 :: repeat 0 31)) = OInvalid /\ convert (SHex (7 :: repeat 15 31)) = OInt i128_max /\
  convert (SHex []) = OInvalid /\ convert (SBin (repeat 1 128)) = OInvalid /\
  convert (SDec [1] None (Some (false, [3;0;8]))) = OFloat /\ convert (SDec [1] None (Some (false, [3;0;9]))) = OInvalid.
Proof. vm_compute. repeat split; reflexivity. Qed.

Print Assumptions C12_literal_int_exact.
Print Assumptions C12_integer_spelling_never_float.
Print Assumptions C12_integer_in_range_accepted.
Print Assumptions C12_float_only_if_finite.
Print Assumptions C12_float_test_exact.
Print Assumptions C12_intern_injective.
Print Assumptions C12_literal_instances.
