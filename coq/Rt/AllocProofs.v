From Coq Require Import NArith List Bool String Lia.
From Xr Require Import Base.Res Rt.Alloc.
Import ListNotations.
Open Scope N_scope.

(* the invariant: the counter is the sum of the recorded sizes of the live values, and within the limit *)
Definition Inv (L : N) (s : st) : Prop := size s = sum (live s) /\ size s <= L.

Lemma inv_init L : Inv L init.
Proof. split; cbn; lia. Qed.

Lemma sum_cons x l : sum (x :: l) = x + sum l.
Proof. reflexivity. Qed.

Lemma remove1_sum x l l' : remove1 x l = Some l' -> sum l = x + sum l'.
Proof.
  revert l'. induction l as [|y r IH]; intros l' H; cbn [remove1] in H; [discriminate|].
  destruct (N.eqb_spec x y) as [->|Hne].
  - injection H as <-. apply sum_cons.
  - destruct (remove1 x r) as [r'|] eqn:E; [|discriminate]. injection H as <-.
    rewrite !sum_cons, (IH r' eq_refl). lia.
Qed.

Lemma step_inv L s e s' : Inv L s -> step L s e = Val s' -> Inv L s'.
Proof.
  intros [Hs Hl] H. destruct e as [sz|sz|sz]; cbn [step] in H.
  - destruct (N.leb_spec (size s + sz) L); [|discriminate]. injection H as <-.
    split; cbn [size live]; rewrite ?sum_cons; lia.
  - destruct (remove1 sz (live s)) as [l'|] eqn:E; [|discriminate].
    destruct (N.leb_spec sz (size s)); [|discriminate]. injection H as <-.
    apply remove1_sum in E. split; cbn [size live]; lia.
  - destruct (N.leb_spec (size s + sz) L); [|discriminate]. injection H as <-. split; auto.
Qed.

Lemma remove1_in x l : In x l -> exists l', remove1 x l = Some l'.
Proof.
  induction l as [|y r IH]; [contradiction|]. intros Hin. cbn [remove1].
  destruct (N.eqb_spec x y); [eauto|]. destruct Hin as [->|Hin]; [congruence|].
  destruct (IH Hin) as [l' ->]. cbn. eauto.
Qed.

(* no underflow and no double free: under the invariant, dropping a live value never gets stuck, and
   what is subtracted is at most the counter *)
Lemma step_dealloc_live L s sz : Inv L s -> In sz (live s) ->
  sz <= size s /\ exists s', step L s (ED sz) = Val s'.
Proof.
  intros [Hs Hl] Hin. destruct (remove1_in _ _ Hin) as [l' Hr].
  pose proof (remove1_sum _ _ _ Hr). split; [lia|]. cbn [step]. rewrite Hr.
  destruct (N.leb_spec sz (size s)); [eauto|lia].
Qed.

Lemma run_inv L : forall evs s n s' n' o, Inv L s -> run L s evs n = (s', n', o) -> Inv L s'.
Proof.
  induction evs as [|e r IH]; intros s n s' n' o Hi H; cbn [run] in H.
  - injection H as <- _ _. exact Hi.
  - destruct (step L s e) as [s1| | | |] eqn:E; try (injection H as <- _ _; exact Hi).
    eapply IH; [|exact H]. eapply step_inv; eauto.
Qed.

(* every reachable state satisfies the invariant; in particular the counter never exceeds L *)
Lemma conservation L evs s' n' o :
  run L init evs 0 = (s', n', o) -> size s' = sum (live s') /\ size s' <= L.
Proof. intros H. exact (run_inv L evs init 0 s' n' o (inv_init L) H). Qed.

(* a violation leaves the state as it was before the failing event: nothing stays accounted for
   the value that was never constructed *)
Lemma failed_guard_keeps_state L s e v : step L s e = Viol v -> forall s', step L s e <> Val s'.
Proof. intros H s'. rewrite H. discriminate. Qed.

(* back to the baseline: once every live value has been dropped the counter is zero - from any
   reachable state, hence also after a run that stopped at a violation *)
Lemma drop_all_run L : forall l s n, Inv L s -> live s = l ->
  exists s' n', run L s (map ED l) n = (s', n', None) /\ live s' = [] /\ size s' = 0.
Proof.
  induction l as [|x r IH]; intros s n Hi Hl.
  - cbn [map run]. exists s, n. destruct Hi as [Hs _]. rewrite Hl in Hs. cbn in Hs. auto.
  - cbn [map run]. assert (Hin : In x (live s)) by (rewrite Hl; left; reflexivity).
    destruct (step_dealloc_live L s x Hi Hin) as [_ [s1 Hs1]]. rewrite Hs1.
    assert (Hl1 : live s1 = r).
    { cbn [step] in Hs1. rewrite Hl in Hs1. cbn [remove1] in Hs1. rewrite N.eqb_refl in Hs1.
      destruct (x <=? size s); [|discriminate]. injection Hs1 as <-. reflexivity. }
    apply (IH s1 (n + 1)); auto. eapply step_inv; eauto.
Qed.

Lemma baseline L evs s n o :
  run L init evs 0 = (s, n, o) ->
  exists s' n', run L s (drop_all s) n = (s', n', None) /\ size s' = 0.
Proof.
  intros H. pose proof (run_inv L evs init 0 s n o (inv_init L) H) as Hi.
  destruct (drop_all_run L (live s) s n Hi eq_refl) as (s' & n' & Hr & _ & Hz). eauto.
Qed.

(* the limit enters only through guards: a run that passes under L passes unchanged under any L' >= L *)
Lemma step_mono L L' s e s' : L <= L' -> step L s e = Val s' -> step L' s e = Val s'.
Proof.
  intros HL H. destruct e as [sz|sz|sz]; cbn [step] in *; auto.
  - destruct (N.leb_spec (size s + sz) L); [|discriminate].
    destruct (N.leb_spec (size s + sz) L'); [auto|lia].
  - destruct (N.leb_spec (size s + sz) L); [|discriminate].
    destruct (N.leb_spec (size s + sz) L'); [auto|lia].
Qed.

Lemma run_mono L L' : L <= L' -> forall evs s n s' n',
  run L s evs n = (s', n', None) -> run L' s evs n = (s', n', None).
Proof.
  intros HL. induction evs as [|e r IH]; intros s n s' n' H; cbn [run] in *; auto.
  destruct (step L s e) as [s1| | | |] eqn:E; try discriminate.
  rewrite (step_mono L L' s e s1 HL E). auto.
Qed.

(* exactness of the failing point: the run stops exactly at the first event whose guard fails *)
Lemma run_stops_at_guard L : forall evs s n s' n',
  run L s evs n = (s', n', Some (Viol VAlloc)) ->
  exists pre e post, evs = (pre ++ e :: post)%list /\ n' = n + N.of_nat (List.length pre) /\
    run L s pre n = (s', n', None) /\ step L s' e = Viol VAlloc.
Proof.
  induction evs as [|e r IH]; intros s n s' n' H; cbn [run] in H; [discriminate|].
  destruct (step L s e) as [s1| |v| |] eqn:E; try discriminate.
  - destruct (IH s1 (n + 1) s' n' H) as (pre & e' & post & -> & Hn & Hr & Hs).
    exists (e :: pre), e', post. repeat split; auto.
    + cbn [List.length]. rewrite Nat2N.inj_succ. lia.
    + cbn [run]. rewrite E. exact Hr.
  - inversion H; subst. exists [], e, r. cbn. repeat split; auto; try lia.
Qed.

(* every live value is accounted for at least its payload *)
Lemma u64_digits_cover m : m < 2 ^ (64 * u64_digits m).
Proof.
  unfold u64_digits. destruct (N.eqb_spec m 0) as [->|Hm]; [cbn; lia|].
  assert (Hlt : N.log2 m < 64 * (N.log2 m / 64 + 1)).
  { pose proof (N.div_mod (N.log2 m) 64). pose proof (N.mod_lt (N.log2 m) 64). lia. }
  apply N.log2_lt_pow2; lia.
Qed.

Lemma int_payload fits m : fits = false -> 8 * (int_size fits m - xvalue_base - bigint_hdr) = 64 * u64_digits m.
Proof. intros ->. unfold int_size. lia. Qed.

Lemma str_payload bytes chars ascii : bytes <= str_size bytes chars ascii.
Proof. unfold str_size. lia. Qed.

(* containers: the record covers one pointer per element / key and one per value *)
Lemma seq_payload len : len * 8 <= seq_dyn len.
Proof. unfold seq_dyn. lia. Qed.
Lemma map_payload nb len : len * 16 <= map_dyn nb len.
Proof. unfold map_dyn. lia. Qed.
Lemma set_payload nb len : len * 8 <= set_dyn nb len.
Proof. unfold set_dyn. lia. Qed.
