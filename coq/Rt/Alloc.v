(* Model of the memory accounting of src/runtime.rs (allocate / deallocate / can_allocate_by) and of the
   recorded size of a managed value (src/xvalue.rs: ManagedXValue::new records what allocate returned,
   Drop gives exactly that back).  A run of the interpreter is abstracted to its sequence of accounting
   events; the limit enters only through the two guards. *)
From Coq Require Import NArith List Bool String Lia.
From Xr Require Import Base.Res.
Import ListNotations.
Open Scope N_scope.

Inductive ev :=
| EA (sz : N)     (* Runtime::allocate of a value whose byte_size is sz *)
| ED (sz : N)     (* Drop of a managed value whose recorded size is sz *)
| EC (sz : N).    (* can_allocate / can_afford / can_allocate_by with prospective size sz *)

Record st := mk { size : N; live : list N }.
Definition init : st := mk 0 [].

Fixpoint remove1 (x : N) (l : list N) : option (list N) :=
  match l with
  | [] => None
  | y :: r => if x =? y then Some r else option_map (cons y) (remove1 x r)
  end.

Definition sum (l : list N) : N := fold_right N.add 0 l.

(* one accounting event under size limit L; a failed guard leaves the state untouched *)
Definition step (L : N) (s : st) (e : ev) : res st :=
  match e with
  | EA sz => if size s + sz <=? L then Val (mk (size s + sz) (sz :: live s)) else Viol VAlloc
  | EC sz => if size s + sz <=? L then Val s else Viol VAlloc
  | ED sz =>
      match remove1 sz (live s) with
      | Some l' => if sz <=? size s then Val (mk (size s - sz) l') else Stuck "accounting underflow"
      | None => Stuck "deallocation of a value that is not live"
      end
  end.

(* run until the first failing guard: returns the state reached, the number of events consumed and the
   violation (if any) *)
Fixpoint run (L : N) (s : st) (evs : list ev) (n : N) : st * N * option (res unit) :=
  match evs with
  | [] => (s, n, None)
  | e :: r =>
      match step L s e with
      | Val s' => run L s' r (n + 1)
      | Viol v => (s, n, Some (Viol v))
      | Stuck w => (s, n, Some (Stuck w))
      | Err m => (s, n, Some (Err m))
      | Fuel => (s, n, Some Fuel)
      end
  end.

(* dropping every live value (the results of a run and its scope are released) *)
Definition drop_all (s : st) : list ev := map ED (live s).

(* recorded sizes (xvalue.rs XValue::size, lazy_bigint.rs additional_size, fenced_string.rs size);
   the two constants are size_of::<XValue>() and size_of::<BigInt>() on the 64-bit target *)
Definition xvalue_base : N := 32.
Definition bigint_hdr : N := 32.
Definition u64_digits (m : N) : N := if m =? 0 then 0 else N.log2 m / 64 + 1.
Definition int_size (fits_i64 : bool) (magnitude : N) : N :=
  xvalue_base + if fits_i64 then 0 else bigint_hdr + u64_digits magnitude * 8.
Definition fenced_hdr : N := 48.
Definition str_size (bytes chars : N) (ascii : bool) : N :=
  xvalue_base + fenced_hdr + bytes + (if ascii then 0 else chars * 8).

(* dynamic part of the recorded size of the native containers (dyn_size in sequence.rs, mapping.rs, set.rs):
   8 = size of an Rc pointer, 24 = size of a bucket (a Vec) *)
Definition seq_dyn (len : N) : N := len * 8.
Definition map_dyn (buckets len : N) : N := buckets * 24 + len * 8 + len * 8.
Definition set_dyn (buckets len : N) : N := (len + buckets + 2) * 8.
