(* Further budgeted loop shapes of the interpreter, each bounded in the same extensional sense as Rt/Budget.v:
   take_while (stops at the first failing element), nth match (counts matches), and group (accumulates a run of
   elements equal to the group's first element; the budget is drawn per consumed element, BEFORE accumulation). *)
From Coq Require Import List ZArith Arith Lia Bool.
From Xr Require Import Rt.Budget.
Import ListNotations.

Fixpoint take_while_len (ra : nat) (s : stream) (i : nat) (p : Z -> bool) (n : nat) : out nat :=
  match s i with
  | None => Done n
  | Some x => match ra with O => Viol | S ra' => if p x then take_while_len ra' s (S i) p (S n) else Done n end
  end.

Fixpoint nth_match (ra : nat) (s : stream) (i : nat) (p : Z -> bool) (k : nat) : out (option Z) :=
  match s i with
  | None => Done None
  | Some x =>
      match ra with
      | O => Viol
      | S ra' => if p x then (match k with O => Done (Some x) | S k' => nth_match ra' s (S i) p k' end) else nth_match ra' s (S i) p k
      end
  end.

(* first group: elements equal (under [eqf]) to the first one; returns its length *)
Fixpoint first_group_len (ra : nat) (s : stream) (i : nat) (eqf : Z -> Z -> bool) (key : option Z) (n : nat) : out nat :=
  match s i with
  | None => Done n
  | Some x =>
      match ra with
      | O => Viol
      | S ra' =>
          match key with
          | None => first_group_len ra' s (S i) eqf (Some x) 1
          | Some k => if eqf k x then first_group_len ra' s (S i) eqf key (S n) else Done n
          end
      end
  end.

Ltac local_step H :=
  let H0 := fresh "H0" in
  pose proof (H 0 (Nat.le_0_l _)) as H0; rewrite Nat.add_0_r in H0; rewrite <- H0.

Lemma shift_agree s s' i r : agree_upto s s' i (S r) -> agree_upto s s' (S i) r.
Proof. intros H k Hk. replace (S i + k) with (i + S k) by lia. apply H. lia. Qed.

Lemma take_while_local p : forall ra s s' i n, agree_upto s s' i ra -> take_while_len ra s i p n = take_while_len ra s' i p n.
Proof.
  induction ra as [|r IH]; intros s s' i n H; cbn; local_step H; destruct (s i) as [x|]; auto.
  destruct (p x); auto. apply IH. now apply shift_agree.
Qed.

Lemma nth_match_local p : forall ra s s' i k, agree_upto s s' i ra -> nth_match ra s i p k = nth_match ra s' i p k.
Proof.
  induction ra as [|r IH]; intros s s' i k H; cbn; local_step H; destruct (s i) as [x|]; auto.
  pose proof (shift_agree _ _ _ _ H) as H'. destruct (p x); [destruct k|]; auto.
Qed.

Lemma first_group_local eqf : forall ra s s' i key n, agree_upto s s' i ra ->
  first_group_len ra s i eqf key n = first_group_len ra s' i eqf key n.
Proof.
  induction ra as [|r IH]; intros s s' i key n H; cbn; local_step H; destruct (s i) as [x|]; auto.
  pose proof (shift_agree _ _ _ _ H) as H'. destruct key as [k|]; auto. destruct (eqf k x); auto.
Qed.

Theorem take_while_bounded La s s' p : (forall k, k <= La -> s k = s' k) -> take_while_len La s 0 p 0 = take_while_len La s' 0 p 0.
Proof. intro H. apply take_while_local. intros k Hk. now apply H. Qed.

Theorem nth_match_bounded La s s' p k : (forall j, j <= La -> s j = s' j) -> nth_match La s 0 p k = nth_match La s' 0 p k.
Proof. intro H. apply nth_match_local. intros j Hj. now apply H. Qed.

Theorem first_group_bounded La s s' eqf : (forall k, k <= La -> s k = s' k) ->
  first_group_len La s 0 eqf None 0 = first_group_len La s' 0 eqf None 0.
Proof. intro H. apply first_group_local. intros k Hk. now apply H. Qed.

(* an endless run of equal elements: the group adaptor ends in the violation instead of accumulating forever *)
Theorem endless_run_is_violation La c : first_group_len La (fun _ => Some c) 0 (fun a b => Z.eqb a b) None 0 = Viol.
Proof.
  assert (forall ra i key n, (key = None \/ key = Some c) -> first_group_len ra (fun _ => Some c) i (fun a b => Z.eqb a b) key n = Viol) as G.
  { induction ra as [|r IH]; intros i key n Hk; cbn; auto.
    destruct Hk as [-> | ->]. apply IH; auto. rewrite Z.eqb_refl. apply IH; auto. }
  apply G. auto.
Qed.
