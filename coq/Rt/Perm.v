(* Model of the permission mechanism (src/permissions.rs, runtime.rs check_permission, builtin_permissions.rs)
   and of effectful builtins as "guard ;; effect" sites.  An evaluation - whatever path led there (wrapper,
   closure, callback of a higher-order builtin, default parameter, lazily evaluated sequence element) -
   reaches the outside world only by executing effect sites of natives, in some order; it is abstracted to
   that sequence of sites. *)
From Coq Require Import String List Bool.
From Xr Require Import Base.Res.
Import ListNotations.
Open Scope string_scope.

Inductive perm := PNow | PPrint | PPrintDebug | PRandom | PRegex | PSleep.
Inductive eff := EWrite | EClock | ERng | ERegex | ESleep.

Definition perm_eqb (a b : perm) : bool :=
  match a, b with
  | PNow, PNow | PPrint, PPrint | PPrintDebug, PPrintDebug | PRandom, PRandom | PRegex, PRegex | PSleep, PSleep => true
  | _, _ => false
  end.

Definition perm_id (p : perm) : string :=
  match p with PNow => "now" | PPrint => "print" | PPrintDebug => "print_debug" | PRandom => "random"
             | PRegex => "regex" | PSleep => "sleep" end.

(* documented defaults: regex and sleep off, the others on *)
Definition default (p : perm) : bool :=
  match p with PRegex | PSleep => false | _ => true end.

Definition all_perms : list perm := [PNow; PPrint; PPrintDebug; PRandom; PRegex; PSleep].

(* PermissionSet: explicit settings override the default *)
Definition config := perm -> option bool.
Definition enabled (c : config) (p : perm) : bool :=
  match c p with Some b => b | None => default p end.

(* which permission an effect kind requires.  Writing is required by both print permissions; the site says which. *)
Record site := mk_site { s_guard : option perm; s_eff : eff }.

Definition eff_allowed_by (e : eff) (p : perm) : bool :=
  match e, p with
  | EWrite, PPrint | EWrite, PPrintDebug | EClock, PNow | ERng, PRandom | ERegex, PRegex | ESleep, PSleep => true
  | _, _ => false
  end.

Definition site_ok (s : site) : bool :=
  match s_guard s with Some p => eff_allowed_by (s_eff s) p | None => false end.

(* executing a sequence of sites: the guard runs first; a disabled permission ends the evaluation with the
   violation naming it, before the effect *)
Fixpoint run (c : config) (ss : list site) : list (perm * eff) * option perm :=
  match ss with
  | [] => ([], None)
  | s :: r =>
      match s_guard s with
      | Some p =>
          if enabled c p then let '(es, v) := run c r in ((p, s_eff s) :: es, v)
          else ([], Some p)
      | None => let '(es, v) := run c r in ((PNow, s_eff s) :: es, v)   (* an unguarded site: effect without check *)
      end
  end.
