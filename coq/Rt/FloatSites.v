(* kinds of places where the interpreter constructs a float value (see translator/floatsites.py) *)
Inductive site_kind :=
| KChecked      (* XValue::float : the checked constructor *)
| KLiteral      (* evaluation of a float literal the parser accepted *)
| KNeg          (* -a for a float value a *)
| KIntToFloat   (* to_float of an integer, guarded by a finiteness filter *)
| KJsonNumber   (* a number accepted by the JSON deserialiser (serde_json rejects non-finite numbers) *)
| KUnknown.

Definition site_known (k : site_kind) : bool := match k with KUnknown => false | _ => true end.
