(* C13: floats are always finite.  IEEE-754 binary64 is Flocq's [binary64]; the interpreter's float operations
   are the Flocq operations in round-to-nearest-even followed by the checked constructor. *)
From Coq Require Import ZArith Bool String List.
From Flocq Require Import IEEE754.BinarySingleNaN IEEE754.Binary IEEE754.Bits.
From Xr Require Import Base.Res Rt.FloatSites.
Import ListNotations.

Definition f64 := binary64.
Definition finite (x : f64) : bool := is_finite 53 1024 x.

(* XValue::float *)
Definition mkfloat (x : f64) : res f64 :=
  if finite x then Val x else Err "floating-point operation resulted in infinite value".

Definition fadd (a b : f64) : res f64 := mkfloat (b64_plus BinarySingleNaN.mode_NE a b).
Definition fsub (a b : f64) : res f64 := mkfloat (b64_minus BinarySingleNaN.mode_NE a b).
Definition fmul (a b : f64) : res f64 := mkfloat (b64_mult BinarySingleNaN.mode_NE a b).
Definition is_zero (x : f64) : bool := match x with B754_zero _ _ _ => true | _ => false end.
Definition fdiv (a b : f64) : res f64 :=
  if is_zero b then Err "division by zero" else mkfloat (b64_div BinarySingleNaN.mode_NE a b).
Definition fneg (a : f64) : f64 := b64_opp a.        (* direct construction: XValue::Float(-a) *)
Definition fsqrt (a : f64) : res f64 :=
  match a with
  | B754_finite _ _ true _ _ _ => Err "cannot find square root of negative number"
  | _ => mkfloat (b64_sqrt BinarySingleNaN.mode_NE a)
  end.

(* what each kind of construction site yields, given finite inputs *)
Definition site_output (k : site_kind) (input : f64) : res f64 :=
  match k with
  | KChecked => mkfloat input
  | KLiteral | KIntToFloat | KJsonNumber => if finite input then Val input else Err "rejected"
  | KNeg => Val (fneg input)
  | KUnknown => Val input
  end.

(* rendering for the correspondence: the bit pattern *)
Definition show_bits (r : res f64) : res Z := match r with Val x => Val (bits_of_b64 x) | Err m => Err m | Viol v => Viol v | Stuck w => Stuck w | Fuel => Fuel end.
