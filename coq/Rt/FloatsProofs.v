From Coq Require Import ZArith Bool String List.
From Flocq Require Import IEEE754.BinarySingleNaN IEEE754.Binary IEEE754.Bits.
From Xr Require Import Base.Res Rt.FloatSites Rt.Floats.
Import ListNotations.

Lemma mkfloat_finite x y : mkfloat x = Val y -> finite y = true.
Proof. unfold mkfloat. destruct (finite x) eqn:E; [|discriminate]. intros H. injection H as <-. exact E. Qed.

Lemma fneg_finite x : finite x = true -> finite (fneg x) = true.
Proof. intros H. unfold finite, fneg, b64_opp. rewrite is_finite_Bopp. exact H. Qed.

Lemma fabs_finite x : finite x = true -> finite (b64_abs x) = true.
Proof. intros H. unfold finite, b64_abs. rewrite is_finite_Babs. exact H. Qed.

Lemma op_finite (r : res f64) x y : (r = mkfloat x) -> r = Val y -> finite y = true.
Proof. intros -> H. eapply mkfloat_finite; eauto. Qed.

Lemma fadd_finite a b y : fadd a b = Val y -> finite y = true.
Proof. apply mkfloat_finite. Qed.
Lemma fsub_finite a b y : fsub a b = Val y -> finite y = true.
Proof. apply mkfloat_finite. Qed.
Lemma fmul_finite a b y : fmul a b = Val y -> finite y = true.
Proof. apply mkfloat_finite. Qed.
Lemma fdiv_finite a b y : fdiv a b = Val y -> finite y = true.
Proof. unfold fdiv. destruct (is_zero b); [discriminate|]. apply mkfloat_finite. Qed.
Lemma fsqrt_finite a y : fsqrt a = Val y -> finite y = true.
Proof. unfold fsqrt. destruct a as [| | |[] ? ? ?]; try discriminate; apply mkfloat_finite. Qed.

(* every known kind of construction site yields a finite float from finite inputs, or no float at all *)
Lemma site_output_finite k x y : site_known k = true -> finite x = true \/ k <> KNeg ->
  site_output k x = Val y -> finite y = true.
Proof.
  intros Hk Hin. destruct k; cbn [site_output]; try discriminate.
  - apply mkfloat_finite.
  - destruct (finite x) eqn:E; [|discriminate]. intros H. injection H as <-. exact E.
  - intros H. injection H as <-. destruct Hin as [Hx|Hne]; [now apply fneg_finite|congruence].
  - destruct (finite x) eqn:E; [|discriminate]. intros H. injection H as <-. exact E.
  - destruct (finite x) eqn:E; [|discriminate]. intros H. injection H as <-. exact E.
Qed.

(* the language invariant: a state is a collection of float values; every step adds the output of a known
   site applied to an arbitrary candidate (for negation: to a float already in the state); all floats stay finite *)
Inductive step : list f64 -> list f64 -> Prop :=
| step_site k x y st : site_known k = true -> (k = KNeg -> In x st) -> site_output k x = Val y -> step st (y :: st)
| step_fail k x st m : site_output k x = Err m -> step st st.

Inductive reach : list f64 -> Prop :=
| reach_init : reach []
| reach_step st st' : reach st -> step st st' -> reach st'.

Theorem all_reachable_floats_finite st : reach st -> Forall (fun x => finite x = true) st.
Proof.
  induction 1 as [|st st' Hr IH Hs]; [constructor|].
  destruct Hs as [k x y st Hk Hneg Hout | k x st m Hout]; [|exact IH].
  constructor; [|exact IH].
  eapply site_output_finite; eauto.
  destruct k; try (right; discriminate).
  left. rewrite Forall_forall in IH. apply IH. now apply Hneg.
Qed.
