From Coq Require Import String List Bool.
From Xr Require Import Base.Res Rt.Perm.
Import ListNotations.

(* every effect that happens was performed under an enabled permission that covers it *)
Lemma run_effects_permitted c : forall ss es v, forallb site_ok ss = true -> run c ss = (es, v) ->
  Forall (fun pe => enabled c (fst pe) = true /\ eff_allowed_by (snd pe) (fst pe) = true) es.
Proof.
  induction ss as [|s r IH]; intros es v Hok H; cbn [run] in H.
  - injection H as <- _. constructor.
  - cbn [forallb] in Hok. apply andb_true_iff in Hok. destruct Hok as [Hs Hr].
    unfold site_ok in Hs. destruct (s_guard s) as [p|] eqn:G; [|discriminate].
    destruct (enabled c p) eqn:E.
    + destruct (run c r) as [es' v'] eqn:R. injection H as <- _.
      constructor; [split; assumption|]. eapply IH; eauto.
    + injection H as <- _. constructor.
Qed.

(* the violation names a disabled permission: the guard of the first site whose permission is off;
   nothing of that site (nor of any later one) has happened *)
Lemma run_violation_names c : forall ss es p, forallb site_ok ss = true -> run c ss = (es, Some p) ->
  enabled c p = false /\
  exists pre s post, ss = (pre ++ s :: post)%list /\ s_guard s = Some p /\ List.length es = List.length pre /\
    Forall (fun s' => exists q, s_guard s' = Some q /\ enabled c q = true) pre.
Proof.
  induction ss as [|s r IH]; intros es p Hok H; cbn [run] in H; [discriminate|].
  cbn [forallb] in Hok. apply andb_true_iff in Hok. destruct Hok as [Hs Hr].
  unfold site_ok in Hs. destruct (s_guard s) as [q|] eqn:G; [|discriminate].
  destruct (enabled c q) eqn:E.
  - destruct (run c r) as [es' v'] eqn:R. injection H as <- ->.
    destruct (IH es' p Hr eq_refl) as [Hd (pre & s0 & post & -> & Hg & Hl & Hall)].
    split; auto. exists (s :: pre), s0, post. repeat split; auto.
    + cbn. now rewrite Hl.
    + constructor; eauto.
  - injection H as <- <-. split; auto. exists [], s, r. repeat split; auto.
Qed.

(* no violation: every site's permission was enabled and every effect happened *)
Lemma run_complete c : forall ss es, forallb site_ok ss = true -> run c ss = (es, None) ->
  map snd es = map s_eff ss.
Proof.
  induction ss as [|s r IH]; intros es Hok H; cbn [run] in H.
  - injection H as <-. reflexivity.
  - cbn [forallb] in Hok. apply andb_true_iff in Hok. destruct Hok as [Hs Hr].
    unfold site_ok in Hs. destruct (s_guard s) as [q|] eqn:G; [|discriminate].
    destruct (enabled c q) eqn:E; [|discriminate].
    destruct (run c r) as [es' v'] eqn:R. injection H as <- ->. cbn [map snd]. f_equal. now apply IH.
Qed.

(* an effect kind whose permission is disabled never happens *)
Lemma disabled_never_happens c ss es v e :
  forallb site_ok ss = true -> run c ss = (es, v) ->
  (forall p, eff_allowed_by e p = true -> enabled c p = false) -> ~ In e (map snd es).
Proof.
  intros Hok H Hdis Hin. pose proof (run_effects_permitted c ss es v Hok H) as Hall.
  apply in_map_iff in Hin. destruct Hin as [[p e'] [He Hin]]. cbn in He. subst e'.
  rewrite Forall_forall in Hall. destruct (Hall _ Hin) as [Hen Hal]. cbn in *.
  rewrite (Hdis p Hal) in Hen. discriminate.
Qed.
