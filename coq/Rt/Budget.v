(* The search budget (runtime.rs search_iter, core.rs search, generators.rs iter): every examination of an element by a
   native loop draws one unit; the draw after the L-th is the MaximumSearch violation.  A source is a possibly infinite
   stream.  "Work is bounded by the limit" is stated extensionally: the outcome of a budgeted loop is a function of the
   first L+1 elements of the stream only - so it cannot depend on, or wait for, anything beyond them. *)
From Coq Require Import List ZArith Arith Lia Bool.
Import ListNotations.

Definition stream := nat -> option Z.          (* element number i; None = exhausted (and stays so) *)
Inductive out (A : Type) := Done (a : A) | Viol.
Arguments Done {A} a.
Arguments Viol {A}.

(* a consumer loop: [step acc x] returns the new accumulator and whether to stop *)
Fixpoint loop {A} (rem : nat) (s : stream) (i : nat) (acc : A) (step : A -> Z -> A * bool) : out A :=
  match s i with
  | None => Done acc
  | Some x =>
      match rem with
      | O => Viol
      | S r => let (acc', stop) := step acc x in if stop then Done acc' else loop r s (S i) acc' step
      end
  end.
Definition search {A} (L : nat) (s : stream) (acc : A) (step : A -> Z -> A * bool) : out A := loop L s 0 acc step.

(* len of a generator; nth match of a predicate; last element: instances used by the correspondence *)
Definition gen_len (L : nat) (s : stream) : out nat := search L s 0 (fun n _ => (S n, false)).
Definition gen_first (L : nat) (s : stream) (p : Z -> bool) : out (option Z) :=
  search L s None (fun _ x => if p x then (Some x, true) else (None, false)).

(* an adaptor with an inner loop (filter) under a consumer (len): the adaptor draws for every element it examines, the
   consumer for every element it receives *)
Fixpoint filter_len (ra rc : nat) (s : stream) (i : nat) (p : Z -> bool) (n : nat) : out nat :=
  match s i with
  | None => Done n
  | Some x =>
      match ra with
      | O => Viol
      | S ra' =>
          if p x then (match rc with O => Viol | S rc' => filter_len ra' rc' s (S i) p (S n) end)
          else filter_len ra' rc s (S i) p n
      end
  end.

(* skip_until p then get(0): the adaptor's skipping loop draws for every skipped element and for the match *)
Fixpoint skip_until_first (ra : nat) (s : stream) (i : nat) (p : Z -> bool) : out (option Z) :=
  match s i with
  | None => Done None
  | Some x => match ra with O => Viol | S ra' => if p x then Done (Some x) else skip_until_first ra' s (S i) p end
  end.

Definition agree_upto (s s' : stream) (i n : nat) : Prop := forall k, k <= n -> s (i + k) = s' (i + k).

Lemma loop_local {A} (step : A -> Z -> A * bool) : forall rem s s' i acc,
  agree_upto s s' i rem -> loop rem s i acc step = loop rem s' i acc step.
Proof.
  induction rem as [|r IH]; intros s s' i acc H; cbn.
  - pose proof (H 0 (Nat.le_refl 0)) as H0. rewrite Nat.add_0_r in H0. rewrite <- H0. destruct (s i); reflexivity.
  - pose proof (H 0 (Nat.le_0_l _)) as H0. rewrite Nat.add_0_r in H0. rewrite <- H0. destruct (s i) as [x|]; auto.
    destruct (step acc x) as [acc' stop]. destruct stop; auto. apply IH.
    intros k Hk. replace (S i + k) with (i + S k) by lia. apply H. lia.
Qed.

(* bounded work: the outcome under limit L depends on the first L+1 elements only *)
Theorem search_bounded {A} L s s' (acc : A) step :
  (forall k, k <= L -> s k = s' k) -> search L s acc step = search L s' acc step.
Proof. intro H. apply loop_local. intros k Hk. now apply H. Qed.

(* transparency: a loop that completed under a limit completes with the same result under every larger limit *)
Lemma loop_mono {A} (step : A -> Z -> A * bool) : forall rem s i acc r,
  loop rem s i acc step = Done r -> forall rem', rem <= rem' -> loop rem' s i acc step = Done r.
Proof.
  induction rem as [|n IH]; intros s i acc r H rem' Hle; cbn in H.
  - destruct (s i) eqn:E; try discriminate. destruct rem'; cbn; rewrite E; exact H.
  - destruct rem' as [|m]; try lia. cbn. destruct (s i) as [x|]; auto.
    destruct (step acc x) as [acc' stop]. destruct stop; auto. eapply IH; eauto. lia.
Qed.

Theorem search_transparent {A} L L' s (acc : A) step r :
  search L s acc step = Done r -> L <= L' -> search L' s acc step = Done r.
Proof. intros H Hle. eapply loop_mono; eauto. Qed.

(* exactness: a stream with more than L elements that never satisfies the stop condition is a violation, whatever follows *)
Lemma loop_viol {A} (step : A -> Z -> A * bool) : forall rem s i acc,
  (forall k, k <= rem -> s (i + k) <> None) -> (forall a x, snd (step a x) = false) -> loop rem s i acc step = Viol.
Proof.
  induction rem as [|n IH]; intros s i acc Hs Hn; cbn.
  - specialize (Hs 0 (Nat.le_refl 0)). rewrite Nat.add_0_r in Hs. destruct (s i); congruence.
  - pose proof (Hs 0 (Nat.le_0_l _)) as H0. rewrite Nat.add_0_r in H0. destruct (s i) as [x|]; try congruence.
    specialize (Hn acc x) as Hx. destruct (step acc x) as [acc' stop]. cbn in Hx. subst. apply IH; auto.
    intros k Hk. replace (S i + k) with (i + S k) by lia. apply Hs. lia.
Qed.

Theorem len_of_long_stream_is_violation L s : (forall k, k <= L -> s k <> None) -> gen_len L s = Viol.
Proof. intro H. apply loop_viol; auto. Qed.

(* the adaptor loops are bounded in the same sense *)
Lemma filter_len_local p : forall ra rc s s' i n,
  agree_upto s s' i ra -> filter_len ra rc s i p n = filter_len ra rc s' i p n.
Proof.
  induction ra as [|r IH]; intros rc s s' i n H; cbn.
  - pose proof (H 0 (Nat.le_refl 0)) as H0. rewrite Nat.add_0_r in H0. rewrite <- H0. destruct (s i); reflexivity.
  - pose proof (H 0 (Nat.le_0_l _)) as H0. rewrite Nat.add_0_r in H0. rewrite <- H0. destruct (s i) as [x|]; auto.
    assert (agree_upto s s' (S i) r) as H'.
    { intros k Hk. replace (S i + k) with (i + S k) by lia. apply H. lia. }
    destruct (p x). destruct rc; auto. auto.
Qed.

Theorem filter_len_bounded La Lc s s' p :
  (forall k, k <= La -> s k = s' k) -> filter_len La Lc s 0 p 0 = filter_len La Lc s' 0 p 0.
Proof. intro H. apply filter_len_local. intros k Hk. now apply H. Qed.

Lemma skip_until_local p : forall ra s s' i, agree_upto s s' i ra -> skip_until_first ra s i p = skip_until_first ra s' i p.
Proof.
  induction ra as [|r IH]; intros s s' i H; cbn.
  - pose proof (H 0 (Nat.le_refl 0)) as H0. rewrite Nat.add_0_r in H0. rewrite <- H0. destruct (s i); reflexivity.
  - pose proof (H 0 (Nat.le_0_l _)) as H0. rewrite Nat.add_0_r in H0. rewrite <- H0. destruct (s i) as [x|]; auto.
    destruct (p x); auto. apply IH. intros k Hk. replace (S i + k) with (i + S k) by lia. apply H. lia.
Qed.

Theorem skip_until_bounded La s s' p :
  (forall k, k <= La -> s k = s' k) -> skip_until_first La s 0 p = skip_until_first La s' 0 p.
Proof. intro H. apply skip_until_local. intros k Hk. now apply H. Qed.

(* a predicate that never matches over an endless stream: the adaptor ends in the violation (it does not spin) *)
Theorem filter_never_on_endless_is_violation La Lc s :
  (forall k, s k <> None) -> filter_len La Lc s 0 (fun _ => false) 0 = Viol.
Proof.
  intro H. assert (forall ra i n, filter_len ra Lc s i (fun _ => false) n = Viol) as G.
  { induction ra as [|r IH]; intros i n; cbn; pose proof (H i) as Hi; destruct (s i); try congruence; auto. }
  apply G.
Qed.

(* streams for the correspondence *)
Definition s_range (n : nat) : stream := fun i => if i <? n then Some (Z.of_nat i) else None.
Definition s_count : stream := fun i => Some (Z.of_nat i).
