(* Executable helpers for the JSON correspondence (C20): order-insensitive comparison of documents
   (an object is a finite map: the interpreter keeps it in a hashed mapping, so the member order of its output is
   not the order of the model) and result strings for the check driver. *)
From Coq Require Import List ZArith Bool String.
From Xr Require Import Conv.Json.
Import ListNotations.
Open Scope Z_scope.

Fixpoint lex_le (a b : list Z) : bool :=
  match a, b with
  | [], _ => true
  | _ :: _, [] => false
  | x :: r, y :: s => if x <? y then true else if y <? x then false else lex_le r s
  end.
Fixpoint keq (a b : list Z) : bool :=
  match a, b with
  | [], [] => true
  | x :: r, y :: s => (x =? y) && keq r s
  | _, _ => false
  end.

Fixpoint insert_member (p : list Z * json) (l : list (list Z * json)) : list (list Z * json) :=
  match l with
  | [] => [p]
  | q :: r => if keq (fst p) (fst q) then p :: r          (* a later duplicate replaces the earlier member *)
              else if lex_le (fst p) (fst q) then p :: l else q :: insert_member p r
  end.

Fixpoint jcanon (v : json) : json :=
  match v with
  | JArr l => JArr (map jcanon l)
  | JObj l => JObj (fold_left (fun acc p => insert_member (fst p, jcanon (snd p)) acc) l [])
  | _ => v
  end.

Definition dec_eqb (a b : dec) : bool := Bool.eqb (dneg a) (dneg b) && keq (dds a) (dds b) && (dk a =? dk b).

Fixpoint jeqb (a b : json) : bool :=
  match a, b with
  | JNull, JNull => true
  | JBool x, JBool y => Bool.eqb x y
  | JNum x, JNum y => dec_eqb x y
  | JStr x, JStr y => keq x y
  | JArr l1, JArr l2 =>
      (fix go (l1 l2 : list json) : bool :=
         match l1, l2 with [], [] => true | x :: r, y :: s => jeqb x y && go r s | _, _ => false end) l1 l2
  | JObj l1, JObj l2 =>
      (fix go (l1 : list (list Z * json)) (l2 : list (list Z * json)) : bool :=
         match l1, l2 with
         | [], [] => true
         | (k1, x) :: r, (k2, y) :: s => keq k1 k2 && jeqb x y && go r s
         | _, _ => false
         end) l1 l2
  | _, _ => false
  end.

Definition jequiv (a b : json) : bool := jeqb (jcanon a) (jcanon b).

Open Scope string_scope.
(* the interpreter's serialisation of v:  exact = the model's text; equiv = another member order of the same document *)
Definition jcheck_ser (v : json) (impl : list Z) : string :=
  if keq (jser v) impl then "exact"
  else match jparse impl with
       | Some w => if jequiv v w then "equiv" else "DIFFERENT-DOCUMENT"
       | None => "NOT-JSON"
       end.
(* a text (any spelling) read by the model *)
Definition jcheck_read (txt : list Z) (expect : json) : string :=
  match jparse txt with
  | Some w => if jequiv expect w then "same" else "DIFFERENT-DOCUMENT"
  | None => "rejected"
  end.
Definition jcheck_accepts (txt : list Z) : string :=
  match jparse txt with Some _ => "accepted" | None => "rejected" end.
