(* Model of the Fraction functions of include.rs (after the exact-division fix): fraction(n, d) normalises by the
   gcd and moves the sign to the numerator; arithmetic builds the raw result and normalises it. *)
From Coq Require Import ZArith String.
From Xr Require Import Base.Res.
Open Scope Z_scope.

Record frac := mkf { fnum : Z; fden : Z }.

Definition fraction (n d : Z) : res frac :=
  if d =? 0 then Err "fraction with a zero denominator"
  else let g := Z.gcd n d in Val (mkf (n / g * Z.sgn d) (Z.abs d / g)).

Definition fadd (a b : frac) := fraction (fnum a * fden b + fnum b * fden a) (fden a * fden b).
Definition fsub (a b : frac) := fraction (fnum a * fden b - fnum b * fden a) (fden a * fden b).
Definition fmul (a b : frac) := fraction (fnum a * fnum b) (fden a * fden b).
Definition fdiv (a b : frac) := fraction (fnum a * fden b) (fden a * fnum b).
(* pow(Fraction, int): a negative exponent inverts (zero base: the error of a zero denominator); the result is normalised *)
Definition fpow (a : frac) (b : Z) : res frac :=
  if andb (b =? 0) (fnum a =? 0) then Err "cannot raise zero to a zero power" else     (* the integer 0 ** 0 is an error *)
  if 0 <=? b then fraction (fnum a ^ b) (fden a ^ b) else fraction (fden a ^ (- b)) (fnum a ^ (- b)).
Definition fneg (a : frac) : frac := mkf (- fnum a) (fden a).
Definition fcmp (a b : frac) : Z := fnum a * fden b - fnum b * fden a.
Definition feq (a b : frac) : bool := (fnum a =? fnum b) && (fden a =? fden b).
Definition ffloor (a : frac) : Z := fnum a / fden a.
Definition fceil (a : frac) : Z := - ((- fnum a) / fden a).

Definition canonical (f : frac) : Prop := Z.gcd (fnum f) (fden f) = 1 /\ 0 < fden f.
