(* Model of the calendar functions of include.rs (date, julian_day, weekday, datetime, unix): integer arithmetic
   with floored division and floored modulo, as the code computes them (div_floor and % on ints). *)
From Coq Require Import ZArith List Bool.
Import ListNotations.
Open Scope Z_scope.

Record date := mkdate { year : Z; month : Z; day : Z }.

Definition date_of (jd : Z) : date :=
  let f := jd + 1401 + ((4 * jd + 274277) / 146097 * 3) / 4 - 38 in
  let e := 4 * f + 3 in
  let g := (e mod 1461) / 4 in
  let h := 5 * g + 2 in
  let days := (h mod 153) / 5 + 1 in
  let months := (h / 153 + 2) mod 12 + 1 in
  let years := e / 1461 - 4716 + (14 - months) / 12 in
  mkdate years months days.

Definition julian_day (d : date) : Z :=
  let a := (14 - month d) / 12 in
  let y := year d + 4800 - a in
  let m := month d + 12 * a - 3 in
  day d + (153 * m + 2) / 5 + y * 365 + y / 4 - y / 100 + y / 400 - 32045.

Definition weekday (d : date) : Z := julian_day d mod 7.

Definition is_leap (y : Z) : bool := ((y mod 4 =? 0) && negb (y mod 100 =? 0)) || (y mod 400 =? 0).
Definition days_in_month (y m : Z) : Z :=
  if m =? 2 then (if is_leap y then 29 else 28)
  else if (m =? 4) || (m =? 6) || (m =? 9) || (m =? 11) then 30 else 31.
Definition valid_date (d : date) : bool :=
  (1 <=? month d) && (month d <=? 12) && (1 <=? day d) && (day d <=? days_in_month (year d) (month d)).

Definition date_eqb (a b : date) : bool := (year a =? year b) && (month a =? month b) && (day a =? day b).
Definition shift400 (d : date) (k : Z) : date := mkdate (year d + 400 * k) (month d) (day d).

(* datetime / unix for an integral number of seconds t (the float arithmetic of the code is exact there) *)
Record datetime := mkdt { dt_date : date; hours : Z; minutes : Z; seconds : Z }.
Definition epoch_jd : Z := julian_day (mkdate 1970 1 1).
Definition datetime_of (t : Z) : datetime :=
  let s := t mod 60 in
  let u := t / 60 in
  let mi := u mod 60 in
  let u := u / 60 in
  let h := u mod 24 in
  let u := u / 24 in
  mkdt (date_of (u + epoch_jd)) h mi s.
Definition unix (d : datetime) : Z :=
  (julian_day (dt_date d) - epoch_jd) * 86400 + hours d * 60 * 60 + minutes d * 60 + seconds d.
