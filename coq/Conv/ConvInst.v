From Coq Require Import List ZArith Bool String.
From Xr Require Import Base.Res Base.Show Conv.Dates Conv.Fractions.
Import ListNotations.
Open Scope string_scope.

Definition show_date (d : date) : string :=
  "Date(" ++ show_Z (year d) ++ ", " ++ show_Z (month d) ++ ", " ++ show_Z (day d) ++ ")".
Definition show_dt (d : datetime) : string :=
  "Datetime(" ++ show_date (dt_date d) ++ ", " ++ show_Z (hours d) ++ ", " ++ show_Z (minutes d) ++ ", " ++ show_Z (seconds d) ++ ")".
Definition show_frac (f : frac) : string := "(" ++ show_Z (fnum f) ++ ", " ++ show_Z (fden f) ++ ")".
Definition rfrac (r : res frac) : string := show_res show_frac r.
Definition F (n d : Z) : frac := mkf n d.

(* text in base b (digits 0-9a-z, most significant first) -> integer ; str.to_int(base) *)
Definition digit_val (c : Z) : option Z :=
  if ((48 <=? c)%Z && (c <=? 57)%Z)%bool then Some (c - 48)%Z
  else if ((97 <=? c)%Z && (c <=? 122)%Z)%bool then Some (c - 87)%Z
  else if ((65 <=? c)%Z && (c <=? 90)%Z)%bool then Some (c - 55)%Z else None.
Fixpoint parse_digits (l : list Z) (b acc : Z) : res Z :=
  match l with
  | [] => Val acc
  | c :: r => match digit_val c with
              | Some v => if (v <? b)%Z then parse_digits r b (acc * b + v)%Z else Err "invalid digit found in string"
              | None => Err "invalid digit found in string"
              end
  end.
Definition to_int (l : list Z) (b : Z) : res Z :=
  if (b <? 2)%Z then Err "base must be larger than 1" else if (36 <? b)%Z then Err "base must be lower than 36" else
  match l with
  | [] => Err "cannot parse integer from empty string"
  | 45 :: r => match r with [] => Err "invalid digit found in string" | _ => do v <- parse_digits r b 0%Z; Val (- v)%Z end
  | 43 :: r => match r with [] => Err "invalid digit found in string" | _ => parse_digits r b 0%Z end
  | _ => parse_digits l b 0%Z
  end.
