(* JSON (C20): model of the serialiser (src/builtin/include.rs `serialize`, src/builtin/json.rs
   `__std_json_serialize_str` = serde_json's string escaping, float text = Rust's `{:?}` layout of the
   shortest decimal) and of an RFC 8259 reader with serde_json's particulars (recursion limit 128, control
   characters rejected inside strings, lone surrogates rejected, no leading zeros).
   Texts are lists of code points.  A number is the canonical decimal the float prints as:
   sign, significant digits (no leading / trailing zero) and the position of the decimal point:
   value = 0.d1 d2 ... dn * 10^dk ; zero has no digits.  The step float -> shortest decimal (Grisu / Ryu in the
   Rust standard library) is NOT modelled: the correspondence supplies the decimal of every float it uses. *)
From Coq Require Import List ZArith NArith Bool Lia Decimal DecimalN.
Import ListNotations.
Open Scope Z_scope.

Record dec := mkd { dneg : bool; dds : list Z; dk : Z }.
Definition dzero : dec := mkd false [] 0.

Inductive json :=
| JNull | JBool (b : bool) | JNum (d : dec) | JStr (s : list Z)
| JArr (l : list json) | JObj (l : list (list Z * json)).

(* ------------------------------------------------------------------ decimal text of integers (exponents) *)
Fixpoint uint_list (u : uint) : list Z :=
  match u with
  | Nil => [] | D0 r => 0 :: uint_list r | D1 r => 1 :: uint_list r | D2 r => 2 :: uint_list r
  | D3 r => 3 :: uint_list r | D4 r => 4 :: uint_list r | D5 r => 5 :: uint_list r | D6 r => 6 :: uint_list r
  | D7 r => 7 :: uint_list r | D8 r => 8 :: uint_list r | D9 r => 9 :: uint_list r
  end.
Definition digit_uint (d : Z) (r : uint) : uint :=
  match d with
  | 0 => D0 r | 1 => D1 r | 2 => D2 r | 3 => D3 r | 4 => D4 r | 5 => D5 r | 6 => D6 r | 7 => D7 r | 8 => D8 r
  | _ => D9 r
  end.
Fixpoint list_uint (l : list Z) : uint :=
  match l with [] => Nil | d :: r => digit_uint d (list_uint r) end.
(* digits (values 0..9, most significant first) of a non-negative integer, and back *)
Definition nat_digits (n : Z) : list Z := uint_list (N.to_uint (Z.to_N n)).
Definition digits_val (l : list Z) : Z := Z.of_N (N.of_uint (list_uint l)).

Definition chr_of_digit (d : Z) : Z := 48 + d.
Definition is_digit (c : Z) : bool := (48 <=? c) && (c <=? 57).

(* ------------------------------------------------------------------ serialiser *)
Definition zeros (n : nat) : list Z := repeat 0 n.
Definition dchars (ds : list Z) : list Z := map chr_of_digit ds.

Definition ser_exp (x : Z) : list Z :=
  (if x <? 0 then [45] else []) ++ dchars (nat_digits (Z.abs x)).

(* Rust `{:?}` of an f64: exponential below 1e-4 and from 1e16 on, positional (at least one fractional digit)
   in between; -0.0 is printed as 0.0 by to_str *)
Definition ser_num (d : dec) : list Z :=
  match dds d with
  | [] => [48; 46; 48]
  | d1 :: more =>
      let n := Z.of_nat (length (dds d)) in
      let k := dk d in
      (if dneg d then [45] else []) ++
      (if (k <? -3) || (17 <=? k) then
         chr_of_digit d1 :: (match more with [] => [] | _ => 46 :: dchars more end) ++ 101 :: ser_exp (k - 1)
       else if k <=? 0 then 48 :: 46 :: dchars (zeros (Z.to_nat (- k)) ++ dds d)
       else if n <=? k then dchars (dds d ++ zeros (Z.to_nat (k - n))) ++ [46; 48]
       else dchars (firstn (Z.to_nat k) (dds d)) ++ 46 :: dchars (skipn (Z.to_nat k) (dds d)))
  end.

Definition hexd (v : Z) : Z := if v <? 10 then 48 + v else 87 + v.
(* serde_json: backslash escapes for the quote, the backslash and b f n r t; other control characters as u00xx (lower case); everything else verbatim *)
Definition esc_char (c : Z) : list Z :=
  if c =? 34 then [92; 34] else if c =? 92 then [92; 92]
  else if c =? 8 then [92; 98] else if c =? 12 then [92; 102] else if c =? 10 then [92; 110]
  else if c =? 13 then [92; 114] else if c =? 9 then [92; 116]
  else if c <? 32 then [92; 117; 48; 48; hexd (c / 16); hexd (c mod 16)]
  else [c].
Definition ser_str (s : list Z) : list Z := 34 :: flat_map esc_char s ++ [34].

Definition t_null := [110; 117; 108; 108].
Definition t_true := [116; 114; 117; 101].
Definition t_false := [102; 97; 108; 115; 101].

Fixpoint jser (v : json) : list Z :=
  match v with
  | JNull => t_null
  | JBool b => if b then t_true else t_false
  | JNum d => ser_num d
  | JStr s => ser_str s
  | JArr l =>
      91 :: match l with
            | [] => []
            | x :: r => jser x ++ (fix tl (r : list json) : list Z :=
                                     match r with [] => [] | y :: r' => 44 :: jser y ++ tl r' end) r
            end ++ [93]
  | JObj l =>
      123 :: match l with
             | [] => []
             | (k, x) :: r => ser_str k ++ 58 :: jser x ++
                               (fix tl (r : list (list Z * json)) : list Z :=
                                  match r with [] => [] | (k', y) :: r' => 44 :: ser_str k' ++ 58 :: jser y ++ tl r' end) r
             end ++ [125]
  end.

(* the two inner loops, named, for the proofs (jser unfolds to them) *)
Fixpoint ser_tail (r : list json) : list Z :=
  match r with [] => [] | y :: r' => 44 :: jser y ++ ser_tail r' end.
Fixpoint ser_mtail (r : list (list Z * json)) : list Z :=
  match r with [] => [] | (k', y) :: r' => 44 :: ser_str k' ++ 58 :: jser y ++ ser_mtail r' end.

(* ------------------------------------------------------------------ reader *)
Definition isws (c : Z) : bool := (c =? 32) || (c =? 9) || (c =? 10) || (c =? 13).
Fixpoint skipws (s : list Z) : list Z :=
  match s with c :: r => if isws c then skipws r else s | [] => [] end.

Definition hexv (c : Z) : option Z :=
  if (48 <=? c) && (c <=? 57) then Some (c - 48)
  else if (97 <=? c) && (c <=? 102) then Some (c - 87)
  else if (65 <=? c) && (c <=? 70) then Some (c - 55) else None.
Definition hex4 (a b c d : Z) : option Z :=
  match hexv a, hexv b, hexv c, hexv d with
  | Some a, Some b, Some c, Some d => Some (((a * 16 + b) * 16 + c) * 16 + d)
  | _, _, _, _ => None
  end.
Definition is_high (u : Z) : bool := (55296 <=? u) && (u <=? 56319).
Definition is_low (u : Z) : bool := (56320 <=? u) && (u <=? 57343).
Definition simple_esc (e : Z) : option Z :=
  if e =? 34 then Some 34 else if e =? 92 then Some 92 else if e =? 47 then Some 47
  else if e =? 98 then Some 8 else if e =? 102 then Some 12 else if e =? 110 then Some 10
  else if e =? 114 then Some 13 else if e =? 116 then Some 9 else None.

(* string body after the opening quote *)
Fixpoint pstr (s : list Z) : option (list Z * list Z) :=
  match s with
  | [] => None
  | c :: r =>
      if c =? 34 then Some ([], r)
      else if c =? 92 then
        match r with
        | [] => None
        | e :: r1 =>
            if e =? 117 then
              match r1 with
              | h1 :: h2 :: h3 :: h4 :: r2 =>
                  match hex4 h1 h2 h3 h4 with
                  | None => None
                  | Some u =>
                      if is_high u then
                        match r2 with
                        | b :: u' :: l1 :: l2 :: l3 :: l4 :: r3 =>
                            if (b =? 92) && (u' =? 117) then
                              match hex4 l1 l2 l3 l4 with
                              | Some lo =>
                                  if is_low lo then
                                    match pstr r3 with
                                    | Some (t, rest) => Some ((65536 + (u - 55296) * 1024 + (lo - 56320)) :: t, rest)
                                    | None => None
                                    end
                                  else None
                              | None => None
                              end
                            else None
                        | _ => None
                        end
                      else if is_low u then None
                      else match pstr r2 with Some (t, rest) => Some (u :: t, rest) | None => None end
                  end
              | _ => None
              end
            else
              match simple_esc e with
              | Some v => match pstr r1 with Some (t, rest) => Some (v :: t, rest) | None => None end
              | None => None
              end
        end
      else if c <? 32 then None
      else match pstr r with Some (t, rest) => Some (c :: t, rest) | None => None end
  end.

Fixpoint span_digits (s : list Z) : list Z * list Z :=
  match s with
  | c :: r => if is_digit c then let (ds, rest) := span_digits r in ((c - 48) :: ds, rest) else ([], s)
  | [] => ([], [])
  end.

Fixpoint strip0 (ds : list Z) : nat * list Z :=
  match ds with
  | d :: r => if d =? 0 then let (n, t) := strip0 r in (S n, t) else (O, ds)
  | [] => (O, [])
  end.
Definition rstrip0 (ds : list Z) : list Z := List.rev (snd (strip0 (List.rev ds))).
(* canonical decimal of  0.ds * 10^k  *)
Definition mkdec (neg : bool) (ds : list Z) (k : Z) : dec :=
  let (n, t) := strip0 ds in
  match rstrip0 t with
  | [] => dzero
  | t' => mkd neg t' (k - Z.of_nat n)
  end.

Definition pexp (s : list Z) : option (Z * list Z) :=
  match s with
  | c :: r =>
      if (c =? 101) || (c =? 69) then
        let '(neg, r1) := match r with
                          | sg :: r' => if sg =? 45 then (true, r') else if sg =? 43 then (false, r') else (false, r)
                          | [] => (false, r)
                          end in
        let (ds, r2) := span_digits r1 in
        match ds with
        | [] => None
        | _ => Some (if neg then - digits_val ds else digits_val ds, r2)
        end
      else Some (0, s)
  | [] => Some (0, [])
  end.

Definition pnum_u (neg : bool) (s1 : list Z) : option (dec * list Z) :=
  let (ip, s2) := span_digits s1 in
  match ip with
  | [] => None
  | d0 :: more =>
      if (d0 =? 0) && (match more with [] => false | _ => true end) then None
      else
        let frac := match s2 with
                    | c :: r => if c =? 46 then let (f, r') := span_digits r in
                                                 match f with [] => None | _ => Some (f, r') end
                                else Some ([], s2)
                    | [] => Some ([], s2)
                    end in
        match frac with
        | None => None
        | Some (fp, s3) =>
            match pexp s3 with
            | None => None
            | Some (x, s4) => Some (mkdec neg (ip ++ fp) (Z.of_nat (length ip) + x), s4)
            end
        end
  end.
Definition pnum (s : list Z) : option (dec * list Z) :=
  match s with
  | c :: r => if c =? 45 then pnum_u true r else pnum_u false s
  | [] => None
  end.

Fixpoint pelems (pv : list Z -> option (json * list Z)) (g : nat) (s : list Z) : option (list json * list Z) :=
  match g with
  | O => None
  | S g' =>
      match pv s with
      | None => None
      | Some (v, r) =>
          match skipws r with
          | c :: r' =>
              if c =? 44 then match pelems pv g' r' with Some (vs, r'') => Some (v :: vs, r'') | None => None end
              else if c =? 93 then Some ([v], r') else None
          | [] => None
          end
      end
  end.

Fixpoint pmembers (pv : list Z -> option (json * list Z)) (g : nat) (s : list Z)
  : option (list (list Z * json) * list Z) :=
  match g with
  | O => None
  | S g' =>
      match skipws s with
      | q :: r =>
          if q =? 34 then
            match pstr r with
            | None => None
            | Some (k, r1) =>
                match skipws r1 with
                | c :: r2 =>
                    if c =? 58 then
                      match pv r2 with
                      | None => None
                      | Some (v, r3) =>
                          match skipws r3 with
                          | c' :: r4 =>
                              if c' =? 44 then
                                match pmembers pv g' r4 with Some (ms, r5) => Some ((k, v) :: ms, r5) | None => None end
                              else if c' =? 125 then Some ([(k, v)], r4) else None
                          | [] => None
                          end
                      end
                    else None
                | [] => None
                end
            end
          else None
      | [] => None
      end
  end.

Fixpoint starts (p s : list Z) : option (list Z) :=
  match p with
  | [] => Some s
  | a :: p' => match s with b :: s' => if a =? b then starts p' s' else None | [] => None end
  end.

(* f = serde_json's remaining depth (starts at 128; entering an array / object needs two left) *)
Fixpoint pval (f : nat) (s : list Z) : option (json * list Z) :=
  match f with
  | O => None
  | S f' =>
      match skipws s with
      | [] => None
      | c :: r =>
          if c =? 110 then match starts t_null (c :: r) with Some r' => Some (JNull, r') | None => None end
          else if c =? 116 then match starts t_true (c :: r) with Some r' => Some (JBool true, r') | None => None end
          else if c =? 102 then match starts t_false (c :: r) with Some r' => Some (JBool false, r') | None => None end
          else if c =? 34 then match pstr r with Some (t, r') => Some (JStr t, r') | None => None end
          else if c =? 91 then
            match f' with
            | O => None
            | S _ =>
                match skipws r with
                | c2 :: r' =>
                    if c2 =? 93 then Some (JArr [], r')
                    else match pelems (pval f') (S (length r)) r with
                         | Some (vs, r'') => Some (JArr vs, r'') | None => None end
                | [] => None
                end
            end
          else if c =? 123 then
            match f' with
            | O => None
            | S _ =>
                match skipws r with
                | c2 :: r' =>
                    if c2 =? 125 then Some (JObj [], r')
                    else match pmembers (pval f') (S (length r)) r with
                         | Some (ms, r'') => Some (JObj ms, r'') | None => None end
                | [] => None
                end
            end
          else if (c =? 45) || is_digit c then
            match pnum (c :: r) with Some (d, r') => Some (JNum d, r') | None => None end
          else None
      end
  end.

Definition depth_limit : nat := 128.
Definition jparse (s : list Z) : option json :=
  match pval depth_limit s with
  | Some (v, r) => match skipws r with [] => Some v | _ => None end
  | None => None
  end.

(* ------------------------------------------------------------------ well-formedness and depth *)
Definition digit_ok (d : Z) : bool := (0 <=? d) && (d <=? 9).
Definition wf_dec (d : dec) : bool :=
  match dds d with
  | [] => negb (dneg d) && (dk d =? 0)
  | d1 :: _ => forallb digit_ok (dds d) && negb (d1 =? 0) && negb (last (dds d) 1 =? 0)
  end.
Definition char_ok (c : Z) : bool := 0 <=? c.
Fixpoint wfj (v : json) : bool :=
  match v with
  | JNull | JBool _ => true
  | JNum d => wf_dec d
  | JStr s => forallb char_ok s
  | JArr l => forallb wfj l
  | JObj l => forallb (fun p => forallb char_ok (fst p) && wfj (snd p)) l
  end.
Fixpoint jdepth (v : json) : nat :=
  match v with
  | JArr l => S (fold_right (fun x m => Nat.max (jdepth x) m) O l)
  | JObj l => S (fold_right (fun p m => Nat.max (jdepth (snd p)) m) O l)
  | _ => O
  end.

Fixpoint nest (n : nat) : json := match n with O => JArr [] | S m => JArr [nest m] end.
