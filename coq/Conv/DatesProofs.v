From Coq Require Import ZArith List Bool Lia.
From Xr Require Import Conv.Dates.
Import ListNotations.
Open Scope Z_scope.

Ltac Zify.zify_post_hook ::= Z.div_mod_to_equations.

(* ---- 400-year periodicity: 146097 days ---- *)
Lemma date_of_period j : date_of (j + 146097) = shift400 (date_of j) 1.
Proof.
  unfold date_of, shift400. cbn [year month day].
  set (A := (4 * j + 274277) / 146097).
  assert (HA : (4 * (j + 146097) + 274277) / 146097 = A + 4) by (unfold A; lia).
  rewrite HA.
  assert (HB : ((A + 4) * 3) / 4 = (A * 3) / 4 + 3) by lia.
  rewrite HB.
  set (f := j + 1401 + A * 3 / 4 - 38).
  replace (j + 146097 + 1401 + (A * 3 / 4 + 3) - 38) with (f + 146100) by (unfold f; lia).
  set (e := 4 * f + 3).
  replace (4 * (f + 146100) + 3) with (e + 400 * 1461) by (unfold e; lia).
  assert (Hm : (e + 400 * 1461) mod 1461 = e mod 1461) by lia.
  assert (Hd : (e + 400 * 1461) / 1461 = e / 1461 + 400) by lia.
  rewrite Hm, Hd. f_equal. lia.
Qed.

Lemma julian_day_period d : julian_day (shift400 d 1) = julian_day d + 146097.
Proof.
  unfold julian_day, shift400. cbn [year month day].
  set (a := (14 - month d) / 12). set (y := year d + 4800 - a).
  replace (year d + 400 * 1 + 4800 - a) with (y + 400) by (unfold y; lia).
  assert ((y + 400) / 4 = y / 4 + 100) by lia.
  assert ((y + 400) / 100 = y / 100 + 4) by lia.
  assert ((y + 400) / 400 = y / 400 + 1) by lia. lia.
Qed.

(* ---- one period, exhaustively (a finite domain: vm_compute over all 146097 days) ---- *)
Fixpoint sweep (chk : Z -> bool) (n : nat) (j : Z) : bool :=
  match n with O => true | S k => chk j && sweep chk k (j + 1) end.

Lemma sweep_spec chk n : forall j0, sweep chk n j0 = true -> forall j, j0 <= j < j0 + Z.of_nat n -> chk j = true.
Proof.
  induction n as [|k IH]; intros j0 H j Hj; [lia|]. cbn [sweep] in H. apply andb_true_iff in H. destruct H as [H1 H2].
  destruct (Z.eq_dec j j0) as [->|Hne]; [exact H1|]. apply (IH (j0 + 1) H2). lia.
Qed.

Definition period : nat := Z.to_nat 146097.
Definition day_ok (j : Z) : bool := (julian_day (date_of j) =? j) && valid_date (date_of j).

Lemma one_period_check : sweep day_ok period 0 = true.
Proof. vm_compute. reflexivity. Qed.

Lemma one_period_ok j : 0 <= j < 146097 -> day_ok j = true.
Proof. intros H. apply (sweep_spec day_ok period 0 one_period_check). unfold period. lia. Qed.

Lemma one_period j : 0 <= j < 146097 -> julian_day (date_of j) = j.
Proof.
  intros H. pose proof (one_period_ok j H) as Hc. unfold day_ok in Hc. apply andb_true_iff in Hc.
  apply Z.eqb_eq. apply Hc.
Qed.

(* ---- every Julian day number, positive or negative ---- *)
Theorem jd_date_roundtrip : forall j, julian_day (date_of j) = j.
Proof.
  assert (Hpos : forall k, 0 <= k -> forall r, 0 <= r < 146097 -> julian_day (date_of (r + k * 146097)) = r + k * 146097).
  { apply (natlike_ind (fun k => forall r, 0 <= r < 146097 -> julian_day (date_of (r + k * 146097)) = r + k * 146097)).
    - intros r Hr. replace (r + 0 * 146097) with r by lia. now apply one_period.
    - intros x Hx IH r Hr. replace (r + Z.succ x * 146097) with (r + x * 146097 + 146097) by lia.
      rewrite date_of_period, julian_day_period, IH by assumption. lia. }
  assert (Hneg : forall k, 0 <= k -> forall r, 0 <= r < 146097 -> julian_day (date_of (r - k * 146097)) = r - k * 146097).
  { apply (natlike_ind (fun k => forall r, 0 <= r < 146097 -> julian_day (date_of (r - k * 146097)) = r - k * 146097)).
    - intros r Hr. replace (r - 0 * 146097) with r by lia. now apply one_period.
    - intros x Hx IH r Hr.
      pose proof (date_of_period (r - Z.succ x * 146097)) as Hp.
      replace (r - Z.succ x * 146097 + 146097) with (r - x * 146097) in Hp by lia.
      pose proof (julian_day_period (date_of (r - Z.succ x * 146097))) as Hj.
      rewrite <- Hp, IH in Hj by assumption. lia. }
  intros j. pose proof (Z.div_mod j 146097 ltac:(lia)) as Hdm.
  pose proof (Z.mod_pos_bound j 146097 ltac:(lia)) as Hb.
  destruct (Z.le_gt_cases 0 (j / 146097)) as [Hq|Hq].
  - rewrite Hdm at 1 2. rewrite Z.add_comm, Z.mul_comm. rewrite Hpos by assumption. lia.
  - replace j with (j mod 146097 - (- (j / 146097)) * 146097) by lia.
    rewrite Hneg by lia. reflexivity.
Qed.

(* weekdays are consistent: they lie in 0..6 and advance by one (mod 7) with the day number *)
Theorem weekday_range j : 0 <= weekday (date_of j) < 7.
Proof. unfold weekday. apply Z.mod_pos_bound. lia. Qed.

Theorem weekday_succ j : weekday (date_of (j + 1)) = (weekday (date_of j) + 1) mod 7.
Proof. unfold weekday. rewrite !jd_date_roundtrip. rewrite Zplus_mod_idemp_l. reflexivity. Qed.

(* the date produced for a day number is a valid calendar date (one period exhaustively + periodicity) *)
Lemma is_leap_period y : is_leap (y + 400) = is_leap y.
Proof.
  unfold is_leap.
  assert ((y + 400) mod 4 = y mod 4) by lia. assert ((y + 400) mod 100 = y mod 100) by lia.
  assert ((y + 400) mod 400 = y mod 400) by lia. congruence.
Qed.

Lemma valid_period d : valid_date (shift400 d 1) = valid_date d.
Proof.
  unfold valid_date, shift400, days_in_month. cbn [year month day].
  replace (year d + 400 * 1) with (year d + 400) by lia. now rewrite is_leap_period.
Qed.

Theorem date_of_valid : forall j, valid_date (date_of j) = true.
Proof.
  assert (H0 : forall r, 0 <= r < 146097 -> valid_date (date_of r) = true).
  { intros r Hr. pose proof (one_period_ok r Hr) as Hc. unfold day_ok in Hc. apply andb_true_iff in Hc. apply Hc. }
  assert (Hpos : forall k, 0 <= k -> forall r, 0 <= r < 146097 -> valid_date (date_of (r + k * 146097)) = true).
  { apply (natlike_ind (fun k => forall r, 0 <= r < 146097 -> valid_date (date_of (r + k * 146097)) = true)).
    - intros r Hr. replace (r + 0 * 146097) with r by lia. now apply H0.
    - intros x Hx IH r Hr. replace (r + Z.succ x * 146097) with (r + x * 146097 + 146097) by lia.
      rewrite date_of_period, valid_period. now apply IH. }
  assert (Hneg : forall k, 0 <= k -> forall r, 0 <= r < 146097 -> valid_date (date_of (r - k * 146097)) = true).
  { apply (natlike_ind (fun k => forall r, 0 <= r < 146097 -> valid_date (date_of (r - k * 146097)) = true)).
    - intros r Hr. replace (r - 0 * 146097) with r by lia. now apply H0.
    - intros x Hx IH r Hr.
      pose proof (date_of_period (r - Z.succ x * 146097)) as Hp.
      replace (r - Z.succ x * 146097 + 146097) with (r - x * 146097) in Hp by lia.
      rewrite <- (valid_period (date_of (r - Z.succ x * 146097))), <- Hp. now apply IH. }
  intros j. pose proof (Z.div_mod j 146097 ltac:(lia)) as Hdm.
  pose proof (Z.mod_pos_bound j 146097 ltac:(lia)) as Hb.
  destruct (Z.le_gt_cases 0 (j / 146097)) as [Hq|Hq].
  - rewrite Hdm. rewrite Z.add_comm, Z.mul_comm. now apply Hpos.
  - replace j with (j mod 146097 - (- (j / 146097)) * 146097) by lia. apply Hneg; lia.
Qed.

(* integral Unix seconds round-trip *)
Theorem unix_roundtrip : forall t, unix (datetime_of t) = t.
Proof.
  intros t. unfold unix, datetime_of. cbn [dt_date hours minutes seconds].
  rewrite jd_date_roundtrip. lia.
Qed.

Theorem datetime_fields_in_range t :
  0 <= hours (datetime_of t) < 24 /\ 0 <= minutes (datetime_of t) < 60 /\ 0 <= seconds (datetime_of t) < 60.
Proof. unfold datetime_of. cbn [hours minutes seconds]. lia. Qed.
