(* Round trip of the JSON model: reading what the serialiser wrote gives the value back, for every well-formed value
   nested less deeply than the reader's recursion limit. *)
From Coq Require Import List ZArith NArith Bool Lia Decimal DecimalN DecimalPos.
From Xr Require Import Conv.Json.
Import ListNotations.
Open Scope Z_scope.

(* ------------------------------------------------------------------ integers as digit lists *)
Lemma list_uint_list u : list_uint (uint_list u) = u.
Proof. induction u; cbn [uint_list list_uint digit_uint]; rewrite ?IHu; reflexivity. Qed.

Lemma uint_list_digits u : Forall (fun d => digit_ok d = true) (uint_list u).
Proof. induction u; cbn [uint_list]; constructor; auto. Qed.

Lemma nat_digits_val n : 0 <= n -> digits_val (nat_digits n) = n.
Proof.
  intros Hn. unfold digits_val, nat_digits. rewrite list_uint_list, DecimalN.Unsigned.of_to. apply Z2N.id; exact Hn.
Qed.

Lemma nat_digits_nonnil n : nat_digits n <> [].
Proof.
  unfold nat_digits. destruct (Z.to_N n) as [|p]; cbn [N.to_uint uint_list]; [discriminate|].
  pose proof (DecimalPos.Unsigned.to_uint_nonnil p) as H. destruct (Pos.to_uint p); [congruence| | | | | | | | | |]; discriminate.
Qed.

Lemma nat_digits_ok n : Forall (fun d => digit_ok d = true) (nat_digits n).
Proof. apply uint_list_digits. Qed.

(* ------------------------------------------------------------------ scanning digits *)
Definition no_digit_first (s : list Z) : bool := match s with [] => true | c :: _ => negb (is_digit c) end.

Lemma digit_ok_chr d : digit_ok d = true -> is_digit (chr_of_digit d) = true /\ chr_of_digit d - 48 = d.
Proof. unfold digit_ok, is_digit, chr_of_digit. intros H. split; lia. Qed.

Lemma span_digits_dchars ds rest :
  Forall (fun d => digit_ok d = true) ds -> no_digit_first rest = true ->
  span_digits (dchars ds ++ rest) = (ds, rest).
Proof.
  intros Hds Hr. unfold dchars. induction Hds as [|d ds Hd _ IH]; cbn [map List.app].
  - destruct rest as [|c r]; [reflexivity|]. cbn [span_digits]. cbn [no_digit_first] in Hr.
    destruct (is_digit c); [discriminate|reflexivity].
  - cbn [span_digits]. destruct (digit_ok_chr d Hd) as [H1 H2]. rewrite H1. rewrite IH, H2. reflexivity.
Qed.

Lemma zeros_digits m : Forall (fun d => digit_ok d = true) (zeros m).
Proof. induction m; cbn; constructor; auto. Qed.

Lemma strip0_zeros m ds : match ds with [] => False | d :: _ => d <> 0 end -> strip0 (zeros m ++ ds) = (m, ds).
Proof.
  intros H. induction m as [|m IH]; cbn [zeros repeat List.app].
  - destruct ds as [|d r]; [contradiction|]. cbn [strip0]. destruct (Z.eqb_spec d 0); [contradiction|reflexivity].
  - cbn [strip0]. change (0 =? 0) with true. cbv iota. fold (zeros m). rewrite IH. reflexivity.
Qed.

Lemma rev_zeros m : List.rev (zeros m) = zeros m.
Proof.
  unfold zeros. induction m as [|m IH]; [reflexivity|]. cbn [repeat List.rev]. rewrite IH.
  clear IH. induction m as [|m IH]; [reflexivity|]. cbn [repeat List.app]. rewrite IH. reflexivity.
Qed.

Lemma rstrip0_zeros ds m : ds <> [] -> last ds 1 <> 0 -> rstrip0 (ds ++ zeros m) = ds.
Proof.
  intros Hne Hl. unfold rstrip0. rewrite rev_app_distr, rev_zeros.
  rewrite strip0_zeros.
  - cbn [snd]. apply rev_involutive.
  - destruct (exists_last Hne) as [l [a E]]. subst ds. rewrite rev_app_distr. cbn [List.rev List.app].
    rewrite last_last in Hl. exact Hl.
Qed.

Definition sig_ok (ds : list Z) : Prop :=
  Forall (fun d => digit_ok d = true) ds /\ ds <> [] /\ hd 0 ds <> 0 /\ last ds 1 <> 0.

Lemma mkdec_pad neg a ds b k : sig_ok ds -> mkdec neg (zeros a ++ ds ++ zeros b) k = mkd neg ds (k - Z.of_nat a).
Proof.
  intros (Hd & Hne & Hh & Hl). unfold mkdec. rewrite strip0_zeros.
  - rewrite rstrip0_zeros by assumption. destruct ds; [congruence|reflexivity].
  - destruct ds as [|d r]; [congruence|]. exact Hh.
Qed.

Lemma wf_dec_sig d d1 more : dds d = d1 :: more -> wf_dec d = true -> sig_ok (dds d).
Proof.
  unfold wf_dec. intros E H. rewrite E in *. apply andb_prop in H as [H H3]. apply andb_prop in H as [H1 H2].
  repeat split.
  - apply Forall_forall. rewrite forallb_forall in H1. exact H1.
  - discriminate.
  - cbn [hd]. destruct (Z.eqb_spec d1 0); [discriminate|assumption].
  - destruct (Z.eqb_spec (last (d1 :: more) 1) 0); [discriminate|assumption].
Qed.

(* ------------------------------------------------------------------ exponent *)
Definition follow_ok (s : list Z) : bool :=
  match s with [] => true | c :: _ => negb (is_digit c || (c =? 46) || (c =? 101) || (c =? 69)) end.

Lemma follow_no_digit s : follow_ok s = true -> no_digit_first s = true.
Proof. destruct s as [|c r]; [reflexivity|]. cbn. destruct (is_digit c); [discriminate|reflexivity]. Qed.

Lemma pexp_ser x rest : no_digit_first rest = true -> pexp (101 :: ser_exp x ++ rest) = Some (x, rest).
Proof.
  intros Hr. unfold pexp. change ((101 =? 101) || (101 =? 69)) with true. cbv iota.
  unfold ser_exp.
  assert (Hd := nat_digits_ok (Z.abs x)). assert (Hn := nat_digits_nonnil (Z.abs x)).
  destruct (Z.ltb_spec x 0) as [Hx|Hx].
  - cbn [List.app]. change (45 =? 45) with true. cbv iota.
    rewrite span_digits_dchars by assumption.
    destruct (nat_digits (Z.abs x)) eqn:E; [congruence|]. rewrite <- E. rewrite nat_digits_val by lia. f_equal. f_equal. lia.
  - cbn [List.app].
    destruct (nat_digits (Z.abs x)) as [|d r] eqn:E; [congruence|].
    inversion Hd as [|? ? Hd1 Hd2]; subst.
    cbn [dchars map List.app]. destruct (digit_ok_chr d Hd1) as [H1 H2].
    assert (chr_of_digit d =? 45 = false) as ->. { unfold is_digit in H1. lia. }
    assert (chr_of_digit d =? 43 = false) as ->. { unfold is_digit in H1. lia. }
    change (chr_of_digit d :: map chr_of_digit r ++ rest) with (dchars (d :: r) ++ rest).
    rewrite span_digits_dchars by (try constructor; assumption).
    rewrite <- E. rewrite nat_digits_val by lia. f_equal. f_equal. lia.
Qed.

Lemma pexp_none rest : follow_ok rest = true -> pexp rest = Some (0, rest).
Proof.
  destruct rest as [|c r]; [reflexivity|]. cbn [follow_ok pexp]. intros H.
  destruct ((c =? 101) || (c =? 69)) eqn:E; [|reflexivity].
  destruct (is_digit c), (c =? 46), (c =? 101), (c =? 69); cbn in *; congruence.
Qed.

(* ------------------------------------------------------------------ numbers *)
Lemma dchars_app a b : dchars (a ++ b) = dchars a ++ dchars b.
Proof. apply map_app. Qed.

Lemma is_digit_not_dot_e c : is_digit c = true -> c =? 46 = false.
Proof. unfold is_digit. lia. Qed.

Lemma sig_firstn ds : sig_ok ds -> forall m, (0 < m)%nat -> exists d r, firstn m ds = d :: r /\ d <> 0.
Proof.
  intros (Hd & Hne & Hh & Hl) m Hm. destruct ds as [|d r]; [congruence|]. destruct m; [lia|].
  exists d, (firstn m r). split; [reflexivity|exact Hh].
Qed.

Lemma Forall_firstn {A} (P : A -> Prop) l n : Forall P l -> Forall P (firstn n l).
Proof. revert n. induction l; intros [|n] H; cbn; auto. inversion H; subst. constructor; auto. Qed.
Lemma Forall_skipn {A} (P : A -> Prop) l n : Forall P l -> Forall P (skipn n l).
Proof. revert n. induction l; intros [|n] H; cbn; auto. inversion H; subst. auto. Qed.

Lemma pnum_u_ser neg d rest d1 more :
  dds d = d1 :: more -> wf_dec d = true -> follow_ok rest = true ->
  let n := Z.of_nat (length (dds d)) in let k := dk d in
  pnum_u neg
    ((if (k <? -3) || (17 <=? k) then
         chr_of_digit d1 :: (match more with [] => [] | _ => 46 :: dchars more end) ++ 101 :: ser_exp (k - 1)
       else if k <=? 0 then 48 :: 46 :: dchars (zeros (Z.to_nat (- k)) ++ dds d)
       else if n <=? k then dchars (dds d ++ zeros (Z.to_nat (k - n))) ++ [46; 48]
       else dchars (firstn (Z.to_nat k) (dds d)) ++ 46 :: dchars (skipn (Z.to_nat k) (dds d))) ++ rest)
  = Some (mkd neg (dds d) (dk d), rest).
Proof.
  intros E Hwf Hr n k. pose proof (wf_dec_sig d d1 more E Hwf) as Hsig.
  destruct Hsig as (Hd & Hne & Hh & Hl). assert (Hsig : sig_ok (dds d)) by (repeat split; assumption).
  pose proof (follow_no_digit _ Hr) as Hnd.
  rewrite E in Hd, Hh. inversion Hd as [|? ? Hd1 Hdm]; subst. cbn [hd] in Hh.
  destruct (digit_ok_chr d1 Hd1) as [Hc1 Hc2].
  unfold pnum_u.
  destruct ((k <? -3) || (17 <=? k)) eqn:Ek.
  - (* exponential *)
    cbn [List.app span_digits]. rewrite Hc1.
    destruct more as [|m2 mr].
    + cbn [List.app]. cbn [span_digits]. change (is_digit 101) with false. cbv iota. rewrite Hc2.
      destruct (Z.eqb_spec d1 0); [contradiction|]. cbn [andb]. change (101 =? 46) with false. cbv iota.
      rewrite pexp_ser by assumption. cbn [length List.app].
      rewrite <- E. replace (dds d) with (zeros 0 ++ dds d ++ zeros 0) at 1 by (cbn; apply app_nil_r).
      rewrite mkdec_pad by assumption. f_equal. f_equal. f_equal. unfold k. lia.
    + cbn [List.app]. cbn [span_digits]. change (is_digit 46) with false. cbv iota. rewrite Hc2.
      destruct (Z.eqb_spec d1 0); [contradiction|]. cbn [andb]. change (46 =? 46) with true. cbv iota.
      rewrite <- app_assoc. rewrite span_digits_dchars by (try assumption; reflexivity).
      cbn [List.app]. rewrite pexp_ser by assumption. cbn [length List.app].
      rewrite <- E. replace (dds d) with (zeros 0 ++ dds d ++ zeros 0) at 1 by (cbn; apply app_nil_r).
      rewrite mkdec_pad by assumption. f_equal. f_equal. f_equal. unfold k. lia.
  - destruct (Z.leb_spec k 0) as [Hk0|Hk0].
    + (* 0.000ddd *)
      cbn [List.app span_digits]. change (is_digit 48) with true. cbv iota. change (is_digit 46) with false. cbv iota.
      change (48 - 48) with 0. change ((0 =? 0) && false) with false. cbv iota. change (46 =? 46) with true. cbv iota.
      rewrite span_digits_dchars; [| apply Forall_app; split; [apply zeros_digits | rewrite E; assumption] | assumption].
      destruct (zeros (Z.to_nat (- k)) ++ dds d) eqn:Ez.
      { rewrite E in Ez. destruct (zeros (Z.to_nat (- k))); discriminate. }
      rewrite <- Ez. rewrite pexp_none by assumption.
      change ([0] ++ zeros (Z.to_nat (- k)) ++ dds d) with (zeros (S (Z.to_nat (- k))) ++ dds d).
      replace (dds d) with (dds d ++ zeros 0) at 1 by apply app_nil_r.
      rewrite mkdec_pad by assumption. f_equal. f_equal. f_equal. cbn [length]. lia.
    + destruct (Z.leb_spec n k) as [Hnk|Hnk].
      * (* ddd000.0 *)
        rewrite <- app_assoc. rewrite span_digits_dchars;
          [| apply Forall_app; split; [rewrite E; assumption | apply zeros_digits] | reflexivity].
        assert (Hshape : dds d ++ zeros (Z.to_nat (k - n)) = d1 :: (more ++ zeros (Z.to_nat (k - n)))) by (rewrite E; reflexivity).
        rewrite Hshape. destruct (Z.eqb_spec d1 0); [contradiction|]. cbn [andb]. cbv iota. rewrite <- Hshape.
        change ([46; 48] ++ rest) with (46 :: 48 :: rest). change (46 =? 46) with true. cbv iota.
        cbn [span_digits]. change (is_digit 48) with true. cbv iota.
        replace (span_digits rest) with (@nil Z, rest).
        2:{ destruct rest as [|c r]; [reflexivity|]. cbn [span_digits]. cbn in Hnd. destruct (is_digit c); [discriminate|reflexivity]. }
        change (46 =? 46) with true. cbv iota.
        change (48 - 48) with 0. rewrite pexp_none by assumption.
        rewrite <- app_assoc. change (zeros (Z.to_nat (k - n)) ++ [0]) with (zeros (Z.to_nat (k - n)) ++ zeros 1).
        assert (Hz : zeros (Z.to_nat (k - n)) ++ zeros 1 = zeros (Z.to_nat (k - n) + 1)) by (unfold zeros; symmetry; apply repeat_app).
        rewrite Hz.
        replace (dds d ++ zeros (Z.to_nat (k - n) + 1)) with (zeros 0 ++ dds d ++ zeros (Z.to_nat (k - n) + 1)) by reflexivity.
        rewrite mkdec_pad by assumption. f_equal. f_equal. f_equal.
        rewrite app_length. unfold zeros. rewrite repeat_length. fold n. cbn [Z.of_nat]. lia.
      * (* dd.ddd *)
        assert (Hkn : (0 < Z.to_nat k < length (dds d))%nat) by (unfold n in Hnk; lia).
        destruct (sig_firstn _ Hsig (Z.to_nat k) (proj1 Hkn)) as (f1 & fr & Ef & Hf1).
        rewrite <- app_assoc. rewrite span_digits_dchars;
          [| apply Forall_firstn; rewrite E; assumption | reflexivity].
        rewrite Ef. destruct (Z.eqb_spec f1 0); [contradiction|]. cbn [andb]. cbn [List.app]. change (46 =? 46) with true. cbv iota.
        rewrite span_digits_dchars; [| apply Forall_skipn; rewrite E; assumption | assumption].
        destruct (skipn (Z.to_nat k) (dds d)) eqn:Es.
        { apply (f_equal (@length Z)) in Es. rewrite skipn_length in Es. cbn in Es. lia. }
        rewrite <- Es. rewrite pexp_none by assumption. rewrite app_comm_cons, <- Ef, firstn_skipn.
        replace (dds d) with (zeros 0 ++ dds d ++ zeros 0) at 1 by (cbn; apply app_nil_r).
        rewrite mkdec_pad by assumption. f_equal. f_equal. f_equal.
        rewrite firstn_length. cbn [Z.of_nat]. lia.
Qed.

Lemma pnum_ser d rest : wf_dec d = true -> follow_ok rest = true -> pnum (ser_num d ++ rest) = Some (d, rest).
Proof.
  intros Hwf Hr. destruct d as [ng ds k]. unfold ser_num. cbn [dds dneg dk]. destruct ds as [|d1 more].
  - (* zero *)
    unfold wf_dec in Hwf. cbn [dds dneg dk] in Hwf. apply andb_prop in Hwf as [H1 H2].
    destruct ng; [discriminate|]. apply Z.eqb_eq in H2. subst k.
    unfold pnum. cbn [List.app]. change (48 =? 45) with false. cbv iota. unfold pnum_u.
    cbn [span_digits]. change (is_digit 48) with true. change (is_digit 46) with false. cbv iota.
    change (48 - 48) with 0. change ((0 =? 0) && false) with false. cbv iota. change (46 =? 46) with true. cbv iota.
    cbn [span_digits]. change (is_digit 48) with true. cbv iota.
    replace (span_digits rest) with (@nil Z, rest).
    2:{ pose proof (follow_no_digit _ Hr) as Hnd. destruct rest as [|c r]; [reflexivity|]. cbn [span_digits]. cbn in Hnd.
        destruct (is_digit c); [discriminate|reflexivity]. }
    change (48 - 48) with 0. rewrite pexp_none by assumption. reflexivity.
  - pose proof (pnum_u_ser ng (mkd ng (d1 :: more) k) rest d1 more eq_refl Hwf Hr) as H. cbv zeta in H.
    cbn [dds dneg dk] in H.
    assert (Hd1 : digit_ok d1 = true).
    { pose proof (wf_dec_sig (mkd ng (d1 :: more) k) d1 more eq_refl Hwf) as (Hd & _). cbn [dds] in Hd. inversion Hd; assumption. }
    destruct (digit_ok_chr d1 Hd1) as [Hc1 _].
    unfold pnum. destruct ng.
    + cbn [List.app]. change (45 =? 45) with true. cbv iota. exact H.
    + cbn [List.app].
      match goal with |- match ?l ++ rest with _ => _ end = _ => destruct l as [|c0 l0] eqn:El end.
      { exfalso. revert El. destruct ((k <? -3) || (17 <=? k)); [discriminate|].
        destruct (k <=? 0); [discriminate|]. destruct (Z.of_nat (length (d1 :: more)) <=? k).
        - unfold dchars; cbn [map List.app]. discriminate.
        - destruct (Z.leb_spec k 0); [|]. 
          + destruct (Z.to_nat k); unfold dchars; cbn [map List.app firstn]; discriminate.
          + destruct (Z.to_nat k) eqn:En; [lia|]. unfold dchars; cbn [map List.app firstn]. discriminate. }
      cbn [List.app]. assert (Hc0 : c0 =? 45 = false).
      { revert El. destruct ((k <? -3) || (17 <=? k)).
        - intros [= <- _]. unfold is_digit, chr_of_digit in *. lia.
        - destruct (Z.leb_spec k 0).
          + intros [= <- _]. reflexivity.
          + destruct (Z.of_nat (length (d1 :: more)) <=? k).
            * unfold dchars; cbn [map List.app]. intros [= <- _]. unfold is_digit, chr_of_digit in *. lia.
            * destruct (Z.to_nat k) eqn:En; [lia|]. unfold dchars; cbn [map List.app firstn]. intros [= <- _]. unfold is_digit, chr_of_digit in *. lia. }
      rewrite Hc0. change (c0 :: l0 ++ rest) with ((c0 :: l0) ++ rest). rewrite <- El. exact H.
Qed.

(* ------------------------------------------------------------------ strings *)
Lemma hex_small c : 0 <= c < 32 -> hex4 48 48 (hexd (c / 16)) (hexd (c mod 16)) = Some c.
Proof.
  intros H.
  assert (c = 0 \/ c = 1 \/ c = 2 \/ c = 3 \/ c = 4 \/ c = 5 \/ c = 6 \/ c = 7 \/ c = 8 \/ c = 9 \/ c = 10 \/ c = 11 \/
          c = 12 \/ c = 13 \/ c = 14 \/ c = 15 \/ c = 16 \/ c = 17 \/ c = 18 \/ c = 19 \/ c = 20 \/ c = 21 \/ c = 22 \/
          c = 23 \/ c = 24 \/ c = 25 \/ c = 26 \/ c = 27 \/ c = 28 \/ c = 29 \/ c = 30 \/ c = 31) as Hc by lia.
  repeat (destruct Hc as [Hc|Hc]; [subst c; reflexivity|]). subst c; reflexivity.
Qed.

Lemma pstr_ser s rest : forallb char_ok s = true -> pstr (flat_map esc_char s ++ 34 :: rest) = Some (s, rest).
Proof.
  induction s as [|c s IH]; intros Hs.
  - cbn [flat_map List.app pstr]. reflexivity.
  - cbn [forallb] in Hs. apply andb_prop in Hs as [Hc Hs]. specialize (IH Hs). unfold char_ok in Hc.
    cbn [flat_map]. rewrite <- app_assoc. unfold esc_char at 1.
    destruct (Z.eqb_spec c 34); [subst; cbn; rewrite IH; reflexivity|].
    destruct (Z.eqb_spec c 92); [subst; cbn; rewrite IH; reflexivity|].
    destruct (Z.eqb_spec c 8); [subst; cbn; rewrite IH; reflexivity|].
    destruct (Z.eqb_spec c 12); [subst; cbn; rewrite IH; reflexivity|].
    destruct (Z.eqb_spec c 10); [subst; cbn; rewrite IH; reflexivity|].
    destruct (Z.eqb_spec c 13); [subst; cbn; rewrite IH; reflexivity|].
    destruct (Z.eqb_spec c 9); [subst; cbn; rewrite IH; reflexivity|].
    destruct (Z.ltb_spec c 32) as [H32|H32].
    + cbn [List.app pstr]. change (92 =? 34) with false. change (92 =? 92) with true. change (117 =? 117) with true. cbv iota.
      rewrite hex_small by lia.
      assert (is_high c = false) as -> by (unfold is_high; lia).
      assert (is_low c = false) as -> by (unfold is_low; lia).
      rewrite IH. reflexivity.
    + cbn [List.app pstr].
      destruct (Z.eqb_spec c 34); [contradiction|]. destruct (Z.eqb_spec c 92); [contradiction|].
      destruct (Z.ltb_spec c 32); [lia|]. rewrite IH. reflexivity.
Qed.

(* ------------------------------------------------------------------ values *)
Definition vstart (c : Z) : bool :=
  (c =? 110) || (c =? 116) || (c =? 102) || (c =? 34) || (c =? 91) || (c =? 123) || (c =? 45) || is_digit c.

Lemma vstart_facts c : vstart c = true -> isws c = false /\ c <> 93 /\ c <> 125 /\ c <> 44 /\ c <> 58.
Proof. unfold vstart, isws, is_digit. intros H. repeat split; lia. Qed.

Lemma ser_num_head d : wf_dec d = true -> exists c t, ser_num d = c :: t /\ ((c =? 45) || is_digit c) = true.
Proof.
  intros Hwf. unfold ser_num. destruct (dds d) as [|d1 more] eqn:E.
  - exists 48, [46; 48]. split; reflexivity.
  - assert (Hd1 : digit_ok d1 = true).
    { pose proof (wf_dec_sig d d1 more E Hwf) as (Hd & _). rewrite E in Hd. inversion Hd; assumption. }
    destruct (digit_ok_chr d1 Hd1) as [Hc1 _].
    destruct (dneg d).
    + eexists 45, _. split; reflexivity.
    + cbn [List.app]. destruct ((dk d <? -3) || (17 <=? dk d)).
      * eexists _, _. split; [reflexivity|]. rewrite Hc1. apply orb_true_r.
      * destruct (Z.leb_spec (dk d) 0).
        -- eexists _, _. split; reflexivity.
        -- destruct (Z.of_nat (length (d1 :: more)) <=? dk d).
           ++ unfold dchars; cbn [map List.app]. eexists _, _. split; [reflexivity|]. rewrite Hc1. apply orb_true_r.
           ++ destruct (Z.to_nat (dk d)) eqn:En; [lia|]. unfold dchars; cbn [map List.app firstn]. eexists _, _. split; [reflexivity|]. rewrite Hc1. apply orb_true_r.
Qed.

Lemma jser_head v : wfj v = true -> exists c t, jser v = c :: t /\ vstart c = true.
Proof.
  destruct v as [|b|d|s|l|l]; cbn [wfj]; intros H.
  - eexists _, _; split; reflexivity.
  - destruct b; eexists _, _; split; reflexivity.
  - destruct (ser_num_head d H) as (c & t & E & Hc). exists c, t. split; [exact E|].
    unfold vstart. apply orb_prop in Hc as [Hc|Hc]; rewrite Hc; repeat rewrite ?orb_true_r, ?orb_true_l; reflexivity.
  - eexists _, _; split; reflexivity.
  - eexists _, _; split; reflexivity.
  - eexists _, _; split; reflexivity.
Qed.

Lemma jser_arr x r : jser (JArr (x :: r)) = 91 :: jser x ++ ser_tail r ++ [93].
Proof. cbn [jser]. f_equal. rewrite <- app_assoc. reflexivity. Qed.
Lemma jser_obj k x r : jser (JObj ((k, x) :: r)) = 123 :: ser_str k ++ 58 :: jser x ++ ser_mtail r ++ [125].
Proof. cbn [jser]. f_equal. rewrite <- app_assoc. f_equal. cbn [List.app]. f_equal. rewrite <- app_assoc. reflexivity. Qed.

Lemma ser_tail_length r : (length r <= length (ser_tail r))%nat.
Proof. induction r as [|y r IH]; cbn [ser_tail length]; [lia|]. rewrite app_length. lia. Qed.
Lemma ser_mtail_length r : (length r <= length (ser_mtail r))%nat.
Proof. induction r as [|[k y] r IH]; cbn [ser_mtail length]; [lia|]. rewrite !app_length. cbn [length]. rewrite app_length. lia. Qed.

Lemma skipws_nows c t : isws c = false -> skipws (c :: t) = c :: t.
Proof. intros H. cbn [skipws]. rewrite H. reflexivity. Qed.

Lemma starts_app p rest : starts p (p ++ rest) = Some rest.
Proof. induction p as [|a p IH]; [reflexivity|]. cbn [List.app starts]. rewrite Z.eqb_refl. exact IH. Qed.

(* the statement proved for every value, by induction on its structure *)
Definition RT (v : json) : Prop :=
  wfj v = true -> forall f rest, (jdepth v < f)%nat -> follow_ok rest = true ->
  pval f (jser v ++ rest) = Some (v, rest).

Section json_induction.
  Variable P : json -> Prop.
  Hypothesis Hnull : P JNull.
  Hypothesis Hbool : forall b, P (JBool b).
  Hypothesis Hnum : forall d, P (JNum d).
  Hypothesis Hstr : forall s, P (JStr s).
  Hypothesis Harr : forall l, Forall P l -> P (JArr l).
  Hypothesis Hobj : forall l, Forall (fun p => P (snd p)) l -> P (JObj l).
  Fixpoint json_ind2 (v : json) : P v :=
    match v with
    | JNull => Hnull | JBool b => Hbool b | JNum d => Hnum d | JStr s => Hstr s
    | JArr l => Harr l ((fix go (l : list json) : Forall P l :=
                           match l with [] => Forall_nil _ | x :: r => Forall_cons _ (json_ind2 x) (go r) end) l)
    | JObj l => Hobj l ((fix go (l : list (list Z * json)) : Forall (fun p => P (snd p)) l :=
                           match l with [] => Forall_nil _ | p :: r => Forall_cons _ (json_ind2 (snd p)) (go r) end) l)
    end.
End json_induction.

Lemma follow_sep c t : (c = 44 \/ c = 93 \/ c = 125) -> follow_ok (c :: t) = true.
Proof. intros H; destruct H as [H|[H|H]]; subst; reflexivity. Qed.

Lemma pelems_ser f' rest : forall r x g,
  Forall RT (x :: r) -> forallb wfj (x :: r) = true ->
  Forall (fun y => (jdepth y < f')%nat) (x :: r) -> (length r < g)%nat ->
  pelems (pval f') g (jser x ++ ser_tail r ++ 93 :: rest) = Some (x :: r, rest).
Proof.
  induction r as [|y r IH]; intros x g HRT Hwf Hdep Hg.
  - destruct g as [|g]; [cbn in Hg; lia|]. cbn [pelems ser_tail List.app].
    inversion HRT as [|? ? Hx _]; subst. cbn [forallb] in Hwf. apply andb_prop in Hwf as [Hwx _].
    inversion Hdep as [|? ? Hdx _]; subst.
    rewrite (Hx Hwx f' (93 :: rest) Hdx eq_refl). cbn [skipws]. change (isws 93) with false. cbv iota.
    change (93 =? 44) with false. change (93 =? 93) with true. reflexivity.
  - destruct g as [|g]; [cbn in Hg; lia|]. cbn [pelems ser_tail].
    inversion HRT as [|? ? Hx HRT']; subst. cbn [forallb] in Hwf. apply andb_prop in Hwf as [Hwx Hwf'].
    inversion Hdep as [|? ? Hdx Hdep']; subst.
    cbn [List.app]. rewrite (Hx Hwx f') by (try assumption; reflexivity). cbn [skipws]. change (isws 44) with false. cbv iota.
    change (44 =? 44) with true. cbv iota. rewrite <- app_assoc.
    rewrite (IH y g HRT' Hwf' Hdep'); [reflexivity|]. cbn [length] in Hg. lia.
Qed.

Lemma pmembers_ser f' rest : forall r k x g,
  Forall (fun p => RT (snd p)) ((k, x) :: r) ->
  forallb (fun p => forallb char_ok (fst p) && wfj (snd p)) ((k, x) :: r) = true ->
  Forall (fun p => (jdepth (snd p) < f')%nat) ((k, x) :: r) -> (length r < g)%nat ->
  pmembers (pval f') g (ser_str k ++ 58 :: jser x ++ ser_mtail r ++ 125 :: rest) = Some ((k, x) :: r, rest).
Proof.
  induction r as [|[k' y] r IH]; intros k x g HRT Hwf Hdep Hg.
  - destruct g as [|g]; [cbn in Hg; lia|]. cbn [pmembers ser_mtail List.app]. unfold ser_str. cbn [List.app skipws].
    change (isws 34) with false. cbv iota. change (34 =? 34) with true. cbv iota.
    inversion HRT as [|? ? Hx _]; subst. cbn [forallb fst snd] in *. apply andb_prop in Hwf as [Hw _].
    apply andb_prop in Hw as [Hwk Hwx]. inversion Hdep as [|? ? Hdx _]; subst. cbn [snd] in *.
    rewrite <- app_assoc. cbn [List.app]. rewrite pstr_ser by assumption. cbn [skipws]. change (isws 58) with false. cbv iota.
    change (58 =? 58) with true. cbv iota.
    rewrite (Hx Hwx f' (125 :: rest) Hdx eq_refl). cbn [skipws]. change (isws 125) with false. cbv iota.
    change (125 =? 44) with false. change (125 =? 125) with true. reflexivity.
  - destruct g as [|g]; [cbn in Hg; lia|]. cbn [pmembers ser_mtail]. unfold ser_str at 1. cbn [List.app skipws].
    change (isws 34) with false. cbv iota. change (34 =? 34) with true. cbv iota.
    inversion HRT as [|? ? Hx HRT']; subst. cbn [forallb fst snd] in *. apply andb_prop in Hwf as [Hw Hwf'].
    apply andb_prop in Hw as [Hwk Hwx]. inversion Hdep as [|? ? Hdx Hdep']; subst. cbn [snd] in *.
    rewrite <- app_assoc. cbn [List.app]. rewrite pstr_ser by assumption. cbn [skipws]. change (isws 58) with false. cbv iota.
    change (58 =? 58) with true. cbv iota.
    rewrite (Hx Hwx f') by (try assumption; reflexivity). cbn [skipws]. change (isws 44) with false. cbv iota.
    change (44 =? 44) with true. cbv iota.
    rewrite <- !app_assoc. cbn [List.app]. rewrite <- ?app_assoc.
    rewrite (IH k' y g HRT' Hwf' Hdep'); [reflexivity|]. cbn [length] in Hg. lia.
Qed.

Lemma fold_max_lt {A} (m : A -> nat) l n : (fold_right (fun x a => Nat.max (m x) a) O l < n)%nat ->
  Forall (fun x => (m x < n)%nat) l.
Proof. induction l as [|x l IH]; cbn [fold_right]; intros H; constructor; [lia|apply IH; lia]. Qed.

Theorem roundtrip_value : forall v, RT v.
Proof.
  apply json_ind2; unfold RT.
  - intros _ [|f'] rest Hd Hr; [lia|]. cbn [jser pval]. cbn [List.app t_null skipws]. change (isws 110) with false. cbv iota.
    change (110 =? 110) with true. cbv iota. change (110 :: 117 :: 108 :: 108 :: rest) with (t_null ++ rest).
    rewrite starts_app. reflexivity.
  - intros b _ [|f'] rest Hd Hr; [lia|]. destruct b; cbn [jser pval].
    + cbn [List.app t_true skipws]. change (isws 116) with false. cbv iota. change (116 =? 110) with false.
      change (116 =? 116) with true. cbv iota. change (116 :: 114 :: 117 :: 101 :: rest) with (t_true ++ rest).
      rewrite starts_app. reflexivity.
    + cbn [List.app t_false skipws]. change (isws 102) with false. cbv iota. change (102 =? 110) with false.
      change (102 =? 116) with false. change (102 =? 102) with true. cbv iota.
      change (102 :: 97 :: 108 :: 115 :: 101 :: rest) with (t_false ++ rest). rewrite starts_app. reflexivity.
  - intros d Hwf [|f'] rest Hd Hr; [lia|]. cbn [wfj] in Hwf. cbn [jser].
    destruct (ser_num_head d Hwf) as (c & t & E & Hc). pose proof (pnum_ser d rest Hwf Hr) as Hp. rewrite E in *.
    cbn [List.app] in *. cbn [pval].
    assert (Hws : isws c = false) by (unfold isws, is_digit in *; lia). rewrite skipws_nows by assumption.
    assert (c =? 110 = false) as -> by (unfold is_digit in *; lia).
    assert (c =? 116 = false) as -> by (unfold is_digit in *; lia).
    assert (c =? 102 = false) as -> by (unfold is_digit in *; lia).
    assert (c =? 34 = false) as -> by (unfold is_digit in *; lia).
    assert (c =? 91 = false) as -> by (unfold is_digit in *; lia).
    assert (c =? 123 = false) as -> by (unfold is_digit in *; lia).
    rewrite Hc, Hp. reflexivity.
  - intros s Hwf [|f'] rest Hd Hr; [lia|]. cbn [wfj] in Hwf. cbn [jser]. unfold ser_str. cbn [List.app pval skipws].
    change (isws 34) with false. cbv iota. change (34 =? 110) with false. change (34 =? 116) with false.
    change (34 =? 102) with false. change (34 =? 34) with true. cbv iota.
    rewrite <- app_assoc. cbn [List.app]. rewrite pstr_ser by assumption. reflexivity.
  - intros l IH Hwf [|f'] rest Hd Hr; [lia|]. cbn [wfj] in Hwf. cbn [jdepth] in Hd.
    destruct l as [|x r].
    + destruct f' as [|f'']; [lia|]. cbn. reflexivity.
    + rewrite jser_arr. cbn [List.app pval skipws]. change (isws 91) with false. cbv iota.
      change (91 =? 110) with false. change (91 =? 116) with false. change (91 =? 102) with false.
      change (91 =? 34) with false. change (91 =? 91) with true. cbv iota.
      destruct f' as [|f'']; [lia|].
      assert (Hwx : wfj x = true) by (cbn [forallb] in Hwf; apply andb_prop in Hwf as [H _]; exact H).
      destruct (jser_head x Hwx) as (c & t & E & Hc). destruct (vstart_facts c Hc) as (Hws & H93 & _).
      rewrite E. cbn [List.app]. rewrite skipws_nows by assumption.
      destruct (Z.eqb_spec c 93); [contradiction|].
      match goal with |- context [pelems ?pv ?g ?txt] =>
        replace txt with (jser x ++ ser_tail r ++ 93 :: rest)
          by (rewrite E; cbn [List.app]; rewrite <- !app_assoc; reflexivity) end.
      rewrite (pelems_ser (S f'') rest r x); try assumption; [reflexivity| |].
      * apply (fold_max_lt jdepth (x :: r)). lia.
      * rewrite !app_length. pose proof (ser_tail_length r). lia.
  - intros l IH Hwf [|f'] rest Hd Hr; [lia|]. cbn [wfj] in Hwf. cbn [jdepth] in Hd.
    destruct l as [|[k x] r].
    + destruct f' as [|f'']; [lia|]. cbn. reflexivity.
    + rewrite jser_obj. cbn [List.app pval skipws]. change (isws 123) with false. cbv iota.
      change (123 =? 110) with false. change (123 =? 116) with false. change (123 =? 102) with false.
      change (123 =? 34) with false. change (123 =? 91) with false. change (123 =? 123) with true. cbv iota.
      destruct f' as [|f'']; [lia|].
      unfold ser_str at 1. cbn [List.app skipws]. change (isws 34) with false. cbv iota. change (34 =? 125) with false. cbv iota.
      change (34 :: flat_map esc_char k ++ [34] ++ 58 :: jser x ++ ser_mtail r ++ [125] ++ rest)
        with (ser_str k ++ 58 :: jser x ++ ser_mtail r ++ 125 :: rest) || idtac.
      rewrite <- !app_assoc. cbn [List.app].
      change (34 :: flat_map esc_char k ++ 34 :: 58 :: jser x ++ ser_mtail r ++ 125 :: rest)
        with (34 :: flat_map esc_char k ++ [34] ++ 58 :: jser x ++ ser_mtail r ++ 125 :: rest).
      rewrite app_assoc. change (34 :: (flat_map esc_char k ++ [34]) ++ ?x) with (ser_str k ++ x) || idtac.
      match goal with |- context [pmembers ?pv ?g ?txt] =>
        replace txt with (ser_str k ++ 58 :: jser x ++ ser_mtail r ++ 125 :: rest)
          by (unfold ser_str; cbn [List.app]; rewrite <- ?app_assoc; reflexivity) end.
      rewrite (pmembers_ser (S f'') rest r k x); try assumption; [reflexivity| |].
      * apply (fold_max_lt (fun p => jdepth (snd p)) ((k, x) :: r)). lia.
      * pose proof (ser_mtail_length r). cbn [length]. rewrite !app_length. cbn [length]. rewrite !app_length. lia.
Qed.

Theorem json_roundtrip : forall v, wfj v = true -> (jdepth v < depth_limit)%nat -> jparse (jser v) = Some v.
Proof.
  intros v Hwf Hd. unfold jparse. pose proof (roundtrip_value v Hwf depth_limit [] Hd eq_refl) as H.
  rewrite app_nil_r in H. rewrite H. reflexivity.
Qed.

(* the reader's recursion limit is observable: a document nested 128 deep is written but not read back *)
Theorem json_depth_limit_refuted : exists v, wfj v = true /\ jparse (jser v) = None.
Proof. exists (nest 127). split; vm_compute; reflexivity. Qed.

(* whitespace between tokens and the alternative escape spellings are accepted by the reader and mean the same *)
Example json_reader_example :
  jparse [32; 123; 34; 92; 117; 100; 56; 51; 100; 92; 117; 100; 101; 48; 48; 34; 32; 58; 91; 49; 46; 53; 48; 69; 43; 49;
          44; 10; 45; 48; 93; 125; 10]
  = Some (JObj [([128512], JArr [JNum (mkd false [1; 5] 2); JNum dzero])]).
Proof. vm_compute. reflexivity. Qed.

(* consequently the serialiser is injective: different documents have different texts *)
Corollary jser_injective : forall v w, wfj v = true -> wfj w = true -> (jdepth v < depth_limit)%nat -> (jdepth w < depth_limit)%nat ->
  jser v = jser w -> v = w.
Proof.
  intros v w Hv Hw Dv Dw H. pose proof (json_roundtrip v Hv Dv) as R1. pose proof (json_roundtrip w Hw Dw) as R2.
  rewrite H in R1. rewrite R1 in R2. inversion R2. reflexivity.
Qed.
