From Coq Require Import ZArith Lia.
From Xr Require Import Base.Res Conv.Fractions.
Open Scope Z_scope.

(* fraction(n, d) is in lowest terms, has a positive denominator and denotes n/d *)
Theorem fraction_canonical n d f : fraction n d = Val f ->
  d <> 0 /\ canonical f /\ fnum f * d = n * fden f.
Proof.
  unfold fraction. destruct (Z.eqb_spec d 0) as [|Hd]; [discriminate|]. intros H. injection H as <-.
  split; auto. unfold canonical. cbn [fnum fden].
  set (g := Z.gcd n d).
  assert (Hg : 0 < g).
  { pose proof (Z.gcd_nonneg n d). assert (g <> 0); [|unfold g in *; lia].
    unfold g. intros H0. apply Z.gcd_eq_0_r in H0. contradiction. }
  destruct (Z.gcd_divide_l n d) as [n' Hn]. destruct (Z.gcd_divide_r n d) as [d' Hdd]. fold g in Hn, Hdd.
  assert (Hn' : n / g = n') by (rewrite Hn; apply Z.div_mul; lia).
  assert (Hcop : Z.gcd n' d' = 1).
  { pose proof (Z.gcd_div_gcd n d g ltac:(lia) eq_refl) as Hc.
    rewrite Hn' in Hc. replace (d / g) with d' in Hc; [exact Hc|]. rewrite Hdd. symmetry. apply Z.div_mul. lia. }
  assert (Hd' : d' <> 0) by (intros ->; lia).
  assert (Habs : Z.abs d / g = Z.abs d').
  { rewrite Hdd, Z.abs_mul, (Z.abs_eq g) by lia. apply Z.div_mul. lia. }
  assert (Hsg : Z.sgn d = Z.sgn d') by (rewrite Hdd, Z.sgn_mul, (Z.sgn_pos g) by lia; lia).
  rewrite Hn', Habs, Hsg. split; [split|].
  - rewrite Z.gcd_abs_r.
    destruct (Z.sgn_spec d') as [[Hs Es]|[[Hs Es]|[Hs Es]]]; try lia; rewrite Es.
    + now rewrite Z.mul_1_r.
    + change (-1) with (- (1)). rewrite Z.mul_opp_r, Z.mul_1_r, Z.gcd_opp_l. exact Hcop.
  - lia.
  - assert (Hsd : Z.sgn d' * d' = Z.abs d') by (destruct (Z.sgn_spec d') as [[? ->]|[[? ->]|[? ->]]]; lia).
    clear Hn' Habs Hsg Hcop. clearbody g. subst n d. rewrite <- Hsd. ring.
Qed.

(* exact arithmetic: the result denotes the exact rational and is canonical again *)
Theorem fadd_exact a b c : 0 < fden a -> 0 < fden b -> fadd a b = Val c ->
  canonical c /\ fnum c * (fden a * fden b) = (fnum a * fden b + fnum b * fden a) * fden c.
Proof. intros Ha Hb H. apply fraction_canonical in H. tauto. Qed.
Theorem fsub_exact a b c : 0 < fden a -> 0 < fden b -> fsub a b = Val c ->
  canonical c /\ fnum c * (fden a * fden b) = (fnum a * fden b - fnum b * fden a) * fden c.
Proof. intros Ha Hb H. apply fraction_canonical in H. tauto. Qed.
Theorem fmul_exact a b c : fmul a b = Val c ->
  canonical c /\ fnum c * (fden a * fden b) = (fnum a * fnum b) * fden c.
Proof. intros H. apply fraction_canonical in H. tauto. Qed.
Theorem fdiv_exact a b c : fdiv a b = Val c ->
  fnum b <> 0 /\ canonical c /\ fnum c * (fden a * fnum b) = (fnum a * fden b) * fden c.
Proof. intros H. apply fraction_canonical in H. destruct H as (Hnz & Hc & He). split; [nia|tauto]. Qed.

(* no value is produced for a zero denominator *)
Theorem fraction_zero_den n : exists e, fraction n 0 = Err e.
Proof. unfold fraction. cbn. eauto. Qed.

(* comparison of canonical fractions is the comparison of the rationals: the sign of the cross difference *)
Theorem fcmp_sign a b : 0 < fden a -> 0 < fden b ->
  (fcmp a b < 0 <-> fnum a * fden b < fnum b * fden a) /\ (fcmp a b = 0 <-> fnum a * fden b = fnum b * fden a).
Proof. unfold fcmp. lia. Qed.

(* canonical fractions that denote the same rational are identical (equality is representation equality) *)
Theorem canonical_unique a b : canonical a -> canonical b -> fnum a * fden b = fnum b * fden a -> a = b.
Proof.
  destruct a as [n1 d1], b as [n2 d2]. unfold canonical. cbn [fnum fden]. intros [G1 P1] [G2 P2] H.
  assert (Hd : d1 = d2).
  { apply Z.divide_antisym_nonneg; try lia.
    - apply (Z.gauss d1 n1 d2). + exists n2. lia. + now rewrite Z.gcd_comm.
    - apply (Z.gauss d2 n2 d1). + exists n1. lia. + now rewrite Z.gcd_comm. }
  subst d2. f_equal. nia.
Qed.
