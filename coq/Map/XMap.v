(* Model of src/builtin/mapping.rs (XMapping) and src/builtin/set.rs (XSet):
   a table  hash -> bucket,  bucket = list of (key, value) in insertion order, plus a separately
   maintained length.  The hash function and the equality are parameters: the theorems hold for every
   pair that agrees (equivalence; equal keys hash equally), a constant hash included.
   The Rust HashMap<u64, bucket> is modelled by an association list on the hash (only lookups by hash,
   insertion and replacement are used by the code). *)
From Coq Require Import List NArith Bool Arith String.
From Xr Require Import Base.Res.
Import ListNotations.

Section MAP.
  Variables K V : Type.
  Variable keq : K -> K -> bool.
  Variable hash : K -> N.

  Definition bucket := list (K * V).
  Record xmap := mk { buckets : list (N * bucket); len : nat }.

  Definition empty : xmap := mk [] 0.

  (* ---- bucket level (locate's inner loop calls eq(key, stored_key) front to back) ---- *)
  Fixpoint bget (k : K) (b : bucket) : option V :=
    match b with
    | [] => None
    | (k', v) :: r => if keq k k' then Some v else bget k r
    end.

  (* try_put_located: Found -> the value is replaced in place and the stored key is kept; Missing -> pushed at the end *)
  Fixpoint bset (k : K) (v : V) (b : bucket) : bucket :=
    match b with
    | [] => [(k, v)]
    | (k', v') :: r => if keq k k' then (k', v) :: r else (k', v') :: bset k v r
    end.

  (* pop / discard: take(idx) ++ skip(idx+1) of the located entry *)
  Fixpoint bdel (k : K) (b : bucket) : bucket :=
    match b with
    | [] => []
    | (k', v') :: r => if keq k k' then r else (k', v') :: bdel k r
    end.

  (* ---- table level ---- *)
  Fixpoint oget (h : N) (o : list (N * bucket)) : option bucket :=
    match o with
    | [] => None
    | (h', b) :: r => if N.eqb h h' then Some b else oget h r
    end.

  Fixpoint oset (h : N) (b : bucket) (o : list (N * bucket)) : list (N * bucket) :=
    match o with
    | [] => [(h, b)]
    | (h', b') :: r => if N.eqb h h' then (h, b) :: r else (h', b') :: oset h b r
    end.

  (* KeyLocation *)
  Inductive loc := Missing | Vacant | Found (v : V).
  Definition locate (m : xmap) (k : K) : loc :=
    match oget (hash k) (buckets m) with
    | None => Vacant
    | Some b => match bget k b with Some v => Found v | None => Missing end
    end.

  Definition lookup (m : xmap) (k : K) : option V :=
    match locate m k with Found v => Some v | _ => None end.

  Definition contains (m : xmap) (k : K) : bool :=
    match lookup m k with Some _ => true | None => false end.

  (* put: locate, then try_put_located *)
  Definition set (m : xmap) (k : K) (v : V) : xmap :=
    match oget (hash k) (buckets m) with
    | None => mk (oset (hash k) [(k, v)] (buckets m)) (S (len m))
    | Some b =>
        match bget k b with
        | Some _ => mk (oset (hash k) (bset k v b) (buckets m)) (len m)
        | None => mk (oset (hash k) (bset k v b) (buckets m)) (S (len m))
        end
    end.

  (* set_default: unchanged when found *)
  Definition set_default (m : xmap) (k : K) (v : V) : xmap :=
    match locate m k with Found _ => m | _ => set m k v end.

  (* update_from_keys step: on_empty k / on_occupied k old *)
  Definition upsert (m : xmap) (k : K) (on_empty : K -> V) (on_occ : K -> V -> V) : xmap :=
    match locate m k with Found old => set m k (on_occ k old) | _ => set m k (on_empty k) end.

  Definition remove_found (m : xmap) (k : K) : xmap :=
    match oget (hash k) (buckets m) with
    | Some b => mk (oset (hash k) (bdel k b) (buckets m)) (pred (len m))
    | None => m
    end.

  (* pop: error when absent *)
  Definition pop (m : xmap) (k : K) : res xmap :=
    if Nat.eqb (len m) 0 then Err "key not found"
    else match locate m k with Found _ => Val (remove_found m k) | _ => Err "key not found" end.

  (* discard: unchanged when absent *)
  Definition discard (m : xmap) (k : K) : xmap :=
    if Nat.eqb (len m) 0 then m
    else match locate m k with Found _ => remove_found m k | _ => m end.

  Definition update (m : xmap) (kvs : list (K * V)) : xmap :=
    fold_left (fun acc kv => set acc (fst kv) (snd kv)) kvs m.

  (* all entries, bucket after bucket (iteration order of the real HashMap differs; only the multiset matters) *)
  Definition entries (m : xmap) : list (K * V) := List.concat (map snd (buckets m)).
End MAP.

Arguments mk {K V} _ _.
Arguments buckets {K V} _.
Arguments len {K V} _.
Arguments empty {K V}.
Arguments Missing {V}.
Arguments Vacant {V}.
Arguments Found {V} _.

(* ---- sets (src/builtin/set.rs) are tables with unit values; the set algebra of include.rs is written in
   xray on top of add / contains / len / iteration and is transcribed here ---- *)
Section SET.
  Variable K : Type.
  Variable keq : K -> K -> bool.
  Variable hash : K -> N.
  Definition xset := xmap K unit.
  Definition sadd (s : xset) (k : K) : xset := set K unit keq hash s k tt.
  Definition scontains (s : xset) (k : K) : bool := contains K unit keq hash s k.
  Definition selems (s : xset) : list K := map fst (entries K unit s).
  Definition supdate (s : xset) (ks : list K) : xset := fold_left sadd ks s.
  Definition sremove (s : xset) (k : K) : res xset := pop K unit keq hash s k.
  Definition sdiscard (s : xset) (k : K) : xset := discard K unit keq hash s k.
  Definition sclear (s : xset) : xset := empty.
  Definition order_by_card (a b : xset) : xset * xset := if Nat.ltb (len a) (len b) then (a, b) else (b, a).
  Definition sinter (a b : xset) : xset :=
    let '(s, l) := order_by_card a b in supdate (sclear a) (filter (fun i => scontains l i) (selems s)).
  Definition sunion (a b : xset) : xset := supdate a (selems b).
  Definition ssub (a b : xset) : xset := supdate (sclear a) (filter (fun i => negb (scontains b i)) (selems a)).
  Definition sxor (a b : xset) : xset := sunion (ssub a b) (ssub b a).
  Definition seq (a b : xset) : bool :=
    let '(s, l) := order_by_card a b in Nat.eqb (len a) (len b) && forallb (fun x => scontains l x) (selems s).
  Definition sge (b a : xset) : bool := Nat.leb (len a) (len b) && forallb (fun x => scontains b x) (selems a).
  Definition sgt (b a : xset) : bool := Nat.ltb (len a) (len b) && forallb (fun x => scontains b x) (selems a).
  Definition sle (a b : xset) : bool := sge b a.
  Definition slt (a b : xset) : bool := sgt b a.
  Definition sdisjoint (a b : xset) : bool :=
    let '(s, l) := order_by_card a b in forallb (fun x => negb (scontains l x)) (selems s).
End SET.
