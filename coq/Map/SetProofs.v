(* The set algebra written on top of the table: membership of union / intersection / difference. *)
From Coq Require Import List NArith Bool Arith Lia.
From Xr Require Import Base.Res Map.XMap Map.MapProofs.
Import ListNotations.

Section SETPROOFS.
  Variable K : Type.
  Variable keq : K -> K -> bool.
  Variable hash : K -> N.
  Hypothesis keq_refl : forall a, keq a a = true.
  Hypothesis keq_sym : forall a b, keq a b = keq b a.
  Hypothesis keq_trans : forall a b c, keq a b = true -> keq b c = true -> keq a c = true.
  Hypothesis hash_compat : forall a b, keq a b = true -> hash a = hash b.

  Notation xset := (xset K).
  Notation sadd := (sadd K keq hash).
  Notation scontains := (scontains K keq hash).
  Notation supdate := (supdate K keq hash).
  Notation Inv := (Inv K unit keq hash).

  Lemma scontains_sadd s k x : scontains (sadd s k) x = keq k x || scontains s x.
  Proof.
    unfold XMap.scontains, XMap.contains, XMap.sadd.
    rewrite lookup_set by auto. destruct (keq k x); reflexivity.
  Qed.

  Lemma sadd_inv s k : Inv s -> Inv (sadd s k).
  Proof. apply set_inv; auto. Qed.

  Lemma supdate_inv ks : forall s, Inv s -> Inv (supdate s ks).
  Proof. induction ks as [|k r IH]; intros s Hi; cbn; auto. apply IH. now apply sadd_inv. Qed.

  Lemma scontains_supdate ks : forall s x,
    scontains (supdate s ks) x = scontains s x || existsb (fun k => keq k x) ks.
  Proof.
    induction ks as [|k r IH]; intros s x; cbn.
    - now rewrite orb_false_r.
    - unfold XMap.supdate in IH. rewrite IH, scontains_sadd.
      destruct (keq k x), (scontains s x); reflexivity.
  Qed.

  (* membership in the elements list agrees with contains (under the invariant) *)
  Lemma scontains_empty x : scontains empty x = false.
  Proof. reflexivity. Qed.

  Lemma existsb_filter (p : K -> bool) x l (Hp : forall k, keq k x = true -> p k = p x) :
    existsb (fun k => keq k x) (filter p l) = p x && existsb (fun k => keq k x) l.
  Proof.
    induction l as [|k r IH]; cbn; [now rewrite andb_false_r|].
    destruct (p k) eqn:Ep; cbn.
    - rewrite IH. destruct (keq k x) eqn:Ek; cbn; [|reflexivity].
      rewrite <- (Hp k Ek), Ep. reflexivity.
    - rewrite IH. destruct (keq k x) eqn:Ek; cbn; [|reflexivity].
      rewrite <- (Hp k Ek), Ep. reflexivity.
  Qed.

  (* contains respects the equivalence *)
  Lemma scontains_compat s k x : keq k x = true -> scontains s k = scontains s x.
  Proof.
    intros Hk. unfold XMap.scontains, XMap.contains.
    rewrite !lookup_unfold. rewrite (hash_compat _ _ Hk).
    destruct (oget K unit (hash x) (buckets s)) as [b|]; auto.
    induction b as [|[k0 []] r IH]; cbn; auto.
    destruct (keq k k0) eqn:E1, (keq x k0) eqn:E2; auto.
    - assert (keq x k0 = true); [|congruence]. apply (keq_trans x k k0); auto. now rewrite keq_sym.
    - assert (keq k k0 = true); [|congruence]. apply (keq_trans k x k0); auto.
  Qed.

  (* the elements list covers exactly what contains reports *)
  Lemma selems_contains s x : Inv s -> existsb (fun k => keq k x) (selems K s) = scontains s x.
  Proof.
    intros [Hw _]. unfold XMap.scontains, XMap.contains, selems, entries.
    rewrite lookup_unfold.
    induction (buckets s) as [|[h0 b0] r IH]; cbn [map List.concat oget]; auto.
    destruct Hw as (Hf & Hnd & Hh & Hw). rewrite map_app, existsb_app, (IH Hw).
    destruct (N.eqb_spec (hash x) h0) as [->|Hne].
    - cbn [snd]. rewrite Hf, orb_false_r. clear Hf Hnd Hh Hw IH. induction b0 as [|[k0 []] r0 IH0]; cbn; auto.
      rewrite (keq_sym x k0). destruct (keq k0 x); cbn; auto.
    - cbn [snd]. assert (existsb (fun k => keq k x) (map fst b0) = false) as ->; [|reflexivity].
      apply not_true_is_false. intros Hex. apply existsb_exists in Hex. destruct Hex as (k & Hin & Hk).
      apply in_map_iff in Hin. destruct Hin as ([k' u] & <- & Hin). cbn in Hk.
      apply Hne. rewrite <- (hash_compat _ _ Hk). apply (Hh k' u Hin).
  Qed.

  Theorem sunion_spec a b x : Inv a -> Inv b ->
    scontains (sunion K keq hash a b) x = scontains a x || scontains b x.
  Proof.
    intros Ha Hb. unfold sunion. fold supdate. rewrite scontains_supdate, (selems_contains b x Hb). reflexivity.
  Qed.

  Theorem ssub_spec a b x : Inv a -> Inv b ->
    scontains (ssub K keq hash a b) x = scontains a x && negb (scontains b x).
  Proof.
    intros Ha Hb. unfold ssub, sclear. fold supdate. rewrite scontains_supdate, scontains_empty. cbn [orb].
    rewrite existsb_filter.
    - rewrite (selems_contains a x Ha). apply andb_comm.
    - intros k Hk. now rewrite (scontains_compat b k x Hk).
  Qed.

  Theorem sinter_spec a b x : Inv a -> Inv b ->
    scontains (sinter K keq hash a b) x = scontains a x && scontains b x.
  Proof.
    intros Ha Hb. unfold sinter, order_by_card, sclear. fold supdate.
    destruct (Nat.ltb (len a) (len b)); rewrite scontains_supdate, scontains_empty; cbn [orb];
      rewrite existsb_filter by (intros k Hk; now rewrite (scontains_compat _ k x Hk)).
    - rewrite (selems_contains a x Ha). apply andb_comm.
    - rewrite (selems_contains b x Hb). reflexivity.
  Qed.

  Theorem algebra_inv a b : Inv a -> Inv b ->
    Inv (sunion K keq hash a b) /\ Inv (ssub K keq hash a b) /\ Inv (sinter K keq hash a b).
  Proof.
    intros Ha Hb. unfold sunion, ssub, sinter, order_by_card, sclear. fold supdate.
    split; [|split].
    - now apply supdate_inv.
    - apply supdate_inv. apply inv_empty.
    - destruct (Nat.ltb (len a) (len b)); apply supdate_inv; apply inv_empty.
  Qed.
End SETPROOFS.
