(* Refinement of the bucketed table to a finite map over the equivalence classes of the key equality,
   for ANY hash function and equality that agree. *)
From Coq Require Import List NArith Bool Arith Lia.
From Xr Require Import Base.Res Map.XMap.
Import ListNotations.

Section PROOFS.
  Variables K V : Type.
  Variable keq : K -> K -> bool.
  Variable hash : K -> N.
  Hypothesis keq_refl : forall a, keq a a = true.
  Hypothesis keq_sym : forall a b, keq a b = keq b a.
  Hypothesis keq_trans : forall a b c, keq a b = true -> keq b c = true -> keq a c = true.
  Hypothesis hash_compat : forall a b, keq a b = true -> hash a = hash b.

  Notation bucket := (bucket K V).
  Notation xmap := (xmap K V).
  Notation bget := (bget K V keq).
  Notation bset := (bset K V keq).
  Notation bdel := (bdel K V keq).
  Notation oget := (oget K V).
  Notation oset := (oset K V).
  Notation lookup := (lookup K V keq hash).
  Notation set := (set K V keq hash).
  Notation locate := (locate K V keq hash).

  Lemma keq_false_trans a b c : keq a b = true -> keq a c = false -> keq b c = false.
  Proof.
    intros Hab Hac. destruct (keq b c) eqn:E; auto.
    rewrite (keq_trans a b c Hab E) in Hac. discriminate.
  Qed.

  (* ---------------- buckets ---------------- *)
  Fixpoint bnodup (b : bucket) : Prop :=
    match b with
    | [] => True
    | (k, _) :: r => (forall k' v', In (k', v') r -> keq k k' = false) /\ bnodup r
    end.

  Definition bhash (h : N) (b : bucket) : Prop := forall k v, In (k, v) b -> hash k = h.

  Lemma bget_none_all k b : (forall k' v', In (k', v') b -> keq k k' = false) -> bget k b = None.
  Proof.
    induction b as [|[k0 v0] r IH]; intros H; cbn; auto.
    rewrite (H k0 v0) by (left; reflexivity). apply IH. intros k' v' Hin. apply (H k' v'). now right.
  Qed.

  Lemma bget_some_in k b v : bget k b = Some v -> exists k0, In (k0, v) b /\ keq k k0 = true.
  Proof.
    induction b as [|[k0 v0] r IH]; cbn; [discriminate|].
    destruct (keq k k0) eqn:E.
    - intros H. injection H as <-. exists k0. split; auto.
    - intros H. destruct (IH H) as (k1 & Hin & Hk). exists k1. split; auto.
  Qed.

  Lemma bget_bset_same k k' v b : keq k k' = true -> bget k' (bset k v b) = Some v.
  Proof.
    intros Hk. induction b as [|[k0 v0] r IH]; cbn.
    - rewrite keq_sym, Hk. reflexivity.
    - destruct (keq k k0) eqn:E; cbn.
      + assert (keq k' k0 = true) as -> by (apply (keq_trans k' k k0); [now rewrite keq_sym|exact E]). reflexivity.
      + assert (keq k' k0 = false) as ->.
        { destruct (keq k' k0) eqn:E'; auto. rewrite (keq_trans k k' k0 Hk E') in E. discriminate. }
        exact IH.
  Qed.

  Lemma bget_bset_other k k' v b : keq k k' = false -> bget k' (bset k v b) = bget k' b.
  Proof.
    intros Hk. induction b as [|[k0 v0] r IH]; cbn.
    - rewrite keq_sym, Hk. reflexivity.
    - destruct (keq k k0) eqn:E; cbn.
      + assert (keq k' k0 = false) as ->; [|reflexivity].
        destruct (keq k' k0) eqn:E'; auto.
        assert (keq k k' = true); [|congruence].
        apply (keq_trans k k0 k'); auto. now rewrite keq_sym.
      + destruct (keq k' k0); auto.
  Qed.

  Lemma bget_bdel_same k k' b : bnodup b -> keq k k' = true -> bget k' (bdel k b) = None.
  Proof.
    intros Hnd Hk. induction b as [|[k0 v0] r IH]; cbn; auto.
    destruct Hnd as [Hfresh Hnd]. destruct (keq k k0) eqn:E.
    - apply bget_none_all. intros k1 v1 Hin.
      apply (keq_false_trans k0 k' k1); [|now apply (Hfresh k1 v1)].
      apply (keq_trans k0 k k'); auto. now rewrite keq_sym.
    - cbn. assert (keq k' k0 = false) as ->.
      { destruct (keq k' k0) eqn:E'; auto. rewrite (keq_trans k k' k0 Hk E') in E. discriminate. }
      auto.
  Qed.

  Lemma bget_bdel_other k k' b : keq k k' = false -> bget k' (bdel k b) = bget k' b.
  Proof.
    intros Hk. induction b as [|[k0 v0] r IH]; cbn; auto.
    destruct (keq k k0) eqn:E; cbn.
    - assert (keq k' k0 = false) as ->; [|reflexivity].
      destruct (keq k' k0) eqn:E'; auto.
      assert (keq k k' = true); [|congruence].
      apply (keq_trans k k0 k'); auto. now rewrite keq_sym.
    - destruct (keq k' k0); auto.
  Qed.

  Lemma bset_in k v b k1 v1 : In (k1, v1) (bset k v b) ->
    (k1 = k /\ v1 = v) \/ (exists v0, In (k1, v0) b).
  Proof.
    induction b as [|[k0 v0] r IH]; cbn.
    - intros [H|[]]. injection H as <- <-. left; auto.
    - destruct (keq k k0) eqn:E; cbn.
      + intros [H|H]; [injection H as <- <-; right; eauto | right; eauto].
      + intros [H|H]; [injection H as <- <-; right; eauto|].
        destruct (IH H) as [?|[v2 ?]]; [left; auto | right; eauto].
  Qed.

  Lemma bdel_in k b k1 v1 : In (k1, v1) (bdel k b) -> In (k1, v1) b.
  Proof.
    induction b as [|[k0 v0] r IH]; cbn; auto.
    destruct (keq k k0); cbn; intuition.
  Qed.

  Lemma bset_nodup k v b : bnodup b -> bnodup (bset k v b).
  Proof.
    induction b as [|[k0 v0] r IH]; cbn; intros Hnd.
    - split; auto. intros ? ? [].
    - destruct Hnd as [Hfresh Hnd]. destruct (keq k k0) eqn:E; cbn.
      + split; auto.
      + split; auto. intros k1 v1 Hin. destruct (bset_in _ _ _ _ _ Hin) as [[-> ->]|[v2 Hin2]].
        * now rewrite keq_sym.
        * eapply Hfresh; eauto.
  Qed.

  Lemma bdel_nodup k b : bnodup b -> bnodup (bdel k b).
  Proof.
    induction b as [|[k0 v0] r IH]; cbn; auto. intros [Hfresh Hnd].
    destruct (keq k k0); cbn; auto. split; auto.
    intros k1 v1 Hin. eapply Hfresh. eapply bdel_in; eauto.
  Qed.

  Lemma bset_hash k v b : bhash (hash k) b -> bhash (hash k) (bset k v b).
  Proof.
    intros H k1 v1 Hin. destruct (bset_in _ _ _ _ _ Hin) as [[-> ->]|[v2 Hin2]]; auto. eapply H; eauto.
  Qed.

  Lemma bdel_hash h k b : bhash h b -> bhash h (bdel k b).
  Proof. intros H k1 v1 Hin. eapply H. eapply bdel_in; eauto. Qed.

  Lemma bset_length k v b :
    length (bset k v b) = match bget k b with Some _ => length b | None => S (length b) end.
  Proof.
    induction b as [|[k0 v0] r IH]; cbn; auto.
    destruct (keq k k0); cbn; auto. rewrite IH. destruct (bget k r); auto.
  Qed.

  Lemma bdel_length k b v : bget k b = Some v -> S (length (bdel k b)) = length b.
  Proof.
    induction b as [|[k0 v0] r IH]; cbn; [discriminate|].
    destruct (keq k k0); cbn; auto.
  Qed.

  (* ---------------- table ---------------- *)
  Fixpoint owf (o : list (N * bucket)) : Prop :=
    match o with
    | [] => True
    | (h, b) :: r => oget h r = None /\ bnodup b /\ bhash h b /\ owf r
    end.

  Definition total (o : list (N * bucket)) : nat := length (List.concat (map snd o)).

  Lemma total_cons h b r : total ((h, b) :: r) = length b + total r.
  Proof. unfold total. cbn. now rewrite app_length. Qed.

  Lemma oget_oset_same h b o : oget h (oset h b o) = Some b.
  Proof.
    induction o as [|[h0 b0] r IH]; cbn; [now rewrite N.eqb_refl|].
    destruct (N.eqb_spec h h0); cbn; [now rewrite N.eqb_refl|].
    destruct (N.eqb_spec h h0); [contradiction|auto].
  Qed.

  Lemma oget_oset_other h h' b o : h <> h' -> oget h' (oset h b o) = oget h' o.
  Proof.
    intros Hne. induction o as [|[h0 b0] r IH]; cbn.
    - destruct (N.eqb_spec h' h); [congruence|reflexivity].
    - destruct (N.eqb_spec h h0) as [<-|Hn]; cbn.
      + destruct (N.eqb_spec h' h); [congruence|reflexivity].
      + destruct (N.eqb_spec h' h0); auto.
  Qed.

  Lemma owf_get o h b : owf o -> oget h o = Some b -> bnodup b /\ bhash h b.
  Proof.
    induction o as [|[h0 b0] r IH]; cbn; [discriminate|].
    intros (Hf & Hnd & Hh & Hw). destruct (N.eqb_spec h h0) as [->|Hn].
    - intros H. injection H as <-. auto.
    - auto.
  Qed.

  Lemma owf_oset o h b : owf o -> bnodup b -> bhash h b -> owf (oset h b o).
  Proof.
    induction o as [|[h0 b0] r IH]; cbn; intros Hw Hnd Hh.
    - auto.
    - destruct Hw as (Hf & Hnd0 & Hh0 & Hw). destruct (N.eqb_spec h h0) as [->|Hn]; cbn.
      + auto.
      + repeat split; auto. rewrite oget_oset_other; auto.
  Qed.

  Lemma total_oset o h b : owf o ->
    total (oset h b o) + match oget h o with Some b0 => length b0 | None => 0 end = total o + length b.
  Proof.
    induction o as [|[h0 b0] r IH]; cbn [oset oget]; intros Hw.
    - rewrite total_cons. unfold total. cbn. lia.
    - destruct Hw as (Hf & _ & _ & Hw). destruct (N.eqb_spec h h0) as [->|Hn].
      + rewrite !total_cons. lia.
      + rewrite !total_cons. specialize (IH Hw). lia.
  Qed.

  (* ---------------- the invariant of a mapping value ---------------- *)
  Definition Inv (m : xmap) : Prop := owf (buckets m) /\ len m = total (buckets m).

  Lemma inv_empty : Inv empty.
  Proof. split; cbn; auto. Qed.

  Lemma lookup_unfold m k :
    lookup m k = match oget (hash k) (buckets m) with Some b => bget k b | None => None end.
  Proof.
    unfold XMap.lookup, XMap.locate. destruct (oget (hash k) (buckets m)) as [b|]; auto.
    destruct (bget k b); auto.
  Qed.

  (* ---- set ---- *)
  Lemma set_buckets m k v :
    buckets (set m k v) =
    oset (hash k) (match oget (hash k) (buckets m) with Some b => bset k v b | None => [(k, v)] end) (buckets m).
  Proof.
    unfold XMap.set. destruct (oget (hash k) (buckets m)) as [b|]; auto. destruct (bget k b); auto.
  Qed.

  Lemma set_inv m k v : Inv m -> Inv (set m k v).
  Proof.
    intros [Hw Hl]. split.
    - rewrite set_buckets. destruct (oget (hash k) (buckets m)) as [b|] eqn:E.
      + destruct (owf_get _ _ _ Hw E) as [Hnd Hh]. apply owf_oset; auto using bset_nodup, bset_hash.
      + apply owf_oset; auto.
        * cbn. split; auto. intros ? ? [].
        * intros k1 v1 [H|[]]. now injection H as <- <-.
    - pose proof (total_oset (buckets m) (hash k)
        (match oget (hash k) (buckets m) with Some b => bset k v b | None => [(k, v)] end) Hw) as Ht.
      rewrite <- set_buckets in Ht. unfold XMap.set in *.
      destruct (oget (hash k) (buckets m)) as [b|] eqn:E.
      + rewrite bset_length in Ht. destruct (bget k b); cbn [len buckets] in *; lia.
      + cbn [len buckets length] in *. lia.
  Qed.

  Theorem lookup_set m k v k' :
    lookup (set m k v) k' = if keq k k' then Some v else lookup m k'.
  Proof.
    rewrite !lookup_unfold, set_buckets.
    destruct (N.eq_dec (hash k) (hash k')) as [Hh|Hh].
    - rewrite <- Hh, oget_oset_same.
      destruct (oget (hash k) (buckets m)) as [b|] eqn:E.
      + destruct (keq k k') eqn:Ek; [now apply bget_bset_same | now apply bget_bset_other].
      + cbn. rewrite keq_sym. destruct (keq k k'); reflexivity.
    - rewrite oget_oset_other by auto.
      destruct (keq k k') eqn:Ek; auto. apply hash_compat in Ek. contradiction.
  Qed.

  Theorem len_set m k v : Inv m ->
    len (set m k v) = if contains K V keq hash m k then len m else S (len m).
  Proof.
    intros _. unfold contains. rewrite lookup_unfold. unfold XMap.set.
    destruct (oget (hash k) (buckets m)) as [b|]; auto. destruct (bget k b); auto.
  Qed.

  (* ---- removal ---- *)
  Lemma remove_found_inv m k v0 : Inv m -> lookup m k = Some v0 -> Inv (remove_found K V keq hash m k).
  Proof.
    intros [Hw Hl] Hlk. rewrite lookup_unfold in Hlk. unfold remove_found.
    destruct (oget (hash k) (buckets m)) as [b|] eqn:E; [|discriminate].
    destruct (owf_get _ _ _ Hw E) as [Hnd Hh]. split; cbn [buckets len].
    - apply owf_oset; auto using bdel_nodup, bdel_hash.
    - pose proof (total_oset (buckets m) (hash k) (bdel k b) Hw) as Ht. rewrite E in Ht.
      pose proof (bdel_length _ _ _ Hlk). lia.
  Qed.

  Theorem lookup_remove_found m k k' : Inv m ->
    lookup (remove_found K V keq hash m k) k' = if keq k k' then None else lookup m k'.
  Proof.
    intros [Hw _]. rewrite !lookup_unfold. unfold remove_found.
    destruct (oget (hash k) (buckets m)) as [b|] eqn:E.
    - cbn [buckets]. destruct (N.eq_dec (hash k) (hash k')) as [Hh|Hh].
      + rewrite <- Hh, oget_oset_same, E. destruct (owf_get _ _ _ Hw E) as [Hnd _].
        destruct (keq k k') eqn:Ek; [now apply bget_bdel_same | now apply bget_bdel_other].
      + rewrite oget_oset_other by auto.
        destruct (keq k k') eqn:Ek; auto. apply hash_compat in Ek. contradiction.
    - destruct (keq k k') eqn:Ek; auto. rewrite <- (hash_compat _ _ Ek), E. reflexivity.
  Qed.

  Theorem len_remove_found m k v0 : Inv m -> lookup m k = Some v0 ->
    S (len (remove_found K V keq hash m k)) = len m.
  Proof.
    intros [Hw Hl] Hlk. rewrite lookup_unfold in Hlk. unfold remove_found.
    destruct (oget (hash k) (buckets m)) as [b|] eqn:E; [|discriminate]. cbn [len].
    assert (0 < len m); [|lia]. rewrite Hl.
    pose proof (bdel_length _ _ _ Hlk).
    clear Hl. induction (buckets m) as [|[h0 b0] r IH]; cbn in E; [discriminate|].
    rewrite total_cons. destruct (N.eqb_spec (hash k) h0).
    - injection E as ->. lia.
    - destruct Hw as (_ & _ & _ & Hw). specialize (IH Hw E). lia.
  Qed.

  (* pop: error exactly when the key is absent; otherwise the map without that class *)
  Theorem pop_spec m k : Inv m ->
    match lookup m k with
    | None => exists e, pop K V keq hash m k = Err e
    | Some _ => exists m', pop K V keq hash m k = Val m' /\ Inv m' /\ S (len m') = len m /\
                  forall k', lookup m' k' = if keq k k' then None else lookup m k'
    end.
  Proof.
    intros Hi. destruct (lookup m k) as [v0|] eqn:Hlk.
    - unfold pop. pose proof (len_remove_found m k v0 Hi Hlk) as Hlen.
      destruct (Nat.eqb_spec (len m) 0); [lia|].
      unfold XMap.lookup in Hlk. destruct (locate m k) as [| |v1] eqn:El; try discriminate.
      eexists. split; [reflexivity|]. split; [eapply remove_found_inv; eauto; unfold XMap.lookup; now rewrite El|].
      split; auto. intros k'. now apply lookup_remove_found.
    - unfold pop. destruct (Nat.eqb (len m) 0); [eauto|].
      unfold XMap.lookup in Hlk. destruct (locate m k); try discriminate; eauto.
  Qed.

  Theorem discard_spec m k : Inv m ->
    Inv (discard K V keq hash m k) /\
    (forall k', lookup (discard K V keq hash m k) k' = if keq k k' then None else lookup m k') /\
    len (discard K V keq hash m k) = if contains K V keq hash m k then pred (len m) else len m.
  Proof.
    intros Hi. unfold discard, contains.
    assert (Hnone : lookup m k = None -> forall k', (if keq k k' then None else lookup m k') = lookup m k').
    { intros Hn k'. destruct (keq k k') eqn:Ek; auto. rewrite !lookup_unfold in *.
      rewrite <- (hash_compat _ _ Ek). destruct (oget (hash k) (buckets m)) as [b|]; auto.
      destruct (bget k' b) as [v|] eqn:Eb; auto.
      destruct (bget_some_in _ _ _ Eb) as (k0 & Hin & Hk0).
      assert (keq k k0 = true) by (apply (keq_trans k k' k0); auto).
      clear - Hn Hin H keq_sym. induction b as [|[k1 v1] r IH]; [destruct Hin|]. cbn in Hn.
      destruct (keq k k1) eqn:E1; [discriminate|]. destruct Hin as [Heq|Hin]; [injection Heq as -> ->; congruence|auto]. }
    destruct (Nat.eqb_spec (len m) 0) as [H0|Hn0].
    - assert (Hlk : lookup m k = None).
      { destruct (lookup m k) as [v0|] eqn:Hlk; auto. pose proof (len_remove_found m k v0 Hi Hlk). lia. }
      rewrite Hlk. split; [exact Hi|]. split; [|reflexivity]. intros k'. symmetry. now apply Hnone.
    - destruct (lookup m k) as [v0|] eqn:Hlk.
      + unfold XMap.lookup in Hlk. destruct (locate m k) as [| |v1] eqn:El; try discriminate.
        assert (Hlk' : lookup m k = Some v1) by (unfold XMap.lookup; now rewrite El).
        split; [|split].
        * eapply remove_found_inv; eauto.
        * intros k'. now apply lookup_remove_found.
        * pose proof (len_remove_found m k v1 Hi Hlk'). lia.
      + pose proof Hlk as Hlk2. unfold XMap.lookup in Hlk. destruct (locate m k); try discriminate;
          (split; [exact Hi|]; split; [|reflexivity]; intros k'; symmetry; now apply Hnone).
  Qed.

  (* set_default / upsert reduce to set *)
  Theorem set_default_spec m k v : Inv m ->
    Inv (set_default K V keq hash m k v) /\
    forall k', lookup (set_default K V keq hash m k v) k' =
               match lookup m k' with Some x => Some x | None => if keq k k' then Some v else None end.
  Proof.
    intros Hi. unfold set_default. destruct (locate m k) as [| |v1] eqn:El.
    - split; [now apply set_inv|]. intros k'. rewrite lookup_set.
      assert (Hn : lookup m k = None) by (unfold XMap.lookup; now rewrite El).
      destruct (keq k k') eqn:Ek; [|destruct (lookup m k'); auto].
      assert (lookup m k' = None) as ->; auto.
      rewrite !lookup_unfold in *. rewrite <- (hash_compat _ _ Ek).
      destruct (oget (hash k) (buckets m)) as [b|]; auto.
      destruct (bget k' b) as [x|] eqn:Eb; auto. destruct (bget_some_in _ _ _ Eb) as (k0 & Hin & Hk0).
      assert (H : keq k k0 = true) by (apply (keq_trans k k' k0); auto).
      clear - Hn Hin H. induction b as [|[k1 v1] r IH]; [destruct Hin|]. cbn in Hn.
      destruct (keq k k1) eqn:E1; [discriminate|]. destruct Hin as [Heq|Hin]; [injection Heq as -> ->; congruence|auto].
    - split; [now apply set_inv|]. intros k'. rewrite lookup_set.
      unfold XMap.locate in El.
      destruct (keq k k') eqn:Ek; [|destruct (lookup m k'); auto].
      assert (lookup m k' = None) as ->; auto.
      rewrite lookup_unfold. rewrite <- (hash_compat _ _ Ek).
      destruct (oget (hash k) (buckets m)) as [b|]; auto. destruct (bget k b); discriminate.
    - split; auto. intros k'. destruct (lookup m k') as [x|] eqn:Ek'; auto.
      destruct (keq k k') eqn:Ek; auto.
      assert (Hs : lookup m k = Some v1) by (unfold XMap.lookup; now rewrite El).
      rewrite !lookup_unfold in *. rewrite <- (hash_compat _ _ Ek) in Ek'.
      destruct (oget (hash k) (buckets m)) as [b|]; [|discriminate].
      destruct (bget_some_in _ _ _ Hs) as (k0 & Hin & Hk0).
      assert (H : keq k' k0 = true) by (apply (keq_trans k' k k0); auto; now rewrite keq_sym).
      clear - Ek' Hin H. induction b as [|[k1 v2] r IH]; [destruct Hin|]. cbn in Ek'.
      destruct (keq k' k1) eqn:E1; [discriminate|]. destruct Hin as [Heq|Hin]; [injection Heq as -> ->; congruence|auto].
  Qed.

  (* bulk update = iterated set *)
  Theorem update_inv kvs : forall m, Inv m -> Inv (update K V keq hash m kvs).
  Proof.
    induction kvs as [|[k v] r IH]; intros m Hi; cbn; auto. apply IH. now apply set_inv.
  Qed.

  (* the length is the number of stored entries and all stored keys are pairwise inequivalent:
     the table holds exactly one entry per equivalence class present *)
  Theorem len_is_entries m : Inv m -> len m = length (entries K V m).
  Proof. intros [_ Hl]. exact Hl. Qed.

  Lemma owf_entries_distinct o : owf o ->
    forall h1 b1 h2 b2 k1 v1 k2 v2, In (h1, b1) o -> In (h2, b2) o -> In (k1, v1) b1 -> In (k2, v2) b2 ->
      h1 <> h2 -> keq k1 k2 = false.
  Proof.
    intros Hw h1 b1 h2 b2 k1 v1 k2 v2 Hi1 Hi2 Hk1 Hk2 Hne.
    assert (Hg : forall h b, In (h, b) o -> bhash h b).
    { clear - Hw. induction o as [|[h0 b0] r IH]; [intros ? ? []|].
      destruct Hw as (_ & _ & Hh & Hw). intros h b [H|H]; [injection H as <- <-; auto | auto]. }
    destruct (keq k1 k2) eqn:E; auto. apply hash_compat in E.
    rewrite (Hg _ _ Hi1 _ _ Hk1), (Hg _ _ Hi2 _ _ Hk2) in E. contradiction.
  Qed.
End PROOFS.
