(* Executable instance used by the correspondence check: integer keys, equality = congruence modulo ke,
   hash = (k mod ke) mod hm  (hm = 1: constant hash; hm >= ke: injective on the classes).
   A history applies each operation to an earlier version, so that every intermediate version can be
   observed again after all later updates (persistence). *)
From Coq Require Import List ZArith NArith Bool String Lia.
From Xr Require Import Base.Res Base.Show Map.XMap.
Import ListNotations.
Open Scope Z_scope.

Section INST.
  Variables ke hm : Z.
  Definition zkeq (a b : Z) : bool := (a mod ke) =? (b mod ke).
  Definition zhash (a : Z) : N := Z.to_N ((a mod ke) mod hm).

  Notation zmap := (xmap Z Z).
  Definition zset := set Z Z zkeq zhash.
  Definition zlookup := lookup Z Z zkeq zhash.

  Inductive mop :=
  | MSet (k v : Z) | MSetDefault (k v : Z) | MPop (k : Z) | MDiscard (k : Z)
  | MUpdate (kvs : list (Z * Z)) | MUpdateMap (other : nat)
  | MUpsert (ks : list Z)          (* update_from_keys(ks, k -> 100*k, (k,v) -> v+1) *)
  | MCounter (ks : list Z)         (* update_counter *)
  | MClear.

  Definition mapply (vs : list (res zmap)) (m : zmap) (o : mop) : res zmap :=
    match o with
    | MSet k v => Val (zset m k v)
    | MSetDefault k v => Val (set_default Z Z zkeq zhash m k v)
    | MPop k => pop Z Z zkeq zhash m k
    | MDiscard k => Val (discard Z Z zkeq zhash m k)
    | MUpdate kvs => Val (update Z Z zkeq zhash m kvs)
    | MUpdateMap other =>
        do o <- nth other vs (Err "no such version"); Val (update Z Z zkeq zhash m (entries Z Z o))
    | MUpsert ks => Val (fold_left (fun acc k => upsert Z Z zkeq zhash acc k (fun k => 100 * k) (fun _ v => v + 1)) ks m)
    | MCounter ks => Val (fold_left (fun acc k => upsert Z Z zkeq zhash acc k (fun _ => 1) (fun _ v => v + 1)) ks m)
    | MClear => Val empty
    end.

  Fixpoint mexec (vs : list (res zmap)) (h : list (nat * mop)) : list (res zmap) :=
    match h with
    | [] => vs
    | (src, o) :: r =>
        let v := (do m <- nth src vs (Err "no such version"); mapply vs m o) in
        mexec (vs ++ [v]) r
    end.

  Definition show_opt (o : option Z) : string := match o with Some z => show_Z z | None => "None" end.
  Definition mobs (u : list Z) (m : zmap) : string :=
    (show_nat (len m) ++ ":" ++ show_list show_opt (map (zlookup m) u))%string.
  Definition mrun (u : list Z) (h : list (nat * mop)) : list string :=
    map (show_res (mobs u)) (mexec [Val empty] h).

  (* ---- sets ---- *)
  Notation zs := (xset Z).
  Inductive sop :=
  | SAdd (k : Z) | SRemove (k : Z) | SDiscard (k : Z) | SUpdate (ks : list Z)
  | SUnion (o : nat) | SInter (o : nat) | SSub (o : nat) | SXor (o : nat) | SClear.

  Definition sapply (vs : list (res zs)) (s : zs) (o : sop) : res zs :=
    let other i := nth i vs (Err "no such version") in
    match o with
    | SAdd k => Val (sadd Z zkeq zhash s k)
    | SRemove k => sremove Z zkeq zhash s k
    | SDiscard k => Val (sdiscard Z zkeq zhash s k)
    | SUpdate ks => Val (supdate Z zkeq zhash s ks)
    | SUnion i => do o <- other i; Val (sunion Z zkeq zhash s o)
    | SInter i => do o <- other i; Val (sinter Z zkeq zhash s o)
    | SSub i => do o <- other i; Val (ssub Z zkeq zhash s o)
    | SXor i => do o <- other i; Val (sxor Z zkeq zhash s o)
    | SClear => Val empty
    end.

  Fixpoint sexec (vs : list (res zs)) (h : list (nat * sop)) : list (res zs) :=
    match h with
    | [] => vs
    | (src, o) :: r =>
        let v := (do s <- nth src vs (Err "no such version"); sapply vs s o) in
        sexec (vs ++ [v]) r
    end.

  Definition sobs (u : list Z) (s : zs) : string :=
    (show_nat (len s) ++ ":" ++ show_list show_bool (map (scontains Z zkeq zhash s) u))%string.
  Definition srun (u : list Z) (h : list (nat * sop)) : list string :=
    map (show_res (sobs u)) (sexec [Val empty] h).

  (* relations between two versions: eq, le, lt, ge, gt, is_disjoint *)
  Definition srel (a b : zs) : string :=
    show_list show_bool [seq Z zkeq zhash a b; sle Z zkeq zhash a b; slt Z zkeq zhash a b;
                         sge Z zkeq zhash a b; sgt Z zkeq zhash a b; sdisjoint Z zkeq zhash a b].
  Definition srels (u : list Z) (h : list (nat * sop)) (pairs : list (nat * nat)) : list string :=
    let vs := sexec [Val empty] h in
    map (fun p => show_res (fun x => x) (do a <- nth (fst p) vs (Err "v"); do b <- nth (snd p) vs (Err "v"); Val (srel a b))) pairs.
End INST.

(* the instance meets the hypotheses of the theorems whenever ke > 0 and hm > 0 *)
Lemma zkeq_refl ke a : zkeq ke a a = true.
Proof. unfold zkeq. apply Z.eqb_refl. Qed.
Lemma zkeq_sym ke a b : zkeq ke a b = zkeq ke b a.
Proof. unfold zkeq. apply Z.eqb_sym. Qed.
Lemma zkeq_trans ke a b c : zkeq ke a b = true -> zkeq ke b c = true -> zkeq ke a c = true.
Proof. unfold zkeq. rewrite !Z.eqb_eq. congruence. Qed.
Lemma zhash_compat ke hm a b : zkeq ke a b = true -> zhash ke hm a = zhash ke hm b.
Proof. unfold zkeq, zhash. rewrite Z.eqb_eq. intros ->. reflexivity. Qed.
