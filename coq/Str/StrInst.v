From Coq Require Import List NArith ZArith String.
From Xr Require Import Base.Res Base.Show Str.Fenced Str.StrFns Str.Escapes.
Import ListNotations.

Definition S_ (l : list N) : fs := from_cps l.
Definition show_fs (s : fs) : string := show_list show_N (cps s).
Definition rfs (r : res fs) : string := show_res show_fs r.
Definition rcps (r : res (list N)) : string := show_res (show_list show_N) r.
Definition roz (r : res (option Z)) : string := show_res (fun o => match o with Some z => show_Z z | None => "None" end) r.
Definition rb (r : res bool) : string := show_res show_bool r.
Definition rlfs (r : res (list fs)) : string := show_res (show_list show_fs) r.
Definition rpair (r : res (fs * fs)) : string := show_res (fun p => "(" ++ show_fs (fst p) ++ ", " ++ show_fs (snd p) ++ ")") r.
(* the representation invariant, decidable form, checked on every result of the correspondence *)
Definition finv_b (s : fs) : bool :=
  match starts s with
  | [] => all_ascii (cps s)
  | t => if list_eq_dec Nat.eq_dec t (offsets (cps s) 0) then true else false
  end.
