From Coq Require Import List NArith Bool Lia.
From Xr Require Import Base.Res Str.Escapes.
Import ListNotations.
Open Scope N_scope.

(* reading back the canonical spelling gives the text, for every text *)
Theorem unesc_esc t : forall fuel, (List.length (esc t) < fuel)%nat -> unesc fuel (esc t) = Val t.
Proof.
  induction t as [|c r IH]; intros fuel Hf.
  - destruct fuel; [cbn in Hf; lia|]. reflexivity.
  - cbn [esc flat_map] in *. fold (esc r) in *. rewrite app_length in Hf.
    unfold esc1 in *.
    destruct (N.eqb_spec c 92) as [->|H92].
    { cbn [app List.length] in *. destruct fuel as [|f]; [lia|]. cbn [unesc].
      replace (92 =? bs) with true by reflexivity. replace (92 =? nl) with false by reflexivity.
      replace (92 =? 117) with false by reflexivity. cbn [andb]. cbn [simple_escape N.eqb].
      change (simple_escape 92) with (Some 92). rewrite IH by lia. reflexivity. }
    destruct (N.eqb_spec c 34) as [->|H34].
    { cbn [app List.length] in *. destruct fuel as [|f]; [lia|]. cbn [unesc].
      change (92 =? bs) with true. change (34 =? nl) with false. change (34 =? 117) with false. cbn [andb].
      change (simple_escape 34) with (Some 34). rewrite IH by lia. reflexivity. }
    destruct (N.eqb_spec c 39) as [->|H39].
    { cbn [app List.length] in *. destruct fuel as [|f]; [lia|]. cbn [unesc].
      change (92 =? bs) with true. change (39 =? nl) with false. change (39 =? 117) with false. cbn [andb].
      change (simple_escape 39) with (Some 39). rewrite IH by lia. reflexivity. }
    destruct (N.eqb_spec c 10) as [->|H10].
    { cbn [app List.length] in *. destruct fuel as [|f]; [lia|]. cbn [unesc].
      change (92 =? bs) with true. change (110 =? nl) with false. change (110 =? 117) with false. cbn [andb].
      change (simple_escape 110) with (Some 10). rewrite IH by lia. reflexivity. }
    destruct (N.eqb_spec c 9) as [->|H9].
    { cbn [app List.length] in *. destruct fuel as [|f]; [lia|]. cbn [unesc].
      change (92 =? bs) with true. change (116 =? nl) with false. change (116 =? 117) with false. cbn [andb].
      change (simple_escape 116) with (Some 9). rewrite IH by lia. reflexivity. }
    destruct (N.eqb_spec c 13) as [->|H13].
    { cbn [app List.length] in *. destruct fuel as [|f]; [lia|]. cbn [unesc].
      change (92 =? bs) with true. change (114 =? nl) with false. change (114 =? 117) with false. cbn [andb].
      change (simple_escape 114) with (Some 13). rewrite IH by lia. reflexivity. }
    destruct (N.eqb_spec c 0) as [->|H0].
    { cbn [app List.length] in *. destruct fuel as [|f]; [lia|]. cbn [unesc].
      change (92 =? bs) with true. change (48 =? nl) with false. change (48 =? 117) with false. cbn [andb].
      change (simple_escape 48) with (Some 0). rewrite IH by lia. reflexivity. }
    cbn [app List.length] in *. destruct fuel as [|f]; [lia|]. cbn [unesc].
    unfold bs. destruct (N.eqb_spec c 92); [contradiction|]. rewrite IH by lia. reflexivity.
Qed.

Theorem apply_escapes_esc t : apply_escapes (esc t) = Val t.
Proof. unfold apply_escapes. apply unesc_esc. lia. Qed.

(* total: every input yields text or the BadEscapeSequence error, never a crash *)
Theorem unesc_total fuel : forall l, (List.length l < fuel)%nat ->
  (exists t, unesc fuel l = Val t) \/ (exists e, unesc fuel l = Err e).
Proof.
  induction fuel as [|f IH]; intros l Hl; [lia|].
  destruct l as [|c r]; [left; eexists; reflexivity|]. cbn [List.length] in Hl. cbn [unesc].
  destruct (c =? bs).
  - destruct r as [|d r']; [left; eexists; reflexivity|]. cbn [List.length] in Hl.
    destruct (d =? nl).
    + destruct (IH (d :: r') ltac:(cbn; lia)) as [[t ->]|[e ->]]; [left|right]; eexists; reflexivity.
    + destruct ((d =? 117) && match r' with 123 :: _ => true | _ => false end).
      * destruct r' as [|x body]; [right; eexists; reflexivity|].
        destruct (upto_brace body []) as [[digits rest]|] eqn:Eu; [|right; eexists; reflexivity].
        destruct (hexnum digits 0) as [v|]; [|right; eexists; reflexivity].
        destruct (valid_scalar v); [|right; eexists; reflexivity].
        assert (Hrest : (List.length rest < f)%nat).
        { assert (Hgen : forall b acc dg rs, upto_brace b acc = Some (dg, rs) -> (List.length rs < List.length b)%nat).
          { clear. induction b as [|y b IHb]; intros acc dg rs H; cbn in H; [discriminate|].
            destruct (y =? nl); [discriminate|].
            destruct ((y =? 125) && match acc with [] => false | _ => true end).
            - injection H as _ <-. cbn. lia.
            - apply IHb in H. cbn. lia. }
          apply Hgen in Eu. cbn [List.length] in Hl. lia. }
        destruct (IH rest Hrest) as [[t ->]|[e ->]]; [left|right]; eexists; reflexivity.
      * destruct (simple_escape d); [|right; eexists; reflexivity].
        destruct (IH r' ltac:(lia)) as [[t ->]|[e ->]]; [left|right]; eexists; reflexivity.
  - destruct (IH r ltac:(lia)) as [[t ->]|[e ->]]; [left|right]; eexists; reflexivity.
Qed.
