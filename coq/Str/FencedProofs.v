From Coq Require Import List NArith Arith Bool Lia.
From Xr Require Import Str.Fenced.
Import ListNotations.

Lemma width_pos c : 1 <= width c.
Proof. unfold width. destruct (c <? 128)%N, (c <? 2048)%N, (c <? 65536)%N; lia. Qed.

Lemma ascii_bytes l : all_ascii l = true -> bytes l = length l.
Proof.
  induction l as [|c r IH]; cbn; auto. intros H. apply andb_true_iff in H. destruct H as [Hc Hr].
  unfold width. rewrite Hc. rewrite (IH Hr). reflexivity.
Qed.

Lemma offsets_length l off : length (offsets l off) = length l.
Proof. revert off. induction l as [|c r IH]; intros off; cbn; auto. Qed.

Lemma from_cps_inv l : FInv (from_cps l).
Proof.
  unfold FInv, from_cps. cbn [starts cps]. destruct (all_ascii l) eqn:E; [reflexivity|].
  destruct l as [|c r]; [discriminate|]. reflexivity.
Qed.

(* the length the code reports is the number of code points *)
Theorem flen_spec s : FInv s -> flen s = length (cps s).
Proof.
  unfold FInv, flen. destruct (starts s) as [|x t] eqn:E.
  - intros H. now apply ascii_bytes.
  - intros H. rewrite H. apply offsets_length.
Qed.

Lemma from_cps_len l : flen (from_cps l) = length l.
Proof. apply flen_spec. apply from_cps_inv. Qed.

(* offsets are strictly increasing: entry i is the number of bytes before character i *)
Lemma nth_offsets l : forall off i, i < length l -> nth i (offsets l off) 0 = off + bytes (firstn i l).
Proof.
  induction l as [|c r IH]; intros off i Hi; cbn in Hi; [lia|].
  destruct i as [|i]; cbn; [lia|]. rewrite IH by lia. lia.
Qed.

Lemma nth_error_offsets l : forall off i, i < length l -> nth_error (offsets l off) i = Some (off + bytes (firstn i l)).
Proof.
  intros off i Hi. rewrite (nth_error_nth' _ 0) by (rewrite offsets_length; lia). now rewrite nth_offsets.
Qed.

(* slicing the buffer between two character boundaries yields exactly the characters in between *)
Lemma sb_none r : forall o sb eb, eb <= o -> slice_bytes r o sb eb = [].
Proof.
  induction r as [|c r IH]; intros o sb eb H; cbn [slice_bytes]; auto.
  destruct (Nat.ltb_spec o eb); [lia|]. rewrite andb_false_r. apply IH. pose proof (width_pos c). lia.
Qed.

Lemma sb_lower r : forall o lo lo' hi, lo <= o -> lo' <= o -> slice_bytes r o lo hi = slice_bytes r o lo' hi.
Proof.
  induction r as [|c r IH]; intros o lo lo' hi H1 H2; cbn [slice_bytes]; auto.
  destruct (Nat.leb_spec lo o); [|lia]. destruct (Nat.leb_spec lo' o); [|lia].
  pose proof (width_pos c). rewrite (IH (o + width c) lo lo' hi) by lia. reflexivity.
Qed.

Lemma slice_bytes_spec l : forall off a e, a <= e -> e <= length l ->
  slice_bytes l off (off + bytes (firstn a l)) (off + bytes (firstn e l)) = sublist a e l.
Proof.
  induction l as [|c r IH]; intros off a e Hae He.
  - destruct a, e; reflexivity.
  - cbn [length] in He. pose proof (width_pos c) as Hw. destruct e as [|e].
    + assert (a = 0) by lia. subst a. cbn [firstn bytes slice_bytes]. unfold sublist. cbn [firstn skipn].
      destruct (Nat.ltb_spec off (off + 0)); [lia|]. rewrite andb_false_r. apply sb_none. lia.
    + destruct a as [|a].
      * cbn [firstn bytes slice_bytes]. unfold sublist. cbn [firstn skipn].
        destruct (Nat.leb_spec (off + 0) off); [|lia].
        destruct (Nat.ltb_spec off (off + (width c + bytes (firstn e r)))); [|lia]. cbn [andb]. f_equal.
        rewrite (sb_lower r (off + width c) (off + 0) (off + width c + bytes (firstn 0 r))) by (cbn; lia).
        replace (off + (width c + bytes (firstn e r))) with (off + width c + bytes (firstn e r)) by lia.
        rewrite (IH (off + width c) 0 e) by lia. reflexivity.
      * cbn [firstn bytes slice_bytes]. unfold sublist. cbn [firstn skipn].
        destruct (Nat.leb_spec (off + (width c + bytes (firstn a r))) off); [lia|]. cbn [andb].
        replace (off + (width c + bytes (firstn a r))) with (off + width c + bytes (firstn a r)) by lia.
        replace (off + (width c + bytes (firstn e r))) with (off + width c + bytes (firstn e r)) by lia.
        rewrite (IH (off + width c) a e) by lia. reflexivity.
Qed.

Lemma in_firstn' {A} (x : A) n l : In x (firstn n l) -> In x l.
Proof. intros H. rewrite <- (firstn_skipn n l). apply in_or_app. now left. Qed.

(* ---- substring ---- *)
(* the characters of substring(a, e) are characters a .. e-1 of the string, whichever representation is used *)
Theorem substring_cps s a e : FInv s -> a <= e -> a <= length (cps s) ->
  cps (substring s a e) = sublist a e (cps s).
Proof.
  intros Hi Hae Ha. pose proof (flen_spec s Hi) as Hlen. unfold FInv in Hi. unfold substring.
  destruct (starts s) as [|x t] eqn:Es.
  - (* no table: all ASCII, byte offsets are character indices *)
    assert (Hb : forall n, n <= length (cps s) -> bytes (firstn n (cps s)) = n).
    { intros n Hn. rewrite ascii_bytes; [apply firstn_length_le; lia|].
      unfold all_ascii in *. rewrite forallb_forall in *. intros c Hc. apply Hi. eapply in_firstn'; eauto. }
    destruct (Nat.ltb_spec e (flen s)) as [H|H]; cbn [cps]; rewrite Hlen in H.
    + pose proof (slice_bytes_spec (cps s) 0 a e Hae ltac:(lia)) as Hs. rewrite !Hb in Hs by lia. exact Hs.
    + pose proof (slice_bytes_spec (cps s) 0 a (length (cps s)) Ha ltac:(lia)) as Hs.
      rewrite Hb in Hs by lia. rewrite firstn_all in Hs. cbn [Nat.add] in Hs. rewrite Hs.
      unfold sublist. rewrite firstn_all. rewrite firstn_all2 by lia. reflexivity.
  - (* with a table *)
    rewrite Hi. clear Es. set (l := cps s) in *. rewrite offsets_length.
    destruct (Nat.leb_spec (length l) a).
    + assert (a = length l) by lia. subst a. cbn [cps].
      unfold sublist. rewrite skipn_all2; [reflexivity|]. rewrite firstn_length. lia.
    + rewrite nth_offsets by lia. cbn [Nat.add].
      destruct (Nat.lt_ge_cases e (length l)) as [He|He].
      * rewrite nth_error_offsets by lia. cbn [cps Nat.add].
        exact (slice_bytes_spec l 0 a e Hae ltac:(lia)).
      * assert (Hn : nth_error (offsets l 0) e = None) by (apply nth_error_None; rewrite offsets_length; lia).
        rewrite Hn. cbn [cps].
        pose proof (slice_bytes_spec l 0 a (length l) ltac:(lia) ltac:(lia)) as Hs. rewrite firstn_all in Hs.
        cbn [Nat.add] in Hs. rewrite Hs. unfold sublist. rewrite firstn_all. rewrite firstn_all2 by lia. reflexivity.
Qed.

(* ---- byte offset -> character index (used by find / rfind) ---- *)
Lemma filter_lt_offsets l : forall off i, i <= length l ->
  length (filter (fun x => x <? off + bytes (firstn i l)) (offsets l off)) = i.
Proof.
  induction l as [|c r IH]; intros off i Hi.
  - cbn in Hi. assert (i = 0) by lia. subst. reflexivity.
  - cbn [length] in Hi. pose proof (width_pos c). destruct i as [|i].
    + cbn [firstn bytes offsets filter]. destruct (Nat.ltb_spec off (off + 0)); [lia|].
      replace (off + 0) with (off + width c + bytes (firstn 0 r) - width c) by (cbn; lia).
      assert (Hnone : forall (r : list N) o b, b <= o -> filter (fun x => x <? b) (offsets r o) = []).
      { clear. induction r as [|c' r' IHr]; intros o b Hb; cbn [offsets filter]; auto.
        destruct (Nat.ltb_spec o b); [lia|]. apply IHr. pose proof (width_pos c'). lia. }
      rewrite Hnone; [reflexivity|]. cbn [firstn bytes]. lia.
    + cbn [firstn bytes offsets filter]. destruct (Nat.ltb_spec off (off + (width c + bytes (firstn i r)))); [|lia].
      cbn [length]. f_equal.
      replace (off + (width c + bytes (firstn i r))) with (off + width c + bytes (firstn i r)) by lia.
      apply IH. lia.
Qed.

Theorem char_index_of_byte_spec s i : FInv s -> i <= length (cps s) ->
  char_index_of_byte s (bytes (firstn i (cps s))) = i.
Proof.
  intros Hi Hle. unfold FInv in Hi. unfold char_index_of_byte. destruct (starts s) as [|x t] eqn:Es.
  - rewrite ascii_bytes; [apply firstn_length_le; lia|].
    unfold all_ascii in *. rewrite forallb_forall in *. intros c Hc. apply Hi. eapply in_firstn'; eauto.
  - rewrite Hi. exact (filter_lt_offsets (cps s) 0 i Hle).
Qed.
