(* Model of src/util/fenced_string.rs: a string is its UTF-8 buffer plus an optional table of the byte offsets
   at which its characters start ("fences"); the table is omitted (empty) when every byte is a character.
   The buffer is modelled by the list of its code points (Rust's String is valid UTF-8) together with the
   UTF-8 width of each, so that byte offsets - which the code manipulates - are explicit. *)
From Coq Require Import List NArith Arith Bool Lia.
Import ListNotations.

Definition width (c : N) : nat :=
  if (c <? 128)%N then 1 else if (c <? 2048)%N then 2 else if (c <? 65536)%N then 3 else 4.

Fixpoint bytes (l : list N) : nat := match l with [] => 0 | c :: r => width c + bytes r end.

(* byte offset at which each character starts *)
Fixpoint offsets (l : list N) (off : nat) : list nat :=
  match l with [] => [] | c :: r => off :: offsets r (off + width c) end.

Definition all_ascii (l : list N) : bool := forallb (fun c => (c <? 128)%N) l.

Record fs := mkfs { cps : list N; starts : list nat }.

(* FencedString::from_string *)
Definition from_cps (l : list N) : fs := mkfs l (if all_ascii l then [] else offsets l 0).

(* the representation invariant: an empty table means "all ASCII"; a non-empty table is the offset table *)
Definition FInv (s : fs) : Prop :=
  match starts s with [] => all_ascii (cps s) = true | _ => starts s = offsets (cps s) 0 end.

(* len() : buffer.len() when there is no table, else the table's length *)
Definition flen (s : fs) : nat := match starts s with [] => bytes (cps s) | t => length t end.

(* the characters of the buffer whose start offset lies in [sb, eb) - what &buffer[sb..eb] denotes *)
Fixpoint slice_bytes (l : list N) (off sb eb : nat) : list N :=
  match l with
  | [] => []
  | c :: r => if (sb <=? off) && (off <? eb) then c :: slice_bytes r (off + width c) sb eb
              else slice_bytes r (off + width c) sb eb
  end.

Definition sublist {A} (a e : nat) (l : list A) : list A := skipn a (firstn e l).

(* FencedString::substring(start, Some(end)) *)
Definition substring (s : fs) (start stop : nat) : fs :=
  match starts s with
  | [] => if stop <? flen s then mkfs (slice_bytes (cps s) 0 start stop) []
          else mkfs (slice_bytes (cps s) 0 start (bytes (cps s))) []
  | t =>
      if length t <=? start then mkfs [] [] else
      let sb := nth start t 0 in
      match nth_error t stop with
      | Some eb => mkfs (slice_bytes (cps s) 0 sb eb) (map (fun i => i - sb) (sublist start stop t))
      | None => mkfs (slice_bytes (cps s) 0 sb (bytes (cps s))) (map (fun i => i - sb) (skipn start t))
      end
  end.

(* push: append, extending or creating the table *)
Definition push (a b : fs) : fs :=
  let off := bytes (cps a) in
  match starts a, starts b with
  | [], [] => mkfs (cps a ++ cps b) []
  | ta, tb =>
      let ext := match tb with [] => seq off (bytes (cps b)) | _ => map (fun x => x + off) tb end in
      mkfs (cps a ++ cps b) (match ta with [] => seq 0 off ++ ext | _ => ta ++ ext end)
  end.

(* char_index_of_byte: partition_point(|s| s < byte) on the table, identity without a table *)
Definition char_index_of_byte (s : fs) (byte : nat) : nat :=
  match starts s with
  | [] => byte
  | t => length (filter (fun x => x <? byte) t)
  end.

(* searching is done by Rust's str::find on the bytes; on valid UTF-8 a match always starts at a character
   boundary, so it is the first character-aligned occurrence; it is reported as a BYTE offset *)
Fixpoint is_prefix (n h : list N) : bool :=
  match n, h with
  | [], _ => true
  | a :: n', b :: h' => (a =? b)%N && is_prefix n' h'
  | _ :: _, [] => false
  end.
Fixpoint find_from (n h : list N) (i : nat) : option nat :=
  match h with
  | [] => if is_prefix n [] then Some i else None
  | _ :: h' => if is_prefix n h then Some i else find_from n h' (S i)
  end.
Fixpoint rfind_in (n h : list N) (i : nat) (best : option nat) : option nat :=
  match h with
  | [] => if is_prefix n [] then Some i else best
  | _ :: h' => rfind_in n h' (S i) (if is_prefix n h then Some i else best)
  end.

(* str::find / rfind on a haystack slice, as byte offsets within the haystack *)
Definition byte_find (n h : list N) : option nat := option_map (fun j => bytes (firstn j h)) (find_from n h 0).
Definition byte_rfind (n h : list N) : option nat := option_map (fun j => bytes (firstn j h)) (rfind_in n h 0 None).
