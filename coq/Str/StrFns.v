(* String builtins: the natives of src/builtin/str.rs on top of the fenced representation (index handling,
   byte-offset to character-index conversion) and the string functions written in xray in include.rs. *)
From Coq Require Import List NArith ZArith Arith Bool String Lia.
From Xr Require Import Base.Res Str.Fenced.
Import ListNotations.
Open Scope Z_scope.

Definition usize_ok (z : Z) : bool := (0 <=? z) && (z <? 2 ^ 64).
Definition zlen (s : fs) : Z := Z.of_nat (flen s).

(* get *)
Definition s_get (s : fs) (i : Z) : res fs :=
  let j := if i <? 0 then i + zlen s else i in
  if negb (usize_ok j) then Err "index too large"
  else if zlen s <=? j then Err "index out of bounds"
  else Val (substring s (Z.to_nat j) (S (Z.to_nat j))).

(* find(s, needle, start?) *)
Definition s_find (s n : fs) (start : Z) : res (option Z) :=
  if match cps n with [] => true | _ => false end then Err "needle cannot be empty"
  else if negb (usize_ok start) then Err "index out of bounds"
  else if zlen s <? start then Err "index out of bounds"
  else
    let hay := cps (substring s (Z.to_nat start) (flen s)) in
    let byte_offset := (bytes (cps s) - bytes hay)%nat in
    Val (option_map (fun b => Z.of_nat (char_index_of_byte s (b + byte_offset))) (byte_find (cps n) hay)).

(* rfind(s, needle, end?) ; [stop] = None when the argument is omitted *)
Definition s_rfind (s n : fs) (stop : option Z) : res (option Z) :=
  if match cps n with [] => true | _ => false end then Err "needle cannot be empty"
  else match stop with
       | Some e => if negb (usize_ok e) then Err "index out of bounds"
                   else Val (option_map (fun b => Z.of_nat (char_index_of_byte s b))
                                        (byte_rfind (cps n) (cps (substring s 0 (Z.to_nat e)))))
       | None => Val (option_map (fun b => Z.of_nat (char_index_of_byte s b)) (byte_rfind (cps n) (cps s)))
       end.

(* the native substring(s, start, end) *)
Definition s_substring (s : fs) (start stop : Z) : res fs :=
  if negb (usize_ok start) then Err "index out of bounds" else
  let e := if stop <? 0 then stop + zlen s else stop in
  if negb (usize_ok e) then Err "index out of bounds"
  else if (e <? start) || (zlen s <? start) then Err "index out of bounds"
  else if (start =? 0) && (e =? zlen s) then Val s
  else Val (substring s (Z.to_nat start) (Z.to_nat e)).

(* add (concatenation) *)
Definition s_add (a b : fs) : fs := push a b.

(* ---- include.rs ---- *)
(* substring(s, start, end ?= none) = s.substring(start, end || s.len()) *)
Definition x_substring (s : fs) (start : Z) (stop : option Z) : res fs :=
  s_substring s start (match stop with Some e => e | None => zlen s end).

Definition fs_eqb (a b : fs) : bool := if list_eq_dec N.eq_dec (cps a) (cps b) then true else false.

(* split(s, n): successive finds, non-overlapping, left to right *)
Fixpoint split_go (fuel : nat) (s n : fs) (start : Z) (next : option Z) : res (list fs) :=
  match fuel with
  | O => Fuel
  | S f =>
      match next with
      | None => do part <- x_substring s start None; Val [part]
      | Some e =>
          do part <- x_substring s start (Some e);
          let ns := e + zlen n in
          do nx <- s_find s n ns;
          do rest <- split_go f s n ns nx;
          Val (part :: rest)
      end
  end.
Definition x_split (s n : fs) : res (list fs) :=
  do first <- s_find s n 0; split_go (S (S (flen s))) s n 0 first.

Fixpoint join_cps (d : list N) (parts : list fs) : list N :=
  match parts with
  | [] => []
  | [p] => cps p
  | p :: r => cps p ++ d ++ join_cps d r
  end.
Definition x_join (parts : list fs) (d : fs) : fs := from_cps (join_cps (cps d) parts).
Definition x_replace (s old new : fs) : res fs := do parts <- x_split s old; Val (x_join parts new).

Definition x_partition (s n : fs) : res (fs * fs) :=
  do f <- s_find s n 0;
  match f with
  | Some i => do a <- x_substring s 0 (Some i); do b <- x_substring s (i + zlen n) None; Val (a, b)
  | None => Val (s, from_cps [])
  end.
Definition x_rpartition (s n : fs) : res (fs * fs) :=
  do f <- s_rfind s n None;
  match f with
  | Some i => do a <- x_substring s 0 (Some i); do b <- x_substring s (i + zlen n) None; Val (a, b)
  | None => Val (from_cps [], s)
  end.
(* rsplit: at most [count] splits, taken from the right, at non-overlapping occurrences (an occurrence must end at or before
   the start of the previously used one) *)
Fixpoint rsplit_go (fuel : nat) (s n : fs) (hi : Z) (count : Z) (acc : list fs) : res (list fs) :=
  match fuel with
  | O => Fuel
  | S f =>
      if count <=? 0 then (do a <- x_substring s 0 (Some hi); Val (a :: acc)) else
      do r <- s_rfind s n (Some hi);
      match r with
      | None => do a <- x_substring s 0 (Some hi); Val (a :: acc)
      | Some i => do piece <- x_substring s (i + zlen n) (Some hi); rsplit_go f s n i (count - 1) (piece :: acc)
      end
  end.
Definition x_rsplit (s n : fs) (count : Z) : res (list fs) := rsplit_go (S (S (flen s))) s n (zlen s) count [].

Definition x_starts_with (s p : fs) : res bool := do t <- x_substring s 0 (Some (zlen p)); Val (fs_eqb t p).
Definition x_ends_with (s p : fs) : res bool :=
  if zlen p <=? zlen s then do t <- x_substring s (zlen s - zlen p) None; Val (fs_eqb t p) else Val false.
Definition x_reverse (s : fs) : fs := from_cps (rev (cps s)).
Definition x_contains (s n : fs) (start : Z) : res bool := do f <- s_find s n start; Val (match f with Some _ => true | None => false end).
Definition x_mul (s : fs) (n : Z) : res fs :=
  if n <? 0 then Err "index too large" else Val (from_cps (List.concat (repeat (cps s) (Z.to_nat n)))).
