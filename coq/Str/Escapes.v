(* Model of src/util/str_escapes.rs (apply_escapes): the regex  \\(u\{.+?\}|.)  is applied left to right;
   `.` does not match a newline, so a backslash followed by a newline (or at the very end) is copied literally.
   Strings are lists of code points. *)
From Coq Require Import List NArith Bool String Lia.
From Xr Require Import Base.Res.
Import ListNotations.
Open Scope N_scope.

Definition bs := 92.   Definition nl := 10.
Definition hexval (c : N) : option N :=
  if (48 <=? c) && (c <=? 57) then Some (c - 48)
  else if (97 <=? c) && (c <=? 102) then Some (c - 87)
  else if (65 <=? c) && (c <=? 70) then Some (c - 55) else None.

Fixpoint hexnum (l : list N) (acc : N) : option N :=
  match l with
  | [] => Some acc
  | c :: r => match hexval c with Some v => hexnum r (acc * 16 + v) | None => None end
  end.

Definition valid_scalar (v : N) : bool := (v <? 55296) || ((57343 <? v) && (v <=? 1114111)).

(* lazy .+? followed by '}' : the shortest non-empty run of non-newline characters before a '}' *)
Fixpoint upto_brace (l : list N) (acc : list N) : option (list N * list N) :=
  match l with
  | [] => None
  | c :: r =>
      if c =? nl then None
      else if (c =? 125) && match acc with [] => false | _ => true end then Some (rev acc, r)
      else upto_brace r (c :: acc)
  end.

Definition simple_escape (c : N) : option N :=
  if c =? 110 then Some 10 else if c =? 116 then Some 9 else if c =? 114 then Some 13 else if c =? 48 then Some 0
  else if c =? 92 then Some 92 else if c =? 34 then Some 34 else if c =? 39 then Some 39 else None.

Fixpoint unesc (fuel : nat) (l : list N) : res (list N) :=
  match fuel with
  | O => Fuel
  | S f =>
      match l with
      | [] => Val []
      | c :: r =>
          if c =? bs then
            match r with
            | [] => Val [bs]
            | d :: r' =>
                if d =? nl then (do t <- unesc f r; Val (bs :: t))
                else if (d =? 117) && match r' with 123 :: _ => true | _ => false end then
                  match r' with
                  | _ :: body =>
                      match upto_brace body [] with
                      | Some (digits, rest) =>
                          match hexnum digits 0 with
                          | Some v => if valid_scalar v
                                      then (do t <- unesc f rest; Val (v :: t)) else Err "bad escape sequence"
                          | None => Err "bad escape sequence"
                          end
                      | None => Err "bad escape sequence"
                      end
                  | [] => Err "bad escape sequence"
                  end
                else match simple_escape d with
                     | Some v => do t <- unesc f r'; Val (v :: t)
                     | None => Err "bad escape sequence"
                     end
            end
          else do t <- unesc f r; Val (c :: t)
      end
  end.

Definition apply_escapes (l : list N) : res (list N) := unesc (S (List.length l)) l.

(* the canonical way to spell a text inside a quoted literal *)
Definition esc1 (c : N) : list N :=
  if c =? 92 then [92; 92] else if c =? 34 then [92; 34] else if c =? 39 then [92; 39]
  else if c =? 10 then [92; 110] else if c =? 9 then [92; 116] else if c =? 13 then [92; 114] else if c =? 0 then [92; 48]
  else [c].
Definition esc (t : list N) : list N := flat_map esc1 t.
