(* Observation function for the correspondence of the core calculus (props/c01.py). *)
From Coq Require Import List NArith ZArith Bool Arith String.
From Xr Require Import Base.Show Ty.Types Ty.TyInst Ty.Sound.
Import ListNotations.
Open Scope string_scope.

Fixpoint show_v (v : value) : string :=
  match v with
  | VInt z => show_Z z
  | VBool b => show_bool b
  | VErr => "E"
  | VTup vs => "(" ++ show_vs vs ++ ")"
  | VSeq vs => "[" ++ show_vs vs ++ "]"
  | VNone => "None"
  | VSome x => show_v x
  | VClos _ _ _ => "<fn>"
  end
with show_vs (vs : values) : string :=
  match vs with VNil => "" | VCons x VNil => show_v x | VCons x r => show_v x ++ ", " ++ show_vs r end.

Definition obs_prog (e : expr) : string :=
  match tc [] e with
  | None => "rej"
  | Some t => "ok:" ++ show_t t ++ "|" ++
              match eval 400 VNil e with Val v => show_v v | Stuck => "STUCK" | OutOfFuel => "FUEL" end
  end.
