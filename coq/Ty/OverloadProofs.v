From Coq Require Import List NArith Bool Arith Permutation Lia.
From Xr Require Import Ty.Types Ty.Overload.
Import ListNotations.

Lemma filter_perm {A} (f : A -> bool) l l' : Permutation l l' -> Permutation (filter f l) (filter f l').
Proof.
  induction 1; cbn.
  - constructor.
  - destruct (f x); auto.
  - destruct (f x), (f y); auto. constructor.
  - eapply Permutation_trans; eauto.
Qed.

Lemma decide_perm k b b' o : Permutation b b' -> decide k b o = decide k b' o.
Proof.
  intro P. pose proof (Permutation_length P) as L.
  destruct b as [|x [|y b]].
  - apply Permutation_nil in P. now subst.
  - apply Permutation_length_1_inv in P. now subst.
  - destruct b' as [|x' [|y' b']]; cbn in L; try discriminate. cbn. now rewrite L.
Qed.

(* the outcome does not depend on the order in which the overloads were declared / collected *)
Lemma bucket_perm k cs cs' args : Permutation cs cs' -> Permutation (bucket k cs args) (bucket k cs' args).
Proof. apply filter_perm. Qed.

Theorem resolve_perm cs cs' args : Permutation cs cs' -> resolve_call cs args = resolve_call cs' args.
Proof.
  intro P. unfold resolve_call.
  rewrite (decide_perm KDynamic _ _ NoOverload (bucket_perm KDynamic _ _ args P)).
  rewrite (decide_perm KGeneric _ _ (decide KDynamic (bucket KDynamic cs' args) NoOverload) (bucket_perm KGeneric _ _ args P)).
  apply decide_perm. now apply bucket_perm.
Qed.

(* an overload that does not match the arguments changes nothing, wherever it is declared *)
Theorem resolve_irrelevant c cs args : c_match c args = false -> resolve_call (c :: cs) args = resolve_call cs args.
Proof.
  intro H. unfold resolve_call, bucket. cbn. rewrite H, !andb_false_r. reflexivity.
Qed.

Theorem resolve_irrelevant_anywhere c cs1 cs2 args :
  c_match c args = false -> resolve_call (cs1 ++ c :: cs2) args = resolve_call (cs1 ++ cs2) args.
Proof.
  intro H. rewrite (resolve_perm (cs1 ++ c :: cs2) (c :: cs1 ++ cs2)). now apply resolve_irrelevant.
  symmetry. apply Permutation_middle.
Qed.

(* the outcome depends on the candidates only through (identity, kind, does-it-match) *)
Theorem resolve_ext cs cs' args :
  Forall2 (fun c c' => c_id c = c_id c' /\ c_kind c = c_kind c' /\ c_match c args = c_match c' args) cs cs' ->
  resolve_call cs args = resolve_call cs' args.
Proof.
  intro F. unfold resolve_call.
  assert (forall k, map c_id (bucket k cs args) = map c_id (bucket k cs' args)) as B.
  { intro k. unfold bucket. induction F as [|c c' l l' (I & K & M) F IH]; cbn; auto.
    rewrite K, M. destruct (kind_eqb (c_kind c') k && c_match c' args); cbn; auto. now rewrite I, IH. }
  assert (forall k o b b', map c_id b = map c_id b' -> decide k b o = decide k b' o) as D.
  { intros k o b b' E. pose proof (f_equal (@length _) E) as L. rewrite !map_length in L.
    destruct b as [|x [|y b]]; destruct b' as [|x' [|y' b']]; cbn in L; try discriminate; cbn.
    - reflexivity.
    - cbn in E. now inversion E.
    - now rewrite L. }
  rewrite (D KDynamic NoOverload _ _ (B KDynamic)), (D KGeneric _ _ _ (B KGeneric)), (D KExact _ _ _ (B KExact)).
  reflexivity.
Qed.

(* ranking *)
Definition matching (k : kind) (cs : list cand) (args : tys) (c : cand) : Prop :=
  In c cs /\ c_kind c = k /\ c_match c args = true.

Lemma bucket_spec k cs args c : In c (bucket k cs args) <-> matching k cs args c.
Proof.
  unfold bucket, matching. rewrite filter_In. split.
  - intros [I H]. apply andb_true_iff in H as [K M]. repeat split; auto. destruct (c_kind c), k; cbn in K; try discriminate; auto.
  - intros (I & K & M). split; auto. rewrite K, M. destruct k; reflexivity.
Qed.

Theorem ranking cs args :
  match resolve_call cs args with
  | Chosen id =>
      exists c, c_id c = id /\ c_match c args = true /\ In c cs /\
        (* nothing of a better class matches *)
        (forall c', In c' cs -> c_match c' args = true ->
           match c_kind c, c_kind c' with
           | KGeneric, KExact | KDynamic, KExact | KDynamic, KGeneric => False
           | _, _ => True end)
  | Ambiguous k n => 2 <= n /\ n = length (bucket k cs args) /\
        (forall c', In c' cs -> c_match c' args = true ->
           match k, c_kind c' with KGeneric, KExact | KDynamic, KExact | KDynamic, KGeneric => False | _, _ => True end)
  | NoOverload => forall c, In c cs -> c_match c args = false
  end.
Proof.
  unfold resolve_call.
  assert (forall k, bucket k cs args = [] -> forall c', In c' cs -> c_match c' args = true -> c_kind c' <> k) as EMPTY.
  { intros k E c' Hin M K. assert (In c' (bucket k cs args)) as X by (apply bucket_spec; repeat split; auto). rewrite E in X. destruct X. }
  destruct (bucket KExact cs args) as [|x [|y b]] eqn:BE; cbn.
  2:{ assert (In x (bucket KExact cs args)) as X by (rewrite BE; now left). apply bucket_spec in X as (Hin & K & M).
      exists x. repeat split; auto. intros c' _ _. rewrite K. destruct (c_kind c'); trivial. }
  2:{ split; [cbn; lia|split; [now rewrite BE|intros c' _ _; destruct (c_kind c'); trivial]]. }
  destruct (bucket KGeneric cs args) as [|x [|y b]] eqn:BG; cbn.
  2:{ assert (In x (bucket KGeneric cs args)) as X by (rewrite BG; now left). apply bucket_spec in X as (Hin & K & M).
      exists x. repeat split; auto. intros c' I' M'. rewrite K. destruct (c_kind c') eqn:K'; trivial.
      exact (EMPTY KExact BE c' I' M' K'). }
  2:{ split; [cbn; lia|split; [now rewrite BG|]]. intros c' I' M'. destruct (c_kind c') eqn:K'; trivial. exact (EMPTY KExact BE c' I' M' K'). }
  destruct (bucket KDynamic cs args) as [|x [|y b]] eqn:BD; cbn.
  - intros c Hin. destruct (c_match c args) eqn:M; auto. exfalso.
    destruct (c_kind c) eqn:K; [exact (EMPTY _ BE c Hin M K)|exact (EMPTY _ BG c Hin M K)|exact (EMPTY _ BD c Hin M K)].
  - assert (In x (bucket KDynamic cs args)) as X by (rewrite BD; now left). apply bucket_spec in X as (Hin & K & M).
    exists x. repeat split; auto. intros c' I' M'. rewrite K. destruct (c_kind c') eqn:K'; trivial.
    exact (EMPTY KExact BE c' I' M' K'). exact (EMPTY KGeneric BG c' I' M' K').
  - split; [cbn; lia|split; [now rewrite BD|]]. intros c' I' M'. destruct (c_kind c') eqn:K'; trivial.
    exact (EMPTY KExact BE c' I' M' K'). exact (EMPTY KGeneric BG c' I' M' K').
Qed.

(* uniqueness form: if every other matching candidate is of a strictly worse class, the candidate is chosen *)
Definition strictly_better (a b : kind) : Prop :=
  match a, b with KExact, KGeneric | KExact, KDynamic | KGeneric, KDynamic => True | _, _ => False end.

Lemma NoDup_filter_ids (f : cand -> bool) cs : NoDup (map c_id cs) -> NoDup (map c_id (filter f cs)).
Proof.
  induction cs as [|x l IH]; cbn; intro ND. constructor. inversion ND; subst.
  destruct (f x); cbn; auto. constructor; auto. intro X. apply H1.
  apply in_map_iff in X as (y & E & Iy). apply filter_In in Iy as [Iy _]. rewrite <- E. now apply in_map.
Qed.

Theorem unique_best_wins cs args c :
  NoDup (map c_id cs) -> In c cs -> c_match c args = true ->
  (forall c', In c' cs -> c_match c' args = true -> c_id c' <> c_id c -> strictly_better (c_kind c) (c_kind c')) ->
  resolve_call cs args = Chosen (c_id c).
Proof.
  intros ND I M BETTER.
  pose proof (ranking cs args) as R. destruct (resolve_call cs args) as [id|k n|] eqn:E.
  - destruct R as (w & Hid & Mw & Iw & Hw).
    destruct (N.eq_dec (c_id w) (c_id c)) as [EQ|NE]. now rewrite <- Hid, EQ.
    exfalso. specialize (BETTER w Iw Mw NE). specialize (Hw c I M). unfold strictly_better in BETTER.
    destruct (c_kind c), (c_kind w); auto.
  - exfalso. destruct R as (L2 & Ln & Hk).
    assert (exists w, c_id w <> c_id c /\ In w (bucket k cs args)) as (w & NEw & Iw).
    { pose proof (NoDup_filter_ids (fun c0 => kind_eqb (c_kind c0) k && c_match c0 args) cs ND) as NDb.
      fold (bucket k cs args) in NDb.
      destruct (bucket k cs args) as [|a [|b l]]; cbn in Ln; try lia.
      destruct (N.eq_dec (c_id a) (c_id c)) as [EQ|NE].
      - exists b. split. 2:{ right. now left. } cbn in NDb. inversion NDb; subst. intro X. apply H1. left. congruence.
      - exists a. split; auto. now left. }
    apply bucket_spec in Iw as (Iw & Kw & Mw).
    specialize (BETTER w Iw Mw NEw). specialize (Hk c I M). rewrite Kw in BETTER. unfold strictly_better in BETTER.
    destruct (c_kind c), k; auto.
  - rewrite (R c I) in M. discriminate.
Qed.
