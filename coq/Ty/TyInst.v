(* Concrete names used by the correspondence check (props/c04.py, props/c05.py) and the observation functions whose
   output is compared with the compiler's verdict. *)
From Coq Require Import List NArith Bool Arith String.
From Xr Require Import Base.Show Ty.Types Ty.Overload.
Import ListNotations.
Open Scope string_scope.

Definition nat_name (n : N) : string :=
  match n with 0%N => "Sequence" | 1%N => "Optional" | 2%N => "Generator" | 3%N => "Mapping" | 4%N => "Set" | _ => "Stack" end.
Definition comp_name (n : N) : string :=
  match n with 0%N => "P" | 1%N => "Q" | 2%N => "Z" | 3%N => "E" | 4%N => "S1" | _ => "U1" end.
Definition gen_name (n : N) : string :=
  match n with 0%N => "T" | 1%N => "U" | 2%N => "X" | 3%N => "Y" | 10%N => "A" | 11%N => "B" | _ => "G" end.
Definition show_t : ty -> string := show_ty nat_name comp_name gen_name.

Definition obs_opt (o : option ty) : string := match o with Some t => "ok:" ++ show_t t | None => "rej" end.
Definition obs_bool (b : bool) : string := if b then "ok" else "rej".

Definition obs_declared (r s : ty) : string := obs_bool (accepts_declared r s).
Definition obs_call (own : list N) (nreq : nat) (ps : tys) (ret : ty) (args : tys) : string :=
  obs_opt (call_type own nreq ps ret args).
Definition obs_struct (union : bool) (name : N) (gens : list N) (fields args : tys) : string :=
  obs_opt (construct_type union name gens fields args).
Definition obs_variant (name : N) (gens : list N) (payload arg : ty) : string := obs_opt (variant_type name gens payload arg).
Definition obs_literal (l : list ty) : string :=
  obs_opt (match literal_type l with Some t => Some (TCon (CNat 0) (TCons t TNil)) | None => None end).
Definition obs_value_call (f : ty) (args : tys) : string := obs_opt (value_call_type f args).

Definition show_outcome (o : outcome) : string :=
  match o with Chosen id => "chosen:" ++ show_N id | Ambiguous _ n => "ambiguous:" ++ show_nat n | NoOverload => "none" end.
(* user overloads as (id, own generics, nreq, params); library dynamic candidates as (id, does-it-match) *)
Definition mk_cands (statics : list (N * list N * nat * tys)) (dyns : list (N * bool)) : list cand :=
  map (fun '(id, own, nreq, ps) => static_cand id own nreq ps) statics ++
  map (fun '(id, m) => {| c_id := id; c_kind := KDynamic; c_match := fun _ => m |}) dyns.
Definition obs_resolve (statics : list (N * list N * nat * tys)) (dyns : list (N * bool)) (args : tys) : string :=
  show_outcome (resolve_call (mk_cands statics dyns) args).

(* ---- a standard-library name with exact and dynamic overloads: to_str.
   Its dynamic overloads (sequences, optionals, tuples) match when the inner lookup of to_str for every component type,
   made in the scope of the call site, finds a single best overload (builtin/core.rs get_func) - so user overloads of
   the same name take part in it.  Fuel bounds the nesting depth of the argument type. *)
Fixpoint all_tys (f : ty -> bool) (ts : tys) : bool := match ts with TNil => true | TCons x r => f x && all_tys f r end.

Fixpoint resolve_to_str (fuel : nat) (statics : list (N * list N * nat * tys)) (args : tys) : outcome :=
  match fuel with
  | O => NoOverload
  | S f =>
      let inner_ok t := match resolve_to_str f statics (TCons t TNil) with Chosen _ => true | _ => false end in
      let lib_exact := match args with TCons (TPrim p) TNil => [(100%N, @nil N, 1, TCons (TPrim p) TNil)] | _ => [] end in
      let dyn_match := match args with
                       | TCons (TCon (CNat 0) (TCons x TNil)) TNil => inner_ok x
                       | TCons (TCon (CNat 1) (TCons x TNil)) TNil => inner_ok x
                       | TCons (TCon CTup xs) TNil => all_tys inner_ok xs
                       | _ => false
                       end in
      resolve_call (mk_cands (statics ++ lib_exact) [(100%N, dyn_match)]) args
  end.
Definition obs_resolve_to_str (statics : list (N * list N * nat * tys)) (args : tys) : string :=
  show_outcome (resolve_to_str 6 statics args).
