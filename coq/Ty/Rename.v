(* Renaming a callee's own generic parameters does not change which calls it accepts nor the type of the call. *)
From Coq Require Import List NArith Bool Arith Lia.
From Xr Require Import Ty.Types Ty.Overload Ty.OverloadProofs.
Import ListNotations.

Section Rename.
  Variable rho : N -> N.
  Hypothesis rho_inj : forall a b, rho a = rho b -> a = b.

  Fixpoint ren (t : ty) : ty :=
    match t with
    | TGen g => TGen (rho g)
    | TCon c xs => TCon c (rens xs)
    | TFn n ps r => TFn n (rens ps) (ren r)
    | _ => t
    end
  with rens (ts : tys) : tys := match ts with TNil => TNil | TCons x r => TCons (ren x) (rens r) end.

  Definition mapk (b : bind) : bind := map (fun e => (rho (fst e), snd e)) b.

  Lemma len_rens ts : len (rens ts) = len ts.
  Proof. induction ts; cbn; auto. Qed.

  Lemma eqb_rho a b : N.eqb (rho a) (rho b) = N.eqb a b.
  Proof.
    destruct (N.eqb a b) eqn:E. apply N.eqb_eq in E. subst. apply N.eqb_refl.
    apply N.eqb_neq. intro H. apply rho_inj in H. apply N.eqb_neq in E. contradiction.
  Qed.

  Lemma lookup_mapk k b : lookup (rho k) (mapk b) = lookup k b.
  Proof. induction b as [|[k' v] b IH]; cbn; auto. rewrite eqb_rho. destruct (N.eqb k' k); auto. Qed.

  Lemma set_mapk k v b : set_b (rho k) v (mapk b) = mapk (set_b k v b).
  Proof. induction b as [|[k' w] b IH]; cbn; auto. rewrite eqb_rho. destruct (N.eqb k' k); cbn; auto. f_equal. exact IH. Qed.

  Lemma mix_mapk b : forall a, mix (mapk a) (mapk b) = option_map mapk (mix a b).
  Proof.
    induction b as [|[k v] r IH]; cbn; intro a; auto.
    rewrite lookup_mapk. destruct (lookup k a) as [e|].
    - destruct (common e v); cbn; auto. rewrite set_mapk. apply IH.
    - rewrite set_mapk. apply IH.
  Qed.

  Lemma bia_ren_both :
    (forall r s, bia (ren r) s = option_map mapk (bia r s)) /\
    (forall rs ss acc, bias (rens rs) ss (mapk acc) = option_map mapk (bias rs ss acc)).
  Proof.
    apply ty_tys_ind.
    - intros p s. destruct s; cbn; auto. destruct (N.eqb p p0); auto.
    - intros s. destruct s; cbn; auto.
    - intros g s. destruct s; cbn; auto.
    - intros c xs IH s. destruct s; cbn; auto. rewrite len_rens.
      destruct (con_eqb c c0 && Nat.eqb (len xs) (len args)); auto. exact (IH args []).
    - intros n ps IHp r IHr s. destruct s as [| | | |m sp sr]; cbn; auto. rewrite len_rens.
      destruct (Nat.leb m n && Nat.leb (len ps) (len sp)); auto.
      pose proof (IHp sp []) as Hp. cbn [mapk map] in Hp. rewrite Hp. destruct (bias ps sp []) as [b|]; cbn; auto.
      rewrite IHr. destruct (bia r sr) as [b2|]; cbn; auto. apply mix_mapk.
    - intros ss acc. cbn. destruct ss; auto.
    - intros t IHt ts IHts ss acc. destruct ss as [|s ss]; cbn; auto.
      rewrite IHt. destruct (bia t s) as [b|]; cbn; auto. rewrite mix_mapk.
      destruct (mix acc b) as [acc'|]; cbn; auto.
  Qed.

  Lemma existsb_rho (l : list N) g : existsb (N.eqb (rho g)) (map rho l) = existsb (N.eqb g) l.
  Proof. induction l as [|x l IH]; cbn; auto. rewrite (N.eqb_sym (rho g)), eqb_rho, (N.eqb_sym x). now rewrite IH. Qed.

  Variable own : list N.
  Hypothesis rho_fixes : forall g, existsb (N.eqb g) own = false -> rho g = g.


  Lemma trivial_except_mapk b : trivial_except (map rho own) (mapk b) = trivial_except own b.
  Proof.
    unfold trivial_except. induction b as [|[k v] b IH]; cbn; auto. f_equal; [|exact IH].
    rewrite existsb_rho. destruct (existsb (N.eqb k) own) eqn:E; auto. cbn.
    unfold trivial_entry. cbn. now rewrite (rho_fixes _ E).
  Qed.

  Theorem func_bind_own_ren nreq ps args :
    func_bind_own (map rho own) nreq (rens ps) args = option_map mapk (func_bind_own own nreq ps args).
  Proof.
    unfold func_bind_own, func_bind. rewrite len_rens.
    destruct (Nat.leb nreq (len args) && Nat.leb (len args) (len ps)); auto.
    pose proof (proj2 bia_ren_both ps args []) as H. cbn in H. rewrite H.
    destruct (bias ps args []) as [b|]; cbn; auto. rewrite trivial_except_mapk. destruct (trivial_except own b); auto.
  Qed.

  (* and so is the candidate's matching predicate, hence (resolve_ext) the outcome of overload resolution *)
  Theorem static_cand_ren id nreq ps args :
    c_match (static_cand id (map rho own) nreq (rens ps)) args = c_match (static_cand id own nreq ps) args.
  Proof. cbn. rewrite func_bind_own_ren. destruct (func_bind_own own nreq ps args); reflexivity. Qed.

  Theorem static_cand_ren_kind id nreq ps :
    c_kind (static_cand id (map rho own) nreq (rens ps)) = c_kind (static_cand id own nreq ps).
  Proof. cbn. destruct own; reflexivity. Qed.
End Rename.

Theorem static_cand_alpha : forall rho, (forall a b, rho a = rho b -> a = b) -> forall own,
  (forall g, existsb (N.eqb g) own = false -> rho g = g) -> forall id nreq ps args,
  c_match (static_cand id (map rho own) nreq (rens rho ps)) args = c_match (static_cand id own nreq ps) args /\
  c_kind (static_cand id (map rho own) nreq (rens rho ps)) = c_kind (static_cand id own nreq ps).
Proof.
  intros rho Hinj own Hfix id nreq ps args. split.
  - exact (static_cand_ren rho Hinj own Hfix id nreq ps args).
  - exact (static_cand_ren_kind rho own Hfix id nreq ps).
Qed.
