(* Type soundness of the checker model for a core calculus: a program the checker accepts never gets stuck (no tag
   confusion, no arity mismatch, no unbound cell) and every value it produces has the shape of its static type.
   The checker [tc] uses the very functions of Ty/Types.v that model the compiler (accepts_declared, common,
   literal_type, value_call_type); the evaluator is the tag-dispatching evaluator of the interpreter restricted to the
   calculus (errors are ordinary values that propagate through strict positions).
   Calculus: integer / boolean literals, error(), variables, let, tuples and projection, sequence literals, none / some /
   orelse (the generic user function orelse<T>(o: Optional<T>, d: T) -> T), if, lambdas with spelled first-order parameter types, application of function VALUES, addition. *)
From Coq Require Import List NArith ZArith Bool Arith Lia.
From Xr Require Import Ty.Types Ty.TypesProofs.
Import ListNotations.

Inductive expr :=
| EInt (z : Z) | EBool (b : bool) | EErr
| EVar (i : nat)
| ELet (e1 e2 : expr)
| ETup (es : exprs) | EProj (e : expr) (i : nat)
| ESeq (es : exprs)
| ENone | ESome (e : expr) | EOrElse (o d : expr)
| EIf (c a b : expr)
| ELam (ps : tys) (body : expr)
| EApp (f : expr) (args : exprs)
| EAdd (a b : expr)
with exprs := ENil | ECons (e : expr) (es : exprs).

Inductive value :=
| VInt (z : Z) | VBool (b : bool) | VErr
| VTup (vs : values) | VSeq (vs : values) | VNone | VSome (v : value)
| VClos (env : values) (ps : tys) (body : expr)
with values := VNil | VCons (v : value) (vs : values).

Definition tint := TPrim 1.
Definition tbool := TPrim 0.
Definition tseq t := TCon (CNat 0) (TCons t TNil).
Definition topt t := TCon (CNat 1) (TCons t TNil).
Definition ttup ts := TCon CTup ts.

Fixpoint nth_tys (ts : tys) (i : nat) : option ty :=
  match ts, i with TCons t _, O => Some t | TCons _ r, S j => nth_tys r j | TNil, _ => None end.
Fixpoint nth_val (vs : values) (i : nat) : option value :=
  match vs, i with VCons v _, O => Some v | VCons _ r, S j => nth_val r j | VNil, _ => None end.
Fixpoint vlen (vs : values) : nat := match vs with VNil => 0 | VCons _ r => S (vlen r) end.
Fixpoint vapp (a b : values) : values := match a with VNil => b | VCons v r => VCons v (vapp r b) end.
Fixpoint has_err (vs : values) : bool := match vs with VNil => false | VCons VErr _ => true | VCons _ r => has_err r end.

Fixpoint fnfree (t : ty) : bool :=
  match t with TFn _ _ _ => false | TCon _ xs => fnfrees xs | _ => true end
with fnfrees (ts : tys) : bool := match ts with TNil => true | TCons x r => fnfree x && fnfrees r end.

(* ---------- the checker *)
Fixpoint tc (G : list ty) (e : expr) {struct e} : option ty :=
  match e with
  | EInt _ => Some tint
  | EBool _ => Some tbool
  | EErr => Some TUnk
  | EVar i => nth_error G i
  | ELet e1 e2 => match tc G e1 with Some t1 => tc (t1 :: G) e2 | None => None end
  | ETup es => match tcs G es with Some ts => Some (ttup ts) | None => None end
  | EProj e i => match tc G e with Some (TCon CTup ts) => nth_tys ts i | _ => None end
  | ESeq es => match tcs G es with
               | Some ts => match literal_type (to_list ts) with Some c => Some (tseq c) | None => None end
               | None => None end
  | ENone => Some (topt TUnk)
  | ESome e => match tc G e with Some t => Some (topt t) | None => None end
  | EOrElse o d =>                                     (* or<T>(Optional<T>, T) -> T *)
      match tc G o, tc G d with
      | Some t1, Some t2 => call_type [0%N] 2 (TCons (topt (TGen 0)) (TCons (TGen 0) TNil)) (TGen 0) (TCons t1 (TCons t2 TNil))
      | _, _ => None end
  | EIf c a b =>                                       (* if<T>(bool, T, T) -> T *)
      match tc G c, tc G a, tc G b with
      | Some t0, Some t1, Some t2 =>
          call_type [0%N] 3 (TCons tbool (TCons (TGen 0) (TCons (TGen 0) TNil))) (TGen 0) (TCons t0 (TCons t1 (TCons t2 TNil)))
      | _, _, _ => None end
  | ELam ps body =>
      if ufrees ps && fnfrees ps then
        match tc (to_list ps ++ G) body with Some r => Some (TFn (len ps) ps r) | None => None end
      else None
  | EApp f args => match tc G f, tcs G args with Some tf, Some ta => value_call_type tf ta | _, _ => None end
  | EAdd a b =>                                        (* add(int, int) -> int *)
      match tc G a, tc G b with
      | Some t1, Some t2 => call_type [] 2 (TCons tint (TCons tint TNil)) tint (TCons t1 (TCons t2 TNil))
      | _, _ => None end
  end
with tcs (G : list ty) (es : exprs) {struct es} : option tys :=
  match es with
  | ENil => Some TNil
  | ECons e r => match tc G e, tcs G r with Some t, Some ts => Some (TCons t ts) | _, _ => None end
  end.

(* ---------- the evaluator: dispatch on run-time tags; a wrong tag is [Stuck] (the interpreter's panic) *)
Inductive res := Val (v : value) | Stuck | OutOfFuel.
Inductive ress := Vals (vs : values) | StuckS | OutOfFuelS.

Definition bind (r : res) (k : value -> res) : res := match r with Val v => k v | Stuck => Stuck | OutOfFuel => OutOfFuel end.

Fixpoint eval (fuel : nat) (env : values) (e : expr) {struct fuel} : res :=
  match fuel with
  | O => OutOfFuel
  | S f =>
      match e with
      | EInt z => Val (VInt z)
      | EBool b => Val (VBool b)
      | EErr => Val VErr
      | EVar i => match nth_val env i with Some v => Val v | None => Stuck end
      | ELet e1 e2 => bind (eval f env e1) (fun v => eval f (VCons v env) e2)
      | ETup es => match evals f env es with Vals vs => Val (if has_err vs then VErr else VTup vs) | StuckS => Stuck | OutOfFuelS => OutOfFuel end
      | EProj e i => bind (eval f env e) (fun v =>
                       match v with
                       | VTup vs => match nth_val vs i with Some x => Val x | None => Stuck end
                       | VErr => Val VErr
                       | _ => Stuck end)
      | ESeq es => match evals f env es with Vals vs => Val (if has_err vs then VErr else VSeq vs) | StuckS => Stuck | OutOfFuelS => OutOfFuel end
      | ENone => Val VNone
      | ESome e => bind (eval f env e) (fun v => match v with VErr => Val VErr | _ => Val (VSome v) end)
      | EOrElse o d =>                 (* a user-level generic function: both arguments are evaluated, an error argument is the result *)
          bind (eval f env o) (fun v => bind (eval f env d) (fun w =>
            match v, w with
            | VErr, _ => Val VErr
            | (VSome _ | VNone), VErr => Val VErr
            | VSome x, _ => Val x
            | VNone, _ => Val w
            | _, _ => Stuck end))
      | EIf c a b => bind (eval f env c) (fun v =>
                       match v with VBool true => eval f env a | VBool false => eval f env b | VErr => Val VErr | _ => Stuck end)
      | ELam ps body => Val (VClos env ps body)
      | EApp fe args =>
          bind (eval f env fe) (fun vf =>
            match evals f env args with
            | Vals vs =>
                match vf with
                | VClos cenv ps body =>
                    if Nat.eqb (len ps) (vlen vs) then (if has_err vs then Val VErr else eval f (vapp vs cenv) body) else Stuck
                | VErr => Val VErr
                | _ => Stuck
                end
            | StuckS => Stuck
            | OutOfFuelS => OutOfFuel
            end)
      | EAdd a b => bind (eval f env a) (fun x => bind (eval f env b) (fun y =>
                      match x, y with
                      | VInt p, VInt q => Val (VInt (p + q))
                      | VErr, (VInt _ | VErr) => Val VErr
                      | VInt _, VErr => Val VErr
                      | _, _ => Stuck end))
      end
  end
with evals (fuel : nat) (env : values) (es : exprs) {struct fuel} : ress :=
  match fuel with
  | O => OutOfFuelS
  | S f =>
      match es with
      | ENil => Vals VNil
      | ECons e r =>
          match eval f env e with
          | Val v => match evals f env r with Vals vs => Vals (VCons v vs) | x => x end
          | Stuck => StuckS
          | OutOfFuel => OutOfFuelS
          end
      end
  end.

(* ---------- the shape of a value *)
Inductive shape : value -> ty -> Prop :=
| sh_err t : shape VErr t
| sh_int z : shape (VInt z) tint
| sh_bool b : shape (VBool b) tbool
| sh_tup vs ts : shapes vs ts -> shape (VTup vs) (ttup ts)
| sh_seq vs t : all_shape vs t -> shape (VSeq vs) (tseq t)
| sh_none t : shape VNone (topt t)
| sh_some v t : shape v t -> shape (VSome v) (topt t)
| sh_clos env G ps body r :
    env_shape env G -> ufrees ps = true -> fnfrees ps = true -> tc (to_list ps ++ G) body = Some r ->
    shape (VClos env ps body) (TFn (len ps) ps r)
with shapes : values -> tys -> Prop :=
| shs_nil : shapes VNil TNil
| shs_cons v t vs ts : shape v t -> shapes vs ts -> shapes (VCons v vs) (TCons t ts)
with all_shape : values -> ty -> Prop :=
| all_nil t : all_shape VNil t
| all_cons v vs t : shape v t -> all_shape vs t -> all_shape (VCons v vs) t
with env_shape : values -> list ty -> Prop :=
| env_nil : env_shape VNil []
| env_cons v t vs G : shape v t -> env_shape vs G -> env_shape (VCons v vs) (t :: G).

Scheme shape_mind := Induction for shape Sort Prop
  with shapes_mind := Induction for shapes Sort Prop
  with all_shape_mind := Induction for all_shape Sort Prop
  with env_shape_mind := Induction for env_shape Sort Prop.
Combined Scheme shape_all_ind from shape_mind, shapes_mind, all_shape_mind, env_shape_mind.
