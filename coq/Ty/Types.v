(* Model of xray's static types and of the assignability / inference algorithm of src/xtype.rs:
     bind_in_assignment (:352), Bind::mix (:62), common_type (:298 / :657), resolve_bind (:467),
     XFuncSpec::bind (:239), XCompoundSpec::bind (:122), and the declared-position checks of src/parser.rs
     (let / function output / default value: the binding must be trivial) and of compilation_scope.rs::type_of
     (call through a function-typed value).

   Representation choices (each is checked by the correspondence, see props/c04.py):
   - argument lists are the mutual type [tys], so that every function below is plain structural recursion;
   - XNative, Tuple and Compound are one constructor [TCon] with a constructor tag; a compound's by-name binding
     is the positional list of its generic arguments (generics_with_bind), complete by construction;
   - XCallable and XFunc are one constructor [TFn nreq params ret]: a callable type is a function type all of whose
     parameters are required (XType::eq identifies the two).  The window of accepted argument counts is
     [nreq, length params]. *)
From Coq Require Import List NArith Bool Arith String.
Import ListNotations.

Inductive con := CNat (n : N) | CTup | CComp (union : bool) (n : N).

Inductive ty : Type :=
| TPrim (p : N)                      (* 0 bool, 1 int, 2 float, 3 str *)
| TUnk                               (* the bottom type *)
| TGen (g : N)
| TCon (c : con) (args : tys)
| TFn (nreq : nat) (ps : tys) (r : ty)
with tys : Type := TNil | TCons (t : ty) (ts : tys).

Scheme ty_mind := Induction for ty Sort Prop
  with tys_mind := Induction for tys Sort Prop.
Combined Scheme ty_tys_ind from ty_mind, tys_mind.

Fixpoint len (ts : tys) : nat := match ts with TNil => 0 | TCons _ r => S (len r) end.
Fixpoint of_list (l : list ty) : tys := match l with [] => TNil | x :: r => TCons x (of_list r) end.
Fixpoint to_list (ts : tys) : list ty := match ts with TNil => [] | TCons x r => x :: to_list r end.

Definition con_eqb (a b : con) : bool :=
  match a, b with
  | CNat n, CNat m => N.eqb n m
  | CTup, CTup => true
  | CComp k n, CComp j m => Bool.eqb k j && N.eqb n m
  | _, _ => false
  end.

Fixpoint ty_eqb (a b : ty) {struct a} : bool :=
  match a, b with
  | TPrim p, TPrim q => N.eqb p q
  | TUnk, TUnk => true
  | TGen g, TGen h => N.eqb g h
  | TCon c xs, TCon d ys => con_eqb c d && tys_eqb xs ys
  | TFn n ps r, TFn m qs s => Nat.eqb n m && tys_eqb ps qs && ty_eqb r s
  | _, _ => false
  end
with tys_eqb (xs ys : tys) {struct xs} : bool :=
  match xs, ys with
  | TNil, TNil => true
  | TCons x xs', TCons y ys' => ty_eqb x y && tys_eqb xs' ys'
  | _, _ => false
  end.

(* ---- common_type: the least common type of two inferred types *)
Fixpoint common (a b : ty) {struct a} : option ty :=
  match a, b with
  | TCon c xs, TCon d ys =>
      if con_eqb c d then match commons xs ys with Some zs => Some (TCon c zs) | None => None end else None
  | TUnk, _ => Some b
  | _, TUnk => Some a
  | _, _ => if ty_eqb a b then Some a else None
  end
with commons (xs ys : tys) {struct xs} : option tys :=
  match xs, ys with
  | TNil, TNil => Some TNil
  | TCons x xs', TCons y ys' =>
      match common x y, commons xs' ys' with Some z, Some zs => Some (TCons z zs) | _, _ => None end
  | _, _ => None
  end.

(* common type of an array literal's elements (xtype.rs:657): Unknown for the empty literal *)
Fixpoint common_all (acc : ty) (l : list ty) : option ty :=
  match l with [] => Some acc | x :: r => match common acc x with Some c => common_all c r | None => None end end.
Definition literal_type (l : list ty) : option ty :=
  match l with [] => Some TUnk | x :: r => common_all x r end.

(* ---- bindings of generic names *)
Definition bind := list (N * ty).

Fixpoint lookup (g : N) (b : bind) : option ty :=
  match b with [] => None | (k, v) :: r => if N.eqb k g then Some v else lookup g r end.

Fixpoint set_b (g : N) (v : ty) (b : bind) : bind :=
  match b with
  | [] => [(g, v)]
  | (k, w) :: r => if N.eqb k g then (k, v) :: r else (k, w) :: set_b g v r
  end.

(* Bind::mix: every binding of [other] is merged into [self] by the common type *)
Fixpoint mix (self other : bind) : option bind :=
  match other with
  | [] => Some self
  | (k, v) :: r =>
      match lookup k self with
      | Some e => match common e v with Some c => mix (set_b k c self) r | None => None end
      | None => mix (set_b k v self) r
      end
  end.

(* ---- bind_in_assignment required supplied *)
Fixpoint bia (r s : ty) {struct r} : option bind :=
  match r, s with
  | TPrim p, TPrim q => if N.eqb p q then Some [] else None
  | TCon c rs, TCon d ss =>
      if con_eqb c d && Nat.eqb (len rs) (len ss) then bias rs ss [] else None
  | TFn n rp rr, TFn m sp sr =>
      if Nat.leb m n && Nat.leb (len rp) (len sp) then
        match bias rp sp [] with
        | Some b => match bia rr sr with Some b2 => mix b b2 | None => None end
        | None => None
        end
      else None
  | TGen a, _ => Some [(a, s)]
  | _, TUnk => Some []
  | TUnk, _ => Some []
  | _, _ => None
  end
with bias (rs ss : tys) (acc : bind) {struct rs} : option bind :=
  match rs, ss with
  | TCons r rs', TCons s ss' =>
      match bia r s with
      | Some b => match mix acc b with Some acc' => bias rs' ss' acc' | None => None end
      | None => None
      end
  | _, _ => Some acc              (* zip: stops with the shorter list *)
  end.

(* a binding that a declared position accepts: every generic bound to itself or to the bottom type *)
Definition trivial_entry (e : N * ty) : bool :=
  match snd e with TGen h => N.eqb h (fst e) | TUnk => true | _ => false end.
Definition trivial (b : bind) : bool := forallb trivial_entry b.

(* ---- resolve_bind *)
Fixpoint resolve (b : bind) (t : ty) {struct t} : ty :=
  match t with
  | TGen g => match lookup g b with Some v => v | None => t end
  | TCon c xs => TCon c (resolves b xs)
  | TFn n ps r => TFn n (resolves b ps) (resolve b r)
  | _ => t
  end
with resolves (b : bind) (ts : tys) {struct ts} : tys :=
  match ts with TNil => TNil | TCons x r => TCons (resolve b x) (resolves b r) end.

(* ---- the places where the compiler asks the question *)
(* let x: R = e / fn .. -> R { e } / default value / argument of a call through a callable value *)
Definition accepts_declared (r s : ty) : bool :=
  match bia r s with Some b => trivial b | None => false end.

(* XFuncSpec::bind: a call f(args) of a function with parameter types ps (first nreq required) *)
Definition func_bind (nreq : nat) (ps : tys) (args : tys) : option bind :=
  if Nat.leb nreq (len args) && Nat.leb (len args) (len ps) then bias ps args [] else None.
(* only the callee's own generic parameters may be instantiated; those of an enclosing function are rigid *)
Definition trivial_except (own : list N) (b : bind) : bool :=
  forallb (fun e => existsb (N.eqb (fst e)) own || trivial_entry e) b.
Definition func_bind_own (own : list N) (nreq : nat) (ps : tys) (args : tys) : option bind :=
  match func_bind nreq ps args with Some b => if trivial_except own b then Some b else None | None => None end.
(* only the callee's own generics are substituted into the return type: the (trivial) bindings of an enclosing function's
   generics - possibly to the bottom type - leave the return type alone *)
Definition restrict (own : list N) (b : bind) : bind := filter (fun e => existsb (N.eqb (fst e)) own) b.
Definition call_type (own : list N) (nreq : nat) (ps : tys) (ret : ty) (args : tys) : option ty :=
  match func_bind_own own nreq ps args with Some b => Some (resolve (restrict own b) ret) | None => None end.

(* XCompoundSpec::bind for the raw struct name: one argument per field; undetermined generics are bottom *)
Fixpoint fill_unknown (gens : list N) (b : bind) : bind :=
  match gens with [] => b | g :: r => fill_unknown r (match lookup g b with Some _ => b | None => set_b g TUnk b end) end.
Definition struct_bind (gens : list N) (fields args : tys) : option bind :=
  if Nat.eqb (len fields) (len args) then
    match bias fields args [] with Some b => Some (fill_unknown gens b) | None => None end
  else None.
Definition generic_args (gens : list N) (b : bind) : tys :=
  of_list (map (fun g => match lookup g b with Some v => v | None => TGen g end) gens).
Definition construct_type (union : bool) (name : N) (gens : list N) (fields args : tys) : option ty :=
  match struct_bind gens fields args with Some b => Some (TCon (CComp union name) (generic_args gens b)) | None => None end.
(* a variant constructor U::v(e): the payload type against the one argument *)
Definition variant_type (name : N) (gens : list N) (payload arg : ty) : option ty :=
  match bia payload arg with
  | Some b => Some (TCon (CComp true name) (generic_args gens (fill_unknown gens b)))
  | None => None
  end.

(* a call through a function-typed VALUE (compilation_scope.rs type_of, Call): arity and argument types *)
Fixpoint all_declared (ps args : tys) : bool :=
  match ps, args with
  | TCons p ps', TCons a args' => accepts_declared p a && all_declared ps' args'
  | _, _ => true
  end.
Definition value_call_type (f : ty) (args : tys) : option ty :=
  match f with
  | TFn n ps r =>
      if Nat.eqb n (len ps) then
        (if Nat.eqb (len ps) (len args) && all_declared ps args then Some r else None)
      else call_type [] n ps r args
  | _ => None
  end.

(* ---- rendering, as the compiler's messages print types (to_string_with_interner) *)
Section Show.
  Variable show_n : N -> string.
  Variable nat_name : N -> string.      (* native type names *)
  Variable comp_name : N -> string.
  Variable gen_name : N -> string.
  Open Scope string_scope.

  Fixpoint show_ty (t : ty) : string :=
    match t with
    | TPrim 0 => "bool" | TPrim 1 => "int" | TPrim 2 => "float" | TPrim _ => "str"
    | TUnk => "?"
    | TGen g => gen_name g
    | TCon (CNat n) xs => nat_name n ++ "<" ++ show_tys xs ++ ">"
    | TCon CTup xs => "(" ++ show_tys xs ++ ")"
    | TCon (CComp _ n) TNil => comp_name n
    | TCon (CComp _ n) xs => comp_name n ++ "<" ++ show_tys xs ++ ">"
    | TFn n ps r => "(" ++ show_tys ps ++ ")->(" ++ show_ty r ++ ")"
    end
  with show_tys (ts : tys) : string :=
    match ts with
    | TNil => ""
    | TCons x TNil => show_ty x
    | TCons x r => show_ty x ++ ", " ++ show_tys r
    end.
End Show.
