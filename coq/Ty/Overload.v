(* Model of overload resolution (compilation_scope.rs resolve_overload) for call sites whose argument types are fully
   known: candidates are bucketed as non-generic / generic / dynamic; the first non-empty bucket decides; one match is
   chosen, several are an ambiguity error, no match at all is NoOverload.
   A candidate's matching predicate is a parameter of the theorems (for static candidates it is [func_bind_own]; for a
   dynamic candidate it is whatever its factory decides), so that the order/irrelevance results hold for every standard
   library factory. *)
From Coq Require Import List NArith Bool Arith Permutation Lia.
From Xr Require Import Ty.Types.
Import ListNotations.

Inductive kind := KExact | KGeneric | KDynamic.
Definition kind_eqb (a b : kind) : bool :=
  match a, b with KExact, KExact | KGeneric, KGeneric | KDynamic, KDynamic => true | _, _ => false end.

Record cand := { c_id : N; c_kind : kind; c_match : tys -> bool }.

Inductive outcome := Chosen (id : N) | Ambiguous (k : kind) (n : nat) | NoOverload.

Definition bucket (k : kind) (cs : list cand) (args : tys) : list cand :=
  filter (fun c => kind_eqb (c_kind c) k && c_match c args) cs.

Definition decide (k : kind) (b : list cand) (otherwise : outcome) : outcome :=
  match b with [] => otherwise | [c] => Chosen (c_id c) | _ => Ambiguous k (length b) end.

Definition resolve_call (cs : list cand) (args : tys) : outcome :=
  decide KExact (bucket KExact cs args)
    (decide KGeneric (bucket KGeneric cs args)
       (decide KDynamic (bucket KDynamic cs args) NoOverload)).

(* a static user/library function as a candidate *)
Definition static_cand (id : N) (own : list N) (nreq : nat) (ps : tys) : cand :=
  {| c_id := id; c_kind := match own with [] => KExact | _ => KGeneric end;
     c_match := fun args => match func_bind_own own nreq ps args with Some _ => true | None => false end |}.
