From Coq Require Import List NArith ZArith Bool Arith Lia.
From Xr Require Import Ty.Types Ty.TypesProofs Ty.Sound.
Import ListNotations.

(* ---------- assignability to a spelled first-order type is the information order *)
Lemma fits_rigid_le_both :
  (forall r s, fnfree r = true -> fits rigid s r -> le s r) /\
  (forall rs ss, fnfrees rs = true -> len rs = len ss -> fitss rigid ss rs -> les ss rs).
Proof.
  apply ty_tys_ind.
  - intros p s _ F. inversion F; subst; constructor.
  - intros s _ F. inversion F; subst. constructor.
  - intros g s _ F. inversion F; subst; try constructor. assumption.
  - intros c xs IH s FF F. cbn in FF. inversion F as [| | |c' ss rs' Hlen Hf|]; subst. constructor. constructor. now apply IH.
  - intros n ps _ r _ s FF _. discriminate.
  - intros ss _ L _. destruct ss; cbn in L; try discriminate. constructor.
  - intros t IHt ts IHts ss FF L F. cbn in FF. apply andb_true_iff in FF as [F1 F2].
    destruct ss as [|s ss]; cbn in L; try discriminate. inversion F as [| |s0 r0 ss0 rs0 Hf Hfs]; subst.
    constructor. now apply IHt. apply IHts; auto.
Qed.

Lemma declared_le r s : ufree r = true -> fnfree r = true -> accepts_declared r s = true -> le s r.
Proof. intros U F A. apply (proj1 fits_rigid_le_both); auto. now apply declared_exact. Qed.

(* ---------- subsumption: a value of a type is a value of every type above it *)
Lemma le_tint_inv t : le tint t -> t = tint. Proof. intro H. now inversion H. Qed.
Lemma le_tbool_inv t : le tbool t -> t = tbool. Proof. intro H. now inversion H. Qed.

Lemma shape_le_all :
  (forall v s, shape v s -> forall t, le s t -> shape v t) /\
  (forall vs ss, shapes vs ss -> forall ts, les ss ts -> shapes vs ts) /\
  (forall vs s, all_shape vs s -> forall t, le s t -> all_shape vs t) /\
  (forall vs G, env_shape vs G -> True).
Proof.
  apply shape_all_ind; intros; auto.
  - constructor.
  - apply le_tint_inv in H. subst. constructor.
  - apply le_tbool_inv in H. subst. constructor.
  - inversion H0; subst. constructor. auto.
  - inversion H0; subst. match goal with X : les (TCons t TNil) _ |- _ => inversion X; subst end.
    match goal with X : les TNil _ |- _ => inversion X; subst end. constructor. auto.
  - inversion H; subst. match goal with X : les (TCons t TNil) _ |- _ => inversion X; subst end.
    match goal with X : les TNil _ |- _ => inversion X; subst end. constructor.
  - inversion H0; subst. match goal with X : les (TCons t TNil) _ |- _ => inversion X; subst end.
    match goal with X : les TNil _ |- _ => inversion X; subst end. constructor. auto.
  - inversion H0; subst. econstructor; eauto.
  - inversion H; subst. constructor.
  - inversion H1; subst. constructor; auto.
  - constructor.
  - constructor; auto.
Qed.
Definition shape_le := proj1 shape_le_all.

Lemma shape_unk v : shape v TUnk -> v = VErr.
Proof. intro H. now inversion H. Qed.

(* ---------- the builtin signatures used by the checker, computed through the generic machinery *)
Lemma bia_gen g s : bia (TGen g) s = Some [(g, s)].
Proof. destruct s; reflexivity. Qed.

Lemma bia_prim_inv p c b0 : bia (TPrim p) c = Some b0 -> (c = TPrim p \/ c = TUnk) /\ b0 = [].
Proof.
  destruct c as [q| | | |]; cbn [bia]; intro B; try discriminate.
  - destruct (N.eqb p q) eqn:E; try discriminate. apply N.eqb_eq in E. subst. inversion B. auto.
  - inversion B. auto.
Qed.

Lemma if_rule c a b t :
  call_type [0%N] 3 (TCons tbool (TCons (TGen 0) (TCons (TGen 0) TNil))) (TGen 0) (TCons c (TCons a (TCons b TNil))) = Some t ->
  (c = tbool \/ c = TUnk) /\ common a b = Some t.
Proof.
  unfold call_type, func_bind_own, func_bind. cbn [len Nat.leb andb bias].
  destruct (bia tbool c) as [b0|] eqn:B; try discriminate.
  destruct (bia_prim_inv _ _ _ B) as [Hc ->].
  cbn [mix]. rewrite !bia_gen. cbn [mix lookup set_b N.eqb].
  destruct (common a b) as [c0|] eqn:C; try discriminate. cbn. intro H. inversion H; subst. auto.
Qed.

Lemma bia_opt_gen o b0 : bia (topt (TGen 0)) o = Some b0 -> (o = TUnk /\ b0 = []) \/ (exists x, o = topt x /\ b0 = [(0%N, x)]).
Proof.
  destruct o as [| | |c xs|]; cbn; try discriminate.
  - intro B. inversion B. auto.
  - destruct c as [n| |]; cbn; try discriminate.
    destruct n as [|n]; cbn; try discriminate. destruct n; cbn; try discriminate.
    destruct xs as [|x [|y r]]; cbn; try discriminate.
    destruct x; cbn; intro B; inversion B; right; eexists; split; reflexivity.
Qed.

Lemma or_rule o d t :
  call_type [0%N] 2 (TCons (topt (TGen 0)) (TCons (TGen 0) TNil)) (TGen 0) (TCons o (TCons d TNil)) = Some t ->
  (o = TUnk /\ t = d) \/ (exists x, o = topt x /\ common x d = Some t).
Proof.
  unfold call_type, func_bind_own, func_bind. cbn [len Nat.leb andb bias].
  destruct (bia (topt (TGen 0)) o) as [b0|] eqn:B; try discriminate.
  destruct (bia_opt_gen _ _ B) as [[-> ->]|[x [-> ->]]].
  - cbn [mix]. rewrite bia_gen. cbn. intro H. inversion H; subst. auto.
  - cbn [mix lookup set_b N.eqb]. rewrite bia_gen. cbn [mix lookup set_b N.eqb].
    destruct (common x d) as [c0|] eqn:C; try discriminate. cbn. intro H. inversion H; subst. right. eauto.
Qed.

Lemma add_rule a b t :
  call_type [] 2 (TCons tint (TCons tint TNil)) tint (TCons a (TCons b TNil)) = Some t ->
  t = tint /\ (a = tint \/ a = TUnk) /\ (b = tint \/ b = TUnk).
Proof.
  unfold call_type, func_bind_own, func_bind. cbn [len Nat.leb andb bias].
  destruct (bia tint a) as [b0|] eqn:B; try discriminate.
  destruct (bia_prim_inv _ _ _ B) as [Ha ->].
  cbn [mix]. destruct (bia tint b) as [b1|] eqn:B1; try discriminate.
  destruct (bia_prim_inv _ _ _ B1) as [Hb ->].
  cbn. intro H. inversion H; subst. auto.
Qed.

(* ---------- environments and lists *)
Lemma env_nth env G : env_shape env G -> forall i t, nth_error G i = Some t -> exists v, nth_val env i = Some v /\ shape v t.
Proof.
  induction 1; intros i t0 H1; destruct i; cbn in *; try discriminate.
  - inversion H1; subst. eauto.
  - eauto.
Qed.

Lemma shapes_nth vs ts : shapes vs ts -> forall i t, nth_tys ts i = Some t -> exists v, nth_val vs i = Some v /\ shape v t.
Proof.
  induction 1; intros i t0 H1; destruct i; cbn in *; try discriminate.
  - inversion H1; subst. eauto.
  - eauto.
Qed.

Lemma shapes_len vs ts : shapes vs ts -> vlen vs = len ts.
Proof. induction 1; cbn; auto. Qed.

Lemma env_app vs ps env G : shapes vs ps -> env_shape env G -> env_shape (vapp vs env) (to_list ps ++ G).
Proof. induction 1; cbn; intro E; auto. constructor; auto. Qed.

Lemma shapes_all_le vs ts c : shapes vs ts -> Forall (fun x => le x c) (to_list ts) -> all_shape vs c.
Proof.
  induction 1; cbn; intro F. constructor. inversion F; subst. constructor; auto. eapply shape_le; eauto.
Qed.

(* arguments accepted for spelled first-order parameters have the parameters' shapes *)
Lemma args_shapes ps : ufrees ps = true -> fnfrees ps = true -> forall ta vs,
  len ps = len ta -> all_declared ps ta = true -> shapes vs ta -> shapes vs ps.
Proof.
  induction ps as [|p ps IH]; intros U F ta vs L A S.
  - destruct ta; cbn in L; try discriminate. inversion S; subst. constructor.
  - cbn in U, F. apply andb_true_iff in U as [U1 U2]. apply andb_true_iff in F as [F1 F2].
    destruct ta as [|a ta]; cbn in L; try discriminate. cbn in A. apply andb_true_iff in A as [A1 A2].
    inversion S as [|v0 t0 vs0 ts0 Sv Svs]; subst. constructor.
    + apply shape_le with (s := a). exact Sv. apply declared_le; assumption.
    + apply (IH U2 F2 ta vs0); auto.
Qed.

(* ---------- soundness *)
Definition ok_res (r : res) (t : ty) : Prop := match r with Val v => shape v t | Stuck => False | OutOfFuel => True end.
Definition ok_ress (r : ress) (ts : tys) : Prop := match r with Vals vs => shapes vs ts | StuckS => False | OutOfFuelS => True end.

Lemma bind_ok r k t t' : ok_res r t -> (forall v, shape v t -> ok_res (k v) t') -> ok_res (bind r k) t'.
Proof. destruct r; cbn; auto. Qed.

Theorem soundness_both : forall fuel,
  (forall e G env t, tc G e = Some t -> env_shape env G -> ok_res (eval fuel env e) t) /\
  (forall es G env ts, tcs G es = Some ts -> env_shape env G -> ok_ress (evals fuel env es) ts).
Proof.
  induction fuel as [|f [IHe IHs]]. split; intros; exact I.
  split.
  - intros e G env t T E. destruct e; cbn [eval]; cbn in T.
    + inversion T; subst. constructor.
    + inversion T; subst. constructor.
    + inversion T; subst. constructor.
    + destruct (env_nth _ _ E _ _ T) as [v [-> S]]. exact S.
    + destruct (tc G e1) as [t1|] eqn:T1; try discriminate.
      eapply bind_ok. eapply IHe; eauto. intros v S. eapply IHe; eauto. constructor; auto.
    + destruct (tcs G es) as [ts|] eqn:Ts; try discriminate. inversion T; subst.
      pose proof (IHs _ _ _ _ Ts E) as R. destruct (evals f env es) as [vs| |]; cbn in *; auto. destruct (has_err vs); constructor. auto.
    + destruct (tc G e) as [t1|] eqn:T1; try discriminate.
      eapply bind_ok. eapply IHe; eauto. intros v S.
      destruct t1 as [| | |c ts|]; try discriminate. destruct c; try discriminate.
      inversion S; subst; cbn; try constructor.
      destruct (shapes_nth _ _ H1 _ _ T) as [x [-> Sx]]. exact Sx.
    + destruct (tcs G es) as [ts|] eqn:Ts; try discriminate.
      destruct (literal_type (to_list ts)) as [c|] eqn:L; try discriminate. inversion T; subst.
      pose proof (IHs _ _ _ _ Ts E) as R. destruct (evals f env es) as [vs| |]; cbn in *; auto. destruct (has_err vs); constructor.
      eapply shapes_all_le; eauto. apply (proj1 (literal_type_lub _ _ L)).
    + inversion T; subst. constructor.
    + destruct (tc G e) as [t1|] eqn:T1; try discriminate. inversion T; subst.
      eapply bind_ok. eapply IHe; eauto. intros v S. destruct v; cbn; constructor; auto.
    + destruct (tc G e1) as [t1|] eqn:T1; try discriminate. destruct (tc G e2) as [t2|] eqn:T2; try discriminate.
      apply or_rule in T as [[-> ->]|[x [-> C]]].
      * eapply bind_ok. eapply IHe; eauto. intros v S. apply shape_unk in S. subst.
        eapply bind_ok. eapply IHe; eauto. intros w Sw. constructor.
      * pose proof (common_lub _ _ _ C) as (L1 & L2 & _).
        eapply bind_ok. eapply IHe; eauto. intros v S. eapply bind_ok. eapply IHe; eauto. intros w Sw.
        inversion S; subst; cbn; try constructor.
        -- destruct w; try constructor; eapply shape_le; eauto.
        -- destruct w; try constructor; eapply shape_le; eauto.
    + destruct (tc G e1) as [t0|] eqn:T0; try discriminate. destruct (tc G e2) as [t1|] eqn:T1; try discriminate.
      destruct (tc G e3) as [t2|] eqn:T2; try discriminate.
      apply if_rule in T as [Hc C]. pose proof (common_lub _ _ _ C) as (L1 & L2 & _).
      eapply bind_ok. eapply IHe; eauto. intros v S.
      destruct Hc as [-> | ->].
      * inversion S; subst; cbn; try constructor. destruct b.
        -- pose proof (IHe _ _ _ _ T1 E) as R. destruct (eval f env e2); cbn in *; auto. eapply shape_le; eauto.
        -- pose proof (IHe _ _ _ _ T2 E) as R. destruct (eval f env e3); cbn in *; auto. eapply shape_le; eauto.
      * apply shape_unk in S. subst. constructor.
    + destruct (ufrees ps && fnfrees ps) eqn:UF; try discriminate. apply andb_true_iff in UF as [U F].
      destruct (tc (to_list ps ++ G) e) as [r|] eqn:Tb; try discriminate. inversion T; subst.
      econstructor; eauto.
    + destruct (tc G e) as [tf|] eqn:Tf; try discriminate. destruct (tcs G args) as [ta|] eqn:Ta; try discriminate.
      eapply bind_ok. eapply IHe; eauto. intros vf Sf.
      pose proof (IHs _ _ _ _ Ta E) as R. destruct (evals f env args) as [vs| |]; cbn in R; auto.
      unfold value_call_type in T. destruct tf as [| | | |n ps r]; try discriminate.
      inversion Sf; subst; try constructor.
      (* a closure: its static type is exactly its declared one, all parameters required *)
      rewrite Nat.eqb_refl in T.
      destruct (Nat.eqb (len ps) (len ta)) eqn:L; try discriminate. cbn in T.
      destruct (all_declared ps ta) eqn:A; try discriminate. inversion T; subst.
      apply Nat.eqb_eq in L. assert (len ps = vlen vs) as LV by (rewrite (shapes_len _ _ R); exact L).
      rewrite LV, Nat.eqb_refl.
      destruct (has_err vs). constructor.
      eapply IHe; [eassumption|]. apply env_app; [|assumption]. eapply args_shapes; eassumption.
    + destruct (tc G e1) as [t1|] eqn:T1; try discriminate. destruct (tc G e2) as [t2|] eqn:T2; try discriminate.
      apply add_rule in T as (-> & H1 & H2).
      eapply bind_ok. eapply IHe; eauto. intros x Sx. eapply bind_ok. eapply IHe; eauto. intros y Sy.
      destruct H1 as [-> | ->], H2 as [-> | ->];
        repeat match goal with S : shape _ TUnk |- _ => apply shape_unk in S; subst end;
        repeat match goal with S : shape ?v tint |- _ => inversion S; subst; clear S end; cbn; constructor.
  - intros es G env ts T E. destruct es; cbn [evals]; cbn in T.
    + inversion T; subst. constructor.
    + destruct (tc G e) as [t|] eqn:T1; try discriminate. destruct (tcs G es) as [ts'|] eqn:T2; try discriminate. inversion T; subst.
      pose proof (IHe _ _ _ _ T1 E) as R1. destruct (eval f env e); cbn in *; auto.
      pose proof (IHs _ _ _ _ T2 E) as R2. destruct (evals f env es); cbn in *; auto. constructor; auto.
Qed.

Theorem soundness fuel e t : tc [] e = Some t ->
  match eval fuel VNil e with Val v => shape v t | Stuck => False | OutOfFuel => True end.
Proof. intro T. apply (proj1 (soundness_both fuel) e [] VNil t T). constructor. Qed.
