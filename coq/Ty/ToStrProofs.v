(* The modelled inner lookup of the dynamic to_str overloads (Ty/TyInst.v, resolve_to_str) inherits the order
   independence of resolve_call at every nesting level of the argument type. *)
From Coq Require Import List NArith Bool Arith Permutation.
From Xr Require Import Ty.Types Ty.Overload Ty.OverloadProofs Ty.TyInst.
Import ListNotations.

Definition dyn_match_of (inner : ty -> bool) (args : tys) : bool :=
  match args with
  | TCons (TCon (CNat 0) (TCons x TNil)) TNil => inner x
  | TCons (TCon (CNat 1) (TCons x TNil)) TNil => inner x
  | TCons (TCon CTup xs) TNil => all_tys inner xs
  | _ => false
  end.
Definition lib_exact_of (args : tys) : list (N * list N * nat * tys) :=
  match args with TCons (TPrim p) TNil => [(100%N, @nil N, 1, TCons (TPrim p) TNil)] | _ => [] end.
Definition inner_of (f : nat) (statics : list (N * list N * nat * tys)) (t : ty) : bool :=
  match resolve_to_str f statics (TCons t TNil) with Chosen _ => true | _ => false end.

Lemma resolve_to_str_unfold f statics args :
  resolve_to_str (S f) statics args =
  resolve_call (mk_cands (statics ++ lib_exact_of args) [(100%N, dyn_match_of (inner_of f statics) args)]) args.
Proof. reflexivity. Qed.

Lemma mk_cands_perm statics statics' dyns :
  Permutation statics statics' -> Permutation (mk_cands statics dyns) (mk_cands statics' dyns).
Proof. intro P. unfold mk_cands. apply Permutation_app_tail. now apply Permutation_map. Qed.

Lemma all_tys_ext f g ts : (forall t, f t = g t) -> all_tys f ts = all_tys g ts.
Proof. intro H. induction ts as [|x r IH]; cbn; auto. now rewrite H, IH. Qed.

Lemma dyn_match_of_ext f g args : (forall t, f t = g t) -> dyn_match_of f args = dyn_match_of g args.
Proof.
  intro H. destruct args as [|a r]; auto. destruct a as [| | |c xs|]; auto. destruct r; auto.
  destruct c as [n| |]; auto.
  - destruct n as [|p]; [|destruct p]; auto; destruct xs as [|x [|y xs']]; cbn; auto.
  - cbn. now apply all_tys_ext.
Qed.

Theorem resolve_to_str_perm : forall fuel statics statics' args,
  Permutation statics statics' -> resolve_to_str fuel statics args = resolve_to_str fuel statics' args.
Proof.
  induction fuel as [|f IH]; intros statics statics' args P. reflexivity.
  rewrite !resolve_to_str_unfold.
  rewrite (dyn_match_of_ext (inner_of f statics) (inner_of f statics') args).
  - apply resolve_perm. apply mk_cands_perm. now apply Permutation_app_tail.
  - intro t. unfold inner_of. now rewrite (IH statics statics' (TCons t TNil) P).
Qed.
