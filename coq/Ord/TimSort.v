(* Model of src/util/trysort.rs (the merge sort behind `sort`, `sort_reverse`, `median`, ... for sequences of more
   than 20 elements): natural runs found from the end of the array, strictly descending runs reversed, short runs
   extended to 10 elements by insertion, a stack of runs collapsed by the TimSort rule on the top four runs, and two
   merge directions (forwards when the left run is not longer than the right one, backwards otherwise).
   `le x y` is "not (y is less than x)"; the implementation's `is_less a b` is `lt a b` below.
   Lists stand for array segments in array order; `w` (the part of the array not yet in a run) is kept reversed, nearest
   element first, because the implementation walks backwards. *)
From Coq Require Import List Bool Arith.
From Xr Require Import Ord.Derived.
Import ListNotations.

Section Tim.
  Context {A : Type} (le : A -> A -> bool).
  Definition lt (a b : A) : bool := negb (le b a).

  (* forward merge: the right element is taken only when it is strictly less than the left one *)
  Fixpoint merge (a : list A) : list A -> list A :=
    fix mb (b : list A) : list A :=
      match a, b with
      | [], _ => b
      | _, [] => a
      | x :: a', y :: b' => if lt y x then y :: mb b' else x :: merge a' b
      end.

  (* longest prefix of w whose consecutive elements (starting from x) are related by r *)
  Fixpoint span_rel (r : A -> A -> bool) (x : A) (w : list A) : list A * list A :=
    match w with
    | [] => ([], [])
    | y :: w' => if r x y then let (p, rest) := span_rel r y w' in (y :: p, rest) else ([], w)
    end.

  (* next natural run (in array order) and what remains of w *)
  Definition next_run (w : list A) : list A * list A :=
    match w with
    | [] => ([], [])
    | [x] => ([x], [])
    | x :: y :: w' =>
        if lt x y
        then let (p, rest) := span_rel lt y w' in (x :: y :: p, rest)                 (* descending in the array: reversed *)
        else let (p, rest) := span_rel (fun a b => negb (lt a b)) y w' in (rev (x :: y :: p), rest)
    end.

  (* insert_head, repeated while the run is shorter than MIN_RUN *)
  Fixpoint extend (n : nat) (run w : list A) : list A * list A :=
    match n, w with
    | S n', x :: w' => extend n' (insert le x run) w'
    | _, _ => (run, w)
    end.

  Definition MIN_RUN := 10.
  Definition MAX_INSERTION := 20.
End Tim.

(* backward merge: compares the last elements, emits the larger, the left one only when the right one is strictly less *)
Definition merge_back {A} (le : A -> A -> bool) (a b : list A) : list A :=
  rev (merge (fun x y => le y x) (rev b) (rev a)).

Section Tim2.
  Context {A : Type} (le : A -> A -> bool).

  Definition merge_runs (a b : list A) : list A :=
    if length a <=? length b then merge le a b else merge_back le a b.

  (* the stack of runs, most recent (leftmost in the array) first. Some 0: merge the top two; Some 1: the second and third *)
  Definition collapse (at_start : bool) (st : list (list A)) : option nat :=
    match st with
    | r0 :: r1 :: rest =>
        let l0 := length r0 in
        let l1 := length r1 in
        let c3 := match rest with r2 :: _ => length r2 <=? l1 + l0 | [] => false end in
        let c4 := match rest with r2 :: r3 :: _ => length r3 <=? length r2 + l1 | _ => false end in
        if at_start || (l1 <=? l0) || c3 || c4
        then match rest with
             | r2 :: _ => if length r2 <? l0 then Some 1 else Some 0
             | [] => Some 0
             end
        else None
    | _ => None
    end.

  Fixpoint collapse_all (fuel : nat) (at_start : bool) (st : list (list A)) : list (list A) :=
    match fuel with
    | 0 => st
    | S f =>
        match collapse at_start st, st with
        | Some 0, r0 :: r1 :: rest => collapse_all f at_start (merge_runs r0 r1 :: rest)
        | Some (S _), r0 :: r1 :: r2 :: rest => collapse_all f at_start (r0 :: merge_runs r1 r2 :: rest)
        | _, _ => st
        end
    end.

  Definition isnil (l : list A) : bool := match l with [] => true | _ => false end.

  Fixpoint loop (fuel : nat) (w : list A) (st : list (list A)) : option (list (list A)) :=
    match w with
    | [] => Some st
    | _ =>
        match fuel with
        | 0 => None
        | S f =>
            let (run0, w1) := next_run le w in
            let (run, w2) := extend le (MIN_RUN - length run0) run0 w1 in
            loop f w2 (collapse_all (S (length st)) (isnil w2) (run :: st))
        end
    end.

  (* None would mean the model ran out of fuel or did not end with one run; TimSortProofs shows it never happens *)
  Definition tsort (l : list A) : option (list A) :=
    if length l <=? MAX_INSERTION then Some (isort le l)
    else match loop (length l) (rev l) [] with Some [r] => Some r | _ => None end.
End Tim2.
