From Coq Require Import List ZArith NArith Bool Arith Lia Permutation Sorted.
From Xr Require Import Ord.Derived.
Import ListNotations.

Lemma lex_n_eq a : forall b, lex_n a b = Eq <-> a = b.
Proof.
  induction a as [|x a IH]; destruct b as [|y b]; cbn; split; intro H; try discriminate; auto.
  - destruct (N.compare x y) eqn:E; try discriminate. apply N.compare_eq in E. subst. f_equal. now apply IH.
  - inversion H; subst. rewrite N.compare_refl. now apply IH.
Qed.

Lemma lex_n_antisym a : forall b, lex_n b a = CompOpp (lex_n a b).
Proof.
  induction a as [|x a IH]; destruct b as [|y b]; cbn; auto.
  rewrite (N.compare_antisym x y). destruct (N.compare x y); cbn; auto.
Qed.

Lemma bool_cmp_cases (x y : bool) :
  (match x, y with false, true => Lt | true, false => Gt | _, _ => Eq end) = Eq <-> x = y.
Proof. destruct x, y; split; intro H; try discriminate; auto. Qed.

(* cmp is consistent with (structural) equality *)
Theorem vcmp_eq_both : (forall a b, vcmp a b = Eq <-> a = b) /\ (forall xs ys, vscmp xs ys = Eq <-> xs = ys).
Proof.
  apply val_vals_ind.
  - intros z b. destruct b; cbn; split; intro H; try discriminate. apply Z.compare_eq in H. now subst. inversion H. apply Z.compare_refl.
  - intros x b. destruct b as [|y| | |]; cbn; split; intro H; try discriminate. f_equal. now apply bool_cmp_cases. inversion H; subst. now apply bool_cmp_cases.
  - intros cs b. destruct b; cbn; split; intro H; try discriminate. f_equal. now apply lex_n_eq. inversion H; subst. now apply lex_n_eq.
  - intros vs IH b. destruct b; cbn; split; intro H; try discriminate. f_equal. now apply IH. inversion H; subst. now apply IH.
  - intros vs IH b. destruct b; cbn; split; intro H; try discriminate. f_equal. now apply IH. inversion H; subst. now apply IH.
  - intros ys. destruct ys; cbn; split; intro H; try discriminate; auto.
  - intros v IHv r IHr ys. destruct ys as [|y ys]; cbn; split; intro H; try discriminate.
    + destruct (vcmp v y) eqn:E; try discriminate. apply IHv in E. apply IHr in H. now subst.
    + inversion H; subst. assert (vcmp y y = Eq) as -> by now apply IHv. now apply IHr.
Qed.
Definition vcmp_eq := proj1 vcmp_eq_both.

(* cmp is antisymmetric: swapping the operands reverses the outcome *)
Theorem vcmp_antisym_both : (forall a b, vcmp b a = CompOpp (vcmp a b)) /\ (forall xs ys, vscmp ys xs = CompOpp (vscmp xs ys)).
Proof.
  apply val_vals_ind.
  - intros z b. destruct b; cbn; auto. apply Z.compare_antisym.
  - intros x b. destruct b as [|y| | |]; cbn; auto. destruct x, y; reflexivity.
  - intros cs b. destruct b; cbn; auto. apply lex_n_antisym.
  - intros vs IH b. destruct b; cbn; auto.
  - intros vs IH b. destruct b; cbn; auto.
  - intros ys. destruct ys; cbn; auto.
  - intros v IHv r IHr ys. destruct ys as [|y ys]; cbn; auto. rewrite (IHv y). destruct (vcmp v y); cbn; auto.
Qed.
Definition vcmp_antisym := proj1 vcmp_antisym_both.

Lemma lex_n_trans a : forall b c, lex_n a b = Lt -> lex_n b c = Lt -> lex_n a c = Lt.
Proof.
  induction a as [|x a IH]; destruct b as [|y b]; destruct c as [|z c]; cbn; intros H1 H2; try discriminate; auto.
  destruct (N.compare x y) eqn:E1; try discriminate; destruct (N.compare y z) eqn:E2; try discriminate.
  - apply N.compare_eq in E1. apply N.compare_eq in E2. subst. rewrite N.compare_refl. eauto.
  - apply N.compare_eq in E1. subst. now rewrite E2.
  - apply N.compare_eq in E2. subst. now rewrite E1.
  - assert (N.compare x z = Lt) as ->; auto. apply N.compare_lt_iff. apply N.compare_lt_iff in E1. apply N.compare_lt_iff in E2. eapply N.lt_trans; eauto.
Qed.

(* cmp is transitive (on Lt; with antisymmetry and consistency this makes it a total order) *)
Ltac mixed := try (cbn; intros ? ?; (discriminate || reflexivity)).

Theorem vcmp_trans_both :
  (forall a b c, vcmp a b = Lt -> vcmp b c = Lt -> vcmp a c = Lt) /\
  (forall xs ys zs, vscmp xs ys = Lt -> vscmp ys zs = Lt -> vscmp xs zs = Lt).
Proof.
  apply val_vals_ind.
  - intros z b c. destruct b as [y|?|?|?|?]; destruct c as [w|?|?|?|?]; mixed.
    cbn [vcmp]. intros H1 H2. apply Z.compare_lt_iff. apply Z.compare_lt_iff in H1. apply Z.compare_lt_iff in H2. eapply Z.lt_trans; eauto.
  - intros x b c. destruct b as [?|y|?|?|?]; destruct c as [?|w|?|?|?]; mixed.
    cbn [vcmp]. destruct x, y, w; intros; try discriminate; auto.
  - intros cs b c. destruct b as [?|?|y|?|?]; destruct c as [?|?|w|?|?]; mixed.
    cbn [vcmp]. apply lex_n_trans.
  - intros vs IH b c. destruct b as [?|?|?|y|?]; destruct c as [?|?|?|w|?]; mixed.
    cbn [vcmp]. apply IH.
  - intros vs IH b c. destruct b as [?|?|?|?|y]; destruct c as [?|?|?|?|w]; mixed.
    cbn [vcmp]. apply IH.
  - intros ys zs H1 H2. destruct ys, zs; cbn in *; try discriminate; auto.
  - intros v IHv r IHr ys zs H1 H2. destruct ys as [|y ys], zs as [|z zs]; cbn in *; try discriminate; auto.
    destruct (vcmp v y) eqn:E1; try discriminate; destruct (vcmp y z) eqn:E2; try discriminate.
    + apply vcmp_eq in E1. apply vcmp_eq in E2. subst. assert (vcmp z z = Eq) as -> by now apply vcmp_eq. eauto.
    + apply vcmp_eq in E1. subst. now rewrite E2.
    + apply vcmp_eq in E2. subst. now rewrite E1.
    + now rewrite (IHv _ _ E1 E2).
Qed.
Definition vcmp_trans := proj1 vcmp_trans_both.

(* ---- the reference sort returns an ordered permutation and is stable *)
Section SortProofs.
  Context {A : Type} (le : A -> A -> bool).
  Hypothesis le_total : forall a b, le a b = true \/ le b a = true.
  Hypothesis le_trans : forall a b c, le a b = true -> le b c = true -> le a c = true.

  Lemma insert_perm x l : Permutation (insert le x l) (x :: l).
  Proof.
    induction l as [|y r IH]; cbn. auto. destruct (le x y). auto.
    eapply perm_trans. apply perm_skip. exact IH. apply perm_swap.
  Qed.

  Theorem isort_perm l : Permutation (isort le l) l.
  Proof. induction l as [|x r IH]; cbn. auto. eapply perm_trans. apply insert_perm. now apply perm_skip. Qed.

  Definition leP a b := le a b = true.

  Lemma insert_sorted x l : Sorted leP l -> Sorted leP (insert le x l).
  Proof.
    induction l as [|y r IH]; cbn; intro S. repeat constructor.
    destruct (le x y) eqn:E. constructor; auto.
    inversion S; subst. constructor. auto.
    destruct r as [|z r]; cbn in *. constructor. destruct (le_total x y) as [H|H]; congruence || exact H.
    destruct (le x z). constructor. destruct (le_total x y) as [H|H]; congruence || exact H.
    inversion H2; subst. now constructor.
  Qed.

  Theorem isort_sorted l : Sorted leP (isort le l).
  Proof. induction l as [|x r IH]; cbn. constructor. now apply insert_sorted. Qed.

  (* stability: elements that compare equal keep their original relative order *)
  Definition equiv x y := le x y && le y x.

  Lemma insert_filter_other p x l : p x = false -> filter p (insert le x l) = filter p l.
  Proof.
    intro Hp. induction l as [|y r IH]; cbn. now rewrite Hp.
    destruct (le x y); cbn. now rewrite Hp. now rewrite IH.
  Qed.

  Lemma insert_filter_equiv x l : Sorted leP l ->
    filter (equiv x) (insert le x l) = x :: filter (equiv x) l.
  Proof.
    assert (equiv x x = true) as RX.
    { unfold equiv. destruct (le_total x x) as [H|H]; rewrite H; reflexivity. }
    induction l as [|y r IH]; cbn; intro S. now rewrite RX.
    destruct (le x y) eqn:E; cbn. now rewrite RX.
    (* y is strictly below x: it is not equivalent to x *)
    unfold equiv at 1. rewrite E. cbn. unfold equiv at 2. rewrite E. cbn.
    apply IH. inversion S; auto.
  Qed.

  Theorem isort_stable l x : filter (equiv x) (isort le l) = filter (equiv x) l.
  Proof.
    induction l as [|y r IH]; cbn; auto.
    destruct (equiv x y) eqn:E.
    - (* y is equivalent to x: the class of x is the class of y *)
      assert (forall z, equiv x z = equiv y z) as SAME.
      { intro z. unfold equiv in *. apply andb_true_iff in E as [E1 E2].
        destruct (le x z) eqn:A1, (le z x) eqn:A2, (le y z) eqn:B1, (le z y) eqn:B2; cbn; auto;
          try (rewrite (le_trans _ _ _ E2 A1) in B1; discriminate);
          try (rewrite (le_trans _ _ _ A2 E1) in B2; discriminate);
          try (rewrite (le_trans _ _ _ E1 B1) in A1; discriminate);
          try (rewrite (le_trans _ _ _ B2 E2) in A2; discriminate). }
      rewrite !(filter_ext (equiv x) (equiv y) SAME).
      rewrite insert_filter_equiv by apply isort_sorted. f_equal.
      rewrite <- !(filter_ext (equiv x) (equiv y) SAME). exact IH.
    - rewrite insert_filter_other; auto.
  Qed.
End SortProofs.
