(* The `sort` builtin with a user comparator, as the interpreter runs it (src/builtin/sequence.rs `sort` +
   src/util/trysort.rs), with the sequence of comparator calls it makes: the model of Ord/TimSort.v re-stated over a
   three-way comparator `cmp` (the interpreter tests `cmp a b < 0` inside the sort and `cmp a b > 0` in the sortedness
   pre-pass) and returning, next to its result, the list of argument pairs in call order.  The trace is what ties the
   algorithm of the model to the algorithm of the code: the check prints each pair from inside the comparator and
   compares the printed sequence with this list.  TimSortTraceProofs.v shows that forgetting the trace gives exactly
   `tsort`. *)
From Coq Require Import List Bool Arith.
From Xr Require Import Ord.Derived Ord.TimSort.
Import ListNotations.

Section TT.
  Context {A : Type} (cmp : A -> A -> comparison).
  Definition isl (a b : A) : bool := match cmp a b with Lt => true | _ => false end.
  Definition pos (a b : A) : bool := match cmp a b with Gt => true | _ => false end.
  Definition le_of (x y : A) : bool := negb (isl y x).
  Definition tr := list (A * A).

  (* pre-pass: windows of two, left to right, stops at the first positive comparison *)
  Fixpoint presortedT (l : list A) : bool * tr :=
    match l with
    | x :: r =>
        match r with
        | y :: _ => if pos x y then (false, [(x, y)]) else let '(b, t) := presortedT r in (b, (x, y) :: t)
        | [] => (true, [])
        end
    | [] => (true, [])
    end.

  Fixpoint insertT (x : A) (l : list A) : list A * tr :=
    match l with
    | [] => ([x], [])
    | y :: r => if isl y x then let '(r', t) := insertT x r in (y :: r', (y, x) :: t) else (x :: l, [(y, x)])
    end.

  Fixpoint isortT (l : list A) : list A * tr :=
    match l with
    | [] => ([], [])
    | x :: r => let '(s, t1) := isortT r in let '(s', t2) := insertT x s in (s', t1 ++ t2)
    end.

  (* generic merge: f x y = (take the head of the second list?, the comparator call made) *)
  Fixpoint mergeGT (f : A -> A -> bool * (A * A)) (a : list A) : list A -> list A * tr :=
    fix mb (b : list A) : list A * tr :=
      match a, b with
      | [], _ => (b, [])
      | _, [] => (a, [])
      | x :: a', y :: b' =>
          let '(c, pr) := f x y in
          if c then let '(m, t) := mb b' in (y :: m, pr :: t)
          else let '(m, t) := mergeGT f a' b in (x :: m, pr :: t)
      end.

  Definition fwd (x y : A) := (isl y x, (y, x)).     (* is_less(right, left) *)
  Definition bwd (x y : A) := (isl x y, (x, y)).     (* on the reversed runs: is_less(right_last, left_last) *)

  Definition merge_runsT (a b : list A) : list A * tr :=
    if length a <=? length b then mergeGT fwd a b
    else let '(m, t) := mergeGT bwd (rev b) (rev a) in (rev m, t).

  Fixpoint span_relT (neg : bool) (x : A) (w : list A) : list A * list A * tr :=
    match w with
    | [] => ([], [], [])
    | y :: w' =>
        if xorb (isl x y) neg
        then let '(p, rest, t) := span_relT neg y w' in (y :: p, rest, (x, y) :: t)
        else ([], w, [(x, y)])
    end.

  Definition next_runT (w : list A) : list A * list A * tr :=
    match w with
    | [] => ([], [], [])
    | [x] => ([x], [], [])
    | x :: y :: w' =>
        if isl x y
        then let '(p, rest, t) := span_relT false y w' in (x :: y :: p, rest, (x, y) :: t)
        else let '(p, rest, t) := span_relT true y w' in (rev (x :: y :: p), rest, (x, y) :: t)
    end.

  Fixpoint extendT (n : nat) (run w : list A) : list A * list A * tr :=
    match n, w with
    | S n', x :: w' => let '(run', t1) := insertT x run in let '(r, w'', t2) := extendT n' run' w' in (r, w'', t1 ++ t2)
    | _, _ => (run, w, [])
    end.

  Fixpoint collapse_allT (fuel : nat) (at_start : bool) (st : list (list A)) : list (list A) * tr :=
    match fuel with
    | 0 => (st, [])
    | S f =>
        match collapse at_start st, st with
        | Some 0, r0 :: r1 :: rest =>
            let '(m, t1) := merge_runsT r0 r1 in
            let '(st', t2) := collapse_allT f at_start (m :: rest) in (st', t1 ++ t2)
        | Some (S _), r0 :: r1 :: r2 :: rest =>
            let '(m, t1) := merge_runsT r1 r2 in
            let '(st', t2) := collapse_allT f at_start (r0 :: m :: rest) in (st', t1 ++ t2)
        | _, _ => (st, [])
        end
    end.

  Fixpoint loopT (fuel : nat) (w : list A) (st : list (list A)) : option (list (list A)) * tr :=
    match w with
    | [] => (Some st, [])
    | _ =>
        match fuel with
        | 0 => (None, [])
        | S f =>
            let '(run0, w1, t1) := next_runT w in
            let '(run, w2, t2) := extendT (MIN_RUN - length run0) run0 w1 in
            let '(st', t3) := collapse_allT (S (length st)) (isnil w2) (run :: st) in
            let '(o, t4) := loopT f w2 st' in (o, t1 ++ t2 ++ t3 ++ t4)
        end
    end.

  (* the builtin: result (None = model failure, excluded by the theorem) and comparator calls *)
  Definition xsortT (l : list A) : option (list A) * tr :=
    let '(b, t0) := presortedT l in
    if b then (Some l, t0)
    else if length l <=? MAX_INSERTION then let '(s, t) := isortT l in (Some s, t0 ++ t)
    else let '(o, t) := loopT (length l) (rev l) [] in
         (match o with Some [r] => Some r | _ => None end, t0 ++ t).

  Definition xsort (l : list A) : option (list A) :=
    if fst (presortedT l) then Some l else tsort le_of l.
End TT.
