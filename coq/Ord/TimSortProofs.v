(* The merge sort of src/util/trysort.rs (model: Ord/TimSort.v) returns, for every total preorder and every input,
   exactly the reference stable sort `isort` - it never runs out of fuel, always ends with one run, and run detection,
   reversal of strictly descending runs, extension by insertion, the collapse rule and both merge directions keep
   "ordered" and "elements that compare equal keep their relative order". *)
From Coq Require Import List Bool Arith Lia Sorted Permutation RelationClasses.
From Xr Require Import Ord.Derived Ord.DerivedProofs Ord.TimSort.
Import ListNotations.

(* ---- generic facts about strongly sorted lists *)
Section SS.
  Context {A : Type}.
  Lemma SS_app (R : A -> A -> Prop) a b :
    StronglySorted R (a ++ b) <->
    StronglySorted R a /\ StronglySorted R b /\ (forall x y, In x a -> In y b -> R x y).
  Proof.
    induction a as [|x a IH]; cbn.
    - split. intro H. repeat split; auto. constructor. intros x y []. intros (_ & H & _). exact H.
    - split.
      + intro H. apply StronglySorted_inv in H as [H F]. apply IH in H as (Ha & Hb & Hab).
        rewrite Forall_forall in F. repeat split; auto.
        * constructor; auto. apply Forall_forall. intros y Hy. apply F. apply in_or_app. now left.
        * intros u v [<-|Hu] Hv. apply F. apply in_or_app. now right. now apply Hab.
      + intros (Ha & Hb & Hab). apply StronglySorted_inv in Ha as [Ha F]. rewrite Forall_forall in F.
        constructor. apply IH. repeat split; auto; try (intros u v Hu Hv; apply Hab; cbn; auto).
        apply Forall_forall. intros y Hy. apply in_app_or in Hy as [Hy|Hy]. now apply F. apply Hab; auto.
  Qed.

  Lemma SS_rev (R : A -> A -> Prop) l : StronglySorted R l -> StronglySorted (fun a b => R b a) (rev l).
  Proof.
    induction l as [|x l IH]; cbn; intro H. constructor.
    apply StronglySorted_inv in H as [H F]. rewrite Forall_forall in F.
    apply SS_app. repeat split. now apply IH. repeat constructor.
    intros u v Hu [<-|[]]. apply F. now apply in_rev.
  Qed.

  Lemma SS_impl (R R' : A -> A -> Prop) l : (forall a b, R a b -> R' a b) -> StronglySorted R l -> StronglySorted R' l.
  Proof.
    intros HR. induction 1 as [|x l H IH F]; constructor; auto.
    eapply Forall_impl. 2: exact F. intros; now apply HR.
  Qed.

  Fixpoint chainP (R : A -> A -> Prop) (x : A) (p : list A) : Prop :=
    match p with [] => True | y :: p' => R x y /\ chainP R y p' end.

  Lemma chainP_SS (R : A -> A -> Prop) (TR : forall a b c, R a b -> R b c -> R a c) p :
    forall x, chainP R x p -> StronglySorted R (x :: p).
  Proof.
    induction p as [|y p IH]; intros x H. repeat constructor.
    destruct H as [Hxy H]. specialize (IH y H). constructor. exact IH.
    constructor. exact Hxy. apply StronglySorted_inv in IH as [_ F].
    eapply Forall_impl. 2: exact F. intros a Ha. eapply TR; eauto.
  Qed.

  Lemma filter_rev (f : A -> bool) l : filter f (rev l) = rev (filter f l).
  Proof.
    induction l as [|x l IH]; cbn; auto. rewrite filter_app, IH. cbn. destruct (f x); cbn; auto using app_nil_r.
  Qed.

  Lemma filter_cons (f : A -> bool) x l : filter f (x :: l) = if f x then x :: filter f l else filter f l.
  Proof. reflexivity. Qed.

  Lemma filter_none (f : A -> bool) l : (forall e, In e l -> f e = false) -> filter f l = [].
  Proof.
    induction l as [|x l IH]; cbn; intro H; auto. rewrite (H x) by now left. apply IH. intros; apply H; now right.
  Qed.
End SS.

Section P.
  Context {A : Type} (le : A -> A -> bool).
  Hypothesis le_total : forall a b, le a b = true \/ le b a = true.
  Hypothesis le_trans : forall a b c, le a b = true -> le b c = true -> le a c = true.
  Notation LE := (leP le).
  Notation EQV := (equiv le).
  Notation SSle := (StronglySorted (leP le)).

  Lemma le_refl a : le a a = true.
  Proof. destruct (le_total a a); auto. Qed.

  Lemma lt_le a b : lt le a b = true -> le a b = true.
  Proof. unfold lt. intro H. apply negb_true_iff in H. destruct (le_total a b); congruence. Qed.

  Lemma nlt_le a b : lt le a b = false -> le b a = true.
  Proof. unfold lt. intro H. now apply negb_false_iff in H. Qed.

  Lemma lt_trans a b c : lt le a b = true -> lt le b c = true -> lt le a c = true.
  Proof.
    unfold lt. rewrite !negb_true_iff. intros H1 H2. destruct (le c a) eqn:E; auto.
    assert (le a b = true) by (destruct (le_total a b); congruence).
    rewrite (le_trans c a b) in H2; auto.
  Qed.

  Instance LE_trans : Transitive LE.
  Proof. intros a b c. unfold leP. apply le_trans. Qed.

  Lemma sorted_SS l : Sorted LE l -> SSle l.
  Proof. apply Sorted_StronglySorted. exact LE_trans. Qed.

  Lemma equiv_same x y : EQV x y = true -> forall z, EQV x z = EQV y z.
  Proof.
    intros E z. unfold equiv in *. apply andb_true_iff in E as [E1 E2].
    destruct (le x z) eqn:A1, (le z x) eqn:A2, (le y z) eqn:B1, (le z y) eqn:B2; cbn; auto;
      try (rewrite (le_trans _ _ _ E2 A1) in B1; discriminate);
      try (rewrite (le_trans _ _ _ A2 E1) in B2; discriminate);
      try (rewrite (le_trans _ _ _ E1 B1) in A1; discriminate);
      try (rewrite (le_trans _ _ _ B2 E2) in A2; discriminate).
  Qed.

  (* an element strictly below x is in a different class from everything at or above x *)
  Lemma class_gap z y e : EQV z y = true -> le y e = true -> le e y = false -> EQV z e = false.
  Proof.
    intros E H1 H2. destruct (EQV z e) eqn:E'; auto.
    rewrite (equiv_same _ _ E) in E'. unfold equiv in E'. apply andb_true_iff in E' as [_ E']. congruence.
  Qed.

  (* ---- merge *)
  Lemma merge_nil_r a : merge le a [] = a.
  Proof. destruct a; reflexivity. Qed.
  Lemma merge_nil_l b : merge le [] b = b.
  Proof. destruct b; reflexivity. Qed.
  Lemma merge_cons x a y b :
    merge le (x :: a) (y :: b) = if lt le y x then y :: merge le (x :: a) b else x :: merge le a (y :: b).
  Proof. reflexivity. Qed.

  Lemma merge_in z a : forall b, In z (merge le a b) <-> In z a \/ In z b.
  Proof.
    induction a as [|x a IHa]; intro b. rewrite merge_nil_l. cbn. tauto.
    induction b as [|y b IHb]. rewrite merge_nil_r. cbn. tauto.
    rewrite merge_cons. destruct (lt le y x); cbn.
    - rewrite IHb. cbn. tauto.
    - rewrite IHa. cbn. tauto.
  Qed.

  Lemma merge_sorted a : forall b, SSle a -> SSle b -> SSle (merge le a b).
  Proof.
    induction a as [|x a IHa]; intros b Ha Hb. now rewrite merge_nil_l.
    induction b as [|y b IHb]. now rewrite merge_nil_r.
    rewrite merge_cons. destruct (lt le y x) eqn:L.
    - pose proof (StronglySorted_inv Hb) as [Hb' Fb]. constructor. now apply IHb.
      apply Forall_forall. intros e He. apply merge_in in He as [He|He].
      + pose proof (StronglySorted_inv Ha) as [_ Fa]. rewrite Forall_forall in Fa.
        apply lt_le in L. destruct He as [<-|He]. exact L. eapply le_trans. exact L. now apply Fa.
      + rewrite Forall_forall in Fb. now apply Fb.
    - pose proof (StronglySorted_inv Ha) as [Ha' Fa]. constructor. now apply IHa.
      apply Forall_forall. intros e He. apply merge_in in He as [He|He].
      + rewrite Forall_forall in Fa. now apply Fa.
      + apply nlt_le in L. pose proof (StronglySorted_inv Hb) as [_ Fb]. rewrite Forall_forall in Fb.
        destruct He as [<-|He]. exact L. eapply le_trans. exact L. now apply Fb.
  Qed.

  Lemma merge_filter z a : forall b, SSle a -> SSle b ->
    filter (EQV z) (merge le a b) = filter (EQV z) a ++ filter (EQV z) b.
  Proof.
    induction a as [|x a IHa]; intros b Ha Hb. now rewrite merge_nil_l.
    induction b as [|y b IHb]. rewrite merge_nil_r. now rewrite app_nil_r.
    rewrite merge_cons. destruct (lt le y x) eqn:L.
    - pose proof (StronglySorted_inv Hb) as [Hb' _].
      rewrite (filter_cons _ y (merge le (x :: a) b)), (filter_cons _ y b), (IHb Hb').
      destruct (EQV z y) eqn:E; auto.
      (* y is strictly below everything left in the left run, so none of that is in the class of z *)
      assert (filter (EQV z) (x :: a) = []) as ->.
      { apply filter_none. intros e He. unfold lt in L. apply negb_true_iff in L.
        pose proof (StronglySorted_inv Ha) as [_ Fa]. rewrite Forall_forall in Fa.
        assert (le x e = true) as Hxe by (destruct He as [<-|He]; [apply le_refl | now apply Fa]).
        assert (le y x = true) as Hyx by (destruct (le_total y x); congruence).
        apply (class_gap z y e E). eapply le_trans; eauto.
        destruct (le e y) eqn:Q; auto. rewrite (le_trans x e y Hxe Q) in L. discriminate. }
      reflexivity.
    - pose proof (StronglySorted_inv Ha) as [Ha' _].
      rewrite (filter_cons _ x (merge le a (y :: b))), (filter_cons _ x a), (IHa (y :: b) Ha' Hb).
      destruct (EQV z x); reflexivity.
  Qed.
End P.

Section Q.
  Context {A : Type} (le : A -> A -> bool).
  Hypothesis le_total : forall a b, le a b = true \/ le b a = true.
  Hypothesis le_trans : forall a b c, le a b = true -> le b c = true -> le a c = true.
  Notation LE := (leP le).
  Notation EQV := (equiv le).
  Notation SSle := (StronglySorted (leP le)).
  Let le' := fun x y : A => le y x.
  Let total' : forall a b, le' a b = true \/ le' b a = true.
  Proof. intros a b. unfold le'. destruct (le_total a b); auto. Qed.
  Let trans' : forall a b c, le' a b = true -> le' b c = true -> le' a c = true.
  Proof. unfold le'. intros a b c H1 H2. eapply le_trans; eauto. Qed.

  (* ---- the backward merge is the forward merge of the reversed runs under the reversed order *)
  Lemma merge_back_sorted a b : SSle a -> SSle b -> SSle (merge_back le a b).
  Proof.
    intros Ha Hb. unfold merge_back.
    apply (SS_rev (leP le')). apply (merge_sorted le' total' trans').
    apply (SS_rev (leP le) b Hb). apply (SS_rev (leP le) a Ha).
  Qed.

  Lemma merge_back_filter z a b : SSle a -> SSle b ->
    filter (EQV z) (merge_back le a b) = filter (EQV z) a ++ filter (EQV z) b.
  Proof.
    intros Ha Hb. unfold merge_back. rewrite filter_rev.
    assert (forall e, EQV z e = equiv le' z e) as X by (intro e; unfold equiv, le'; apply andb_comm).
    rewrite (filter_ext _ _ X).
    rewrite (merge_filter le' total' trans' z).
    - rewrite rev_app_distr, <- !filter_rev, !rev_involutive. now rewrite <- !(filter_ext _ _ X).
    - apply (SS_rev (leP le) b Hb).
    - apply (SS_rev (leP le) a Ha).
  Qed.

  Lemma merge_runs_sorted a b : SSle a -> SSle b -> SSle (merge_runs le a b).
  Proof.
    unfold merge_runs. destruct (length a <=? length b).
    apply (merge_sorted le le_total le_trans). apply merge_back_sorted.
  Qed.

  Lemma merge_runs_filter z a b : SSle a -> SSle b ->
    filter (EQV z) (merge_runs le a b) = filter (EQV z) a ++ filter (EQV z) b.
  Proof.
    unfold merge_runs. destruct (length a <=? length b).
    apply (merge_filter le le_total le_trans). apply merge_back_filter.
  Qed.
End Q.

Section R.
  Context {A : Type} (le : A -> A -> bool).
  Hypothesis le_total : forall a b, le a b = true \/ le b a = true.
  Hypothesis le_trans : forall a b c, le a b = true -> le b c = true -> le a c = true.
  Notation LE := (leP le).
  Notation EQV := (equiv le).
  Notation SSle := (StronglySorted (leP le)).

  (* ---- run detection *)
  Lemma span_rel_spec (r : A -> A -> bool) w : forall x p rest,
    span_rel r x w = (p, rest) -> w = p ++ rest /\ chainP (fun a b => r a b = true) x p.
  Proof.
    induction w as [|y w IH]; intros x p rest H; cbn in H.
    - inversion H; subst. split; cbn; auto.
    - destruct (r x y) eqn:E.
      + destruct (span_rel r y w) as [p' rest'] eqn:S. inversion H; subst.
        destruct (IH y p' rest S) as [-> C]. split; cbn; auto.
      + inversion H; subst. split; cbn; auto.
  Qed.

  (* a strictly ascending list has at most one element in each class *)
  Lemma strict_class z l : StronglySorted (fun a b => lt le a b = true) l ->
    filter (EQV z) l = [] \/ exists e, filter (EQV z) l = [e].
  Proof.
    induction 1 as [|x l H IH F]. now left.
    rewrite filter_cons. destruct (EQV z x) eqn:E; auto.
    right. exists x. f_equal. apply filter_none. intros e He. rewrite Forall_forall in F.
    specialize (F e He). pose proof (lt_le le le_total _ _ F) as H1. unfold lt in F. apply negb_true_iff in F.
    now apply (class_gap le le_trans z x e).
  Qed.

  Lemma next_run_spec w run rest : w <> [] -> next_run le w = (run, rest) ->
    exists p, w = p ++ rest /\ p <> [] /\ SSle run /\ forall z, filter (EQV z) run = filter (EQV z) (rev p).
  Proof.
    destruct w as [|x [|y w]]; intros NE H; cbn in H. destruct (NE eq_refl).
    - inversion H; subst. exists [x]. repeat split; auto; try discriminate; repeat constructor.
    - destruct (lt le x y) eqn:L.
      + destruct (span_rel (lt le) y w) as [p rest'] eqn:S. inversion H; subst.
        destruct (span_rel_spec _ _ _ _ _ S) as [-> C].
        assert (StronglySorted (fun a b => lt le a b = true) (x :: y :: p)) as ST.
        { apply chainP_SS. intros a b c. apply (lt_trans le le_total le_trans). cbn. auto. }
        exists (x :: y :: p). repeat split; auto; try discriminate.
        * eapply SS_impl. 2: exact ST. intros a b. apply (lt_le le le_total).
        * intro z. rewrite filter_rev. destruct (strict_class z _ ST) as [->|[e ->]]; reflexivity.
      + destruct (span_rel (fun a b => negb (lt le a b)) y w) as [p rest'] eqn:S. inversion H; subst.
        destruct (span_rel_spec _ _ _ _ _ S) as [-> C].
        exists (x :: y :: p). repeat split; auto; try discriminate.
        change (SSle (rev (x :: y :: p))). apply (SS_rev (fun a b => LE b a)). apply chainP_SS.
        * intros a b c H1 H2. unfold leP in *. eapply le_trans; eauto.
        * cbn. split. apply (nlt_le le). exact L.
          clear - C. revert y C. induction p as [|q p IH]; intros y C; cbn in *; auto.
          destruct C as [C1 C2]. split; auto. apply negb_true_iff in C1. now apply (nlt_le le).
  Qed.

  (* ---- extension by insertion *)
  Lemma insert_SS x l : SSle l -> SSle (insert le x l).
  Proof.
    intro H. apply (sorted_SS le le_trans). apply (insert_sorted le le_total). now apply StronglySorted_Sorted.
  Qed.

  Lemma insert_filter z x l : SSle l -> filter (EQV z) (insert le x l) = filter (EQV z) (x :: l).
  Proof.
    intro H. apply StronglySorted_Sorted in H. destruct (EQV z x) eqn:E.
    - pose proof (equiv_same le le_trans _ _ E) as X.
      rewrite !(filter_ext _ _ X). rewrite (insert_filter_equiv le le_total) by exact H.
      rewrite filter_cons. unfold equiv at 2. now rewrite (le_refl le le_total).
    - rewrite insert_filter_other by exact E. rewrite filter_cons. now rewrite E.
  Qed.

  Lemma extend_spec n : forall run w run' w', extend le n run w = (run', w') -> SSle run ->
    SSle run' /\ exists q, w = q ++ w' /\ forall z, filter (EQV z) run' = filter (EQV z) (rev q ++ run).
  Proof.
    induction n as [|n IH]; intros run w run' w' H S.
    - cbn in H. inversion H; subst. split; auto. exists []. split; auto.
    - destruct w as [|x w]. cbn in H. inversion H; subst. split; auto. exists []. split; auto.
      cbn in H. destruct (IH _ _ _ _ H (insert_SS x run S)) as (S' & q & -> & F).
      split; auto. exists (x :: q). split; auto. intro z. rewrite F. cbn [rev].
      rewrite <- app_assoc. rewrite (filter_app _ (rev q)), (filter_app _ (rev q)). f_equal.
      rewrite insert_filter by exact S. reflexivity.
  Qed.

  (* ---- the stack of runs *)
  Lemma collapse_all_spec fuel at_start : forall st, Forall SSle st ->
    Forall SSle (collapse_all le fuel at_start st) /\
    forall z, filter (EQV z) (concat (collapse_all le fuel at_start st)) = filter (EQV z) (concat st).
  Proof.
    induction fuel as [|f IH]; intros st H. cbn. auto.
    cbn [collapse_all]. destruct (collapse at_start st) as [[|k]|]; auto.
    - destruct st as [|r0 [|r1 rest]]; auto.
      inversion H as [|? ? H0 H']; subst. inversion H' as [|? ? H1 H'']; subst.
      destruct (IH (merge_runs le r0 r1 :: rest)) as [I1 I2].
      { constructor; auto. now apply merge_runs_sorted. }
      split; auto. intro z. rewrite I2. cbn [concat]. rewrite !filter_app.
      rewrite (merge_runs_filter le le_total le_trans) by assumption. now rewrite app_assoc.
    - destruct st as [|r0 [|r1 [|r2 rest]]]; auto.
      inversion H as [|? ? H0 H']; subst. inversion H' as [|? ? H1 H'']; subst. inversion H'' as [|? ? H2 H''']; subst.
      destruct (IH (r0 :: merge_runs le r1 r2 :: rest)) as [I1 I2].
      { constructor; auto. constructor; auto. now apply merge_runs_sorted. }
      split; auto. intro z. rewrite I2. cbn [concat]. rewrite !filter_app.
      rewrite (merge_runs_filter le le_total le_trans) by assumption. now rewrite !app_assoc.
  Qed.

  Lemma collapse_all_single fuel : forall st, st <> [] -> length st <= S fuel ->
    exists r, collapse_all le fuel true st = [r].
  Proof.
    induction fuel as [|f IH]; intros st NE L.
    - destruct st as [|r [|]]; cbn in *; try congruence; try lia. now exists r.
    - destruct st as [|r0 [|r1 rest]]. congruence. now exists r0.
      cbn [collapse_all collapse orb]. destruct rest as [|r2 rest].
      + apply IH. discriminate. cbn in *. lia.
      + destruct (length r2 <? length r0); apply IH; try discriminate; cbn in *; lia.
  Qed.

  (* ---- the main loop *)
  Lemma loop_spec fuel : forall w st, w <> [] -> length w <= fuel -> Forall SSle st ->
    exists r, loop le fuel w st = Some [r] /\ SSle r /\
              forall z, filter (EQV z) r = filter (EQV z) (rev w ++ concat st).
  Proof.
    induction fuel as [|f IH]; intros w st NE L HS.
    - destruct w; cbn in L; try congruence; lia.
    - destruct w as [|x0 w0] eqn:W. congruence. rewrite <- W in *. 
      assert (loop le (S f) w st =
              let (run0, w1) := next_run le w in
              let (run, w2) := extend le (MIN_RUN - length run0) run0 w1 in
              loop le f w2 (collapse_all le (S (length st)) (isnil w2) (run :: st))) as ->
        by (rewrite W; reflexivity).
      destruct (next_run le w) as [run0 w1] eqn:NR.
      destruct (next_run_spec w run0 w1 NE NR) as (p & Hw & Hp & S0 & F0).
      destruct (extend le (MIN_RUN - length run0) run0 w1) as [run w2] eqn:EX.
      destruct (extend_spec _ _ _ _ _ EX S0) as (S1 & q & Hw1 & F1).
      assert (Forall SSle (run :: st)) as S2 by (constructor; auto).
      destruct (collapse_all_spec (S (length st)) (isnil w2) _ S2) as [S3 F3].
      assert (forall z, filter (EQV z) (rev w ++ concat st) =
                        filter (EQV z) (rev w2 ++ concat (collapse_all le (S (length st)) (isnil w2) (run :: st)))) as FF.
      { intro z. rewrite (filter_app _ (rev w2)), F3. rewrite concat_cons. rewrite (filter_app _ run), F1.
        rewrite Hw, Hw1. rewrite !rev_app_distr, !filter_app, F0. now rewrite <- !app_assoc. }
      destruct w2 as [|y w2'].
      + destruct (collapse_all_single (S (length st)) (run :: st)) as [r Hr]. discriminate. cbn; lia.
        cbn [isnil] in *. rewrite Hr in *. exists r. split. destruct f; reflexivity.
        split. now inversion S3. intro z. rewrite FF. cbn. now rewrite app_nil_r.
      + destruct (IH (y :: w2') (collapse_all le (S (length st)) (isnil (y :: w2')) (run :: st))) as (r & R1 & R2 & R3).
        discriminate.
        { rewrite Hw, Hw1 in L. rewrite !app_length in L. destruct p; [congruence | cbn in *; lia]. }
        exact S3. exists r. split; auto. split; auto. intro z. now rewrite R3, FF.
  Qed.

  (* ---- an ordered list in which every class keeps the order it has in l is unique *)
  Lemma stable_unique r : forall r', SSle r -> SSle r' ->
    (forall z, filter (EQV z) r = filter (EQV z) r') -> r = r'.
  Proof.
    assert (RX : forall a, EQV a a = true) by (intro a; unfold equiv; now rewrite (le_refl le le_total)).
    assert (IN : forall a l l', (forall z, filter (EQV z) l = filter (EQV z) l') -> In a l -> In a l').
    { intros a l l' F Ha. assert (In a (filter (EQV a) l)) as H by (apply filter_In; auto).
      rewrite F in H. now apply filter_In in H. }
    induction r as [|a r IH]; intros r' S S' F.
    - destruct r' as [|b r']; auto. specialize (F b). cbn in F. rewrite RX in F. discriminate.
    - destruct r' as [|b r']. specialize (F a). cbn in F. rewrite RX in F. discriminate.
      apply StronglySorted_inv in S as [S Fa]. apply StronglySorted_inv in S' as [S' Fb].
      rewrite Forall_forall in Fa, Fb.
      assert (le a b = true) as Hab.
      { assert (In b (a :: r)) as [<-|H] by (apply (IN b (b :: r') (a :: r)); [intro z; now rewrite F | now left]).
        apply (le_refl le le_total). now apply Fa. }
      assert (le b a = true) as Hba.
      { assert (In a (b :: r')) as [<-|H] by (apply (IN a (a :: r) (b :: r')); [exact F | now left]).
        apply (le_refl le le_total). now apply Fb. }
      assert (a = b) as <-.
      { assert (EQV a b = true) as Eab by (unfold equiv; rewrite Hab, Hba; reflexivity).
        pose proof (F a) as Fz. rewrite !filter_cons, RX, Eab in Fz. now inversion Fz. }
      f_equal. apply IH; auto. intro z. specialize (F z). rewrite !filter_cons in F.
      destruct (EQV z a); now inversion F.
  Qed.

  Theorem tsort_is_isort l : tsort le l = Some (isort le l).
  Proof.
    unfold tsort. destruct (length l <=? MAX_INSERTION) eqn:E; auto.
    apply Nat.leb_gt in E.
    destruct (loop_spec (length l) (rev l) []) as (r & -> & S & F).
    - intro H. apply (f_equal (@length A)) in H. rewrite rev_length in H. cbn in H. unfold MAX_INSERTION in E. lia.
    - now rewrite rev_length.
    - constructor.
    - f_equal. apply stable_unique; auto.
      + apply (sorted_SS le le_trans). apply (isort_sorted le le_total).
      + intro z. rewrite F. cbn. rewrite app_nil_r, rev_involutive.
        symmetry. apply (isort_stable le le_total le_trans).
  Qed.
End R.
