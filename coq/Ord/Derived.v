(* Derived comparison of nested values (tuple.rs, sequence.rs: component-wise, lexicographic) and the reference stable sort. *)
From Coq Require Import List ZArith NArith Bool Arith Lia Permutation Sorted.
Import ListNotations.

Inductive val := VI (z : Z) | VB (b : bool) | VS (cs : list N) | VT (vs : vals) | VQ (vs : vals)
with vals := VNil | VCons (v : val) (r : vals).

Scheme val_mind := Induction for val Sort Prop
  with vals_mind := Induction for vals Sort Prop.
Combined Scheme val_vals_ind from val_mind, vals_mind.

Definition rank (v : val) : nat := match v with VI _ => 0 | VB _ => 1 | VS _ => 2 | VT _ => 3 | VQ _ => 4 end.

Fixpoint lex_n (a b : list N) : comparison :=
  match a, b with
  | [], [] => Eq | [], _ => Lt | _, [] => Gt
  | x :: a', y :: b' => match N.compare x y with Eq => lex_n a' b' | c => c end
  end.

Fixpoint vcmp (a b : val) {struct a} : comparison :=
  match a, b with
  | VI x, VI y => Z.compare x y
  | VB x, VB y => match x, y with false, true => Lt | true, false => Gt | _, _ => Eq end
  | VS x, VS y => lex_n x y
  | VT xs, VT ys => vscmp xs ys
  | VQ xs, VQ ys => vscmp xs ys
  | _, _ => Nat.compare (rank a) (rank b)
  end
with vscmp (xs ys : vals) {struct xs} : comparison :=
  match xs, ys with
  | VNil, VNil => Eq | VNil, _ => Lt | _, VNil => Gt
  | VCons x xs', VCons y ys' => match vcmp x y with Eq => vscmp xs' ys' | c => c end
  end.

(* ---- reference stable sort *)
Section Sort.
  Context {A : Type} (le : A -> A -> bool).
  Fixpoint insert (x : A) (l : list A) : list A :=
    match l with [] => [x] | y :: r => if le x y then x :: l else y :: insert x r end.
  Fixpoint isort (l : list A) : list A := match l with [] => [] | x :: r => insert x (isort r) end.
End Sort.
