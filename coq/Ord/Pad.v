(* The padding rule of the documented format-specifier grammar ([[fill]align][sign][#][0][width]...): the text is the
   sign part, the body and [width - length] fill characters placed according to the alignment.  Characters are numbers. *)
From Coq Require Import List Arith NArith Lia.
Import ListNotations.

Inductive align := ALeft | ARight | ACenter | AAfterSign.

Definition pad (fill : N) (al : align) (width : nat) (sign body : list N) : list N :=
  let k := width - (length sign + length body) in
  match al with
  | ARight => repeat fill k ++ sign ++ body
  | ALeft => sign ++ body ++ repeat fill k
  | AAfterSign => sign ++ repeat fill k ++ body
  | ACenter => repeat fill (k / 2) ++ sign ++ body ++ repeat fill (k - k / 2)
  end.

(* exactly as wide as asked, never truncated *)
Theorem pad_length fill al width sign body :
  length (pad fill al width sign body) = Nat.max width (length sign + length body).
Proof.
  unfold pad. set (n := length sign + length body). set (k := width - n).
  assert (k / 2 <= k) as Hd by (apply Nat.div_le_upper_bound; lia).
  set (d := k / 2) in *. clearbody d. subst k.
  destruct al; rewrite ?app_length, ?repeat_length; fold n; lia.
Qed.

(* nothing but fill characters is added, and sign and body keep their order *)
Theorem pad_shape fill al width sign body :
  exists a b c, pad fill al width sign body = repeat fill a ++ sign ++ repeat fill b ++ body ++ repeat fill c /\
                a + b + c = width - (length sign + length body).
Proof.
  unfold pad. set (k := width - (length sign + length body)).
  assert (k / 2 <= k) as Hd by (apply Nat.div_le_upper_bound; lia).
  set (d := k / 2) in *. clearbody d.
  destruct al.
  - exists 0, 0, k. cbn. split; [reflexivity|lia].
  - exists k, 0, 0. cbn. rewrite app_nil_r. split; [reflexivity|lia].
  - exists d, 0, (k - d). cbn. split; [reflexivity|lia].
  - exists 0, k, 0. cbn. rewrite app_nil_r. split; [reflexivity|lia].
Qed.

(* a text that already fills the width is returned unchanged *)
Theorem pad_noop fill al width sign body : width <= length sign + length body -> pad fill al width sign body = sign ++ body.
Proof.
  intro H. unfold pad. replace (width - (length sign + length body)) with 0 by lia. cbn.
  destruct al; cbn; rewrite ?app_nil_r; reflexivity.
Qed.
