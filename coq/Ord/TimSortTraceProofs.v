(* Forgetting the comparator-call trace of Ord/TimSortTrace.v gives the merge-sort model of Ord/TimSort.v, and the builtin
   `sort` (sortedness pre-pass, then that merge sort) returns the reference stable sort for every comparator that is a
   total preorder. *)
From Coq Require Import List Bool Arith Lia Sorted.
From Xr Require Import Ord.Derived Ord.DerivedProofs Ord.TimSort Ord.TimSortProofs Ord.TimSortTrace.
Import ListNotations.

Section E.
  Context {A : Type} (cmp : A -> A -> comparison).
  Notation le := (le_of cmp).
  Notation isl := (isl cmp).

  Lemma lt_isl a b : lt le a b = isl a b.
  Proof. unfold lt, le_of. apply negb_involutive. Qed.

  Lemma insertT_fst x l : fst (insertT cmp x l) = insert le x l.
  Proof.
    induction l as [|y r IH]; cbn; auto. unfold le_of at 1.
    destruct (isl y x); cbn; auto. destruct (insertT cmp x r) as [r' t]. cbn in *. now rewrite IH.
  Qed.

  Lemma isortT_fst l : fst (isortT cmp l) = isort le l.
  Proof.
    induction l as [|x r IH]; cbn; auto. destruct (isortT cmp r) as [s t1]. cbn in IH. subst s.
    pose proof (insertT_fst x (isort le r)) as H. destruct (insertT cmp x (isort le r)) as [s' t2]. exact H.
  Qed.

  Lemma mergeGT_fst (f : A -> A -> bool * (A * A)) (le0 : A -> A -> bool) :
    (forall x y, fst (f x y) = lt le0 y x) -> forall a b, fst (mergeGT f a b) = merge le0 a b.
  Proof.
    intros Hf. induction a as [|x a IHa]; intro b. destruct b; reflexivity.
    induction b as [|y b IHb]. reflexivity.
    rewrite merge_cons. rewrite <- Hf.
    change (mergeGT f (x :: a) (y :: b)) with
      (let '(c, pr) := f x y in
       if c then let '(m, t) := mergeGT f (x :: a) b in (y :: m, pr :: t)
       else let '(m, t) := mergeGT f a (y :: b) in (x :: m, pr :: t)).
    destruct (f x y) as [c pr]. cbn [fst]. destruct c.
    - destruct (mergeGT f (x :: a) b) as [m t]. cbn in *. now rewrite IHb.
    - specialize (IHa (y :: b)). destruct (mergeGT f a (y :: b)) as [m t]. cbn in *. now rewrite IHa.
  Qed.

  Lemma merge_runsT_fst a b : fst (merge_runsT cmp a b) = merge_runs le a b.
  Proof.
    unfold merge_runsT, merge_runs. destruct (length a <=? length b).
    - apply mergeGT_fst. intros x y. cbn. symmetry. apply lt_isl.
    - unfold merge_back.
      pose proof (mergeGT_fst (bwd cmp) (fun x y => le y x)) as H.
      specialize (H (fun x y => eq_sym (negb_involutive (isl x y)))).
      specialize (H (rev b) (rev a)). destruct (mergeGT (bwd cmp) (rev b) (rev a)) as [m t]. cbn in *. now rewrite H.
  Qed.

  Lemma span_relT_fst neg x w :
    let '(p, rest, _) := span_relT cmp neg x w in
    span_rel (fun a b => xorb (isl a b) neg) x w = (p, rest).
  Proof.
    revert x. induction w as [|y w IH]; intro x; cbn; auto.
    destruct (xorb (isl x y) neg); auto.
    specialize (IH y). destruct (span_relT cmp neg y w) as [[p rest] t]. now rewrite IH.
  Qed.

  Lemma span_rel_ext (r r' : A -> A -> bool) : (forall a b, r a b = r' a b) -> forall w x, span_rel r x w = span_rel r' x w.
  Proof. intros H. induction w as [|y w IH]; intro x; cbn; auto. rewrite H, IH. reflexivity. Qed.

  Lemma next_runT_fst w : let '(run, rest, _) := next_runT cmp w in next_run le w = (run, rest).
  Proof.
    destruct w as [|x [|y w]]; cbn; auto. rewrite lt_isl. destruct (isl x y).
    - pose proof (span_relT_fst false y w) as H. destruct (span_relT cmp false y w) as [[p rest] t].
      rewrite (span_rel_ext (lt le) (fun a b => xorb (isl a b) false)), H. reflexivity.
      intros a b. rewrite lt_isl. now destruct (isl a b).
    - pose proof (span_relT_fst true y w) as H. destruct (span_relT cmp true y w) as [[p rest] t].
      rewrite (span_rel_ext (fun a b => negb (lt le a b)) (fun a b => xorb (isl a b) true)), H. reflexivity.
      intros a b. rewrite lt_isl. now destruct (isl a b).
  Qed.

  Lemma extendT_fst n : forall run w, let '(r, w', _) := extendT cmp n run w in extend le n run w = (r, w').
  Proof.
    induction n as [|n IH]; intros run w; cbn; auto. destruct w as [|x w]; auto.
    pose proof (insertT_fst x run) as H. destruct (insertT cmp x run) as [run' t1]. cbn in H. subst run'.
    specialize (IH (insert le x run) w). destruct (extendT cmp n (insert le x run) w) as [[r w''] t2]. exact IH.
  Qed.

  Lemma collapse_allT_fst fuel at_start : forall st, fst (collapse_allT cmp fuel at_start st) = collapse_all le fuel at_start st.
  Proof.
    induction fuel as [|f IH]; intro st; cbn [collapse_allT collapse_all]; auto.
    destruct (collapse at_start st) as [[|k]|]; auto.
    - destruct st as [|r0 [|r1 rest]]; auto.
      pose proof (merge_runsT_fst r0 r1) as H. destruct (merge_runsT cmp r0 r1) as [m t1]. cbn in H. subst m.
      specialize (IH (merge_runs le r0 r1 :: rest)).
      destruct (collapse_allT cmp f at_start (merge_runs le r0 r1 :: rest)) as [st' t2]. exact IH.
    - destruct st as [|r0 [|r1 [|r2 rest]]]; auto.
      pose proof (merge_runsT_fst r1 r2) as H. destruct (merge_runsT cmp r1 r2) as [m t1]. cbn in H. subst m.
      specialize (IH (r0 :: merge_runs le r1 r2 :: rest)).
      destruct (collapse_allT cmp f at_start (r0 :: merge_runs le r1 r2 :: rest)) as [st' t2]. exact IH.
  Qed.

  Lemma loopT_fst fuel : forall w st, fst (loopT cmp fuel w st) = loop le fuel w st.
  Proof.
    induction fuel as [|f IH]; intros w st.
    - destruct w; reflexivity.
    - destruct w as [|x0 w0] eqn:W; auto. rewrite <- W.
      assert (loopT cmp (S f) w st =
              let '(run0, w1, t1) := next_runT cmp w in
              let '(run, w2, t2) := extendT cmp (MIN_RUN - length run0) run0 w1 in
              let '(st', t3) := collapse_allT cmp (S (length st)) (isnil w2) (run :: st) in
              let '(o, t4) := loopT cmp f w2 st' in (o, t1 ++ t2 ++ t3 ++ t4)) as -> by (rewrite W; reflexivity).
      assert (loop le (S f) w st =
              let (run0, w1) := next_run le w in
              let (run, w2) := extend le (MIN_RUN - length run0) run0 w1 in
              loop le f w2 (collapse_all le (S (length st)) (isnil w2) (run :: st))) as -> by (rewrite W; reflexivity).
      pose proof (next_runT_fst w) as H1. destruct (next_runT cmp w) as [[run0 w1] t1]. rewrite H1.
      pose proof (extendT_fst (MIN_RUN - length run0) run0 w1) as H2.
      destruct (extendT cmp (MIN_RUN - length run0) run0 w1) as [[run w2] t2]. rewrite H2.
      pose proof (collapse_allT_fst (S (length st)) (isnil w2) (run :: st)) as H3.
      destruct (collapse_allT cmp (S (length st)) (isnil w2) (run :: st)) as [st' t3]. cbn [fst] in H3. subst st'.
      specialize (IH w2 (collapse_all le (S (length st)) (isnil w2) (run :: st))).
      destruct (loopT cmp f w2 (collapse_all le (S (length st)) (isnil w2) (run :: st))) as [o t4]. exact IH.
  Qed.

  Theorem xsortT_erase l : fst (xsortT cmp l) = xsort cmp l.
  Proof.
    unfold xsortT, xsort, tsort. destruct (presortedT cmp l) as [b t0]. cbn [fst]. destruct b; auto.
    destruct (length l <=? MAX_INSERTION).
    - pose proof (isortT_fst l) as H. destruct (isortT cmp l) as [s t]. cbn in *. now rewrite H.
    - pose proof (loopT_fst (length l) (rev l) []) as H. destruct (loopT cmp (length l) (rev l) []) as [o t].
      cbn in *. now rewrite H.
  Qed.

  (* ---- the builtin returns the reference sort *)
  Hypothesis le_total : forall a b, le a b = true \/ le b a = true.
  Hypothesis le_trans : forall a b c, le a b = true -> le b c = true -> le a c = true.
  (* the comparator is antisymmetric in sign: a negative answer one way is a positive answer the other way *)
  Hypothesis cmp_flip : forall a b, cmp a b = Lt -> cmp b a = Gt.

  Lemma presorted_sorted l : fst (presortedT cmp l) = true -> Sorted (leP le) l.
  Proof.
    induction l as [|x r IH]; intro H. constructor.
    destruct r as [|y r']. repeat constructor.
    change (presortedT cmp (x :: y :: r')) with
      (if pos cmp x y then (false, [(x, y)]) else let '(b, t) := presortedT cmp (y :: r') in (b, (x, y) :: t)) in H.
    destruct (pos cmp x y) eqn:P. discriminate.
    destruct (presortedT cmp (y :: r')) as [b t] eqn:Q. cbn [fst] in H. subst b.
    constructor. apply IH. reflexivity. constructor. unfold leP, le_of, TimSortTrace.isl.
    destruct (cmp y x) eqn:C; auto. apply cmp_flip in C. unfold pos in P. rewrite C in P. discriminate.
  Qed.

  Theorem xsort_is_isort l : xsort cmp l = Some (isort le l).
  Proof.
    unfold xsort. destruct (fst (presortedT cmp l)) eqn:P.
    - f_equal. apply (stable_unique le le_total).
      + apply (sorted_SS le le_trans). now apply presorted_sorted.
      + apply (sorted_SS le le_trans). apply (isort_sorted le le_total).
      + intro z. symmetry. apply (isort_stable le le_total le_trans).
    - apply (tsort_is_isort le le_total le_trans).
  Qed.
End E.
