(* Model of src/builtin/sequence.rs: the eight representations of a sequence value, len / get, the smart
   constructors slice and chain with their normalisations, index normalisation (value_to_idx), the range
   constructor, and the copying updates.  Lengths and indices are N (ranges reach 2^63 elements). *)
From Coq Require Import List ZArith NArith Bool String Lia.
From Xr Require Import Base.Res.
Import ListNotations.
Open Scope N_scope.

(* elements: integers and tuples (zip) *)
Inductive elem := EI (z : Z) | ET (l : list elem).

(* sequences and the (small, closed) family of element functions used by Map; the functions written in xray
   in include.rs (reverse, repeat) index back into a sequence, hence the mutual definition *)
Inductive xseq :=
| SEmpty
| SArray (l : list elem)
| SRange (start stop step : Z)
| SMap (s : xseq) (f : efun)
| SZip (ss : list xseq)
| SChain (parts : list xseq) (mids : list N)
| SSlice (s : xseq) (start : N) (stop : option N)
| SCount
with efun :=
| FAff (a b : Z)            (* x -> a*x + b *)
| FErrIf (k : Z)            (* x -> error if x mod k = 0, else x *)
| FFst                      (* tuple -> first component *)
| FRev (s : xseq) (off : Z) (* idx -> s[off - 1 - idx]   (reverse) *)
| FRep (s : xseq) (n : Z).  (* idx -> s[idx % n]         (repeat) *)

Definition omin (a b : option N) : option N :=
  match a, b with
  | Some x, Some y => Some (N.min x y)
  | Some x, None => Some x
  | None, y => y
  end.

(* XSequence::len ; None = infinite.  Range: computed in i128 by the code, i.e. exactly *)
Definition i64b (z : Z) : bool := ((- 2 ^ 63 <=? z) && (z <=? 2 ^ 63 - 1))%Z.

Definition range_len (start stop step : Z) : res N :=
  if ((0 <? step) && (start <? stop))%Z%bool then Val (Z.to_N (1 + (stop - 1 - start) / step))
  else if ((step <? 0) && (stop <? start))%Z%bool then Val (Z.to_N (1 + (start - 1 - stop) / (- step)))
  else Stuck "assertion failed: step.is_negative() && start > end".

Fixpoint len (s : xseq) : res (option N) :=
  match s with
  | SEmpty => Val (Some 0)
  | SArray l => Val (Some (N.of_nat (List.length l)))
  | SRange a b c => do n <- range_len a b c; Val (Some n)
  | SMap s _ => len s
  | SZip ss =>
      (fix go (ss : list xseq) : res (option N) :=
         match ss with
         | [] => Val None
         | s :: r => do a <- len s; do b <- go r; Val (omin a b)
         end) ss
  | SChain parts mids =>
      do l <- (fix last_len (ps : list xseq) : res (option N) :=
                 match ps with
                 | [] => Stuck "chain without parts"
                 | [p] => len p
                 | _ :: r => last_len r
                 end) parts;
      match mids with
      | [] => Stuck "chain without midpoints"
      | _ => Val (match l with Some n => Some (n + last mids 0) | None => None end)
      end
  | SSlice _ start stop => Val (match stop with Some e => Some (e - start) | None => None end)
  | SCount => Val None
  end.

(* value_to_idx *)
Definition value_to_idx (s : xseq) (i : Z) : res N :=
  do l <- len s;
  if (i <? 0)%Z then
    match l with
    | None => Err "cannot get negative index of infinite sequence"
    | Some n => let j := (i + Z.of_N n)%Z in
                if (j <? 0)%Z then Err "index too low" else
                (if Z.to_N j <? n then Val (Z.to_N j) else Err "index out of bounds")
    end
  else
    if (2 ^ 64 <=? i)%Z then Err "index out of bounds" else
    match l with
    | Some n => if n <=? Z.to_N i then Err "index out of bounds" else Val (Z.to_N i)
    | None => Val (Z.to_N i)
    end.



(* partition_point(|x| x <= idx) on the (sorted) midpoints *)
Fixpoint ppoint (mids : list N) (idx : N) : nat :=
  match mids with
  | [] => O
  | m :: r => if m <=? idx then S (ppoint r idx) else O
  end.

(* XSequence::get (the index was already validated by the caller) *)
Fixpoint get (s : xseq) (idx : N) {struct s} : res elem :=
  match s with
  | SEmpty => Stuck "unreachable: get on Empty"
  | SArray l => match nth_error l (N.to_nat idx) with Some e => Val e | None => Stuck "index out of bounds" end
  | SRange a _ c => Val (EI (a + Z.of_N idx * c)%Z)
  | SMap s f => do x <- get s idx; ap f x
  | SZip ss =>
      do items <- (fix go (ss : list xseq) : res (list elem) :=
                     match ss with [] => Val [] | s :: r => do x <- get s idx; do xs <- go r; Val (x :: xs) end) ss;
      Val (ET items)
  | SChain parts mids =>
      let p := ppoint mids idx in
      let off := match p with O => 0 | S q => nth q mids 0 end in
      (fix nth_get (ps : list xseq) (k : nat) : res elem :=
         match ps, k with
         | part :: _, O => get part (idx - off)
         | _ :: r, S k' => nth_get r k'
         | [], _ => Stuck "chain part out of bounds"
         end) parts p
  | SSlice s start _ => get s (idx + start)
  | SCount => Val (EI (Z.of_N idx))
  end
with ap (f : efun) (e : elem) {struct f} : res elem :=
  match f, e with
  | FAff a b, EI x => Val (EI (a * x + b)%Z)
  | FErrIf k, EI x => if (x mod k =? 0)%Z then Err "boom" else Val (EI x)
  | FFst, ET (x :: _) => Val x
  | FRev s off, EI x => do k <- value_to_idx s (off - 1 - x)%Z; get s k
  | FRep s n, EI x => if (n =? 0)%Z then Err "Modulo by zero" else do k <- value_to_idx s (x mod n)%Z; get s k
  | _, _ => Stuck "element function applied to a value of the wrong shape"
  end.

Definition seq_get (s : xseq) (i : Z) : res elem := do k <- value_to_idx s i; get s k.



Definition is_empty (s : xseq) : bool := match s with SEmpty => true | _ => false end.

(* XSequence::slice : None = "the base itself" *)
Definition slice (base : xseq) (start : N) (stop : option N) : res (option xseq) :=
  do l <- len base;
  let full := match stop with
              | None => true
              | Some e => match l with Some n => n <=? e | None => false end
              end in
  if full && (start =? 0) then Val None else
  let stop' := if full then l else stop in
  let empty := (match stop' with Some e => e <=? start | None => false end)
               || (match l with Some n => n <=? start | None => false end) in
  if empty then Val (Some SEmpty) else
  Val (Some (match base with
             | SSlice origin old_start _ =>
                 SSlice origin (old_start + start) (match stop' with Some e => Some (old_start + e) | None => None end)
             | _ => SSlice base start stop'
             end)).

(* XSequence::chain : Ok(Err(base)) = "one of the operands itself" *)
Inductive chained := CNew (s : xseq) | CLeft | CRight.
Definition chain (s0 s1 : xseq) : res chained :=
  if is_empty s0 then (if is_empty s1 then Val (CNew SEmpty) else Val CRight)
  else if is_empty s1 then Val CLeft
  else
    do l0 <- len s0;
    match l0 with
    | None => Err "first sequence is infinite"
    | Some len0 =>
        do l1 <- len s1;
        if (match l1 with Some len1 => 2 ^ 64 <=? len0 + len1 | None => false end)
        then Err "combined sequence is too long" else
        Val (CNew (match s0, s1 with
                   | SChain p0 m0, SChain p1 m1 => SChain (p0 ++ p1) (m0 ++ [len0] ++ map (fun x => x + len0) m1)
                   | SChain p0 m0, _ => SChain (p0 ++ [s1]) (m0 ++ [len0])
                   | _, SChain p1 m1 => SChain (s0 :: p1) (len0 :: map (fun x => x + len0) m1)
                   | _, _ => SChain [s0; s1] [len0]
                   end))
    end.

Definition add (s0 s1 : xseq) : res xseq :=
  do c <- chain s0 s1;
  Val (match c with CNew s => s | CLeft => s0 | CRight => s1 end).

(* the `range` builtin *)
Definition mk_range (start stop step : Z) : res xseq :=
  if negb (i64b start) then Err "start out of bounds"
  else if negb (i64b stop) then Err "end out of bounds"
  else if negb (i64b step) then Err "step out of bounds"
  else if (step =? 0)%Z then Err "invalid range, step size cannot be zero"
  else if ((0 <? step) && (stop <=? start))%Z%bool || ((step <? 0) && (start <=? stop))%Z%bool then Val SEmpty
  else Val (SRange start stop step).

(* materialisation by iteration: 0..len *)
Fixpoint iter_n (s : xseq) (start : N) (n : nat) : res (list elem) :=
  match n with
  | O => Val []
  | S n' => do x <- get s start; do r <- iter_n s (start + 1) n'; Val (x :: r)
  end.

Definition to_list (s : xseq) : res (list elem) :=
  do l <- len s;
  match l with
  | Some n => iter_n s 0 (N.to_nat n)
  | None => Err "sequence is infinite"
  end.

Definition array (l : list elem) : xseq := match l with [] => SEmpty | _ => SArray l end.

(* take / skip *)
Definition take (s : xseq) (n : Z) : res xseq :=
  if ((n <? 0) || (2 ^ 64 <=? n))%Z%bool then Err "index too large" else
  do r <- slice s 0 (Some (Z.to_N n)); Val (match r with None => s | Some x => x end).
Definition skip (s : xseq) (n : Z) : res xseq :=
  if ((n <? 0) || (2 ^ 64 <=? n))%Z%bool then Err "index too large" else
  do r <- slice s (Z.to_N n) None; Val (match r with None => s | Some x => x end).

(* copying updates: materialise, then rebuild *)
Definition finite_list (s : xseq) : res (list elem) :=
  do l <- len s; match l with None => Err "sequence is infinite" | Some _ => to_list s end.

Definition push (s : xseq) (x : elem) : res xseq := do l <- finite_list s; Val (array (l ++ [x])).
Definition rpush (s : xseq) (x : elem) : res xseq := do l <- finite_list s; Val (array (x :: l)).
Definition insert (s : xseq) (i : Z) (x : elem) : res xseq :=
  do n <- len s;
  match n with None => Err "sequence is infinite" | Some _ =>
  do k <- value_to_idx s i;            (* the index is resolved before any element is looked at *)
  do l <- finite_list s;
  Val (array (firstn (N.to_nat k) l ++ x :: skipn (N.to_nat k) l)) end.
(* pop and set never look at the element they remove / replace (it may be an error that is thereby discarded): the
   index is resolved first, then the elements before and after it are materialised *)
Definition around (s : xseq) (k : N) : res (list elem * list elem) :=
  do l <- len s;
  match l with
  | None => Err "sequence is infinite"
  | Some n => do a <- iter_n s 0 (N.to_nat k); do b <- iter_n s (k + 1) (N.to_nat (n - k - 1)); Val (a, b)
  end.
Definition pop (s : xseq) (i : Z) : res xseq :=
  do l <- len s;
  match l with
  | None => Err "sequence is infinite"
  | Some _ => do k <- value_to_idx s i; do ab <- around s k; Val (array (fst ab ++ snd ab))
  end.
Definition set (s : xseq) (i : Z) (x : elem) : res xseq :=
  do l <- len s;
  match l with
  | None => Err "sequence is infinite"
  | Some _ => do k <- value_to_idx s i; do ab <- around s k; Val (array (fst ab ++ x :: snd ab))
  end.
Definition swap (s : xseq) (i j : Z) : res xseq :=
  do n <- len s;
  match n with None => Err "sequence is infinite" | Some _ =>
  do a <- value_to_idx s i; do b <- value_to_idx s j;
  if a =? b then Val s else        (* the same position twice: the sequence itself, no element is looked at *)
  do l <- finite_list s;
  let lo := N.to_nat (N.min a b) in let hi := N.to_nat (N.max a b) in
  match nth_error l hi, nth_error l lo with
  | Some xhi, Some xlo =>
      Val (array (firstn lo l ++ xhi :: skipn (S lo) (firstn hi l) ++ xlo :: skipn (S hi) l))
  | _, _ => Stuck "index out of bounds"
  end end.

Definition smap (s : xseq) (f : efun) : xseq := SMap s f.
Definition szip (ss : list xseq) : xseq := SZip ss.
