(* include.rs sequence functions composed from the natives, rendering, and the history interpreter used by the
   correspondence check (every operation applies to earlier versions; all versions are dumped at the end). *)
From Coq Require Import List ZArith NArith Bool String.
From Xr Require Import Base.Res Base.Show Seq.XSeq.
Import ListNotations.
Open Scope Z_scope.

(* fn reverse(a){ let offset = a.len(); range(offset).map(idx -> a[offset-1-idx]) } *)
Definition x_reverse (a : xseq) : res xseq :=
  do l <- len a;
  match l with
  | None => Err "sequence is infinite"
  | Some n => do r <- mk_range 0 (Z.of_N n) 1; Val (SMap r (FRev a (Z.of_N n)))
  end.

(* fn repeat(a, n){ let length = a.len(); if(is_error(length), a, count().map(idx -> a[idx%length]).take(n*length)) } *)
Definition x_repeat (a : xseq) (n : Z) : res xseq :=
  do l <- len a;
  match l with
  | None => Val a
  | Some len => take (SMap SCount (FRep a (Z.of_N len))) (n * Z.of_N len)
  end.

(* fn count(start, offset){ count().map(x -> x*offset+start) } ; enumerate = count(start, offset).zip(a) *)
Definition x_count2 (start off : Z) : xseq := SMap SCount (FAff off start).
Definition x_enumerate (a : xseq) (start off : Z) : xseq := SZip [x_count2 start off; a].

Fixpoint show_elem (e : elem) : string :=
  match e with
  | EI z => show_Z z
  | ET l => "(" ++ (fix go (l : list elem) : string :=
                      match l with
                      | [] => ""
                      | [x] => show_elem x
                      | x :: r => show_elem x ++ ", " ++ go r
                      end) l ++ ")"
  end.

(* observation of a sequence: infinite?, length, first 12 elements (errors inside elements make the dump an error),
   and the elements at a few indices around 0 and len *)
Definition first_n (s : xseq) (n : Z) : res (list elem) := do t <- take s n; to_list t.
Definition obs (s : xseq) : string :=
  match len s with
  | Val l =>
      (match l with None => "inf" | Some n => show_N n end) ++ "|" ++
      show_res (show_list show_elem) (first_n s 12) ++ "|" ++
      String.concat "," (map (fun i => show_res show_elem (seq_get s i))
                             (match l with
                              | None => [0; 5; -1; 18446744073709551616]
                              | Some n => [0; Z.of_N n - 1; Z.of_N n; -1; - Z.of_N n; - Z.of_N n - 1]
                              end))
  | r => show_res (fun _ => "") r
  end.

(* searching builtins of sequence.rs: nth (forward, or backward for a negative match index), take_while, skip_until;
   predicates from a small closed family over integer elements *)
Inductive pred := PGt (t : Z) | PLt (t : Z) | PMod (m r : Z).
Definition papply (p : pred) (e : elem) : res bool :=
  match p, e with
  | PGt t, EI x => Val (t <? x)
  | PLt t, EI x => Val (x <? t)
  | PMod m r, EI x => if m =? 0 then Err "Modulo by zero" else Val (x mod m =? r)
  | _, _ => Stuck "predicate applied to a non-integer"
  end.

(* the scans are lazy: elements are produced one by one and the scan stops at the first decisive one
   (fuel = the finite length).  [budget] is the search limit (maximum_search): each loop iteration consumes one unit
   BEFORE the predicate is applied; an exhausted budget is the MaximumSearch violation *)
Definition spend (budget : option N) : res (option N) :=
  match budget with
  | None => Val None
  | Some 0%N => Viol VSearch
  | Some b => Val (Some (b - 1)%N)
  end.

Fixpoint nth_fwd (budget : option N) (s : xseq) (i : N) (fuel : nat) (left : Z) (p : pred) : res (option elem) :=
  match fuel with
  | O => Val None
  | S f => do b' <- spend budget; do x <- get s i; do b <- papply p x;
           if b then (if left =? 0 then Val (Some x) else nth_fwd b' s (i + 1) f (left - 1) p)
           else nth_fwd b' s (i + 1) f left p
  end.
Fixpoint nth_bwd (budget : option N) (s : xseq) (i : N) (fuel : nat) (left : Z) (p : pred) : res (option elem) :=
  match fuel with
  | O => Val None
  | S f => do b' <- spend budget; do x <- get s (i - 1); do b <- papply p x;
           if b then (if left =? 0 then Val (Some x) else nth_bwd b' s (i - 1) f (left - 1) p)
           else nth_bwd b' s (i - 1) f left p
  end.

Definition x_nth_lim (budget : option N) (s : xseq) (n : Z) (p : pred) : res (option elem) :=
  do l <- len s;
  match l with
  | None => Err "infinite (not generated)"
  | Some ln => if n <? 0 then nth_bwd budget s ln (N.to_nat ln) (- n - 1) p else nth_fwd budget s 0 (N.to_nat ln) n p
  end.
Definition x_nth := x_nth_lim None.

Fixpoint first_idx (budget : option N) (s : xseq) (i : N) (fuel : nat) (want : bool) (p : pred) : res (option N) :=
  match fuel with
  | O => Val None
  | S f => do b' <- spend budget; do x <- get s i; do b <- papply p x;
           if Bool.eqb b want then Val (Some i) else first_idx b' s (i + 1) f want p
  end.

Definition x_take_while_lim (budget : option N) (s : xseq) (p : pred) : res xseq :=
  do ln <- len s;
  match ln with
  | None => Err "infinite (not generated)"
  | Some n =>
      do i <- first_idx budget s 0 (N.to_nat n) false p;
      do r <- slice s 0 (match i with Some k => Some k | None => ln end);
      Val (match r with None => s | Some x => x end)
  end.
Definition x_take_while := x_take_while_lim None.

Definition x_skip_until_lim (budget : option N) (s : xseq) (p : pred) : res xseq :=
  do ln <- len s;
  match ln with
  | None => Err "infinite (not generated)"
  | Some n =>
      do i <- first_idx budget s 0 (N.to_nat n) true p;
      do r <- slice s (match i with Some k => k | None => n end) None;
      Val (match r with None => s | Some x => x end)
  end.
Definition x_skip_until := x_skip_until_lim None.

Inductive sop :=
| OArr (l : list Z) | ORange (a b c : Z) | OCount | OCount2 (a b : Z)
| OTake (k : nat) (n : Z) | OSkip (k : nat) (n : Z) | OAdd (k j : nat)
| OMap (k : nat) (a b : Z) | OMapErr (k : nat) (m : Z) | OZip (k j : nat) | OFst (k : nat) | OEnum (k : nat) (a b : Z)
| OPush (k : nat) (x : Z) | ORpush (k : nat) (x : Z) | OInsert (k : nat) (i x : Z) | OPop (k : nat) (i : Z)
| OSet (k : nat) (i x : Z) | OSwap (k : nat) (i j : Z) | OToArray (k : nat) | OReverse (k : nat) | ORepeat (k : nat) (n : Z)
| ONth (k : nat) (n : Z) (p : pred) | OTakeWhile (k : nat) (p : pred) | OSkipUntil (k : nat) (p : pred).

Definition ver (vs : list (res xseq)) (k : nat) : res xseq := nth k vs (Err "no such version").

Definition sapply (vs : list (res xseq)) (o : sop) : res xseq :=
  match o with
  | OArr l => Val (array (map EI l))
  | ORange a b c => mk_range a b c
  | OCount => Val SCount
  | OCount2 a b => Val (x_count2 a b)
  | OTake k n => do s <- ver vs k; take s n
  | OSkip k n => do s <- ver vs k; skip s n
  | OAdd k j => do a <- ver vs k; do b <- ver vs j; add a b
  | OMap k a b => do s <- ver vs k; Val (SMap s (FAff a b))
  | OMapErr k m => do s <- ver vs k; Val (SMap s (FErrIf m))
  | OZip k j => do a <- ver vs k; do b <- ver vs j; Val (SZip [a; b])
  | OFst k => do s <- ver vs k; Val (SMap s FFst)
  | OEnum k a b => do s <- ver vs k; Val (x_enumerate s a b)
  | OPush k x => do s <- ver vs k; push s (EI x)
  | ORpush k x => do s <- ver vs k; rpush s (EI x)
  | OInsert k i x => do s <- ver vs k; insert s i (EI x)
  | OPop k i => do s <- ver vs k; pop s i
  | OSet k i x => do s <- ver vs k; set s i (EI x)
  | OSwap k i j => do s <- ver vs k; swap s i j
  | OToArray k => do s <- ver vs k; do l <- finite_list s; Val (array l)
  | OReverse k => do s <- ver vs k; x_reverse s
  | ORepeat k n => do s <- ver vs k; x_repeat s n
  | ONth k n p => do s <- ver vs k; do o <- x_nth s n p; Val (match o with Some x => array [x] | None => SEmpty end)
  | OTakeWhile k p => do s <- ver vs k; x_take_while s p
  | OSkipUntil k p => do s <- ver vs k; x_skip_until s p
  end.

Fixpoint sexec (vs : list (res xseq)) (h : list sop) : list (res xseq) :=
  match h with
  | [] => vs
  | o :: r => sexec (vs ++ [sapply vs o]) r
  end.

Definition srun (h : list sop) : string :=
  String.concat "#" (map (fun r => match r with Val s => obs s | r => show_res (fun _ => "") r end) (sexec [] h)).
