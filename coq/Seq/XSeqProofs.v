(* Proofs about the sequence model: index normalisation, slices (including slice-of-slice merging),
   concatenation, exactness of the range length. *)
From Coq Require Import List ZArith NArith Bool Lia.
From Xr Require Import Base.Res Seq.XSeq.
Import ListNotations.
Open Scope N_scope.

Ltac Zify.zify_post_hook ::= Z.div_mod_to_equations.

(* ---------------- value_to_idx ---------------- *)
(* valid indices are -len .. len-1 ; everything else is an error value, never a crash.
   (a finite length is a usize, hence below 2^64) *)
Theorem value_to_idx_finite s n i : len s = Val (Some n) -> n < 2 ^ 64 ->
  ((0 <= i < Z.of_N n)%Z -> value_to_idx s i = Val (Z.to_N i)) /\
  ((- Z.of_N n <= i < 0)%Z -> value_to_idx s i = Val (Z.to_N (Z.of_N n + i))) /\
  ((i < - Z.of_N n \/ Z.of_N n <= i)%Z -> exists e, value_to_idx s i = Err e).
Proof.
  intros Hl Hn. unfold value_to_idx. rewrite Hl. cbn [bind].
  assert (H64 : (2 ^ 64)%Z = Z.of_N (2 ^ 64)) by reflexivity.
  repeat split.
  - intros Hi. destruct (Z.ltb_spec i 0); [lia|].
    destruct (Z.leb_spec (2 ^ 64) i); [lia|].
    destruct (N.leb_spec n (Z.to_N i)); [lia|reflexivity].
  - intros Hi. destruct (Z.ltb_spec i 0); [|lia].
    destruct (Z.ltb_spec (i + Z.of_N n) 0); [lia|].
    destruct (N.ltb_spec (Z.to_N (i + Z.of_N n)) n); [|lia]. f_equal. lia.
  - intros Hi. destruct (Z.ltb_spec i 0).
    + destruct (Z.ltb_spec (i + Z.of_N n) 0); [eauto|].
      destruct (N.ltb_spec (Z.to_N (i + Z.of_N n)) n); [lia|eauto].
    + destruct (Z.leb_spec (2 ^ 64) i); [eauto|].
      destruct (N.leb_spec n (Z.to_N i)); [eauto|lia].
Qed.

Theorem value_to_idx_infinite s i : len s = Val None ->
  ((0 <= i < 2 ^ 64)%Z -> value_to_idx s i = Val (Z.to_N i)) /\
  ((i < 0 \/ 2 ^ 64 <= i)%Z -> exists e, value_to_idx s i = Err e).
Proof.
  intros Hl. unfold value_to_idx. rewrite Hl. cbn [bind]. split.
  - intros Hi. destruct (Z.ltb_spec i 0); [lia|]. destruct (Z.leb_spec (2 ^ 64) i); [lia|reflexivity].
  - intros Hi. destruct (Z.ltb_spec i 0); [eauto|]. destruct (Z.leb_spec (2 ^ 64) i); [eauto|lia].
Qed.

(* ---------------- slice ---------------- *)
(* the elements of a slice are the elements of the base shifted by start - also when the base is itself
   a slice and the two are merged into one *)
Theorem slice_get base a b r i : slice base a b = Val (Some r) -> r <> SEmpty -> get r i = get base (i + a).
Proof.
  unfold slice. destruct (len base) as [l| | | |]; cbn [bind]; try discriminate.
  destruct ((match b with None => true | Some e => match l with Some n => n <=? e | None => false end end) && (a =? 0));
    [discriminate|].
  match goal with |- context [if ?c then Val (Some SEmpty) else _] => destruct c end.
  - intros H Hne. injection H as <-. contradiction.
  - intros H _. injection H as <-. destruct base; cbn [get]; try reflexivity.
    f_equal. lia.
Qed.

Definition spec_slice_len (l : option N) (a : N) (b : option N) : option N :=
  match omin b l with Some e => Some (e - a) | None => None end.

Ltac split_cmp :=
  repeat match goal with
  | |- context [N.leb ?x ?y] => destruct (N.leb_spec x y)
  | |- context [N.eqb ?x ?y] => destruct (N.eqb_spec x y)
  end; cbn [andb orb].

Theorem slice_len base l a b r : len base = Val l -> slice base a b = Val (Some r) ->
  len r = Val (spec_slice_len l a b).
Proof.
  intros Hl. unfold slice, spec_slice_len. rewrite Hl. cbn [bind].
  destruct b as [e|]; destruct l as [n|]; cbn [omin]; split_cmp; intros Hs; try discriminate;
    injection Hs as <-; destruct base; cbn [len bind]; f_equal; f_equal; lia.
Qed.

(* "None" means the base itself is the answer: exactly when nothing is cut off *)
Theorem slice_none base l a b : len base = Val l -> slice base a b = Val None ->
  a = 0 /\ spec_slice_len l a b = l.
Proof.
  intros Hl. unfold slice, spec_slice_len. rewrite Hl. cbn [bind].
  destruct b as [e|]; destruct l as [n|]; cbn [omin]; split_cmp; intros Hs; try discriminate;
    (split; [lia|]); try reflexivity; f_equal; lia.
Qed.

(* ---------------- concatenation of two non-chain, non-empty sequences ---------------- *)
Definition not_chain (s : xseq) : Prop := match s with SChain _ _ => False | _ => True end.

Theorem chain_flat s0 s1 n0 l1 : not_chain s0 -> not_chain s1 -> is_empty s0 = false -> is_empty s1 = false ->
  len s0 = Val (Some n0) -> len s1 = Val l1 ->
  (forall n1, l1 = Some n1 -> n0 + n1 < 2 ^ 64) ->
  exists r, add s0 s1 = Val r /\
    len r = Val (match l1 with Some n1 => Some (n1 + n0) | None => None end) /\
    forall i, get r i = if i <? n0 then get s0 i else get s1 (i - n0).
Proof.
  intros H0 H1 E0 E1 L0 L1 Hfit. unfold add, chain. rewrite E0, E1, L0. cbn [bind]. rewrite L1. cbn [bind].
  assert (Hno : (match l1 with Some len1 => 2 ^ 64 <=? n0 + len1 | None => false end) = false).
  { destruct l1 as [n1|]; auto. specialize (Hfit n1 eq_refl). destruct (N.leb_spec (2 ^ 64) (n0 + n1)); auto. lia. }
  rewrite Hno.
  assert (Hr : (match s0, s1 with
                | SChain p0 m0, SChain p1 m1 => SChain (p0 ++ p1) (m0 ++ [n0] ++ map (fun x => x + n0) m1)
                | SChain p0 m0, _ => SChain (p0 ++ [s1]) (m0 ++ [n0])
                | _, SChain p1 m1 => SChain (s0 :: p1) (n0 :: map (fun x => x + n0) m1)
                | _, _ => SChain [s0; s1] [n0]
                end) = SChain [s0; s1] [n0]).
  { destruct s0; try contradiction; destruct s1; try contradiction; reflexivity. }
  rewrite Hr. eexists. split; [reflexivity|]. split.
  - cbn [len]. rewrite L1. cbn [bind last]. reflexivity.
  - intros i. cbn [get ppoint]. destruct (N.leb_spec n0 i); destruct (N.ltb_spec i n0); try lia.
    + cbn [nth]. reflexivity.
    + rewrite N.sub_0_r. reflexivity.
Qed.

(* ---------------- ranges ---------------- *)
(* the length of a range is exactly the number of terms start + i*step strictly before stop *)
Theorem range_len_exact a b c n : range_len a b c = Val n ->
  (0 < c -> forall i : Z, 0 <= i -> (a + i * c < b <-> i < Z.of_N n))%Z /\
  (c < 0 -> forall i : Z, 0 <= i -> (b < a + i * c <-> i < Z.of_N n))%Z.
Proof.
  unfold range_len. destruct ((0 <? c)%Z && (a <? b)%Z) eqn:E1.
  - apply andb_true_iff in E1. destruct E1 as [Hc Hab]. apply Z.ltb_lt in Hc. apply Z.ltb_lt in Hab.
    intros H. assert (Hq : (0 <= (b - 1 - a) / c)%Z) by (apply Z.div_pos; lia).
    assert (Hn' : n = Z.to_N (1 + (b - 1 - a) / c)) by congruence.
    assert (Hn : Z.of_N n = (1 + (b - 1 - a) / c)%Z) by (rewrite Hn', Z2N.id; lia).
    split; [|intros; lia]. intros _ i Hi. rewrite Hn.
    pose proof (Z.div_mod (b - 1 - a) c ltac:(lia)). pose proof (Z.mod_pos_bound (b - 1 - a) c Hc). nia.
  - destruct ((c <? 0)%Z && (b <? a)%Z) eqn:E2; [|discriminate].
    apply andb_true_iff in E2. destruct E2 as [Hc Hab]. apply Z.ltb_lt in Hc. apply Z.ltb_lt in Hab.
    intros H. assert (Hq : (0 <= (a - 1 - b) / (- c))%Z) by (apply Z.div_pos; lia).
    assert (Hn' : n = Z.to_N (1 + (a - 1 - b) / (- c))) by congruence.
    assert (Hn : Z.of_N n = (1 + (a - 1 - b) / (- c))%Z) by (rewrite Hn', Z2N.id; lia).
    split; [intros; lia|]. intros _ i Hi. rewrite Hn.
    pose proof (Z.div_mod (a - 1 - b) (- c) ltac:(lia)). pose proof (Z.mod_pos_bound (a - 1 - b) (- c) ltac:(lia)). nia.
Qed.

Theorem mk_range_never_stuck a b c r : mk_range a b c = Val r -> exists l, len r = Val l.
Proof.
  unfold mk_range. repeat match goal with |- context [if ?x then _ else _] => destruct x eqn:? end; try discriminate.
  - intros H. injection H as <-. eexists; reflexivity.
  - intros H. injection H as <-. cbn [len]. unfold range_len.
    apply orb_false_iff in Heqb4. destruct Heqb4 as [H1 H2].
    apply Z.eqb_neq in Heqb3.
    destruct (Z.ltb_spec 0 c).
    + cbn [andb] in *. destruct (Z.leb_spec b a); [discriminate|].
      destruct (Z.ltb_spec a b); [|lia]. cbn. eexists; reflexivity.
    + cbn [andb] in *. destruct (Z.ltb_spec c 0); [|lia]. cbn [andb] in *.
      destruct (Z.leb_spec a b); [discriminate|]. destruct (Z.ltb_spec b a); [|lia]. cbn. eexists; reflexivity.
Qed.

(* element i of a range *)
Theorem range_get a b c i : get (SRange a b c) i = Val (EI (a + Z.of_N i * c)%Z).
Proof. reflexivity. Qed.

(* map and zip are pointwise *)
Theorem map_get s f i : get (SMap s f) i = bind (get s i) (ap f).
Proof. reflexivity. Qed.
Theorem map_len s f : len (SMap s f) = len s.
Proof. reflexivity. Qed.
