(* Pipelines of prefix-closed operations over an endless source are well defined on prefixes: looking at a longer
   prefix of the source only extends the result.  This is the theorem behind the way props/c16.py compares endless
   pipelines (evaluate the model on a long finite prefix, compare the first n outputs). *)
From Coq Require Import List ZArith Arith Bool Lia.
From Xr Require Import Gen.XGen Gen.XGenProofs.
Import ListNotations.

Definition is_prefix (a b : list Z) : Prop := exists r, b = a ++ r.

Lemma is_prefix_refl a : is_prefix a a.
Proof. exists []. now rewrite app_nil_r. Qed.

Lemma is_prefix_trans a b c : is_prefix a b -> is_prefix b c -> is_prefix a c.
Proof. intros [r ->] [r' ->]. exists (r ++ r'). now rewrite app_assoc. Qed.

Lemma prefix_closed_mono f : prefix_closed f -> forall a b, is_prefix a b -> is_prefix (f a) (f b).
Proof. intros H a b [r ->]. destruct (H a r) as [r' E]. exists r'. exact E. Qed.

(* operations whose own parameters do not look at a second source *)
Definition simple_lazy (o : op) : bool :=
  match o with
  | OMapAdd _ | OMapMul _ | OMapMod _ | OFilterMod _ _ | OFilterLt _ | OTake _ | OTakeWhileLt _ | OSkipUntilGt _
  | OAggSum None | OEnumMix _ _ | ODistinct | OWithCountMix => true
  | _ => false
  end.

Lemma simple_lazy_prefix_closed p o : simple_lazy o = true -> prefix_closed (apply p o).
Proof.
  intro H. pose proof (lazy_ops_prefix_closed p o) as L.
  destruct o as [k|k|m|m r|k|n|n|k|k|s|s|seed|a d|k|k|d| | |n| ]; try discriminate; try exact L.
  destruct seed; try discriminate. exact L.
Qed.

(* simple lazy operations do not depend on the look-ahead parameter at all *)
Lemma simple_lazy_param_irrelevant p p' o l : simple_lazy o = true -> apply p o l = apply p' o l.
Proof. destruct o as [k|k|m|m r|k|n|n|k|k|s|s|seed|a d|k|k|d| | |n| ]; try discriminate; reflexivity. Qed.

Lemma fold_apply_mono p ops : forallb simple_lazy ops = true ->
  forall a b, is_prefix a b -> is_prefix (fold_left (fun l o => apply p o l) ops a) (fold_left (fun l o => apply p o l) ops b).
Proof.
  induction ops as [|o ops IH]; cbn; intros H a b P. exact P.
  apply andb_true_iff in H as [H1 H2]. apply IH; auto. apply prefix_closed_mono; auto. now apply simple_lazy_prefix_closed.
Qed.

Lemma fold_apply_param p p' ops : forallb simple_lazy ops = true ->
  forall a, fold_left (fun l o => apply p o l) ops a = fold_left (fun l o => apply p' o l) ops a.
Proof.
  induction ops as [|o ops IH]; cbn; intros H a. reflexivity.
  apply andb_true_iff in H as [H1 H2]. rewrite (simple_lazy_param_irrelevant p p' o a H1). now apply IH.
Qed.

(* the sources: a longer prefix extends a shorter one *)
Lemma seq_prefix a n m : (n <= m)%nat -> exists r, seq a m = seq a n ++ r.
Proof. intro H. exists (seq (a + n) (m - n)). rewrite <- seq_app. f_equal. lia. Qed.

Lemma iter_succ_prefix a b : forall n m x, (n <= m)%nat -> is_prefix (iter_succ a b x n) (iter_succ a b x m).
Proof.
  induction n as [|n IH]; intros m x H; cbn. eexists; reflexivity.
  destruct m as [|m]; try lia. cbn. destruct (IH m (a * x + b)%Z) as [r E]. lia. exists r. now rewrite E.
Qed.

Lemma count_prefix a d n m : (n <= m)%nat -> is_prefix (prefix (SCount a d) n) (prefix (SCount a d) m).
Proof.
  intro H. cbn. destruct (seq_prefix 0 n m H) as [r E]. rewrite E, map_app. eexists; reflexivity.
Qed.

Lemma range_prefix k n m : (n <= m)%nat -> is_prefix (prefix (SRange k) n) (prefix (SRange k) m).
Proof.
  intro H. cbn. destruct (seq_prefix 0 (Nat.min k n) (Nat.min k m)) as [r E]. lia. rewrite E, map_app. eexists; reflexivity.
Qed.

Lemma succ_prefix a b x n m : (n <= m)%nat -> is_prefix (prefix (SSucc a b x) n) (prefix (SSucc a b x) m).
Proof. intro H. cbn. now apply iter_succ_prefix. Qed.

(* stability of the prefix method: for count / range / successors sources and pipelines of simple lazy operations,
   a longer look-ahead only extends the result - so the first outputs, once present, are final *)
Theorem run_stable s ops n m :
  (match s with SCycle _ => False | _ => True end) -> forallb simple_lazy ops = true -> (n <= m)%nat ->
  is_prefix (run n s ops) (run m s ops).
Proof.
  intros Hs H L. unfold run. rewrite (fold_apply_param n m ops H). apply fold_apply_mono; auto.
  destruct s; try contradiction. now apply range_prefix. now apply count_prefix. now apply succ_prefix.
Qed.
