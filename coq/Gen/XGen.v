(* Reference semantics of generator pipelines: every generator denotes a stream of integers, every operation is the
   plain list function it is documented to be.  Element type is int throughout: operations that produce tuples or
   sequences are followed by a fixed projection back to int (the same projection is printed into the xray program). *)
From Coq Require Import List ZArith Arith Bool Lia.
Import ListNotations.
Open Scope Z_scope.

Inductive source :=
| SRange (n : nat)
| SCount (start step : Z)              (* infinite *)
| SCycle (l : list Z)                  (* l.to_generator().repeat(), infinite when l is not empty *)
| SSucc (a b : Z) (x0 : Z).            (* successors(x0, x -> a*x + b), infinite *)

Fixpoint iter_succ (a b : Z) (x : Z) (n : nat) : list Z := match n with O => [] | S k => x :: iter_succ a b (a * x + b) k end.
Fixpoint cycle (l : list Z) (n : nat) : list Z := match n with O => [] | S k => l ++ cycle l k end.

(* the first [p] elements of a source (all of it when it is shorter) *)
Definition prefix (s : source) (p : nat) : list Z :=
  match s with
  | SRange n => map Z.of_nat (seq 0 (Nat.min n p))
  | SCount a d => map (fun i => a + d * Z.of_nat i) (seq 0 p)
  | SCycle l => match l with [] => [] | _ => firstn p (cycle l p) end
  | SSucc a b x0 => iter_succ a b x0 p
  end.

Inductive op :=
| OMapAdd (k : Z) | OMapMul (k : Z) | OMapMod (m : Z)
| OFilterMod (m r : Z) | OFilterLt (k : Z)
| OTake (n : nat) | OSkip (n : nat)
| OTakeWhileLt (k : Z) | OSkipUntilGt (k : Z)
| OZipAdd (s : source) | OChain (s : source)
| OAggSum (seed : option Z)
| OEnumMix (start stride : Z)
| OWindowsSum (k : nat) | OChunksSum (k : nat)
| OGroupNear (d : Z)
| ODistinct | OWithCountMix
| ORepeat (n : nat) | OFlatDup.

Fixpoint zip_add (a b : list Z) : list Z := match a, b with x :: a', y :: b' => (x + y) :: zip_add a' b' | _, _ => [] end.
(* aggregate with the NON-commutative function (a, b) -> a - b, so that the argument order of the callback is observable *)
Fixpoint running (acc : Z) (l : list Z) : list Z := match l with [] => [] | x :: r => (acc - x) :: running (acc - x) r end.
Definition running1 (l : list Z) : list Z := match l with [] => [] | x :: r => x :: running x r end.
Fixpoint enum_mix (i stride : Z) (l : list Z) : list Z := match l with [] => [] | x :: r => (i * 1000 + x) :: enum_mix (i + stride) stride r end.
Definition sumz (l : list Z) : Z := fold_left Z.add l 0.
Fixpoint windows (k : nat) (l : list Z) (fuel : nat) : list (list Z) :=
  match fuel with O => [] | S f =>
    if Nat.leb k (length l) then firstn k l :: (match l with [] => [] | _ :: r => windows k r f end) else [] end.
Fixpoint chunks (k : nat) (l : list Z) (fuel : nat) : list (list Z) :=
  match fuel with O => [] | S f => match l with [] => [] | _ => firstn k l :: chunks k (skipn k l) f end end.
(* group: an incoming element joins the current group when it is "equal" to the group's FIRST element *)
Fixpoint group_near (d : Z) (cur : list Z) (l : list Z) : list (list Z) :=
  match l with
  | [] => match cur with [] => [] | _ => [rev cur] end
  | x :: r =>
      match rev cur with
      | [] => group_near d [x] r
      | k :: _ => if (Z.abs (k - x) <=? d) then group_near d (x :: cur) r else rev cur :: group_near d [x] r
      end
  end.
Fixpoint distinct (seen : list Z) (l : list Z) : list Z :=
  match l with [] => [] | x :: r => if existsb (Z.eqb x) seen then distinct seen r else x :: distinct (x :: seen) r end.
Fixpoint with_count (seen : list Z) (l : list Z) : list Z :=
  match l with [] => [] | x :: r => (x * 100 + Z.of_nat (S (length (filter (Z.eqb x) seen)))) :: with_count (x :: seen) r end.
Fixpoint take_while (p : Z -> bool) (l : list Z) : list Z := match l with x :: r => if p x then x :: take_while p r else [] | [] => [] end.
Fixpoint skip_until (p : Z -> bool) (l : list Z) : list Z := match l with x :: r => if p x then l else skip_until p r | [] => [] end.
Fixpoint repeat_n (l : list Z) (n : nat) : list Z := match n with O => [] | S k => l ++ repeat_n l k end.

(* [p]: how much of a second source to look at *)
Definition apply (p : nat) (o : op) (l : list Z) : list Z :=
  match o with
  | OMapAdd k => map (fun x => x + k) l
  | OMapMul k => map (fun x => x * k) l
  | OMapMod m => map (fun x => x mod m) l
  | OFilterMod m r => filter (fun x => (x mod m) =? r) l
  | OFilterLt k => filter (fun x => x <? k) l
  | OTake n => firstn n l
  | OSkip n => skipn n l
  | OTakeWhileLt k => take_while (fun x => x <? k) l
  | OSkipUntilGt k => skip_until (fun x => k <? x) l
  | OZipAdd s => zip_add l (prefix s p)
  | OChain s => l ++ prefix s p
  | OAggSum None => running1 l
  | OAggSum (Some z) => z :: running z l
  | OEnumMix a d => enum_mix a d l
  | OWindowsSum k => map sumz (windows k l (S (length l)))
  | OChunksSum k => map sumz (chunks k l (S (length l)))
  | OGroupNear d => map (fun g => Z.of_nat (length g) * 1000 + hd 0 g) (group_near d [] l)
  | ODistinct => distinct [] l
  | OWithCountMix => with_count [] l
  | ORepeat n => repeat_n l n
  | OFlatDup => flat_map (fun x => [x; x + 1]) l
  end.

Definition run (p : nat) (s : source) (ops : list op) : list Z := fold_left (fun l o => apply p o l) ops (prefix s p).

(* ---- the merged representation of nested skip / take (XGenerator::slice): start index and optional END INDEX *)
Definition slice := (nat * option nat)%type.
Definition slice_apply (sl : slice) (l : list Z) : list Z :=
  match sl with (s, None) => skipn s l | (s, Some e) => firstn (e - s) (skipn s l) end.
Definition omin (a b : option nat) : option nat :=
  match a, b with Some x, Some y => Some (Nat.min x y) | Some x, None => Some x | None, b => b end.
(* applying slice [o] to a generator that already is the slice [i] of something *)
Definition slice_merge (i o : slice) : slice :=
  (fst i + fst o, omin (snd i) (match snd o with Some e => Some (e + fst i) | None => None end))%nat.
