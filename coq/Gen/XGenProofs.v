From Coq Require Import List ZArith Arith Bool Lia.
From Xr Require Import Gen.XGen.
Import ListNotations.

(* nested slices: the merged representation denotes the composition *)
Lemma skipn_skipn' {A} (l : list A) : forall a b, skipn a (skipn b l) = skipn (b + a) l.
Proof.
  induction l as [|x l IH]; intros a b.
  - now rewrite !skipn_nil.
  - destruct b; cbn. reflexivity. apply IH.
Qed.

Theorem slice_merge_correct (i o : slice) (l : list Z) :
  slice_apply (slice_merge i o) l = slice_apply o (slice_apply i l).
Proof.
  destruct i as [si ei], o as [so eo]. unfold slice_merge, slice_apply. cbn [fst snd].
  destruct ei as [ei|], eo as [eo|]; cbn [omin].
  - rewrite skipn_firstn_comm, firstn_firstn, skipn_skipn'. f_equal. lia.
  - rewrite skipn_firstn_comm, skipn_skipn'. f_equal. lia.
  - rewrite skipn_skipn'. f_equal. lia.
  - rewrite skipn_skipn'. reflexivity.
Qed.

(* skip then take, take then skip: what the documentation says *)
Corollary skip_then_take a b (l : list Z) :
  slice_apply (slice_merge (a, None) (0%nat, Some b)) l = firstn b (skipn a l).
Proof. rewrite slice_merge_correct. cbn. now rewrite Nat.sub_0_r. Qed.

Corollary take_then_skip a b (l : list Z) :
  slice_apply (slice_merge (0%nat, Some a) (b, None)) l = skipn b (firstn a l).
Proof. rewrite slice_merge_correct. cbn. now rewrite Nat.sub_0_r. Qed.

(* laziness: the first outputs of the element-wise and prefix-closed operations are determined by a prefix of the input;
   stated as: extending the input only extends the output *)
Definition prefix_closed (f : list Z -> list Z) : Prop := forall l l', exists r, f (l ++ l') = f l ++ r.

Lemma map_prefix_closed g : prefix_closed (map g).
Proof. intros l l'. exists (map g l'). apply map_app. Qed.

Lemma filter_prefix_closed g : prefix_closed (filter g).
Proof. intros l l'. exists (filter g l'). apply filter_app. Qed.

Lemma firstn_prefix_closed n : prefix_closed (firstn n).
Proof. intros l l'. exists (firstn (n - length l) l'). apply firstn_app. Qed.

Lemma take_while_prefix_closed p : prefix_closed (take_while p).
Proof.
  intros l l'. induction l as [|x l [r IH]]; cbn. eexists; reflexivity.
  destruct (p x). exists r. now rewrite IH. exists []. reflexivity.
Qed.

Lemma skip_until_prefix_closed p : prefix_closed (skip_until p).
Proof.
  intros l l'. induction l as [|x l [r IH]]; cbn. eexists; reflexivity.
  destruct (p x). exists l'. reflexivity. exists r. exact IH.
Qed.

Lemma running_prefix_closed : forall acc, prefix_closed (running acc).
Proof.
  intros acc l l'. revert acc. induction l as [|x l IH]; intro acc; cbn. eexists; reflexivity.
  destruct (IH (acc - x)%Z) as [r E]. exists r. now rewrite E.
Qed.

Lemma running1_prefix_closed : prefix_closed running1.
Proof.
  intros l l'. destruct l as [|x l]; cbn. eexists; reflexivity.
  destruct (running_prefix_closed x l l') as [r E]. exists r. now rewrite E.
Qed.

Lemma enum_prefix_closed : forall i d, prefix_closed (enum_mix i d).
Proof.
  intros i d l l'. revert i. induction l as [|x l IH]; intro i; cbn. eexists; reflexivity.
  destruct (IH (i + d)%Z) as [r E]. exists r. now rewrite E.
Qed.

Lemma distinct_prefix_closed : forall seen, prefix_closed (distinct seen).
Proof.
  intros seen l l'. revert seen. induction l as [|x l IH]; intro seen; cbn. eexists; reflexivity.
  destruct (existsb (Z.eqb x) seen). apply IH. destruct (IH (x :: seen)) as [r E]. exists r. now rewrite E.
Qed.

Lemma with_count_prefix_closed : forall seen, prefix_closed (with_count seen).
Proof.
  intros seen l l'. revert seen. induction l as [|x l IH]; intro seen; cbn. eexists; reflexivity.
  destruct (IH (x :: seen)) as [r E]. exists r. now rewrite E.
Qed.

(* composition of prefix-closed stages is prefix-closed: a pipeline of them over an endless source is well defined *)
Lemma compose_prefix_closed f g : prefix_closed f -> prefix_closed g ->
  (forall a b, exists r, g (a ++ b) = g a ++ r) -> prefix_closed (fun l => g (f l)).
Proof.
  intros Hf Hg _ l l'. destruct (Hf l l') as [r E]. rewrite E. apply Hg.
Qed.

Theorem lazy_ops_prefix_closed p o :
  match o with
  | OMapAdd _ | OMapMul _ | OMapMod _ | OFilterMod _ _ | OFilterLt _ | OTake _ | OTakeWhileLt _ | OSkipUntilGt _
  | OAggSum None | OEnumMix _ _ | ODistinct | OWithCountMix => prefix_closed (apply p o)
  | _ => True
  end.
Proof.
  destruct o as [k|k|m|m r|k|n|n|k|k|s|s|seed|a d|k|k|d| | |n| ]; cbn [apply]; trivial.
  - apply map_prefix_closed.
  - apply map_prefix_closed.
  - apply map_prefix_closed.
  - apply filter_prefix_closed.
  - apply filter_prefix_closed.
  - apply firstn_prefix_closed.
  - apply take_while_prefix_closed.
  - apply skip_until_prefix_closed.
  - destruct seed; trivial. apply running1_prefix_closed.
  - apply enum_prefix_closed.
  - apply distinct_prefix_closed.
  - apply with_count_prefix_closed.
Qed.
