(* Rendering of model results to strings, so that the check driver can print one result per line
   from [Eval vm_compute] and compare it with what the implementation printed. *)
From Coq Require Import String Ascii List ZArith NArith DecimalString Decimal.
From Xr Require Import Base.Res.
Import ListNotations.
Open Scope string_scope.

Definition show_Z (z : Z) : string := NilZero.string_of_int (Z.to_int z).
Definition show_N (n : N) : string := show_Z (Z.of_N n).
Definition show_nat (n : nat) : string := show_Z (Z.of_nat n).
Definition show_bool (b : bool) : string := if b then "true" else "false".

Fixpoint show_list_aux {A} (f : A -> string) (l : list A) : string :=
  match l with
  | [] => ""
  | [x] => f x
  | x :: xs => f x ++ ", " ++ show_list_aux f xs
  end.
Definition show_list {A} (f : A -> string) (l : list A) : string := "[" ++ show_list_aux f l ++ "]".

Definition show_option {A} (f : A -> string) (o : option A) : string :=
  match o with None => "None" | Some a => "Some(" ++ f a ++ ")" end.

Definition show_viol (v : viol) : string :=
  match v with
  | VAlloc => "AllocationLimitReached" | VRecursion => "MaximumRecursion" | VDepth => "MaximumStackDepth"
  | VCalls => "MaximumUDCall" | VSearch => "MaximumSearch" | VTimeout => "Timeout"
  | VPerm p => "PermissionError(" ++ p ++ ")"
  end.

Definition show_res {A} (f : A -> string) (r : res A) : string :=
  match r with
  | Val a => f a
  | Err m => "E:" ++ m
  | Viol v => "X:" ++ show_viol v
  | Stuck w => "P:" ++ w
  | Fuel => "FUEL"
  end.

Definition show_cmp (c : comparison) : string :=
  match c with Lt => "-1" | Eq => "0" | Gt => "1" end.
