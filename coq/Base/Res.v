(* The result type shared by all models.
   Val   : an ordinary value
   Err   : xray's in-language error VALUE (carries the message class)
   Viol  : a host-level RuntimeViolation
   Stuck : stands for every panic!/unwrap/overflow-in-debug of the Rust code ("the interpreter itself failed")
   Fuel  : the model ran out of fuel (excluded by theorem statements) *)
From Coq Require Import String List ZArith.
Import ListNotations.

Inductive viol := VAlloc | VRecursion | VDepth | VCalls | VSearch | VTimeout | VPerm (p : string).

Inductive res (A : Type) : Type :=
| Val (a : A)
| Err (msg : string)
| Viol (v : viol)
| Stuck (why : string)
| Fuel.
Arguments Val {A} a.
Arguments Err {A} msg.
Arguments Viol {A} v.
Arguments Stuck {A} why.
Arguments Fuel {A}.

Definition bind {A B} (r : res A) (f : A -> res B) : res B :=
  match r with
  | Val a => f a
  | Err m => Err m
  | Viol v => Viol v
  | Stuck w => Stuck w
  | Fuel => Fuel
  end.

Definition rmap {A B} (f : A -> B) (r : res A) : res B := bind r (fun a => Val (f a)).

Notation "'do' x <- r ; k" := (bind r (fun x => k)) (at level 200, x name, r at level 100, k at level 200).

Definition is_val {A} (r : res A) : bool := match r with Val _ => true | _ => false end.
Definition is_stuck {A} (r : res A) : bool := match r with Stuck _ => true | _ => false end.
Definition not_stuck {A} (r : res A) : Prop := forall w, r <> Stuck w.

Fixpoint mapM {A B} (f : A -> res B) (l : list A) : res (list B) :=
  match l with
  | [] => Val []
  | x :: xs => do y <- f x; do ys <- mapM f xs; Val (y :: ys)
  end.

Lemma bind_val {A B} (r : res A) (f : A -> res B) b :
  bind r f = Val b -> exists a, r = Val a /\ f a = Val b.
Proof. destruct r; simpl; intros H; try discriminate. eauto. Qed.
