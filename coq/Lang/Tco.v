(* Tail-call optimisation at the level of the trampoline of runtime_scope.rs (eval_func_with_values):
   a body run either finishes with a value or asks to be re-run with new arguments (TailCall).  The trampoline
   loops; the plain semantics makes a real (nested) call.  Both are compared for every body, argument and
   iteration count. *)
From Coq Require Import List Arith NArith Lia.
From Xr Require Import Base.Res.

Section TRAMPOLINE.
  Variables A V : Type.
  Variable body : A -> V + A.          (* inl v : value ; inr a' : self tail call with arguments a' *)

  (* plain recursion: a tail self-call is an ordinary nested call; returns the value and the deepest nesting reached *)
  Fixpoint plain (fuel : nat) (a : A) (depth : nat) : option (V * nat) :=
    match fuel with
    | O => None
    | S f => match body a with
             | inl v => Some (v, depth)
             | inr a' => plain f a' (S depth)
             end
    end.

  (* the trampoline: stays at the same depth, counts iterations, gives up (MaximumRecursion) when the count
     exceeds the limit *)
  Fixpoint tramp (fuel : nat) (L : option nat) (a : A) (iters : nat) : option (res V * nat) :=
    match fuel with
    | O => None
    | S f => match body a with
             | inl v => Some (Val v, iters)
             | inr a' =>
                 let it := S iters in
                 if match L with Some l => l <? it | None => false end then Some (Viol VRecursion, it)
                 else tramp f L a' it
             end
    end.

  (* transparency: without a recursion limit the trampoline returns exactly what plain recursion returns, and the
     number of iterations is the nesting depth plain recursion needed *)
  Theorem tramp_transparent : forall fuel a d v maxd,
    plain fuel a d = Some (v, maxd) -> forall i, tramp fuel None a i = Some (Val v, i + (maxd - d)) /\ d <= maxd.
  Proof.
    induction fuel as [|f IH]; intros a d v maxd H i; cbn in *; [discriminate|].
    destruct (body a) as [v0|a'].
    - injection H as <- <-. split; [f_equal; f_equal; lia | lia].
    - destruct (IH a' (S d) v maxd H (S i)) as [Ht Hd]. split; [|lia]. rewrite Ht. f_equal. f_equal. lia.
  Qed.

  (* with a limit L: the run is cut exactly when more than L consecutive tail calls are needed, and is otherwise
     unaffected by L *)
  Theorem tramp_limit_exact : forall fuel a i v n L,
    tramp fuel None a i = Some (Val v, n) ->
    (n <= L -> tramp fuel (Some L) a i = Some (Val v, n)) /\
    (i <= L -> L < n -> tramp fuel (Some L) a i = Some (Viol VRecursion, S L)).
  Proof.
    induction fuel as [|f IH]; intros a i v n L H; cbn [tramp] in *; [discriminate|].
    destruct (body a) as [v0|a'].
    - injection H as <- <-. split; [auto|lia].
    - assert (Hmono : S i <= n).
      { clear IH. revert a' i H. induction f as [|f' IHf]; intros a' i H; cbn [tramp] in H; [discriminate|].
        destruct (body a'); [injection H as _ <-; lia|]. apply IHf in H. lia. }
      destruct (IH a' (S i) v n L H) as [H1 H2]. split.
      + intros Hn. destruct (Nat.ltb_spec L (S i)); [lia|]. now apply H1.
      + intros Hi Hl. destruct (Nat.ltb_spec L (S i)) as [Hlt|Hge].
        * assert (S i = S L) by lia. congruence.
        * apply H2; lia.
  Qed.
End TRAMPOLINE.
