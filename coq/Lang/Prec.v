(* Operator precedence (C02): model of pest's PrecClimber::climb_rec as used by src/parser.rs (Rule::expression), over an
   arbitrary operator table: every operator has a level (higher binds tighter) and every level an associativity.
   Theorem: for every operand / operator sequence the climber terminates (fuel 2n+1 is never exhausted), consumes the whole
   sequence, keeps the operands and operators in their order, and returns a tree in which, at every node, the root of the
   left operand does not bind tighter-or-right than the node and the root of the right operand does - i.e. the tree is
   grouped exactly as the table prescribes. *)
From Coq Require Import List Arith Bool Lia.
Import ListNotations.

Section Climber.
  Variables op atom : Type.
  Variable prec : op -> nat.
  Variable lvl_right : nat -> bool.          (* associativity of a level *)
  Definition rassoc (o : op) : bool := lvl_right (prec o).

  Inductive tree := Leaf (a : atom) | Node (o : op) (l r : tree).

  (* the inner-loop test of climb_rec: does the operator `new`, met after the right operand of `o`, belong to that operand? *)
  Definition binds_right (o new : op) : bool := (prec o <? prec new) || (rassoc new && (prec new =? prec o)).

  Fixpoint climb_rec (f : nat) (lhs : tree) (m : nat) (rest : list (op * atom)) : option (tree * list (op * atom)) :=
    match f with
    | O => None
    | S f' =>
        match rest with
        | [] => Some (lhs, [])
        | (o, a) :: rest1 =>
            if m <=? prec o then
              match inner f' o (Leaf a) rest1 with
              | Some (rhs, rest2) => climb_rec f' (Node o lhs rhs) m rest2
              | None => None
              end
            else Some (lhs, rest)
        end
    end
  with inner (f : nat) (o : op) (rhs : tree) (rest : list (op * atom)) : option (tree * list (op * atom)) :=
    match f with
    | O => None
    | S f' =>
        match rest with
        | [] => Some (rhs, [])
        | (h, _) :: _ =>
            if binds_right o h then
              match climb_rec f' rhs (prec h) rest with
              | Some (rhs', rest') => inner f' o rhs' rest'
              | None => None
              end
            else Some (rhs, rest)
        end
    end.

  Definition parse (a : atom) (rest : list (op * atom)) : option (tree * list (op * atom)) :=
    climb_rec (2 * length rest + 1) (Leaf a) 0 rest.

  (* ---------------------------------------------------------------- specification *)
  Fixpoint first (t : tree) : atom := match t with Leaf a => a | Node _ l _ => first l end.
  Fixpoint toks (t : tree) : list (op * atom) :=
    match t with Leaf _ => [] | Node o l r => toks l ++ (o, first r) :: toks r end.
  Definition root (t : tree) : option op := match t with Leaf _ => None | Node o _ _ => Some o end.
  Definition lcond (o : op) (l : tree) : Prop :=
    match root l with Some ol => binds_right ol o = false | None => True end.
  Definition rcond (o : op) (r : tree) : Prop :=
    match root r with Some p => binds_right o p = true | None => True end.
  Fixpoint ok (t : tree) : Prop :=
    match t with Leaf _ => True | Node o l r => ok l /\ ok r /\ lcond o l /\ rcond o r end.

  Definition head_prec_lt (rest : list (op * atom)) (m : nat) : Prop :=
    match rest with [] => True | (h, _) :: _ => prec h < m end.
  Definition pre (lhs : tree) (m : nat) (rest : list (op * atom)) : Prop :=
    match root lhs, rest with
    | Some ol, (h, _) :: _ => m <= prec h -> binds_right ol h = false
    | _, _ => True
    end.
  Definition looser_next (rhs : tree) (rest : list (op * atom)) : Prop :=
    match root rhs, rest with Some p, (h, _) :: _ => prec h < prec p | _, _ => True end.

  Definition grew (t lhs : tree) (m : nat) : Prop := t = lhs \/ exists o l r, t = Node o l r /\ m <= prec o.

  Lemma sound_both : forall f,
    (forall lhs m rest t rest', climb_rec f lhs m rest = Some (t, rest') ->
        (toks t ++ rest' = toks lhs ++ rest /\ first t = first lhs) /\ grew t lhs m /\ head_prec_lt rest' m /\
        (ok lhs -> pre lhs m rest -> ok t)) /\
    (forall o rhs rest t rest', inner f o rhs rest = Some (t, rest') ->
        (toks t ++ rest' = toks rhs ++ rest /\ first t = first rhs) /\
        (match rest' with [] => True | (h, _) :: _ => binds_right o h = false end) /\
        (ok rhs -> looser_next rhs rest -> rcond o rhs -> ok t /\ rcond o t)).
  Proof.
    induction f as [|f [IHc IHi]]; [split; intros; discriminate|]. split.
    - intros lhs m rest t rest' H. cbn [climb_rec] in H. destruct rest as [|[o a] rest1].
      + inversion H; subst. repeat split; auto. left; reflexivity.
      + destruct (Nat.leb_spec m (prec o)) as [Hm|Hm].
        * destruct (inner f o (Leaf a) rest1) as [[rhs rest2]|] eqn:Ei; [|discriminate].
          destruct (IHi _ _ _ _ _ Ei) as ((Ht & Hf) & He & Hok).
          destruct (IHc _ _ _ _ _ H) as ((Ht2 & Hf2) & Hg & Hd & Hok2).
          split; [split|].
          -- rewrite Ht2. cbn [toks]. rewrite <- app_assoc. cbn [app]. f_equal. f_equal.
             cbn [toks first app] in Ht, Hf. rewrite Hf. f_equal. exact Ht.
          -- rewrite Hf2. reflexivity.
          -- split; [|split].
             ++ right. destruct Hg as [->|(o' & l' & r' & -> & Hp)]; eauto.
             ++ exact Hd.
             ++ intros Hokl Hpre. apply Hok2.
                ** cbn [ok]. destruct (Hok I I I) as [Hokr Hrc]. repeat split; auto.
                   unfold lcond. unfold pre in Hpre. destruct (root lhs); auto.
                ** unfold pre. cbn [root]. destruct rest2 as [|[h2 a2] r2]; auto.
        * inversion H; subst. repeat split; auto. left; reflexivity.
    - intros o rhs rest t rest' H. cbn [inner] in H. destruct rest as [|[h a] rest1].
      + inversion H; subst. repeat split; auto.
      + destruct (binds_right o h) eqn:Eb.
        * destruct (climb_rec f rhs (prec h) ((h, a) :: rest1)) as [[rhs' rest2]|] eqn:Ec; [|discriminate].
          destruct (IHc _ _ _ _ _ Ec) as ((Ht & Hf) & Hg & Hd & Hok).
          destruct (IHi _ _ _ _ _ H) as ((Ht2 & Hf2) & He & Hok2).
          split; [split; [rewrite Ht2; exact Ht | rewrite Hf2; exact Hf]|]. split; [exact He|].
          intros Hokr Hl Hrc.
          assert (Hpre : pre rhs (prec h) ((h, a) :: rest1)).
          { unfold pre. unfold looser_next in Hl. destruct (root rhs) as [p|]; auto. intros _.
            unfold binds_right. apply orb_false_iff. split; [apply Nat.ltb_ge; lia|].
            apply andb_false_iff. right. apply Nat.eqb_neq. lia. }
          apply Hok2.
          -- apply Hok; assumption.
          -- unfold looser_next. unfold head_prec_lt in Hd.
             destruct Hg as [->|(o' & l' & r' & -> & Hp)].
             ++ unfold looser_next in Hl. destruct (root rhs); auto. destruct rest2 as [|[h2 a2] r2]; auto. lia.
             ++ cbn [root]. destruct rest2 as [|[h2 a2] r2]; auto. lia.
          -- destruct Hg as [->|(o' & l' & r' & -> & Hp)]; [exact Hrc|].
             unfold rcond. cbn [root]. unfold binds_right in *. apply orb_true_iff in Eb.
             destruct Eb as [Eb|Eb].
             ++ apply Nat.ltb_lt in Eb. apply orb_true_iff. left. apply Nat.ltb_lt. lia.
             ++ apply andb_true_iff in Eb as [Er Ee]. apply Nat.eqb_eq in Ee.
                destruct (Nat.eq_dec (prec o') (prec h)) as [Heq|Hne].
                ** apply orb_true_iff. right. unfold rassoc in *. rewrite Heq, Er. cbn. apply Nat.eqb_eq. lia.
                ** apply orb_true_iff. left. apply Nat.ltb_lt. lia.
        * inversion H; subst. repeat split; auto.
  Qed.

  (* fuel: 2n+1 for the outer loop, 2n+2 for the inner loop, is never exhausted; the outer loop consumes the operator it is
     allowed to consume *)
  Lemma total_both : forall f,
    (forall lhs m rest, 2 * length rest + 1 <= f ->
        exists t rest', climb_rec f lhs m rest = Some (t, rest') /\ length rest' <= length rest /\
          (match rest with (o, _) :: _ => m <= prec o -> length rest' < length rest | [] => True end)) /\
    (forall o rhs rest, 2 * length rest + 2 <= f ->
        exists t rest', inner f o rhs rest = Some (t, rest') /\ length rest' <= length rest).
  Proof.
    induction f as [|f [IHc IHi]]; [split; intros; lia|]. split.
    - intros lhs m rest Hf. cbn [climb_rec]. destruct rest as [|[o a] rest1].
      + eexists _, _. split; [reflexivity|]. split; auto.
      + cbn [length] in Hf. destruct (Nat.leb_spec m (prec o)) as [Hm|Hm].
        * destruct (IHi o (Leaf a) rest1) as (rhs & rest2 & E1 & L1); [lia|]. rewrite E1.
          destruct (IHc (Node o lhs rhs) m rest2) as (t & rest3 & E2 & L2 & _); [lia|]. rewrite E2.
          eexists _, _. split; [reflexivity|]. cbn [length]. split; [lia|]. intros _. lia.
        * eexists _, _. split; [reflexivity|]. split; [lia|]. intros. lia.
    - intros o rhs rest Hf. cbn [inner]. destruct rest as [|[h a] rest1].
      + eexists _, _. split; [reflexivity|]. auto.
      + cbn [length] in Hf. destruct (binds_right o h).
        * destruct (IHc rhs (prec h) ((h, a) :: rest1)) as (rhs' & rest2 & E1 & L1 & L1'); [cbn [length]; lia|]. rewrite E1.
          specialize (L1' (le_n _)). cbn [length] in L1, L1'.
          destruct (IHi o rhs' rest2) as (t & rest3 & E2 & L2); [lia|]. rewrite E2.
          eexists _, _. split; [reflexivity|]. cbn [length]. lia.
        * eexists _, _. split; [reflexivity|]. lia.
  Qed.

  Theorem climber_sound : forall a rest,
    exists t, parse a rest = Some (t, []) /\ first t = a /\ toks t = rest /\ ok t.
  Proof.
    intros a rest. unfold parse.
    destruct (proj1 (total_both (2 * length rest + 1)) (Leaf a) 0 rest (le_n _)) as (t & rest' & E & _).
    destruct (proj1 (sound_both _) _ _ _ _ _ E) as ((Ht & Hf) & _ & Hd & Hok).
    assert (rest' = []) as -> by (destruct rest' as [|[h x] r]; [reflexivity|cbn in Hd; lia]).
    exists t. rewrite app_nil_r in Ht. cbn [toks first app] in Ht, Hf. repeat split; auto.
  Qed.
End Climber.

Arguments Leaf {op atom}.
Arguments Node {op atom}.
