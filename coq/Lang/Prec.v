(* Operator precedence (C02): model of pest's PrecClimber::climb_rec as used by src/parser.rs (Rule::expression), over an
   arbitrary operator table: every operator has a level (higher binds tighter) and every level an associativity.
   Theorem: for every operand / operator sequence the climber terminates (fuel 2n+1 is never exhausted), consumes the whole
   sequence, keeps the operands and operators in their order, and returns a tree in which, at every node, the root of the
   left operand does not bind tighter-or-right than the node and the root of the right operand does - i.e. the tree is
   grouped exactly as the table prescribes. *)
From Coq Require Import List Arith Bool Lia.
Import ListNotations.

Lemma app_inj_pivot_len {A} : forall (a a' : list A) x x' b b',
  a ++ x :: b = a' ++ x' :: b' -> length a = length a' -> a = a' /\ x = x' /\ b = b'.
Proof.
  induction a as [|y a IH]; intros a' x x' b b' H Hl; destruct a' as [|y' a']; try (cbn in Hl; lia).
  - cbn in H. inversion H; auto.
  - cbn in H. inversion H; subst. cbn in Hl. destruct (IH a' x x' b b' H2 ltac:(lia)) as (-> & -> & ->). auto.
Qed.

Section Climber.
  Variables op atom : Type.
  Variable prec : op -> nat.
  Variable lvl_right : nat -> bool.          (* associativity of a level *)
  Definition rassoc (o : op) : bool := lvl_right (prec o).

  Inductive tree := Leaf (a : atom) | Node (o : op) (l r : tree).

  (* the inner-loop test of climb_rec: does the operator `new`, met after the right operand of `o`, belong to that operand? *)
  Definition binds_right (o new : op) : bool := (prec o <? prec new) || (rassoc new && (prec new =? prec o)).

  Fixpoint climb_rec (f : nat) (lhs : tree) (m : nat) (rest : list (op * atom)) : option (tree * list (op * atom)) :=
    match f with
    | O => None
    | S f' =>
        match rest with
        | [] => Some (lhs, [])
        | (o, a) :: rest1 =>
            if m <=? prec o then
              match inner f' o (Leaf a) rest1 with
              | Some (rhs, rest2) => climb_rec f' (Node o lhs rhs) m rest2
              | None => None
              end
            else Some (lhs, rest)
        end
    end
  with inner (f : nat) (o : op) (rhs : tree) (rest : list (op * atom)) : option (tree * list (op * atom)) :=
    match f with
    | O => None
    | S f' =>
        match rest with
        | [] => Some (rhs, [])
        | (h, _) :: _ =>
            if binds_right o h then
              match climb_rec f' rhs (prec h) rest with
              | Some (rhs', rest') => inner f' o rhs' rest'
              | None => None
              end
            else Some (rhs, rest)
        end
    end.

  Definition parse (a : atom) (rest : list (op * atom)) : option (tree * list (op * atom)) :=
    climb_rec (2 * length rest + 1) (Leaf a) 0 rest.

  (* ---------------------------------------------------------------- specification *)
  Fixpoint first (t : tree) : atom := match t with Leaf a => a | Node _ l _ => first l end.
  Fixpoint toks (t : tree) : list (op * atom) :=
    match t with Leaf _ => [] | Node o l r => toks l ++ (o, first r) :: toks r end.
  Definition root (t : tree) : option op := match t with Leaf _ => None | Node o _ _ => Some o end.
  Definition lcond (o : op) (l : tree) : Prop :=
    match root l with Some ol => binds_right ol o = false | None => True end.
  Definition rcond (o : op) (r : tree) : Prop :=
    match root r with Some p => binds_right o p = true | None => True end.
  Fixpoint ok (t : tree) : Prop :=
    match t with Leaf _ => True | Node o l r => ok l /\ ok r /\ lcond o l /\ rcond o r end.

  Definition head_prec_lt (rest : list (op * atom)) (m : nat) : Prop :=
    match rest with [] => True | (h, _) :: _ => prec h < m end.
  Definition pre (lhs : tree) (m : nat) (rest : list (op * atom)) : Prop :=
    match root lhs, rest with
    | Some ol, (h, _) :: _ => m <= prec h -> binds_right ol h = false
    | _, _ => True
    end.
  Definition looser_next (rhs : tree) (rest : list (op * atom)) : Prop :=
    match root rhs, rest with Some p, (h, _) :: _ => prec h < prec p | _, _ => True end.

  Definition grew (t lhs : tree) (m : nat) : Prop := t = lhs \/ exists o l r, t = Node o l r /\ m <= prec o.

  Lemma sound_both : forall f,
    (forall lhs m rest t rest', climb_rec f lhs m rest = Some (t, rest') ->
        (toks t ++ rest' = toks lhs ++ rest /\ first t = first lhs) /\ grew t lhs m /\ head_prec_lt rest' m /\
        (ok lhs -> pre lhs m rest -> ok t)) /\
    (forall o rhs rest t rest', inner f o rhs rest = Some (t, rest') ->
        (toks t ++ rest' = toks rhs ++ rest /\ first t = first rhs) /\
        (match rest' with [] => True | (h, _) :: _ => binds_right o h = false end) /\
        (ok rhs -> looser_next rhs rest -> rcond o rhs -> ok t /\ rcond o t)).
  Proof.
    induction f as [|f [IHc IHi]]; [split; intros; discriminate|]. split.
    - intros lhs m rest t rest' H. cbn [climb_rec] in H. destruct rest as [|[o a] rest1].
      + inversion H; subst. repeat split; auto. left; reflexivity.
      + destruct (Nat.leb_spec m (prec o)) as [Hm|Hm].
        * destruct (inner f o (Leaf a) rest1) as [[rhs rest2]|] eqn:Ei; [|discriminate].
          destruct (IHi _ _ _ _ _ Ei) as ((Ht & Hf) & He & Hok).
          destruct (IHc _ _ _ _ _ H) as ((Ht2 & Hf2) & Hg & Hd & Hok2).
          split; [split|].
          -- rewrite Ht2. cbn [toks]. rewrite <- app_assoc. cbn [app]. f_equal. f_equal.
             cbn [toks first app] in Ht, Hf. rewrite Hf. f_equal. exact Ht.
          -- rewrite Hf2. reflexivity.
          -- split; [|split].
             ++ right. destruct Hg as [->|(o' & l' & r' & -> & Hp)]; eauto.
             ++ exact Hd.
             ++ intros Hokl Hpre. apply Hok2.
                ** cbn [ok]. destruct (Hok I I I) as [Hokr Hrc]. repeat split; auto.
                   unfold lcond. unfold pre in Hpre. destruct (root lhs); auto.
                ** unfold pre. cbn [root]. destruct rest2 as [|[h2 a2] r2]; auto.
        * inversion H; subst. repeat split; auto. left; reflexivity.
    - intros o rhs rest t rest' H. cbn [inner] in H. destruct rest as [|[h a] rest1].
      + inversion H; subst. repeat split; auto.
      + destruct (binds_right o h) eqn:Eb.
        * destruct (climb_rec f rhs (prec h) ((h, a) :: rest1)) as [[rhs' rest2]|] eqn:Ec; [|discriminate].
          destruct (IHc _ _ _ _ _ Ec) as ((Ht & Hf) & Hg & Hd & Hok).
          destruct (IHi _ _ _ _ _ H) as ((Ht2 & Hf2) & He & Hok2).
          split; [split; [rewrite Ht2; exact Ht | rewrite Hf2; exact Hf]|]. split; [exact He|].
          intros Hokr Hl Hrc.
          assert (Hpre : pre rhs (prec h) ((h, a) :: rest1)).
          { unfold pre. unfold looser_next in Hl. destruct (root rhs) as [p|]; auto. intros _.
            unfold binds_right. apply orb_false_iff. split; [apply Nat.ltb_ge; lia|].
            apply andb_false_iff. right. apply Nat.eqb_neq. lia. }
          apply Hok2.
          -- apply Hok; assumption.
          -- unfold looser_next. unfold head_prec_lt in Hd.
             destruct Hg as [->|(o' & l' & r' & -> & Hp)].
             ++ unfold looser_next in Hl. destruct (root rhs); auto. destruct rest2 as [|[h2 a2] r2]; auto. lia.
             ++ cbn [root]. destruct rest2 as [|[h2 a2] r2]; auto. lia.
          -- destruct Hg as [->|(o' & l' & r' & -> & Hp)]; [exact Hrc|].
             unfold rcond. cbn [root]. unfold binds_right in *. apply orb_true_iff in Eb.
             destruct Eb as [Eb|Eb].
             ++ apply Nat.ltb_lt in Eb. apply orb_true_iff. left. apply Nat.ltb_lt. lia.
             ++ apply andb_true_iff in Eb as [Er Ee]. apply Nat.eqb_eq in Ee.
                destruct (Nat.eq_dec (prec o') (prec h)) as [Heq|Hne].
                ** apply orb_true_iff. right. unfold rassoc in *. rewrite Heq, Er. cbn. apply Nat.eqb_eq. lia.
                ** apply orb_true_iff. left. apply Nat.ltb_lt. lia.
        * inversion H; subst. repeat split; auto.
  Qed.

  (* fuel: 2n+1 for the outer loop, 2n+2 for the inner loop, is never exhausted; the outer loop consumes the operator it is
     allowed to consume *)
  Lemma total_both : forall f,
    (forall lhs m rest, 2 * length rest + 1 <= f ->
        exists t rest', climb_rec f lhs m rest = Some (t, rest') /\ length rest' <= length rest /\
          (match rest with (o, _) :: _ => m <= prec o -> length rest' < length rest | [] => True end)) /\
    (forall o rhs rest, 2 * length rest + 2 <= f ->
        exists t rest', inner f o rhs rest = Some (t, rest') /\ length rest' <= length rest).
  Proof.
    induction f as [|f [IHc IHi]]; [split; intros; lia|]. split.
    - intros lhs m rest Hf. cbn [climb_rec]. destruct rest as [|[o a] rest1].
      + eexists _, _. split; [reflexivity|]. split; auto.
      + cbn [length] in Hf. destruct (Nat.leb_spec m (prec o)) as [Hm|Hm].
        * destruct (IHi o (Leaf a) rest1) as (rhs & rest2 & E1 & L1); [lia|]. rewrite E1.
          destruct (IHc (Node o lhs rhs) m rest2) as (t & rest3 & E2 & L2 & _); [lia|]. rewrite E2.
          eexists _, _. split; [reflexivity|]. cbn [length]. split; [lia|]. intros _. lia.
        * eexists _, _. split; [reflexivity|]. split; [lia|]. intros. lia.
    - intros o rhs rest Hf. cbn [inner]. destruct rest as [|[h a] rest1].
      + eexists _, _. split; [reflexivity|]. auto.
      + cbn [length] in Hf. destruct (binds_right o h).
        * destruct (IHc rhs (prec h) ((h, a) :: rest1)) as (rhs' & rest2 & E1 & L1 & L1'); [cbn [length]; lia|]. rewrite E1.
          specialize (L1' (le_n _)). cbn [length] in L1, L1'.
          destruct (IHi o rhs' rest2) as (t & rest3 & E2 & L2); [lia|]. rewrite E2.
          eexists _, _. split; [reflexivity|]. cbn [length]. lia.
        * eexists _, _. split; [reflexivity|]. lia.
  Qed.

  Theorem climber_sound : forall a rest,
    exists t, parse a rest = Some (t, []) /\ first t = a /\ toks t = rest /\ ok t.
  Proof.
    intros a rest. unfold parse.
    destruct (proj1 (total_both (2 * length rest + 1)) (Leaf a) 0 rest (le_n _)) as (t & rest' & E & _).
    destruct (proj1 (sound_both _) _ _ _ _ _ E) as ((Ht & Hf) & _ & Hd & Hok).
    assert (rest' = []) as -> by (destruct rest' as [|[h x] r]; [reflexivity|cbn in Hd; lia]).
    exists t. rewrite app_nil_r in Ht. cbn [toks first app] in Ht, Hf. repeat split; auto.
  Qed.
  (* ---------------------------------------------------------------- uniqueness: the table-respecting grouping is unique,
     so parsing the flat spelling of a table-respecting tree gives that tree back *)
  Definition allp (P : op -> Prop) (t : tree) : Prop := Forall (fun x => P (fst x)) (toks t).

  Lemma binds_false_le o new : binds_right o new = false -> prec new <= prec o.
  Proof. unfold binds_right. intros H. apply orb_false_iff in H as [H _]. apply Nat.ltb_ge in H. exact H. Qed.
  Lemma binds_true_le o new : binds_right o new = true -> prec o <= prec new.
  Proof.
    unfold binds_right. intros H. apply orb_true_iff in H as [H|H]; [apply Nat.ltb_lt in H; lia|].
    apply andb_true_iff in H as [_ H]. apply Nat.eqb_eq in H. lia.
  Qed.

  Lemma ok_root_min : forall t, ok t -> match root t with Some o => allp (fun x => prec o <= prec x) t | None => True end.
  Proof.
    induction t as [a|o l IHl r IHr]; intros H; [exact I|]. cbn [root]. cbn [ok] in H. destruct H as (Hl & Hr & Hlc & Hrc).
    unfold allp. cbn [toks]. apply Forall_app. split; [|constructor; [cbn; lia|]].
    - specialize (IHl Hl). unfold lcond in Hlc. destruct (root l) as [ol|] eqn:E.
      + apply binds_false_le in Hlc. unfold allp in IHl. eapply Forall_impl; [|exact IHl]. cbn. intros x Hx. lia.
      + destruct l; [constructor|discriminate].
    - specialize (IHr Hr). unfold rcond in Hrc. destruct (root r) as [p|] eqn:E.
      + apply binds_true_le in Hrc. unfold allp in IHr. eapply Forall_impl; [|exact IHr]. cbn. intros x Hx. lia.
      + destruct r; [constructor|discriminate].
  Qed.

  Lemma ok_right_strict o l r : ok (Node o l r) -> lvl_right (prec o) = false -> allp (fun x => prec o < prec x) r.
  Proof.
    cbn [ok]. intros (_ & Hr & _ & Hrc) Hlv. pose proof (ok_root_min r Hr) as Hm. unfold rcond in Hrc.
    destruct (root r) as [p|] eqn:E; [|destruct r; [constructor|discriminate]].
    assert (prec o < prec p).
    { unfold binds_right in Hrc. apply orb_true_iff in Hrc as [H|H]; [apply Nat.ltb_lt in H; exact H|].
      apply andb_true_iff in H as [Hra He]. apply Nat.eqb_eq in He. unfold rassoc in Hra. rewrite He, Hlv in Hra. discriminate. }
    unfold allp in *. eapply Forall_impl; [|exact Hm]. cbn. intros x Hx. lia.
  Qed.

  Lemma ok_left_strict o l r : ok (Node o l r) -> lvl_right (prec o) = true -> allp (fun x => prec o < prec x) l.
  Proof.
    cbn [ok]. intros (Hl & _ & Hlc & _) Hlv. pose proof (ok_root_min l Hl) as Hm. unfold lcond in Hlc.
    destruct (root l) as [ol|] eqn:E; [|destruct l; [constructor|discriminate]].
    assert (prec o < prec ol).
    { unfold binds_right in Hlc. apply orb_false_iff in Hlc as [H1 H2]. apply Nat.ltb_ge in H1.
      apply andb_false_iff in H2. unfold rassoc in H2. rewrite Hlv in H2. destruct H2 as [H2|H2]; [discriminate|].
      apply Nat.eqb_neq in H2. lia. }
    unfold allp in *. eapply Forall_impl; [|exact Hm]. cbn. intros x Hx. lia.
  Qed.

  Lemma split_position {A} : forall (a a' : list A) x x' b b',
    a ++ x :: b = a' ++ x' :: b' -> length a < length a' -> In x a' /\ In x' b.
  Proof.
    induction a as [|y a IH]; intros a' x x' b b' H Hl.
    - destruct a' as [|y' a']; [cbn in Hl; lia|]. cbn in H. inversion H; subst. split; [left; reflexivity|].
      apply in_or_app. right. left. reflexivity.
    - destruct a' as [|y' a']; [cbn in Hl; lia|]. cbn in H. inversion H; subst. cbn [length] in Hl.
      destruct (IH a' x x' b b' H2 ltac:(lia)) as [H1 H3]. split; [right; exact H1|exact H3].
  Qed.

  Lemma roots_same_position o l r o' l' r' :
    ok (Node o l r) -> ok (Node o' l' r') -> toks (Node o l r) = toks (Node o' l' r') -> ~ length (toks l) < length (toks l').
  Proof.
    intros H1 H2 Ht Hlt. cbn [toks] in Ht. destruct (split_position _ _ _ _ _ _ Ht Hlt) as [Hin1 Hin2].
    (* o sits inside l', o' inside r *)
    pose proof (ok_root_min _ H1) as M1. pose proof (ok_root_min _ H2) as M2. cbn [root] in M1, M2. unfold allp in M1, M2.
    cbn [toks] in M1, M2. apply Forall_app in M1 as [_ M1]. inversion M1 as [|? ? _ M1r]; subst.
    apply Forall_app in M2 as [M2l _].
    rewrite Forall_forall in M1r, M2l. pose proof (M1r _ Hin2) as Ha. pose proof (M2l _ Hin1) as Hb. cbn [fst] in Ha, Hb.
    assert (He : prec o = prec o') by lia.
    destruct (lvl_right (prec o)) eqn:Hlv.
    - pose proof (ok_left_strict _ _ _ H2) as S. rewrite <- He in S. specialize (S Hlv). unfold allp in S. rewrite Forall_forall in S.
      specialize (S _ Hin1). cbn [fst] in S. lia.
    - pose proof (ok_right_strict _ _ _ H1 Hlv) as S. unfold allp in S. rewrite Forall_forall in S.
      specialize (S _ Hin2). cbn [fst] in S. lia.
  Qed.

  Theorem ok_unique : forall t1 t2, ok t1 -> ok t2 -> first t1 = first t2 -> toks t1 = toks t2 -> t1 = t2.
  Proof.
    induction t1 as [a|o l IHl r IHr]; intros t2 H1 H2 Hf Ht.
    - destruct t2 as [a'|o' l' r']; [cbn in Hf; congruence|].
      cbn [toks] in Ht. destruct (toks l'); discriminate.
    - destruct t2 as [a'|o' l' r']; [cbn [toks] in Ht; destruct (toks l); discriminate|].
      assert (Hlen : length (toks l) = length (toks l')).
      { pose proof (roots_same_position _ _ _ _ _ _ H1 H2 Ht). pose proof (roots_same_position _ _ _ _ _ _ H2 H1 (eq_sym Ht)). lia. }
      cbn [toks] in Ht. apply app_inj_pivot_len in Ht; [|exact Hlen].
      destruct Ht as (Hl & Hx & Hr). inversion Hx; subst.
      cbn [ok] in H1, H2. destruct H1 as (Hl1 & Hr1 & _). destruct H2 as (Hl2 & Hr2 & _). cbn [first] in Hf.
      rewrite (IHl l' Hl1 Hl2 Hf Hl), (IHr r' Hr1 Hr2 H3 Hr). reflexivity.
  Qed.

  (* the flat spelling of a tree that respects the table is parsed back to that tree *)
  Theorem climber_complete : forall t, ok t -> parse (first t) (toks t) = Some (t, []).
  Proof.
    intros t Hok. destruct (climber_sound (first t) (toks t)) as (t' & Hp & Hf & Ht & Hok').
    rewrite Hp. f_equal. f_equal. apply ok_unique; auto.
  Qed.
End Climber.

Arguments Leaf {op atom}.
Arguments Node {op atom}.
