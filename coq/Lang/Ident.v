(* Model of the special-prefix interner (src/util/special_prefix_interner.rs): an identifier is the special symbol
   Item n exactly when it is the canonical spelling "item<n>" (anchored regex, digits without leading zeros, n <= 2^16); every
   other identifier is an ordinary interned string.  Distinct identifiers never share a symbol. *)
From Coq Require Import String Ascii NArith Decimal DecimalString DecimalN List Lia.
Open Scope string_scope.

Inductive sym := Item (n : N) | Regular (s : string).

Definition canonical (d : uint) : bool := if uint_eq_dec (unorm d) d then true else false.

Definition intern (s : string) : sym :=
  match s with
  | String "i" (String "t" (String "e" (String "m" ds))) =>
      match ds with
      | EmptyString => Regular s
      | _ =>
        match NilEmpty.uint_of_string ds with
        | Some d => if canonical d then (let n := N.of_uint d in if (n <=? 65536)%N then Item n else Regular s) else Regular s
        | None => Regular s
        end
      end
  | _ => Regular s
  end.

Lemma intern_item s n : intern s = Item n ->
  exists ds d, s = "item" ++ ds /\ NilEmpty.uint_of_string ds = Some d /\ unorm d = d /\ N.of_uint d = n.
Proof.
  unfold intern.
  destruct s as [|c1 s]; [discriminate|]. destruct c1 as [[] [] [] [] [] [] [] []]; try discriminate.
  destruct s as [|c2 s]; [discriminate|]. destruct c2 as [[] [] [] [] [] [] [] []]; try discriminate.
  destruct s as [|c3 s]; [discriminate|]. destruct c3 as [[] [] [] [] [] [] [] []]; try discriminate.
  destruct s as [|c4 s]; [discriminate|]. destruct c4 as [[] [] [] [] [] [] [] []]; try discriminate.
  destruct s as [|c5 s]; [discriminate|].
  destruct (NilEmpty.uint_of_string (String c5 s)) as [d|] eqn:E; [|discriminate].
  unfold canonical. destruct (uint_eq_dec (unorm d) d) as [Hc|]; [|discriminate].
  destruct (N.of_uint d <=? 65536)%N; [|discriminate].
  intros H. injection H as <-. exists (String c5 s), d. repeat split; auto.
Qed.

(* distinct identifiers never alias: the interner is injective on ALL strings *)
Theorem intern_injective s t : intern s = intern t -> s = t.
Proof.
  intros H. destruct (intern s) as [n|r] eqn:Es.
  - symmetry in H. apply intern_item in Es. apply intern_item in H.
    destruct Es as (ds & d & -> & Hd & Hc & Hn). destruct H as (ds' & d' & -> & Hd' & Hc' & Hn').
    f_equal. apply NilEmpty.sus in Hd. apply NilEmpty.sus in Hd'. rewrite <- Hd, <- Hd'. f_equal.
    rewrite <- Hc, <- Hc'. apply Unsigned.of_inj. congruence.
  - assert (Hreg : forall u r0, intern u = Regular r0 -> r0 = u).
    { intros u r0. unfold intern.
      repeat match goal with
      | |- context [match ?x with _ => _ end] => destruct x; try (intros [= <-]; reflexivity); try discriminate
      end. }
    symmetry in H. apply Hreg in Es. apply Hreg in H. congruence.
Qed.

(* total: never a crash, whatever the spelling (20 digits, leading zeros, suffixes ...) *)
Example intern_examples :
  intern "item1" = Item 1 /\ intern "item1x" = Regular "item1x" /\ intern "item01" = Regular "item01" /\
  intern "item0" = Item 0 /\ intern "item" = Regular "item" /\ intern "xitem1" = Regular "xitem1" /\
  intern "item99999999999999999999999" = Regular "item99999999999999999999999" /\ intern "item65536" = Item 65536 /\
  intern "item65537" = Regular "item65537".
Proof. vm_compute. repeat split; reflexivity. Qed.
