(* Unbounded soundness of the forward-declaration gate (Lang/Forward.v): for EVERY well-formed program (a callee has a
   smaller name than its caller) and every invocation the compiler's bookkeeping accepts, no function reachable from the
   invoked one lacks a body. *)
From Coq Require Import List Arith Bool Lia.
From Xr Require Import Lang.Forward.
Import ListNotations.

(* ---------------------------------------------------------------- lookups *)
Definition fw (s : state) (g : nat) : option (bool * list nat) :=
  match find_fwd s g with Some e => Some (fulfilled e, impl_reqs e) | None => None end.

Lemma find_app_single {A} (p : A -> bool) l e :
  find p (l ++ [e]) = match find p l with Some x => Some x | None => if p e then Some e else None end.
Proof. induction l as [|a l IH]; cbn; [destruct (p e); reflexivity|]. destruct (p a); [reflexivity|exact IH]. Qed.

Lemma find_map_replace (f : nat) (new : fwd_entry) (Hn : fname new = f) l x :
  find (fun e => Nat.eqb (fname e) x) (map (fun e' => if Nat.eqb (fname e') f then new else e') l) =
  match find (fun e => Nat.eqb (fname e) x) l with
  | Some e => Some (if Nat.eqb (fname e) f then new else e)
  | None => None
  end.
Proof.
  subst f. induction l as [|a l IH]; [reflexivity|]. cbn [map find].
  destruct (Nat.eqb (fname a) (fname new)) eqn:Ea.
  - apply Nat.eqb_eq in Ea. rewrite Ea. destruct (Nat.eqb (fname new) x) eqn:Ex.
    + rewrite <- Ea, Nat.eqb_refl. reflexivity.
    + exact IH.
  - destruct (Nat.eqb (fname a) x) eqn:Ex; [rewrite Ea; reflexivity|exact IH].
Qed.

(* ---------------------------------------------------------------- inductive readings *)
Inductive Unmet (s : state) : nat -> Prop :=
| U_undeclared r : fw s r = None -> Unmet s r
| U_pending r l : fw s r = Some (false, l) -> Unmet s r
| U_via r l r' : fw s r = Some (true, l) -> In r' l -> Unmet s r' -> Unmet s r.

Inductive Safe (s : state) : nat -> Prop :=
| S_body f cs : body_of s f = Some cs -> (forall c, In c cs -> Safe s c) -> Safe s f.

Definition declared (s : state) (c : nat) : Prop := reqs_of s c <> None.

Record Inv (s : state) : Prop := {
  inv_impl : forall r l, fw s r = Some (true, l) -> forall r', In r' l -> r' < r /\ fw s r' <> None;
  inv_fn : forall f l, find_fn s f = Some l -> forall r, In r l -> r < f /\ fw s r <> None;
  inv_body : forall f cs, body_of s f = Some cs -> forall c, In c cs -> c < f /\ declared s c;
  inv_has_body : forall f, (find_fn s f <> None \/ exists l, fw s f = Some (true, l)) -> body_of s f <> None;
  inv_disjoint : forall f, fw s f <> None -> find_fn s f = None;
  inv_cover : forall f cs, body_of s f = Some cs -> forall c lc, In c cs -> reqs_of s c = Some lc ->
              forall r, In r lc -> Unmet s r ->
              (forall l, find_fn s f = Some l -> In r l) /\ (forall l, fw s f = Some (true, l) -> In r l)
}.

(* the boolean tests mean the inductive predicates *)
Lemma unmet_reflect s : Inv s -> forall fuel r, r < fuel -> (unmet fuel s r = true <-> Unmet s r).
Proof.
  intros HI. induction fuel as [|fuel IH]; intros r Hr; [lia|]. cbn [unmet]. unfold fw in *.
  destruct (find_fwd s r) as [e|] eqn:E.
  - destruct (fulfilled e) eqn:Ef.
    + split.
      * intros H. apply existsb_exists in H as (r' & Hin & Hu).
        assert (Hlt : r' < r).
        { apply (inv_impl s HI r (impl_reqs e)); [unfold fw; rewrite E, Ef; reflexivity|exact Hin]. }
        eapply U_via; [unfold fw; rewrite E, Ef; reflexivity|exact Hin|]. apply IH; [lia|exact Hu].
      * intros H. inversion H as [? H0|? ? H0|? l r' H0 Hin Hu]; subst; unfold fw in H0; rewrite E in H0; try discriminate.
        -- rewrite Ef in H0. discriminate.
        -- rewrite Ef in H0. inversion H0; subst. apply existsb_exists. exists r'. split; [exact Hin|].
           assert (Hlt : r' < r).
           { apply (inv_impl s HI r (impl_reqs e)); [unfold fw; rewrite E, Ef; reflexivity|exact Hin]. }
           apply IH; [lia|exact Hu].
    + split; [intros _; eapply U_pending; unfold fw; rewrite E, Ef; reflexivity|reflexivity].
  - split; [intros _; apply U_undeclared; unfold fw; rewrite E; reflexivity|reflexivity].
Qed.

Lemma unmet_now_reflect s r : Inv s -> (unmet_now s r = true <-> Unmet s r).
Proof. intros HI. apply unmet_reflect; [exact HI|lia]. Qed.

Lemma safe_reflect s : Inv s -> forall fuel f, f < fuel -> (safe fuel s f = true <-> Safe s f).
Proof.
  intros HI. induction fuel as [|fuel IH]; intros f Hf; [lia|]. cbn [safe].
  destruct (body_of s f) as [cs|] eqn:E.
  - split.
    + intros H. rewrite forallb_forall in H. econstructor; [exact E|]. intros c Hc.
      apply IH; [destruct (inv_body s HI f cs E c Hc); lia|apply H; exact Hc].
    + intros H. inversion H as [? cs' E' Hall]; subst. rewrite E in E'. inversion E'; subst.
      apply forallb_forall. intros c Hc. apply IH; [destruct (inv_body s HI f cs' E c Hc); lia|apply Hall; exact Hc].
  - split; [discriminate|]. intros H. inversion H as [? cs' E' _]; subst. rewrite E in E'. discriminate.
Qed.

(* ---------------------------------------------------------------- the gate is sound in every state that satisfies Inv *)
Theorem accepted_is_safe s : Inv s -> forall f l, reqs_of s f = Some l -> (forall r, In r l -> ~ Unmet s r) -> Safe s f.
Proof.
  intros HI f. induction f as [f IH] using lt_wf_ind. intros l Hl Hmet.
  assert (Hbody : body_of s f <> None /\
                  ((exists lf, find_fn s f = Some lf /\ fw s f = None /\ l = lf) \/
                   (exists li, fw s f = Some (true, li) /\ (forall r', In r' li -> ~ Unmet s r')))).
  { unfold reqs_of in Hl. destruct (find_fwd s f) as [e|] eqn:E.
    - inversion Hl; subst.
      assert (Hfw : fw s f = Some (fulfilled e, impl_reqs e)) by (unfold fw; rewrite E; reflexivity).
      destruct (fulfilled e) eqn:Ef.
      + split; [apply (inv_has_body s HI); right; eauto|]. right. exists (impl_reqs e). split; [exact Hfw|].
        intros r' Hin Hu. apply (Hmet f (or_introl eq_refl)). eapply U_via; eauto.
      + exfalso. apply (Hmet f (or_introl eq_refl)). eapply U_pending; eauto.
    - split; [apply (inv_has_body s HI); left; congruence|]. left. exists l. repeat split; auto. unfold fw. rewrite E. reflexivity. }
  destruct Hbody as [Hb Hkind]. destruct (body_of s f) as [cs|] eqn:Eb; [|congruence].
  econstructor; [exact Eb|]. intros c Hc.
  destruct (inv_body s HI f cs Eb c Hc) as [Hlt Hdecl]. unfold declared in Hdecl.
  destruct (reqs_of s c) as [lc|] eqn:Ec; [|congruence].
  apply (IH c Hlt lc Ec). intros r Hr Hu.
  destruct (inv_cover s HI f cs Eb c lc Hc Ec r Hr Hu) as [Cfn Cfw].
  destruct Hkind as [(lf & Hfn & _ & ->)|(li & Hfw & Hall)].
  - apply (Hmet r); [apply Cfn; exact Hfn|exact Hu].
  - apply (Hall r); [apply Cfw; exact Hfw|exact Hu].
Qed.

(* ---------------------------------------------------------------- the three kinds of successor states *)
Definition s_fwd (s : state) (g : nat) : state :=
  {| fwds := fwds s ++ [{| fname := g; fulfilled := false; impl_reqs := [] |}]; fns := fns s; bodies := bodies s |}.
Definition s_plain (s : state) (f : nat) (rec cs : list nat) : state :=
  {| fwds := fwds s; fns := (f, rec) :: fns s; bodies := (f, cs) :: bodies s |}.
Definition s_ful (s : state) (f : nat) (rec cs : list nat) : state :=
  {| fwds := map (fun e' => if Nat.eqb (fname e') f then {| fname := f; fulfilled := true; impl_reqs := rec |} else e') (fwds s);
     fns := fns s; bodies := (f, cs) :: bodies s |}.
Definition all_reqs (s : state) (cs : list nat) : list nat :=
  flat_map (fun c => match reqs_of s c with Some l => l | None => [] end) cs.
Definition recorded (s : state) (cs : list nat) : list nat := filter (unmet_now s) (all_reqs s cs).

Lemma reqs_of_fw s x : reqs_of s x = match fw s x with Some _ => Some [x] | None => find_fn s x end.
Proof. unfold reqs_of, fw. destruct (find_fwd s x); reflexivity. Qed.
Lemma fw_none s x : fw s x = None <-> find_fwd s x = None.
Proof. unfold fw. destruct (find_fwd s x); split; congruence. Qed.

Lemma fw_s_fwd s g x : find_fwd s g = None -> fw (s_fwd s g) x = if Nat.eqb x g then Some (false, []) else fw s x.
Proof.
  intros Hg. unfold fw, find_fwd, s_fwd. cbn [fwds]. rewrite find_app_single. cbn [fname].
  destruct (Nat.eqb_spec x g) as [->|Hx].
  - unfold find_fwd in Hg. rewrite Hg, Nat.eqb_refl. reflexivity.
  - destruct (find (fun e => Nat.eqb (fname e) x) (fwds s)); [reflexivity|].
    destruct (Nat.eqb_spec g x); [congruence|reflexivity].
Qed.
Lemma fw_s_ful s f rec cs x e0 : find_fwd s f = Some e0 ->
  fw (s_ful s f rec cs) x = if Nat.eqb x f then Some (true, rec) else fw s x.
Proof.
  intros Hf. unfold fw, find_fwd, s_ful. cbn [fwds].
  rewrite (find_map_replace f {| fname := f; fulfilled := true; impl_reqs := rec |} eq_refl).
  destruct (Nat.eqb_spec x f) as [->|Hx].
  - unfold find_fwd in Hf. rewrite Hf. apply find_some in Hf as [_ Hn]. rewrite Hn. reflexivity.
  - destruct (find (fun e => Nat.eqb (fname e) x) (fwds s)) as [e|] eqn:E; [|reflexivity].
    apply find_some in E as [_ Hn]. apply Nat.eqb_eq in Hn. destruct (Nat.eqb_spec (fname e) f); [congruence|reflexivity].
Qed.
Lemma fn_cons s f rec cs x : find_fn (s_plain s f rec cs) x = if Nat.eqb x f then Some rec else find_fn s x.
Proof.
  unfold find_fn, s_plain. cbn [fns find fst]. destruct (Nat.eqb_spec f x) as [->|H]; [rewrite Nat.eqb_refl; reflexivity|].
  destruct (Nat.eqb_spec x f); [congruence|reflexivity].
Qed.
Lemma body_cons bs f cs x : match find (fun p : nat * list nat => Nat.eqb (fst p) x) ((f, cs) :: bs) with Some p => Some (snd p) | None => None end
  = if Nat.eqb x f then Some cs else match find (fun p : nat * list nat => Nat.eqb (fst p) x) bs with Some p => Some (snd p) | None => None end.
Proof.
  cbn [find fst]. destruct (Nat.eqb_spec f x) as [->|H]; [rewrite Nat.eqb_refl; reflexivity|].
  destruct (Nat.eqb_spec x f); [congruence|reflexivity].
Qed.

(* an unmet requirement stays unmet when we go back in time *)
Lemma unmet_mono s s' g : (forall r, r <> g -> fw s' r = fw s r) -> Unmet s g -> forall r, Unmet s' r -> Unmet s r.
Proof.
  intros Hsame Hg r H. induction H as [r H|r l H|r l r' H Hin _ IH].
  - destruct (Nat.eq_dec r g) as [->|Hr]; [exact Hg|]. apply U_undeclared. rewrite <- Hsame; assumption.
  - destruct (Nat.eq_dec r g) as [->|Hr]; [exact Hg|]. eapply U_pending. rewrite <- Hsame; eassumption.
  - destruct (Nat.eq_dec r g) as [->|Hr]; [exact Hg|]. eapply U_via; [rewrite <- Hsame; eassumption|exact Hin|exact IH].
Qed.
Lemma unmet_same s s' : (forall r, fw s' r = fw s r) -> forall r, Unmet s' r -> Unmet s r.
Proof.
  intros Hsame r H. induction H as [r H|r l H|r l r' H Hin _ IH].
  - apply U_undeclared. rewrite <- Hsame; assumption.
  - eapply U_pending. rewrite <- Hsame; eassumption.
  - eapply U_via; [rewrite <- Hsame; eassumption|exact Hin|exact IH].
Qed.

Lemma in_recorded s cs r : Inv s -> In r (recorded s cs) ->
  Unmet s r /\ exists c lc, In c cs /\ reqs_of s c = Some lc /\ In r lc.
Proof.
  intros HI H. unfold recorded in H. apply filter_In in H as [Hall Hu]. split; [apply unmet_now_reflect; assumption|].
  unfold all_reqs in Hall. apply in_flat_map in Hall as (c & Hc & Hr). destruct (reqs_of s c) as [lc|] eqn:E; [|contradiction]. eauto.
Qed.
Lemma recorded_complete s cs c lc r : Inv s -> In c cs -> reqs_of s c = Some lc -> In r lc -> Unmet s r -> In r (recorded s cs).
Proof.
  intros HI Hc Hl Hr Hu. unfold recorded. apply filter_In. split; [|apply unmet_now_reflect; assumption].
  unfold all_reqs. apply in_flat_map. exists c. split; [exact Hc|]. rewrite Hl. exact Hr.
Qed.

(* a requirement carried by a declared name c is a declared forward declaration not larger than c *)
Lemma req_small s c lc r : Inv s -> reqs_of s c = Some lc -> In r lc -> r <= c /\ fw s r <> None.
Proof.
  intros HI Hl Hr. rewrite reqs_of_fw in Hl. destruct (fw s c) eqn:E.
  - inversion Hl; subst. destruct Hr as [<-|[]]. split; [lia|congruence].
  - destruct (inv_fn s HI c lc Hl r Hr). split; [lia|assumption].
Qed.

Definition wf_event (e : event) : Prop := match e with Def f cs => forall c, In c cs -> c < f | _ => True end.

Lemma declared_dec s c : declared s c <-> (fw s c <> None \/ find_fn s c <> None).
Proof.
  unfold declared. rewrite reqs_of_fw. destruct (fw s c); split; intros H; try (left; congruence); try congruence.
  - right. exact H.
  - destruct H as [H|H]; [congruence|exact H].
Qed.

Lemma inv_empty : Inv empty.
Proof. constructor; unfold fw, find_fwd, find_fn, body_of; cbn; try discriminate; try congruence.
  - intros f [H|[l H]]; [congruence|discriminate].
Qed.

Lemma inv_s_fwd s g : Inv s -> find_fwd s g = None -> find_fn s g = None -> Inv (s_fwd s g).
Proof.
  intros HI Hg Hgn.
  assert (Hfw := fun x => fw_s_fwd s g x Hg).
  assert (Hfn : forall x, find_fn (s_fwd s g) x = find_fn s x) by reflexivity.
  assert (Hbd : forall x, body_of (s_fwd s g) x = body_of s x) by reflexivity.
  assert (Hkeep : forall r, fw s r <> None -> fw (s_fwd s g) r <> None).
  { intros r H. rewrite Hfw. destruct (Nat.eqb r g); [discriminate|exact H]. }
  assert (Hug : Unmet s g) by (apply U_undeclared; apply fw_none; exact Hg).
  assert (Hdecl : forall c, declared s c -> declared (s_fwd s g) c).
  { intros c. rewrite !declared_dec, Hfn. intros [H|H]; [left; apply Hkeep; exact H|right; exact H]. }
  assert (Hreq : forall c, declared s c -> reqs_of (s_fwd s g) c = reqs_of s c).
  { intros c Hc. rewrite !reqs_of_fw, Hfw, Hfn. destruct (Nat.eqb_spec c g) as [->|Hne]; [|reflexivity].
    exfalso. apply declared_dec in Hc as [H|H]; [apply fw_none in Hg; congruence|congruence]. }
  constructor.
  - intros r l H r' Hin. rewrite Hfw in H. destruct (Nat.eqb r g); [discriminate|].
    destruct (inv_impl s HI r l H r' Hin). split; [assumption|apply Hkeep; assumption].
  - intros f l H r Hin. rewrite Hfn in H. destruct (inv_fn s HI f l H r Hin). split; [assumption|apply Hkeep; assumption].
  - intros f cs H c Hin. rewrite Hbd in H. destruct (inv_body s HI f cs H c Hin). split; [assumption|apply Hdecl; assumption].
  - intros f H. rewrite Hbd. apply (inv_has_body s HI). destruct H as [H|[l H]]; [left; rewrite Hfn in H; exact H|].
    right. rewrite Hfw in H. destruct (Nat.eqb f g); [discriminate|eauto].
  - intros f H. rewrite Hfn. rewrite Hfw in H. destruct (Nat.eqb_spec f g) as [E|Hne]; [rewrite E; exact Hgn|apply (inv_disjoint s HI); exact H].
  - intros f cs Hb c lc Hc Hl r Hr Hu. rewrite Hbd in Hb.
    destruct (inv_body s HI f cs Hb c Hc) as [_ Hdc]. rewrite (Hreq c Hdc) in Hl.
    destruct (req_small s c lc r HI Hl Hr) as [_ Hrd].
    assert (Hus : Unmet s r).
    { eapply (unmet_mono s (s_fwd s g) g); [|exact Hug|exact Hu]. intros r0 Hr0. rewrite Hfw.
      destruct (Nat.eqb_spec r0 g); [contradiction|reflexivity]. }
    destruct (inv_cover s HI f cs Hb c lc Hc Hl r Hr Hus) as [C1 C2]. split.
    + intros l Hl'. rewrite Hfn in Hl'. apply C1; exact Hl'.
    + intros l Hl'. rewrite Hfw in Hl'. destruct (Nat.eqb f g); [discriminate|apply C2; exact Hl'].
Qed.

Lemma inv_s_plain s f cs : Inv s -> fw s f = None -> find_fn s f = None ->
  (forall c, In c cs -> c < f /\ declared s c) -> Inv (s_plain s f (recorded s cs) cs).
Proof.
  intros HI Hf Hfnone Hcs. set (s' := s_plain s f (recorded s cs) cs).
  assert (Hfw : forall x, fw s' x = fw s x) by reflexivity.
  assert (Hfn := fn_cons s f (recorded s cs) cs).
  assert (Hbd : forall x, body_of s' x = if Nat.eqb x f then Some cs else body_of s x).
  { intros x. unfold body_of, s', s_plain. cbn [bodies]. apply body_cons. }
  assert (Hdecl : forall c, declared s c -> declared s' c).
  { intros c. rewrite !declared_dec, Hfw, Hfn. intros [H|H]; [left; exact H|right]. destruct (Nat.eqb c f); [discriminate|exact H]. }
  assert (Hundecl : ~ declared s f) by (rewrite declared_dec; intros [H|H]; congruence).
  assert (Hreq : forall c, declared s c -> reqs_of s' c = reqs_of s c).
  { intros c Hc. rewrite !reqs_of_fw, Hfw, Hfn. destruct (Nat.eqb_spec c f) as [->|Hne]; [contradiction|reflexivity]. }
  constructor.
  - intros r l H r' Hin. rewrite Hfw in *. apply (inv_impl s HI r l H r' Hin).
  - intros f0 l H r Hin. rewrite Hfn in H. rewrite Hfw. destruct (Nat.eqb_spec f0 f) as [->|Hne].
    + inversion H; subst. destruct (in_recorded s cs r HI Hin) as (_ & c & lc & Hc & Hl & Hr).
      destruct (req_small s c lc r HI Hl Hr). destruct (Hcs c Hc). split; [lia|assumption].
    + apply (inv_fn s HI f0 l H r Hin).
  - intros f0 cs0 H c Hin. rewrite Hbd in H. destruct (Nat.eqb_spec f0 f) as [->|Hne].
    + inversion H; subst. destruct (Hcs c Hin). split; [assumption|apply Hdecl; assumption].
    + destruct (inv_body s HI f0 cs0 H c Hin). split; [assumption|apply Hdecl; assumption].
  - intros f0 H. rewrite Hbd. destruct (Nat.eqb_spec f0 f) as [->|Hne]; [discriminate|].
    apply (inv_has_body s HI). rewrite Hfn in H. destruct (Nat.eqb_spec f0 f); [contradiction|]. rewrite Hfw in H. exact H.
  - intros f0 H. rewrite Hfw in H. rewrite Hfn. destruct (Nat.eqb_spec f0 f) as [->|Hne]; [congruence|apply (inv_disjoint s HI); exact H].
  - intros f0 cs0 Hb c lc Hc Hl r Hr Hu. rewrite Hbd in Hb.
    assert (Hus : Unmet s r) by (eapply (unmet_same s s'); [exact Hfw|exact Hu]).
    destruct (Nat.eqb_spec f0 f) as [->|Hne].
    + inversion Hb; subst. destruct (Hcs c Hc) as [_ Hdc]. rewrite (Hreq c Hdc) in Hl. split.
      * intros l Hl'. rewrite Hfn, Nat.eqb_refl in Hl'. inversion Hl'; subst. eapply recorded_complete; eauto.
      * intros l Hl'. rewrite Hfw in Hl'. congruence.
    + destruct (inv_body s HI f0 cs0 Hb c Hc) as [_ Hdc]. rewrite (Hreq c Hdc) in Hl.
      destruct (inv_cover s HI f0 cs0 Hb c lc Hc Hl r Hr Hus) as [C1 C2]. split.
      * intros l Hl'. rewrite Hfn in Hl'. destruct (Nat.eqb_spec f0 f); [contradiction|apply C1; exact Hl'].
      * intros l Hl'. rewrite Hfw in Hl'. apply C2; exact Hl'.
Qed.

Lemma inv_s_ful s f cs e0 : Inv s -> find_fwd s f = Some e0 -> fulfilled e0 = false ->
  (forall c, In c cs -> c < f /\ declared s c) -> Inv (s_ful s f (recorded s cs) cs).
Proof.
  intros HI Hf Hpend Hcs. set (s' := s_ful s f (recorded s cs) cs).
  assert (Hfw := fun x => fw_s_ful s f (recorded s cs) cs x e0 Hf).
  assert (Hfn : forall x, find_fn s' x = find_fn s x) by reflexivity.
  assert (Hbd : forall x, body_of s' x = if Nat.eqb x f then Some cs else body_of s x).
  { intros x. unfold body_of, s', s_ful. cbn [bodies]. apply body_cons. }
  assert (Hfwf : fw s f = Some (false, impl_reqs e0)) by (unfold fw; rewrite Hf, Hpend; reflexivity).
  assert (Hkeep : forall r, fw s r <> None -> fw s' r <> None).
  { intros r H. unfold s'. rewrite Hfw. destruct (Nat.eqb r f); [discriminate|exact H]. }
  assert (Hreq : forall c, reqs_of s' c = reqs_of s c).
  { intros c. rewrite !reqs_of_fw. unfold s' at 1. rewrite Hfw, Hfn. destruct (Nat.eqb_spec c f) as [->|Hne]; [rewrite Hfwf; reflexivity|reflexivity]. }
  assert (Hdecl : forall c, declared s c -> declared s' c) by (intros c; unfold declared; rewrite Hreq; auto).
  assert (Huf : Unmet s f) by (eapply U_pending; exact Hfwf).
  assert (Hmono : forall r, Unmet s' r -> Unmet s r).
  { apply (unmet_mono s s' f); [|exact Huf]. intros r0 Hr0. unfold s'. rewrite Hfw. destruct (Nat.eqb_spec r0 f); [contradiction|reflexivity]. }
  constructor.
  - intros r l H r' Hin. unfold s' in H. rewrite Hfw in H. destruct (Nat.eqb_spec r f) as [->|Hne].
    + inversion H; subst. destruct (in_recorded s cs r' HI Hin) as (_ & c & lc & Hc & Hl & Hr).
      destruct (req_small s c lc r' HI Hl Hr). destruct (Hcs c Hc). split; [lia|apply Hkeep; assumption].
    + destruct (inv_impl s HI r l H r' Hin). split; [assumption|apply Hkeep; assumption].
  - intros f0 l H r Hin. rewrite Hfn in H. destruct (inv_fn s HI f0 l H r Hin). split; [assumption|apply Hkeep; assumption].
  - intros f0 cs0 H c Hin. rewrite Hbd in H. destruct (Nat.eqb_spec f0 f) as [->|Hne].
    + inversion H; subst. destruct (Hcs c Hin). split; [assumption|apply Hdecl; assumption].
    + destruct (inv_body s HI f0 cs0 H c Hin). split; [assumption|apply Hdecl; assumption].
  - intros f0 H. rewrite Hbd. destruct (Nat.eqb_spec f0 f) as [->|Hne]; [discriminate|].
    apply (inv_has_body s HI). destruct H as [H|[l H]]; [left; rewrite Hfn in H; exact H|].
    right. unfold s' in H. rewrite Hfw in H. destruct (Nat.eqb_spec f0 f); [contradiction|eauto].
  - intros f0 H. rewrite Hfn. unfold s' in H. rewrite Hfw in H. destruct (Nat.eqb_spec f0 f) as [E|Hne].
    + rewrite E. apply (inv_disjoint s HI). congruence.
    + apply (inv_disjoint s HI); exact H.
  - intros f0 cs0 Hb c lc Hc Hl r Hr Hu. rewrite Hbd in Hb. rewrite Hreq in Hl. pose proof (Hmono r Hu) as Hus.
    destruct (Nat.eqb_spec f0 f) as [->|Hne].
    + inversion Hb; subst. split.
      * intros l Hl'. rewrite Hfn in Hl'. rewrite (inv_disjoint s HI f) in Hl' by congruence. discriminate.
      * intros l Hl'. unfold s' in Hl'. rewrite Hfw, Nat.eqb_refl in Hl'. inversion Hl'; subst. eapply recorded_complete; eauto.
    + destruct (inv_cover s HI f0 cs0 Hb c lc Hc Hl r Hr Hus) as [C1 C2]. split.
      * intros l Hl'. rewrite Hfn in Hl'. apply C1; exact Hl'.
      * intros l Hl'. unfold s' in Hl'. rewrite Hfw in Hl'. destruct (Nat.eqb_spec f0 f); [contradiction|apply C2; exact Hl'].
Qed.

Lemma step_inv s e s' : Inv s -> wf_event e -> step s e = Ok s' -> Inv s'.
Proof.
  intros HI Hwf H. destruct e as [g|f cs|f]; cbn [step] in H.
  - destruct (reqs_of s g) eqn:E; [discriminate|]. inversion H; subst.
    unfold reqs_of in E. destruct (find_fwd s g) eqn:Eg; [discriminate|].
    apply (inv_s_fwd s g HI Eg E).
  - destruct (forallb (fun c => match reqs_of s c with Some _ => true | None => false end) cs) eqn:Ed; [|discriminate].
    assert (Hcs : forall c, In c cs -> c < f /\ declared s c).
    { intros c Hc. split; [apply Hwf; exact Hc|]. rewrite forallb_forall in Ed. specialize (Ed c Hc). unfold declared.
      destruct (reqs_of s c); [discriminate|discriminate]. }
    destruct (find_fwd s f) as [e0|] eqn:Ef.
    + destruct (fulfilled e0) eqn:Eful; [discriminate|]. inversion H; subst.
      exact (inv_s_ful s f cs e0 HI Ef Eful Hcs).
    + destruct (find_fn s f) eqn:Efn; [discriminate|]. inversion H; subst.
      apply (inv_s_plain s f cs HI); [apply fw_none; exact Ef|exact Efn|exact Hcs].
  - destruct (reqs_of s f); [|discriminate]. destruct (existsb (unmet_now s) l); [discriminate|]. inversion H; subst. exact HI.
Qed.

Lemma run_inv : forall es s0 s, Inv s0 -> Forall wf_event es -> run s0 es = Ok s -> Inv s.
Proof.
  induction es as [|e es IH]; intros s0 s HI HF H; cbn [run] in H.
  - inversion H; subst. exact HI.
  - inversion HF as [|? ? He Hes]; subst. destruct (step s0 e) as [s1| | |] eqn:E; try discriminate.
    apply (IH s1 s); [eapply step_inv; eauto|exact Hes|exact H].
Qed.

(* THE THEOREM: after any well-formed program, an invocation the gate accepts is safe - no function reachable from it through
   the bodies that exist lacks a body *)
Theorem gate_sound : forall es s f, Forall wf_event es -> run empty es = Ok s ->
  step s (Use f) = Ok s -> safe_now s f = true /\ Safe s f.
Proof.
  intros es s f HF Hrun Hstep. pose proof (run_inv es empty s inv_empty HF Hrun) as HI.
  cbn [step] in Hstep. destruct (reqs_of s f) as [l|] eqn:El; [|discriminate].
  destruct (existsb (unmet_now s) l) eqn:Ex; [discriminate|].
  assert (Hsafe : Safe s f).
  { apply (accepted_is_safe s HI f l El). intros r Hr Hu. apply (unmet_now_reflect s r HI) in Hu.
    assert (existsb (unmet_now s) l = true) by (apply existsb_exists; eauto). congruence. }
  split; [|exact Hsafe]. unfold safe_now. apply (safe_reflect s HI); [lia|exact Hsafe].
Qed.

(* and a rejected invocation really was unsafe: some requirement is unmet, i.e. a forward declaration without body is
   reachable through the recorded requirements *)
Theorem gate_rejects_unmet : forall es s f, Forall wf_event es -> run empty es = Ok s ->
  step s (Use f) = MissingForward -> exists l r, reqs_of s f = Some l /\ In r l /\ Unmet s r.
Proof.
  intros es s f HF Hrun Hstep. pose proof (run_inv es empty s inv_empty HF Hrun) as HI.
  cbn [step] in Hstep. destruct (reqs_of s f) as [l|] eqn:El; [|discriminate].
  destruct (existsb (unmet_now s) l) eqn:Ex; [|discriminate].
  apply existsb_exists in Ex as (r & Hr & Hu). exists l, r. repeat split; auto. apply unmet_now_reflect; assumption.
Qed.

(* ---------------------------------------------------------------- exactness: the gate rejects nothing that is safe *)
Record Inv2 (s : state) : Prop := {
  inv2_body_kind : forall f cs, body_of s f = Some cs -> find_fn s f <> None \/ exists l, fw s f = Some (true, l);
  inv2_fn_src : forall f l, find_fn s f = Some l -> forall r, In r l ->
                exists cs c lc, body_of s f = Some cs /\ In c cs /\ reqs_of s c = Some lc /\ In r lc;
  inv2_impl_src : forall f l, fw s f = Some (true, l) -> forall r, In r l ->
                exists cs c lc, body_of s f = Some cs /\ In c cs /\ reqs_of s c = Some lc /\ In r lc
}.

Theorem unmet_is_unsafe s : Inv s -> Inv2 s -> forall f l, reqs_of s f = Some l -> forall r, In r l -> Unmet s r -> ~ Safe s f.
Proof.
  intros HI H2 f. induction f as [f IH] using lt_wf_ind. intros l Hl r Hr Hu Hsafe.
  inversion Hsafe as [? cs Hb Hall]; subst.
  (* every unmet requirement of f comes from a callee that carries it *)
  assert (Hsrc : exists c lc, In c cs /\ reqs_of s c = Some lc /\ exists r0, In r0 lc /\ Unmet s r0).
  { rewrite reqs_of_fw in Hl. destruct (fw s f) as [[b li]|] eqn:Ef.
    - inversion Hl; subst. destruct Hr as [<-|[]].
      inversion Hu as [? H0|? ? H0|? l0 r' H0 Hin Hu']; subst; rewrite Ef in H0; try discriminate.
      + inversion H0; subst. destruct (inv2_body_kind s H2 f cs Hb) as [Hk|[l1 Hk]].
        * rewrite (inv_disjoint s HI f) in Hk by congruence. congruence.
        * congruence.
      + inversion H0; subst. destruct (inv2_impl_src s H2 f l0 Ef r' Hin) as (cs' & c & lc & Hb' & Hc & Hlc & Hrc).
        rewrite Hb in Hb'. inversion Hb'; subst. eauto 8.
    - destruct (inv2_fn_src s H2 f l Hl r Hr) as (cs' & c & lc & Hb' & Hc & Hlc & Hrc).
      rewrite Hb in Hb'. inversion Hb'; subst. eauto 8. }
  destruct Hsrc as (c & lc & Hc & Hlc & r0 & Hr0 & Hu0).
  destruct (inv_body s HI f cs Hb c Hc) as [Hlt _].
  exact (IH c Hlt lc Hlc r0 Hr0 Hu0 (Hall c Hc)).
Qed.

Lemma inv2_empty : Inv2 empty.
Proof. constructor; unfold fw, find_fwd, find_fn, body_of; cbn; discriminate. Qed.

Lemma reqs_stable_fwd s g c : find_fwd s g = None -> find_fn s g = None -> declared s c -> reqs_of (s_fwd s g) c = reqs_of s c.
Proof.
  intros Hg Hgn Hc. rewrite !reqs_of_fw, (fw_s_fwd s g c Hg). change (find_fn (s_fwd s g) c) with (find_fn s c).
  destruct (Nat.eqb_spec c g) as [E|Hne]; [|reflexivity]. exfalso. rewrite E in Hc.
  apply declared_dec in Hc as [H|H]; [apply fw_none in Hg; congruence|congruence].
Qed.

Lemma inv2_s_fwd s g : Inv s -> Inv2 s -> find_fwd s g = None -> find_fn s g = None -> Inv2 (s_fwd s g).
Proof.
  intros HI H2 Hg Hgn.
  assert (Hfw := fun x => fw_s_fwd s g x Hg).
  assert (Hdeclared : forall c lc, reqs_of s c = Some lc -> reqs_of (s_fwd s g) c = Some lc).
  { intros c lc H. rewrite reqs_stable_fwd; auto. unfold declared. congruence. }
  constructor.
  - intros f cs Hb. change (body_of (s_fwd s g) f) with (body_of s f) in Hb. change (find_fn (s_fwd s g) f) with (find_fn s f).
    destruct (inv2_body_kind s H2 f cs Hb) as [H|[l H]]; [left; exact H|right]. exists l. rewrite Hfw.
    destruct (Nat.eqb_spec f g) as [E|Hne]; [|exact H]. rewrite E in H. apply fw_none in Hg. congruence.
  - intros f l Hf r Hr. change (find_fn (s_fwd s g) f) with (find_fn s f) in Hf.
    destruct (inv2_fn_src s H2 f l Hf r Hr) as (cs & c & lc & Hb & Hc & Hlc & Hrc). exists cs, c, lc. repeat split; auto.
  - intros f l Hf r Hr. rewrite Hfw in Hf. destruct (Nat.eqb f g); [discriminate|].
    destruct (inv2_impl_src s H2 f l Hf r Hr) as (cs & c & lc & Hb & Hc & Hlc & Hrc). exists cs, c, lc. repeat split; auto.
Qed.

Lemma inv2_s_plain s f cs : Inv s -> Inv2 s -> fw s f = None -> find_fn s f = None ->
  (forall c, In c cs -> c < f /\ declared s c) -> Inv2 (s_plain s f (recorded s cs) cs).
Proof.
  intros HI H2 Hf Hfnone Hcs. set (s' := s_plain s f (recorded s cs) cs).
  assert (Hfw : forall x, fw s' x = fw s x) by reflexivity.
  assert (Hfn := fn_cons s f (recorded s cs) cs).
  assert (Hbd : forall x, body_of s' x = if Nat.eqb x f then Some cs else body_of s x).
  { intros x. unfold body_of, s', s_plain. cbn [bodies]. apply body_cons. }
  assert (Hundecl : ~ declared s f) by (rewrite declared_dec; intros [H|H]; congruence).
  assert (Hreq : forall c lc, reqs_of s c = Some lc -> reqs_of s' c = Some lc).
  { intros c lc H. rewrite reqs_of_fw, Hfw, Hfn. destruct (Nat.eqb_spec c f) as [E|Hne].
    - exfalso. apply Hundecl. rewrite <- E. unfold declared. congruence.
    - rewrite <- reqs_of_fw. exact H. }
  constructor.
  - intros f0 cs0 Hb. rewrite Hbd in Hb. rewrite Hfn, Hfw. destruct (Nat.eqb_spec f0 f) as [E|Hne]; [left; discriminate|].
    apply (inv2_body_kind s H2 f0 cs0 Hb).
  - intros f0 l Hl r Hr. rewrite Hfn in Hl. destruct (Nat.eqb_spec f0 f) as [E|Hne].
    + inversion Hl; subst. destruct (in_recorded s cs r HI Hr) as (_ & c & lc & Hc & Hlc & Hrc).
      exists cs, c, lc. rewrite Hbd, Nat.eqb_refl. repeat split; auto.
    + destruct (inv2_fn_src s H2 f0 l Hl r Hr) as (cs0 & c & lc & Hb & Hc & Hlc & Hrc). exists cs0, c, lc.
      rewrite Hbd. destruct (Nat.eqb_spec f0 f); [contradiction|]. repeat split; auto.
  - intros f0 l Hl r Hr. rewrite Hfw in Hl.
    destruct (inv2_impl_src s H2 f0 l Hl r Hr) as (cs0 & c & lc & Hb & Hc & Hlc & Hrc). exists cs0, c, lc.
    rewrite Hbd. destruct (Nat.eqb_spec f0 f) as [E|Hne]; [rewrite E in Hl; congruence|]. repeat split; auto.
Qed.

Lemma inv2_s_ful s f cs e0 : Inv s -> Inv2 s -> find_fwd s f = Some e0 -> fulfilled e0 = false ->
  (forall c, In c cs -> c < f /\ declared s c) -> Inv2 (s_ful s f (recorded s cs) cs).
Proof.
  intros HI H2 Hf Hpend Hcs. set (s' := s_ful s f (recorded s cs) cs).
  assert (Hfw := fun x => fw_s_ful s f (recorded s cs) cs x e0 Hf).
  assert (Hbd : forall x, body_of s' x = if Nat.eqb x f then Some cs else body_of s x).
  { intros x. unfold body_of, s', s_ful. cbn [bodies]. apply body_cons. }
  assert (Hfwf : fw s f = Some (false, impl_reqs e0)) by (unfold fw; rewrite Hf, Hpend; reflexivity).
  assert (Hreq : forall c, reqs_of s' c = reqs_of s c).
  { intros c. rewrite !reqs_of_fw. unfold s' at 1. rewrite Hfw. change (find_fn s' c) with (find_fn s c).
    destruct (Nat.eqb_spec c f) as [E|Hne]; [rewrite E, Hfwf; reflexivity|reflexivity]. }
  constructor.
  - intros f0 cs0 Hb. rewrite Hbd in Hb. change (find_fn s' f0) with (find_fn s f0). unfold s'. rewrite Hfw.
    destruct (Nat.eqb_spec f0 f) as [E|Hne]; [right; eauto|]. apply (inv2_body_kind s H2 f0 cs0 Hb).
  - intros f0 l Hl r Hr. change (find_fn s' f0) with (find_fn s f0) in Hl.
    destruct (inv2_fn_src s H2 f0 l Hl r Hr) as (cs0 & c & lc & Hb & Hc & Hlc & Hrc). exists cs0, c, lc.
    rewrite Hbd, Hreq. destruct (Nat.eqb_spec f0 f) as [E|Hne]; [|repeat split; auto].
    exfalso. rewrite E in Hl. rewrite (inv_disjoint s HI f) in Hl by congruence. discriminate.
  - intros f0 l Hl r Hr. unfold s' in Hl. rewrite Hfw in Hl. destruct (Nat.eqb_spec f0 f) as [E|Hne].
    + inversion Hl; subst. destruct (in_recorded s cs r HI Hr) as (_ & c & lc & Hc & Hlc & Hrc).
      exists cs, c, lc. rewrite Hbd, Nat.eqb_refl, Hreq. repeat split; auto.
    + destruct (inv2_impl_src s H2 f0 l Hl r Hr) as (cs0 & c & lc & Hb & Hc & Hlc & Hrc). exists cs0, c, lc.
      rewrite Hbd, Hreq. destruct (Nat.eqb_spec f0 f); [contradiction|]. repeat split; auto.
Qed.

Lemma step_inv2 s e s' : Inv s -> Inv2 s -> wf_event e -> step s e = Ok s' -> Inv2 s'.
Proof.
  intros HI H2 Hwf H. destruct e as [g|f cs|f]; cbn [step] in H.
  - destruct (reqs_of s g) eqn:E; [discriminate|]. inversion H; subst.
    unfold reqs_of in E. destruct (find_fwd s g) eqn:Eg; [discriminate|].
    apply (inv2_s_fwd s g HI H2 Eg E).
  - destruct (forallb (fun c => match reqs_of s c with Some _ => true | None => false end) cs) eqn:Ed; [|discriminate].
    assert (Hcs : forall c, In c cs -> c < f /\ declared s c).
    { intros c Hc. split; [apply Hwf; exact Hc|]. rewrite forallb_forall in Ed. specialize (Ed c Hc). unfold declared.
      destruct (reqs_of s c); [discriminate|discriminate]. }
    destruct (find_fwd s f) as [e0|] eqn:Ef.
    + destruct (fulfilled e0) eqn:Eful; [discriminate|]. inversion H; subst.
      exact (inv2_s_ful s f cs e0 HI H2 Ef Eful Hcs).
    + destruct (find_fn s f) eqn:Efn; [discriminate|]. inversion H; subst.
      apply (inv2_s_plain s f cs HI H2); [apply fw_none; exact Ef|exact Efn|exact Hcs].
  - destruct (reqs_of s f); [|discriminate]. destruct (existsb (unmet_now s) l); [discriminate|]. inversion H; subst. exact H2.
Qed.

Lemma run_inv_both : forall es s0 s, Inv s0 -> Inv2 s0 -> Forall wf_event es -> run s0 es = Ok s -> Inv s /\ Inv2 s.
Proof.
  induction es as [|e es IH]; intros s0 s HI H2 HF H; cbn [run] in H.
  - inversion H; subst. split; assumption.
  - inversion HF as [|? ? He Hes]; subst. destruct (step s0 e) as [s1| | |] eqn:E; try discriminate.
    apply (IH s1 s); [eapply step_inv; eauto|eapply step_inv2; eauto|exact Hes|exact H].
Qed.

(* THE THEOREM, other direction: an invocation the gate rejects is not safe *)
Theorem gate_exact : forall es s f, Forall wf_event es -> run empty es = Ok s ->
  step s (Use f) = MissingForward -> safe_now s f = false /\ ~ Safe s f.
Proof.
  intros es s f HF Hrun Hstep. destruct (run_inv_both es empty s inv_empty inv2_empty HF Hrun) as [HI H2].
  destruct (gate_rejects_unmet es s f HF Hrun Hstep) as (l & r & Hl & Hr & Hu).
  assert (Hns : ~ Safe s f) by (eapply unmet_is_unsafe; eauto).
  split; [|exact Hns]. destruct (safe_now s f) eqn:E; [|reflexivity]. exfalso. apply Hns.
  unfold safe_now in E. apply (safe_reflect s HI (S f) f); [lia|exact E].
Qed.
