(* The depth / call-count / recursion guards of runtime.rs and runtime_scope.rs as a machine over the events of an
   evaluation: entering a user function, leaving it, a tail self-call iteration, and the host resetting the call
   counter.  Exactness of each limit is a statement about every history of events. *)
From Coq Require Import List NArith Bool String Lia.
From Xr Require Import Base.Res.
Import ListNotations.
Open Scope N_scope.

Inductive ev := Enter | Leave | TailIter | Reset.

Record cfg := mkcfg { Ldepth : option N; Lcalls : option N; Lrec : option N }.
(* height of the running frame, user calls since the last reset, consecutive tail iterations per open frame *)
Record mst := mkm { height : N; ncalls : N; recs : list N }.
Definition m0 : mst := mkm 0 0 [].

Definition reached (l : option N) (n : N) : bool := match l with Some L => L <=? n | None => false end.
Definition exceeded (l : option N) (n : N) : bool := match l with Some L => L <? n | None => false end.

Definition mstep (c : cfg) (s : mst) (e : ev) : res mst :=
  match e with
  | Enter =>
      let n := ncalls s + 1 in
      if reached (Lcalls c) n then Viol VCalls
      else let h := height s + 1 in
           if reached (Ldepth c) h then Viol VDepth else Val (mkm h n (0 :: recs s))
  | Leave => match recs s with
             | [] => Stuck "leave without frame"
             | _ :: r => Val (mkm (height s - 1) (ncalls s) r)
             end
  | TailIter => match recs s with
                | [] => Stuck "tail iteration without frame"
                | k :: r => if exceeded (Lrec c) (k + 1) then Viol VRecursion
                            else if reached (Ldepth c) (height s) then Viol VDepth
                            else Val (mkm (height s) (ncalls s) ((k + 1) :: r))
                end
  | Reset => Val (mkm (height s) 0 (recs s))
  end.

Fixpoint mrun (c : cfg) (s : mst) (evs : list ev) : res mst :=
  match evs with
  | [] => Val s
  | e :: r => match mstep c s e with Val s' => mrun c s' r | o => o end
  end.

(* what an unlimited run measures *)
Definition unlimited : cfg := mkcfg None None None.

Lemma mstep_unlimited_no_viol s e v : mstep unlimited s e <> Viol v.
Proof. destruct e; cbn; try discriminate; destruct (recs s); discriminate. Qed.

(* a limited step that does not trip is the unlimited step: limits change nothing but the guards *)
Lemma mstep_transparent c s e s' : mstep c s e = Val s' -> mstep unlimited s e = Val s'.
Proof.
  destruct e; cbn; auto.
  - destruct (reached (Lcalls c) (ncalls s + 1)); [discriminate|]. destruct (reached (Ldepth c) (height s + 1)); [discriminate|]. auto.
  - destruct (recs s) as [|k r]; auto.
    destruct (exceeded (Lrec c) (k + 1)); [discriminate|]. destruct (reached (Ldepth c) (height s)); [discriminate|]. auto.
Qed.

Theorem mrun_transparent c : forall evs s s', mrun c s evs = Val s' -> mrun unlimited s evs = Val s'.
Proof.
  induction evs as [|e r IH]; intros s s' H; cbn in *; auto.
  destruct (mstep c s e) as [s1| | | |] eqn:E; try discriminate.
  rewrite (mstep_transparent c s e s1 E). now apply IH.
Qed.

(* exactness of each guard at the step where it is consulted *)
Theorem calls_exact c s L : Lcalls c = Some L ->
  (mstep c s Enter = Viol VCalls <-> L <= ncalls s + 1).
Proof.
  intros HL. cbn. unfold reached at 1. rewrite HL. destruct (N.leb_spec L (ncalls s + 1)); split; intros H0; try lia; auto.
  - destruct (reached (Ldepth c) (height s + 1)); discriminate.
Qed.

Theorem depth_exact c s L : Ldepth c = Some L -> reached (Lcalls c) (ncalls s + 1) = false ->
  (mstep c s Enter = Viol VDepth <-> L <= height s + 1).
Proof.
  intros HL Hc. cbn. rewrite Hc. unfold reached. rewrite HL.
  destruct (N.leb_spec L (height s + 1)); split; intros H0; try lia; auto. discriminate.
Qed.

Theorem recursion_exact c s L k r : Lrec c = Some L -> recs s = k :: r ->
  (mstep c s TailIter = Viol VRecursion <-> L < k + 1).
Proof.
  intros HL Hr. cbn. rewrite Hr. unfold exceeded. rewrite HL.
  destruct (N.ltb_spec L (k + 1)); split; intros H0; try lia; auto.
  destruct (reached (Ldepth c) (height s)); discriminate.
Qed.

(* the call counter is the number of user calls since the last reset, for every history *)
Fixpoint calls_since_reset (evs : list ev) (acc : N) : N :=
  match evs with
  | [] => acc
  | Enter :: r => calls_since_reset r (acc + 1)
  | Reset :: r => calls_since_reset r 0
  | _ :: r => calls_since_reset r acc
  end.

Theorem counter_is_calls_since_reset c : forall evs s s', mrun c s evs = Val s' ->
  ncalls s' = calls_since_reset evs (ncalls s).
Proof.
  induction evs as [|e r IH]; intros s s' H; cbn in *; [congruence|].
  destruct (mstep c s e) as [s1| | | |] eqn:E; try discriminate.
  rewrite (IH s1 s' H). f_equal.
  destruct e; cbn in E.
  - destruct (reached (Lcalls c) (ncalls s + 1)); [discriminate|]. destruct (reached (Ldepth c) (height s + 1)); [discriminate|].
    injection E as <-. reflexivity.
  - destruct (recs s); [discriminate|]. injection E as <-. reflexivity.
  - destruct (recs s) as [|k r0]; [discriminate|]. destruct (exceeded (Lrec c) (k + 1)); [discriminate|].
    destruct (reached (Ldepth c) (height s)); [discriminate|]. injection E as <-. reflexivity.
  - injection E as <-. reflexivity.
Qed.

(* tail iterations never change the height: tail calls consume no call-stack depth *)
Theorem tail_iter_keeps_height c s s' : mstep c s TailIter = Val s' -> height s' = height s /\ ncalls s' = ncalls s.
Proof.
  cbn. destruct (recs s) as [|k r]; [discriminate|]. destruct (exceeded (Lrec c) (k + 1)); [discriminate|].
  destruct (reached (Ldepth c) (height s)); [discriminate|]. intros H. injection H as <-. auto.
Qed.
