(* The climber of Lang/Prec.v instantiated with the operator table extracted from src/parser.rs + src/xray.pest
   (Extracted/Ops.v, regenerated on every run), the table the model assumes, and the book's list. *)
From Coq Require Import List String Bool Arith Lia.
From Xr Require Import Lang.Prec Extracted.Ops.
Import ListNotations.
Open Scope string_scope.

(* the table the reference evaluator / generator assume: levels loosest first; (token, function, right-associative) *)
Definition model_levels : list (list (string * string * bool)) := [
  [("&&", "and", false); ("||", "or", false)];
  [("<", "lt", false); (">", "gt", false); ("==", "eq", false); ("!=", "ne", false); ("<=", "le", false); (">=", "ge", false)];
  [("|", "bit_or", false); ("&", "bit_and", false); ("^", "bit_xor", false)];
  [("+", "add", false); ("-", "sub", false)];
  [("*", "mul", false); ("/", "div", false); ("%", "mod", false)];
  [("**", "pow", true)]
].
Definition model_unary : list (string * string) := [("+", "pos"); ("-", "neg"); ("!", "not")].

Definition tok_of (e : string * string * bool) : string := fst (fst e).
Definition fn_of (e : string * string * bool) : string := snd (fst e).

(* level of a token in a table: 1 + index of its level (0 = not an operator) *)
Fixpoint level_in (tbl : list (list (string * string * bool))) (tok : string) (i : nat) : nat :=
  match tbl with
  | [] => 0
  | lv :: r => if existsb (fun e => String.eqb (tok_of e) tok) lv then S i else level_in r tok (S i)
  end.
Definition xprec (tok : string) : nat := level_in x_levels tok 0.
Definition xright (l : nat) : bool :=
  match l with
  | 0 => false
  | S i => match nth i x_levels [] with e :: _ => snd e | [] => false end
  end.
Definition xfn (tok : string) : string :=
  match List.find (fun e => String.eqb (tok_of e) tok) (List.concat x_levels) with Some e => fn_of e | None => "?" end.

(* every level has ONE associativity (so xright is each operator's own flag) and no token is listed twice *)
Definition levels_uniform : bool :=
  forallb (fun lv => match lv with [] => false | e :: r => forallb (fun e' => Bool.eqb (snd e') (snd e)) r end) x_levels.
Fixpoint nodupb (l : list string) : bool :=
  match l with [] => true | a :: r => negb (existsb (String.eqb a) r) && nodupb r end.

(* the book lists the binary operators "in the order they are resolved": tightest first; the extracted levels agree when the
   level of the listed tokens never increases along the list, every listed alias is the table's, and nothing is missing *)
Fixpoint non_increasing (l : list nat) : bool :=
  match l with a :: ((b :: _) as r) => Nat.leb b a && non_increasing r | _ => true end.
Definition pair_in (l : list (string * string)) (p : string * string) : bool :=
  existsb (fun q => String.eqb (fst q) (fst p) && String.eqb (snd q) (snd p)) l.
Definition book_agrees : bool :=
  non_increasing (map (fun p => xprec (fst p)) x_book_binary) &&
  forallb (fun p => negb (Nat.eqb (xprec (fst p)) 0) && String.eqb (xfn (fst p)) (snd p)) x_book_binary &&
  Nat.eqb (List.length x_book_binary) (List.length (List.concat x_levels)) && nodupb (map fst x_book_binary) &&
  forallb (pair_in x_unary) x_book_unary && Nat.eqb (List.length x_book_unary) (List.length x_unary).

(* ---- evaluation helpers for the correspondence: the grouping the climber gives a flat operator sequence *)
Fixpoint paren (t : tree string string) : string :=
  match t with
  | Leaf a => a
  | Node o l r => "(" ++ paren l ++ " " ++ o ++ " " ++ paren r ++ ")"
  end.
Definition group (a : string) (rest : list (string * string)) : string :=
  match parse string string xprec xright a rest with
  | Some (t, []) => paren t
  | _ => "FUEL"
  end.
(* the same sequence with every operator replaced by the function it aliases: f(g(a, b), c) *)
Fixpoint calls (t : tree string string) : string :=
  match t with
  | Leaf a => a
  | Node o l r => xfn o ++ "(" ++ calls l ++ ", " ++ calls r ++ ")"
  end.
Definition group_calls (a : string) (rest : list (string * string)) : string :=
  match parse string string xprec xright a rest with
  | Some (t, []) => calls t
  | _ => "FUEL"
  end.
