(* result strings of the forward-declaration model for the correspondence (C03) *)
From Coq Require Import List String Arith.
From Xr Require Import Base.Show Lang.Forward.
Import ListNotations.
Open Scope string_scope.

Fixpoint run_vals (s : state) (es : list event) (acc : list nat) : string :=
  match es with
  | [] => "ok:" ++ show_list show_nat acc
  | e :: r =>
      match step s e with
      | Ok s' =>
          let acc' := match e with
                      | Use f => match value (S (List.length (bodies s))) s f 1 with Some v => (acc ++ [v])%list | None => (acc ++ [0])%list end
                      | _ => acc
                      end in
          run_vals s' r acc'
      | MissingForward => "MissingForwardImplementation"
      | NotDeclared => "NotDeclared"
      | Duplicate => "Duplicate"
      end
  end.
Definition run_program (es : list event) : string := run_vals empty es [].
