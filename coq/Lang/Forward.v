(* C03, last sentence: "a function that depends on a forward declaration cannot be invoked before that declaration is
   fulfilled".  Model of the compiler's bookkeeping (src/compilation_scope.rs: add_forward_func, add_static_func,
   require_forwards, unmet_forward) for top-level programs made of
       Fwd g            forward fn g(x: int)->int;
       Def f callees    fn f(x: int)->int { x + 1 + c1(x) + c2(x) + ... }      (fulfils f when f is a pending forward)
       Use f            let u = f(1);                                           (an invocation while the program is set up)
   and the semantic specification it has to implement: an invocation is safe when no function reachable from it through the
   bodies defined so far is a forward declaration without body.
   A requirement names a forward declaration.  A reference to a forward declaration (fulfilled or not) requires that
   declaration; a reference to an ordinary function requires what was recorded for it.  When a function is defined, the
   requirements of its references that are unmet AT THAT MOMENT are recorded, met ones are dropped.  A requirement is unmet
   when its declaration has no implementation yet or, transitively, when the implementation that fulfilled it recorded an
   unmet requirement. *)
From Coq Require Import List Arith Bool Lia.
Import ListNotations.

Inductive event := Fwd (g : nat) | Def (f : nat) (callees : list nat) | Use (f : nat).

Record fwd_entry := { fname : nat; fulfilled : bool; impl_reqs : list nat }.
Record state := { fwds : list fwd_entry;               (* forward declarations, in order of declaration *)
                  fns : list (nat * list nat);         (* ordinary functions: recorded requirements *)
                  bodies : list (nat * list nat) }.    (* what exists at run time: name -> callees *)
Definition empty : state := {| fwds := []; fns := []; bodies := [] |}.

Definition find_fwd (s : state) (g : nat) : option fwd_entry := find (fun e => Nat.eqb (fname e) g) (fwds s).
Definition find_fn (s : state) (f : nat) : option (list nat) :=
  match find (fun p => Nat.eqb (fst p) f) (fns s) with Some p => Some (snd p) | None => None end.
Definition body_of (s : state) (f : nat) : option (list nat) :=
  match find (fun p => Nat.eqb (fst p) f) (bodies s) with Some p => Some (snd p) | None => None end.

(* unmet_forward: depth-first through the implementations of fulfilled declarations *)
Fixpoint unmet (fuel : nat) (s : state) (r : nat) : bool :=
  match fuel with
  | O => true
  | S f =>
      match find_fwd s r with
      | None => true
      | Some e => if fulfilled e then existsb (unmet f s) (impl_reqs e) else true
      end
  end.
(* the implementation that fulfils r only depends on declarations with smaller names (a callee is smaller than its caller),
   so r + 1 levels are enough *)
Definition unmet_now (s : state) (r : nat) : bool := unmet (S r) s r.

(* requirements carried by a reference to the name c; None = the name is not declared *)
Definition reqs_of (s : state) (c : nat) : option (list nat) :=
  match find_fwd s c with
  | Some _ => Some [c]
  | None => find_fn s c
  end.

Inductive outcome := Ok (s : state) | MissingForward | NotDeclared | Duplicate.

Definition step (s : state) (e : event) : outcome :=
  match e with
  | Fwd g =>
      match reqs_of s g with
      | Some _ => Duplicate
      | None => Ok {| fwds := fwds s ++ [{| fname := g; fulfilled := false; impl_reqs := [] |}]; fns := fns s; bodies := bodies s |}
      end
  | Def f cs =>
      if forallb (fun c => match reqs_of s c with Some _ => true | None => false end) cs then
        let all := flat_map (fun c => match reqs_of s c with Some l => l | None => [] end) cs in
        let rec := filter (unmet_now s) all in
        match find_fwd s f with
        | Some e =>
            if fulfilled e then Duplicate
            else Ok {| fwds := map (fun e' => if Nat.eqb (fname e') f
                                              then {| fname := f; fulfilled := true; impl_reqs := rec |} else e') (fwds s);
                       fns := fns s; bodies := (f, cs) :: bodies s |}
        | None =>
            match find_fn s f with
            | Some _ => Duplicate
            | None => Ok {| fwds := fwds s; fns := (f, rec) :: fns s; bodies := (f, cs) :: bodies s |}
            end
        end
      else NotDeclared
  | Use f =>
      match reqs_of s f with
      | None => NotDeclared
      | Some l => if existsb (unmet_now s) l then MissingForward else Ok s
      end
  end.

Fixpoint run (s : state) (es : list event) : outcome :=
  match es with
  | [] => Ok s
  | e :: r => match step s e with Ok s' => run s' r | o => o end
  end.

(* ---------------------------------------------------------------- specification: what is safe to invoke *)
Fixpoint safe (fuel : nat) (s : state) (f : nat) : bool :=
  match fuel with
  | O => false
  | S k => match body_of s f with Some cs => forallb (safe k s) cs | None => false end
  end.
(* bodies are acyclic in the programs considered (a callee has a smaller name), so f + 1 levels are enough *)
Definition safe_now (s : state) (f : nat) : bool := safe (S f) s f.

(* the gate is right on a run: every accepted invocation was safe when it was made and every rejected one was not *)
Fixpoint gate_right (s : state) (es : list event) : bool :=
  match es with
  | [] => true
  | e :: r =>
      match step s e with
      | Ok s' => (match e with Use f => safe_now s f | _ => true end) && gate_right s' r
      | MissingForward => match e with Use f => negb (safe_now s f) | _ => false end
      | _ => true
      end
  end.

(* value of an invocation under the bodies that exist (x + 1 + sum of the callees' values) *)
Fixpoint value (fuel : nat) (s : state) (f : nat) (x : nat) : option nat :=
  match fuel with
  | O => None
  | S k =>
      match body_of s f with
      | None => None
      | Some cs => fold_left (fun acc c => match acc, value k s c x with Some a, Some v => Some (a + v) | _, _ => None end) cs (Some (x + 1))
      end
  end.

(* ---------------------------------------------------------------- exhaustive check of a finite universe of programs
   names 0..names-1, a callee is smaller than the function that calls it; all event sequences up to length n *)
Fixpoint subsets (l : list nat) : list (list nat) :=
  match l with [] => [[]] | a :: r => let ss := subsets r in ss ++ map (cons a) ss end.
Definition universe (names : nat) : list event :=
  map Fwd (seq 0 names) ++ map Use (seq 0 names) ++ flat_map (fun f => map (Def f) (subsets (seq 0 f))) (seq 0 names).

Fixpoint all_runs_ok (names n : nat) (s : state) : bool :=
  match n with
  | O => true
  | S k => forallb (fun e => match step s e with
                             | Ok s' => (match e with Use f => safe_now s f | _ => true end) && all_runs_ok names k s'
                             | MissingForward => match e with Use f => negb (safe_now s f) | _ => false end
                             | _ => true
                             end) (universe names)
  end.

Lemma all_runs_sound : forall names n s, all_runs_ok names n s = true ->
  forall es, length es <= n -> Forall (fun e => In e (universe names)) es -> gate_right s es = true.
Proof.
  induction n as [|n IH]; intros s H es Hl HF.
  - destruct es; [reflexivity|cbn in Hl; lia].
  - destruct es as [|e r]; [reflexivity|]. cbn [length] in Hl. inversion HF as [|? ? He Hr]; subst.
    cbn [all_runs_ok] in H. rewrite forallb_forall in H. specialize (H e He). cbn [gate_right].
    destruct (step s e) as [s'| | |]; auto.
    apply andb_prop in H as [H1 H2]. rewrite H1. cbn [andb]. apply IH; auto. lia.
Qed.

(* the rule the compiler used before the repair (a requirement is met as soon as its declaration is fulfilled, whatever the
   implementation depends on) is refuted by a five-event program: h -> g -> k with g fulfilled before k *)
Definition shallow_unmet (s : state) (r : nat) : bool :=
  match find_fwd s r with Some e => negb (fulfilled e) | None => true end.
Example shallow_rule_refuted :
  match run empty [Fwd 1; Fwd 0; Def 2 [1]; Def 1 [0]] with
  | Ok s => existsb (shallow_unmet s) [1] = false /\ safe_now s 2 = false /\ step s (Use 2) = MissingForward
  | _ => False
  end.
Proof. vm_compute. repeat split; reflexivity. Qed.
