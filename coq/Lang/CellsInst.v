(* C03: the model of into_static_ud (Lang/Cells.v fin) against what the compiler did (hook verif_cell_log): for every scope
   closed while a program was compiled - its cells, the size of the parent at that moment, the resulting specs and the capture
   requests handed to the parent *)
From Coq Require Import List String Bool Arith.
From Xr Require Import Lang.Cells.
Import ListNotations.
Open Scope string_scope.

Definition cell_eqb (a b : cell) : bool :=
  match a, b with
  | CVar, CVar => true
  | CCap d i, CCap d' i' => Nat.eqb d d' && Nat.eqb i i'
  | _, _ => false
  end.
Fixpoint scope_eqb (a b : scope) : bool :=
  match a, b with [], [] => true | x :: r, y :: s => cell_eqb x y && scope_eqb r s | _, _ => false end.

Definition check_fin (child : scope) (plen : nat) (specs requests : scope) : string :=
  let parent := repeat CVar plen in
  let (sp, p') := fin child parent in
  if scope_eqb sp specs then
    if scope_eqb p' (parent ++ requests)%list then "ok" else "REQUESTS-DIFFER"
  else "SPECS-DIFFER".
