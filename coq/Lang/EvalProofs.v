(* Structural facts about the reference evaluator's monad: they are what makes error values propagate (leftmost
   first), keeps violations uncatchable, and confines the limits to guards.  Every composition in Eval.v goes
   through [mbind] / [mcatch]. *)
From Coq Require Import List ZArith NArith String Bool Lia.
From Xr Require Import Base.Res Lang.Syntax Lang.Eval.
Import ListNotations.

(* sequencing: a violation (or an error value, or a crash) of the first computation is the outcome, and the
   continuation is never run *)
Lemma mbind_viol {A B} (m : M A) (k : A -> M B) s v s' : m s = (Viol v, s') -> mbind m k s = (Viol v, s').
Proof. unfold mbind. intros ->. reflexivity. Qed.
Lemma mbind_err {A B} (m : M A) (k : A -> M B) s e s' : m s = (Err e, s') -> mbind m k s = (Err e, s').
Proof. unfold mbind. intros ->. reflexivity. Qed.
Lemma mbind_val {A B} (m : M A) (k : A -> M B) s a s' : m s = (Val a, s') -> mbind m k s = k a s'.
Proof. unfold mbind. intros ->. reflexivity. Qed.

(* the only handler in the evaluator, [mcatch], intercepts error VALUES and nothing else: a violation passes
   through every error-handling function (if_error, is_error, get_error) *)
Lemma mcatch_viol {A} (m : M A) h s v s' : m s = (Viol v, s') -> mcatch m h s = (Viol v, s').
Proof. unfold mcatch. intros ->. reflexivity. Qed.
Lemma mcatch_err {A} (m : M A) h s e s' : m s = (Err e, s') -> mcatch m h s = h e s'.
Proof. unfold mcatch. intros ->. reflexivity. Qed.
Lemma mcatch_val {A} (m : M A) h s a s' : m s = (Val a, s') -> mcatch m h s = (Val a, s').
Proof. unfold mcatch. intros ->. reflexivity. Qed.

(* strict argument evaluation: left to right, each exactly once, the leftmost non-value decides *)
Fixpoint seq_eval (ms : list (M value)) : M (list value) :=
  match ms with
  | [] => ret []
  | m :: r => mbind m (fun v => mbind (seq_eval r) (fun vs => ret (v :: vs)))
  end.

Lemma seq_eval_all_values ms : forall s vs ss,
  Forall2 (fun m vs' => forall s0, m s0 = (Val vs', s0)) ms vs -> ss = s -> seq_eval ms s = (Val vs, s).
Proof.
  induction ms as [|m r IH]; intros s vs ss H ->; inversion H; subst; cbn [seq_eval]; [reflexivity|].
  rewrite (mbind_val _ _ _ _ _ (H2 s)). rewrite (mbind_val _ _ _ _ _ (IH s _ s H4 eq_refl)). reflexivity.
Qed.

(* leftmost failure wins: if the arguments before position i are values and argument i is not, the call's
   outcome is argument i's outcome and no later argument is evaluated (the state is the one argument i left) *)
Lemma seq_eval_first_failure pre m post s s1 s2 (vs : list value) (r : res value) :
  seq_eval pre s = (Val vs, s1) -> m s1 = (r, s2) -> is_val r = false ->
  fst (seq_eval (pre ++ m :: post) s) = match r with Err e => Err e | Viol v => Viol v | Stuck w => Stuck w | _ => Fuel end /\
  snd (seq_eval (pre ++ m :: post) s) = s2.
Proof.
  revert s vs. induction pre as [|p pre IH]; intros s vs Hpre Hm Hr.
  - cbn in Hpre. injection Hpre as <- <-. cbn [app seq_eval]. unfold mbind. rewrite Hm.
    destruct r; cbn in Hr; try discriminate; auto.
  - cbn [app seq_eval] in *. unfold mbind in Hpre |- *. destruct (p s) as [[a| | | |] sp] eqn:Ep; try discriminate.
    fold (@mbind (list value) (list value)) in *.
    destruct (seq_eval pre sp) as [[vs'| | | |] sq] eqn:Eq; try discriminate.
    injection Hpre as <- <-.
    destruct (IH sp vs' Eq Hm Hr) as [H1 H2].
    destruct (seq_eval (pre ++ m :: post) sp) as [rr ss] eqn:Ef. cbn [fst snd] in *. subst ss.
    destruct r; cbn in Hr; try discriminate; subst rr; auto.
Qed.

(* limits are guards: they are consulted through [limit_reached] only, which is monotone in the limit and
   never fires without a limit *)
Lemma no_limit_never_reached n b : limit_reached None n b = false.
Proof. reflexivity. Qed.

Lemma limit_monotone L L' n b : (L <= L')%N -> limit_reached (Some L) n b = false -> limit_reached (Some L') n b = false.
Proof.
  unfold limit_reached. destruct b.
  - intros HL H. apply N.ltb_ge in H. apply N.ltb_ge. lia.
  - intros HL H. apply N.leb_gt in H. apply N.leb_gt. lia.
Qed.

(* exactness of the three comparisons: depth and call limits trip when the count REACHES L, the recursion limit
   when the count EXCEEDS L *)
Lemma depth_calls_exact L n : limit_reached (Some L) n false = true <-> (L <= n)%N.
Proof. unfold limit_reached. apply N.leb_le. Qed.
Lemma recursion_exact L n : limit_reached (Some L) n true = true <-> (L < n)%N.
Proof. unfold limit_reached. apply N.ltb_lt. Qed.
