(* C07: which native functions hand the caller's tail position on, and to which argument.  model_tail_sites is the table the
   reference evaluator (Lang/Eval.v: the positions evaluated with [evt]) and the generators of the C07 / C08 checks assume;
   Extracted/Tails.v is what the Rust sources say today (translator/tailsites.py).  Position 1000 = a call made in tail
   position (partial). *)
From Coq Require Import List String Bool Arith.
From Xr Require Import Extracted.Tails.
Import ListNotations.
Open Scope string_scope.

Definition model_tail_sites : list (string * string * list nat) := [
  ("bool::add_bool_and", "and", [1]);
  ("bool::add_bool_or", "or", [1]);
  ("generic::add_generic_dyn_cast", "cast", [0]);
  ("generic::add_generic_dyn_partial", "partial", [1000]);
  ("generic::add_generic_if", "if", [1; 2]);
  ("generic::add_generic_if_error", "if_error", [1]);
  ("generic::add_generic_if_error_specific", "if_error", [2]);
  ("optional::add_optional_and", "and", [1]);
  ("optional::add_optional_map_or", "map_or", [2]);
  ("optional::add_optional_or", "or", [1]);
  ("optional::add_optional_or_unwrap", "or", [1]);
  ("str::add_str_to_str", "to_str", [0]);
  ("structs::add_struct_members", "members", [0]);
  ("tuple::add_tuple_empty_and", "and", [1])
].

(* the only place that passes a literal `true` as the tail flag: json(Optional<T>) calling the inner json with VALUES (no
   expression is evaluated under that flag, so no tail call can arise from it) *)
Definition model_literal_true : list string := ["json::add_json_dyn_json_optional"].

(* the positions the reference evaluator evaluates in tail mode, by the evaluator's primitive name *)
Definition eval_tail_positions (name : string) : option (list nat) :=
  match name with
  | "if" => Some [1; 2] | "and" => Some [1] | "or" => Some [1] | "or_unwrap" => Some [1]
  | "if_error" => Some [1] | "map_or" => Some [2]
  | _ => None
  end.
(* the sites that correspond to an evaluator primitive (by Rust registration function) *)
Definition evaluator_name (rust : string) : option string :=
  match rust with
  | "generic::add_generic_if" => Some "if" | "bool::add_bool_and" => Some "and" | "bool::add_bool_or" => Some "or"
  | "optional::add_optional_or" => Some "or" | "optional::add_optional_or_unwrap" => Some "or_unwrap"
  | "generic::add_generic_if_error" => Some "if_error" | "optional::add_optional_map_or" => Some "map_or"
  | _ => None
  end.
Fixpoint nats_eqb (a b : list nat) : bool :=
  match a, b with [], [] => true | x :: r, y :: s => Nat.eqb x y && nats_eqb r s | _, _ => false end.
Definition evaluator_agrees : bool :=
  forallb (fun s => match evaluator_name (fst (fst s)) with
                    | Some n => match eval_tail_positions n with Some p => nats_eqb p (snd s) | None => false end
                    | None => true
                    end) x_tail_sites.
