(* Number literals (parser.rs, Rule::NUMBER_ANY): a spelling accepted by the grammar is converted by a TOTAL function to
   an integer, a float, or the compilation error InvalidNumberLiteral - never a crash, and an integer spelling is never
   silently a float.  A spelling is given by its digits with the underscores already removed (the code strips them
   first); hex / binary digit lists may be empty ("0x_"). *)
From Coq Require Import List ZArith Bool Lia.
Import ListNotations.
Open Scope Z_scope.

Inductive spelling :=
| SDec (ip : list Z) (frac : option (list Z)) (exp : option (bool * list Z))     (* exp: (negative?, digits) *)
| SHex (ds : list Z)
| SBin (ds : list Z).

Inductive outcome := OInt (z : Z) | OFloat | OInvalid.

Definition val (base : Z) (ds : list Z) : Z := fold_left (fun acc d => acc * base + d) ds 0.
Definition i128_max : Z := 2 ^ 127 - 1.
(* the smallest positive real that f64 parsing rounds to infinity: MAX + half an ulp *)
Definition inf_threshold : Z := 2 ^ 1024 - 2 ^ 970.

Definition is_integer_spelling (s : spelling) : bool :=
  match s with SDec _ None None => true | SDec _ _ _ => false | SHex _ | SBin _ => true end.

(* the exact question: is  mantissa * 10^(+-e) / 10^scale  below the threshold *)
Definition dec_finite_exact (ip : list Z) (frac : option (list Z)) (exp : option (bool * list Z)) : bool :=
  let fd := match frac with Some f => f | None => [] end in
  let mant := val 10 (ip ++ fd) in
  let scale := Z.of_nat (length fd) in
  let '(neg, e) := match exp with Some (n, ds) => (n, val 10 ds) | None => (false, 0) end in
  if neg then mant <? inf_threshold * 10 ^ (scale + e)
  else if scale <=? e then mant * 10 ^ (e - scale) <? inf_threshold else mant <? inf_threshold * 10 ^ (scale - e).

(* the same with two shortcuts that keep the powers small when the exponent is astronomically large; they are sound
   because a mantissa of d digits is below 10^d (and at least 1 when it is not 0): see dec_finite_correct *)
Definition dec_finite (ip : list Z) (frac : option (list Z)) (exp : option (bool * list Z)) : bool :=
  let fd := match frac with Some f => f | None => [] end in
  let mant := val 10 (ip ++ fd) in
  let scale := Z.of_nat (length fd) in
  let digits := Z.of_nat (length (ip ++ fd)) in
  let '(neg, e) := match exp with Some (n, ds) => (n, val 10 ds) | None => (false, 0) end in
  if mant =? 0 then true
  else if neg then
    (if digits <? e then true else mant <? inf_threshold * 10 ^ (scale + e))
  else
    (if 400 + scale <? e then false else
       if scale <=? e then mant * 10 ^ (e - scale) <? inf_threshold else mant <? inf_threshold * 10 ^ (scale - e)).

Definition convert (s : spelling) : outcome :=
  match s with
  | SDec ip None None => let v := val 10 ip in if v <=? i128_max then OInt v else OInvalid
  | SDec ip frac exp => if dec_finite ip frac exp then OFloat else OInvalid
  | SHex ds => match ds with [] => OInvalid | _ => let v := val 16 ds in if v <=? i128_max then OInt v else OInvalid end
  | SBin ds => match ds with [] => OInvalid | _ => let v := val 2 ds in if v <=? i128_max then OInt v else OInvalid end
  end.

Definition digits_ok (base : Z) (ds : list Z) : Prop := Forall (fun d => 0 <= d < base) ds.
Definition value_of (s : spelling) : Z :=
  match s with SDec ip _ _ => val 10 ip | SHex ds => val 16 ds | SBin ds => val 2 ds end.

Lemma val_nonneg base ds : 0 < base -> digits_ok base ds -> 0 <= val base ds.
Proof.
  intros Hb H. unfold val. assert (forall acc, 0 <= acc -> 0 <= fold_left (fun a d => a * base + d) ds acc) as G.
  { induction H as [|d ds Hd _ IH]; cbn; intros acc Ha; auto. apply IH. nia. }
  apply G. lia.
Qed.

(* an integer outcome is exactly the value of an integer spelling, inside the i128 range *)
Theorem convert_int s z : convert s = OInt z -> is_integer_spelling s = true /\ z = value_of s /\ z <= i128_max.
Proof.
  destruct s as [ip [f|] [e|]|ds|ds]; cbn [convert is_integer_spelling value_of]; try (destruct (dec_finite _ _ _); discriminate).
  - destruct (val 10 ip <=? i128_max) eqn:E; try discriminate. intro H. inversion H; subst. apply Z.leb_le in E. repeat split; auto.
  - destruct ds; try discriminate. set (v := val 16 (z0 :: ds)). destruct (v <=? i128_max) eqn:E; try discriminate.
    intro H. inversion H; subst. apply Z.leb_le in E. repeat split; auto.
  - destruct ds; try discriminate. set (v := val 2 (z0 :: ds)). destruct (v <=? i128_max) eqn:E; try discriminate.
    intro H. inversion H; subst. apply Z.leb_le in E. repeat split; auto.
Qed.

(* an integer spelling is an integer or an error: it never silently becomes a float *)
Theorem integer_spelling_never_float s : is_integer_spelling s = true -> convert s <> OFloat.
Proof.
  destruct s as [ip [f|] [e|]|ds|ds]; cbn [convert is_integer_spelling value_of]; try discriminate; intros _.
  - destruct (val 10 ip <=? i128_max); discriminate.
  - destruct ds; try discriminate. destruct (val 16 (z :: ds) <=? i128_max); discriminate.
  - destruct ds; try discriminate. destruct (val 2 (z :: ds) <=? i128_max); discriminate.
Qed.

(* every integer spelling in range is accepted with its exact value (no loss, whatever the spelling) *)
Theorem integer_in_range_accepted s :
  is_integer_spelling s = true -> (match s with SHex [] | SBin [] => False | _ => True end) ->
  value_of s <= i128_max -> convert s = OInt (value_of s).
Proof.
  destruct s as [ip [f|] [e|]|ds|ds]; cbn [convert is_integer_spelling value_of]; try discriminate; intros _ NE R.
  - apply Z.leb_le in R. now rewrite R.
  - destruct ds; try contradiction. apply Z.leb_le in R. now rewrite R.
  - destruct ds; try contradiction. apply Z.leb_le in R. now rewrite R.
Qed.

(* a float outcome only for a spelling with a fraction or an exponent that is below the infinity threshold *)
Theorem convert_float s : convert s = OFloat ->
  match s with SDec ip frac exp => is_integer_spelling s = false /\ dec_finite ip frac exp = true | _ => False end.
Proof.
  destruct s as [ip [f|] [e|]|ds|ds]; cbn [convert is_integer_spelling value_of].
  1-3: destruct (dec_finite _ _ _); try discriminate; auto.
  - destruct (val 10 ip <=? i128_max); discriminate.
  - destruct ds; try discriminate. destruct (val 16 (z :: ds) <=? i128_max); discriminate.
  - destruct ds; try discriminate. destruct (val 2 (z :: ds) <=? i128_max); discriminate.
Qed.

Example literal_instances :
  convert (SDec [1;7;0;1;4;1;1;8;3;4;6;0;4;6;9;2;3;1;7;3;1;6;8;7;3;0;3;7;1;5;8;8;4;1;0;5;7;2;7] None None) = OInt i128_max /\
  convert (SDec [1;7;0;1;4;1;1;8;3;4;6;0;4;6;9;2;3;1;7;3;1;6;8;7;3;0;3;7;1;5;8;8;4;1;0;5;7;2;8] None None) = OInvalid /\
  convert (SHex (8 :: repeat 0 31)) = OInvalid /\ convert (SHex (7 :: repeat 15 31)) = OInt i128_max /\
  convert (SHex []) = OInvalid /\ convert (SBin (repeat 1 127)) = OInt i128_max /\ convert (SBin (repeat 1 128)) = OInvalid /\
  convert (SDec [1] None (Some (false, [3;0;8]))) = OFloat /\ convert (SDec [1] None (Some (false, [3;0;9]))) = OInvalid /\
  convert (SDec [1;7;9;7;6;9;3;1;3;4;8;6;2;3;1;5;7] None (Some (false, [2;9;2]))) = OFloat /\
  convert (SDec [1;7;9;7;6;9;3;1;3;4;8;6;2;3;1;5;8;1] None (Some (false, [2;9;1]))) = OInvalid /\
  convert (SDec [0] (Some [0]) (Some (false, [9;9;9;9;9]))) = OFloat /\ convert (SDec [1] None (Some (true, [9;9;9;9;9]))) = OFloat.
Proof. vm_compute. repeat split; reflexivity. Qed.

(* ---- the shortcuts of dec_finite are sound *)
Lemma val_lt_pow ds : digits_ok 10 ds -> 0 <= val 10 ds < 10 ^ Z.of_nat (length ds).
Proof.
  unfold val. intro H.
  assert (forall acc n, 0 <= acc < 10 ^ n -> 0 <= n ->
            0 <= fold_left (fun a d => a * 10 + d) ds acc < 10 ^ (n + Z.of_nat (length ds))) as G.
  { induction H as [|d ds Hd _ IH]; intros acc n Ha Hn.
    - cbn. now rewrite Z.add_0_r.
    - cbn [fold_left length]. replace (n + Z.of_nat (S (length ds))) with ((n + 1) + Z.of_nat (length ds)) by lia.
      apply IH; try lia. rewrite Z.pow_add_r by lia. change (10 ^ 1) with 10.
      remember (10 ^ n) as p. lia. }
  specialize (G 0 0). cbn [Z.pow Z.add] in G. apply G; lia.
Qed.

Lemma threshold_pos : 1 < inf_threshold. Proof. reflexivity. Qed.
Lemma threshold_lt_pow : inf_threshold < 10 ^ 400. Proof. reflexivity. Qed.

Theorem dec_finite_correct ip frac exp :
  digits_ok 10 (ip ++ match frac with Some f => f | None => [] end) ->
  (match exp with Some (_, ds) => digits_ok 10 ds | None => True end) ->
  dec_finite ip frac exp = dec_finite_exact ip frac exp.
Proof.
  intros Hd He. unfold dec_finite, dec_finite_exact.
  set (fd := match frac with Some f => f | None => [] end) in *.
  set (mant := val 10 (ip ++ fd)). set (scale := Z.of_nat (length fd)). set (digits := Z.of_nat (length (ip ++ fd))).
  pose proof (val_lt_pow _ Hd) as Hm. fold mant digits in Hm.
  assert (0 <= scale) as Hs by (unfold scale; lia).
  assert (scale <= digits) as Hsd by (unfold scale, digits; rewrite app_length; lia).
  assert (0 <= match exp with Some (_, ds) => val 10 ds | None => 0 end) as Hep.
  { destruct exp as [[n ds]|]; try lia. apply val_nonneg; auto; lia. }
  destruct exp as [[neg ds]|]; cbn [fst snd] in *.
  2:{ (* no exponent *)
      destruct (mant =? 0) eqn:E0.
      - apply Z.eqb_eq in E0. rewrite E0. destruct (scale <=? 0) eqn:E1.
        + symmetry. apply Z.ltb_lt. pose proof threshold_pos. lia.
        + symmetry. apply Z.ltb_lt. pose proof threshold_pos. assert (0 < 10 ^ (scale - 0)) by (apply Z.pow_pos_nonneg; lia). apply Z.mul_pos_pos; lia.
      - assert (400 + scale <? 0 = false) as -> by (apply Z.ltb_ge; lia). reflexivity. }
  set (e := val 10 ds) in *.
  destruct (mant =? 0) eqn:E0.
  - apply Z.eqb_eq in E0. rewrite E0. pose proof threshold_pos. destruct neg.
    + symmetry. apply Z.ltb_lt. assert (0 < 10 ^ (scale + e)) by (apply Z.pow_pos_nonneg; lia). apply Z.mul_pos_pos; lia.
    + destruct (scale <=? e) eqn:E1; symmetry; apply Z.ltb_lt.
      * rewrite Z.mul_0_l. lia.
      * apply Z.leb_gt in E1. assert (0 < 10 ^ (scale - e)) by (apply Z.pow_pos_nonneg; lia). apply Z.mul_pos_pos; lia.
  - apply Z.eqb_neq in E0. assert (1 <= mant) by lia. destruct neg.
    + destruct (digits <? e) eqn:E1; auto. apply Z.ltb_lt in E1. symmetry. apply Z.ltb_lt.
      (* mant < 10^digits <= 10^(scale+e) <= threshold * 10^(scale+e) *)
      assert (10 ^ digits <= 10 ^ (scale + e)) by (apply Z.pow_le_mono_r; lia).
      assert (0 < 10 ^ (scale + e)) by (apply Z.pow_pos_nonneg; lia). pose proof threshold_pos.
      apply Z.lt_le_trans with (10 ^ digits); [lia|]. apply Z.le_trans with (10 ^ (scale + e)); [lia|].
      rewrite <- (Z.mul_1_l (10 ^ (scale + e))) at 1. apply Z.mul_le_mono_nonneg_r; lia.
    + destruct (400 + scale <? e) eqn:E1; auto. apply Z.ltb_lt in E1.
      assert (scale <=? e = true) as -> by (apply Z.leb_le; lia).
      symmetry. apply Z.ltb_ge.
      (* mant * 10^(e-scale) >= 10^(e-scale) >= 10^400 > threshold *)
      assert (10 ^ 400 <= 10 ^ (e - scale)) by (apply Z.pow_le_mono_r; lia).
      pose proof threshold_lt_pow. assert (0 < 10 ^ (e - scale)) by (apply Z.pow_pos_nonneg; lia).
      apply Z.le_trans with (10 ^ (e - scale)); [lia|]. rewrite <- (Z.mul_1_l (10 ^ (e - scale))) at 1.
      apply Z.mul_le_mono_nonneg_r; lia.
Qed.
