(* Named syntax of the core fragment of xray (what parser.rs produces after desugaring operators, methods and
   index sugar into calls of named functions) and the values of the reference semantics. *)
From Coq Require Import List ZArith String.
Import ListNotations.

Definition ident := string.

Inductive expr :=
| EInt (z : Z)
| EBool (b : bool)
| EStr (s : string)
| EVar (x : ident)
| ECall (f : expr) (args : list expr)
| ELam (ps : list (ident * option expr)) (ds : list decl) (r : expr)
| EArr (es : list expr)
| ETup (es : list expr)
| EItem (e : expr) (i : nat)                       (* t::item<i> *)
with decl :=
| DLet (x : ident) (e : expr)
| DFn (f : ident) (ps : list (ident * option expr)) (ds : list decl) (r : expr).

Inductive value :=
| VInt (z : Z)
| VBool (b : bool)
| VStr (s : string)
| VArr (l : list value)
| VTup (l : list value)
| VOpt (o : option value)
| VClo (self : option ident) (env : list (ident * value)) (ps : list (ident * option value)) (ds : list decl) (r : expr)
| VPrim (name : string)
| VErr (msg : string).        (* an error value stored in a variable (errors are ordinary values) *)

Definition env := list (ident * value).

Fixpoint lookup (x : ident) (e : env) : option value :=
  match e with
  | [] => None
  | (y, v) :: r => if String.eqb x y then Some v else lookup x r
  end.
