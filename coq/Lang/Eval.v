(* Reference semantics of the core fragment: big-step evaluation with lexical environments, strict left-to-right
   argument evaluation, error VALUES (res Err) that propagate, host-level violations (res Viol), the documented
   short-circuit functions, tail-call trampoline for self calls in tail position, and the depth / call / recursion
   limits as guards.  Recursion is on fuel; [Fuel] is never a legitimate outcome (theorems exclude it). *)
From Coq Require Import List ZArith NArith String Bool.
From Xr Require Import Base.Res Base.Show Lang.Syntax.
Import ListNotations.
Open Scope string_scope.

Record lim := mklim { ldepth : option N; lcalls : option N; lrec : option N; tco : bool }.
Definition nolimits : lim := mklim None None None true.

Record st := mkst { out : list string; calls : N }.
Definition st0 : st := mkst [] 0.

Inductive tailed := TVal (v : value) | TTail (args : list value).

Definition M (A : Type) := st -> res A * st.
Definition ret {A} (a : A) : M A := fun s => (Val a, s).
Definition fail {A} (r : res A) : M A := fun s => (r, s).
Definition mbind {A B} (m : M A) (f : A -> M B) : M B :=
  fun s => match m s with
           | (Val a, s') => f a s'
           | (Err e, s') => (Err e, s')
           | (Viol v, s') => (Viol v, s')
           | (Stuck w, s') => (Stuck w, s')
           | (Fuel, s') => (Fuel, s')
           end.
Notation "'let!' x ':=' m 'in' k" := (mbind m (fun x => k)) (at level 200, x name, m at level 100, k at level 200).

Definition retv (r : res value) : M tailed := fun s => (rmap TVal r, s).

(* catch an error VALUE (violations and crashes are not catchable) *)
Definition mcatch {A} (m : M A) (h : string -> M A) : M A :=
  fun s => match m s with (Err e, s') => h e s' | r => r end.

Definition limit_reached (l : option N) (n : N) (strict : bool) : bool :=
  match l with Some L => if strict then N.ltb L n else N.leb L n | None => false end.

(* ---- rendering of values (to_str) ---- *)
Fixpoint show_value (v : value) : string :=
  match v with
  | VInt z => show_Z z
  | VBool b => show_bool b
  | VStr s => s
  | VArr l => "[" ++ (fix go (l : list value) := match l with [] => "" | [x] => show_value x | x :: r => show_value x ++ ", " ++ go r end) l ++ "]"
  | VTup l => "(" ++ (fix go (l : list value) := match l with [] => "" | [x] => show_value x | x :: r => show_value x ++ ", " ++ go r end) l ++ ")"
  | VOpt None => "None"
  | VOpt (Some x) => show_value x
  | VClo _ _ _ _ _ => "<fn>"
  | VPrim n => "<native " ++ n ++ ">"
  | VErr m => "E:" ++ m
  end.

(* ---- strict primitives on values ---- *)
Definition prim_strict (name : string) (args : list value) : option (res value) :=
  match name, args with
  | "add", [VInt a; VInt b] => Some (Val (VInt (a + b)))
  | "sub", [VInt a; VInt b] => Some (Val (VInt (a - b)))
  | "mul", [VInt a; VInt b] => Some (Val (VInt (a * b)))
  | "mod", [VInt a; VInt b] => Some (if (b =? 0)%Z then Err "Modulo by zero" else Val (VInt (a mod b)))
  | "div_floor", [VInt a; VInt b] => Some (if (b =? 0)%Z then Err "Division by zero" else Val (VInt (a / b)))
  | "neg", [VInt a] => Some (Val (VInt (- a)))
  | "eq", [VInt a; VInt b] => Some (Val (VBool (a =? b)%Z))
  | "ne", [VInt a; VInt b] => Some (Val (VBool (negb (a =? b)%Z)))
  | "lt", [VInt a; VInt b] => Some (Val (VBool (a <? b)%Z))
  | "le", [VInt a; VInt b] => Some (Val (VBool (a <=? b)%Z))
  | "gt", [VInt a; VInt b] => Some (Val (VBool (b <? a)%Z))
  | "ge", [VInt a; VInt b] => Some (Val (VBool (b <=? a)%Z))
  | "lt", [VStr a; VStr b] => Some (Val (VBool (String.ltb a b)))
  | "le", [VStr a; VStr b] => Some (Val (VBool (String.leb a b)))
  | "gt", [VStr a; VStr b] => Some (Val (VBool (String.ltb b a)))
  | "ge", [VStr a; VStr b] => Some (Val (VBool (String.leb b a)))
  | "ne", [VStr a; VStr b] => Some (Val (VBool (negb (String.eqb a b))))
  | "eq", [VBool a; VBool b] => Some (Val (VBool (Bool.eqb a b)))
  | "eq", [VStr a; VStr b] => Some (Val (VBool (String.eqb a b)))
  | "not", [VBool a] => Some (Val (VBool (negb a)))
  | "add", [VStr a; VStr b] => Some (Val (VStr (a ++ b)))
  | "add", [VArr a; VArr b] => Some (Val (VArr (a ++ b)%list))
  | "len", [VStr a] => Some (Val (VInt (Z.of_nat (String.length a))))
  | "len", [VArr a] => Some (Val (VInt (Z.of_nat (List.length a))))
  | "to_str", [v] => Some (Val (VStr (show_value v)))
  | "error", [VStr m] => Some (Err m)
  | "some", [v] => Some (Val (VOpt (Some v)))
  | "none", [] => Some (Val (VOpt None))
  | "has_value", [VOpt o] => Some (Val (VBool (match o with Some _ => true | None => false end)))
  | "value", [VOpt o] => Some (match o with Some v => Val v | None => Err "optional has no value" end)
  | "push", [VArr a; v] => Some (Val (VArr (a ++ [v])%list))
  | "to_array", [VArr a] => Some (Val (VArr a))
  | "get", [VArr a; VInt i] =>
      Some (let n := Z.of_nat (List.length a) in
            let j := if (i <? 0)%Z then (i + n)%Z else i in
            if (j <? 0)%Z then Err "index too low" else
            if (n <=? j)%Z then Err "index out of bounds" else
            match nth_error a (Z.to_nat j) with Some v => Val v | None => Err "index out of bounds" end)
  | _, _ => None
  end.

Definition is_lazy (name : string) : bool :=
  match name with
  | "if" | "and" | "or" | "or_unwrap" | "if_error" | "is_error" | "get_error" | "then" | "map_or" | "display" | "map" | "reduce" | "filter_len" => true
  | "lt_all" | "le_all" | "gt_all" | "ge_all" | "ne_all" => true
  | _ => false
  end.

Definition bind_params (ps : list (ident * option value)) (args : list value) : res env :=
  (fix go (ps : list (ident * option value)) (args : list value) (acc : env) : res env :=
     match ps, args with
     | [], [] => Val acc
     | [], _ :: _ => Stuck "too many arguments"
     | (x, _) :: ps', a :: args' => go ps' args' ((x, a) :: acc)
     | (x, Some d) :: ps', [] => go ps' [] ((x, d) :: acc)
     | (x, None) :: ps', [] => Stuck "missing argument (index out of bounds)"
     end) ps args [].

Definition shadow (self : option ident) (x : ident) : option ident :=
  match self with Some f => if String.eqb f x then None else self | None => None end.

Fixpoint shadow_all (self : option ident) (xs : list ident) : option ident :=
  match xs with [] => self | x :: r => shadow_all (shadow self x) r end.

(* the evaluator.  [self] is the name under which the running function can tail-call itself (None if shadowed or
   at top level); [tail] says whether the expression is in tail position of that function's body *)
Fixpoint eval (fuel : nat) (L : lim) (h : N) (self : option ident) (tail : bool) (en : env) (e : expr) : M tailed :=
  match fuel with
  | O => fail Fuel
  | S f =>
    let ev1 (e' : expr) : M value :=
      (let! t := eval f L h self false en e' in match t with TVal v => ret v | TTail _ => fail (Stuck "tail call escaped") end) in
    let evlist := (fix go (es : list expr) : M (list value) :=
                     match es with [] => ret [] | x :: r => let! v := ev1 x in let! vs := go r in ret (v :: vs) end) in
    match e with
    | EInt z => ret (TVal (VInt z))
    | EBool b => ret (TVal (VBool b))
    | EStr s => ret (TVal (VStr s))
    | EVar x => match lookup x en with
                | Some (VErr m) => fail (Err m)
                | Some v => ret (TVal v)
                | None => fail (Stuck ("unbound " ++ x)) end
    | EArr es => let! vs := evlist es in ret (TVal (VArr vs))
    | ETup es => let! vs := evlist es in ret (TVal (VTup vs))
    | EItem e' i => let! v := ev1 e' in
                    match v with VTup l => match nth_error l i with Some x => ret (TVal x) | None => fail (Stuck "tuple index") end
                               | _ => fail (Stuck "expected struct") end
    | ELam ps ds r =>
        let! pvs := (fix go (ps : list (ident * option expr)) : M (list (ident * option value)) :=
                       match ps with
                       | [] => ret []
                       | (x, None) :: r => let! rest := go r in ret ((x, None) :: rest)
                       | (x, Some d) :: r => let! v := mcatch (ev1 d) (fun m => ret (VErr m)) in let! rest := go r in ret ((x, Some v) :: rest)
                       end) ps in
        ret (TVal (VClo None en pvs ds r))
    | ECall fe args =>
        (* the tail-call special case: callee is the running function's own name *)
        match fe, self, tail && tco L with
        | EVar x, Some g, true =>
            if String.eqb x g then (let! vs := evlist args in ret (TTail vs))
            else call_general f L h self tail en fe args
        | _, _, _ => call_general f L h self tail en fe args
        end
    end
  end
with call_general (fuel : nat) (L : lim) (h : N) (self : option ident) (tail : bool) (en : env) (fe : expr) (args : list expr) : M tailed :=
  match fuel with
  | O => fail Fuel
  | S f =>
    let ev1 (e' : expr) : M value :=
      (let! t := eval f L h self false en e' in match t with TVal v => ret v | TTail _ => fail (Stuck "tail call escaped") end) in
    let evt (e' : expr) : M tailed := eval f L h self tail en e' in
    let evlist := (fix go (es : list expr) : M (list value) :=
                     match es with [] => ret [] | x :: r => let! v := ev1 x in let! vs := go r in ret (v :: vs) end) in
    let! callee := ev1 fe in
    match callee with
    | VPrim name =>
        if is_lazy name then
          match name, args with
          | "if", [c; a; b] => let! cv := ev1 c in match cv with VBool true => evt a | VBool false => evt b | _ => fail (Stuck "expected bool") end
          | "and", [a; b] => let! av := ev1 a in match av with VBool true => evt b | VBool false => ret (TVal av) | _ => fail (Stuck "expected bool") end
          | "or", [a; b] => let! av := ev1 a in
                            match av with
                            | VBool false => evt b | VBool true => ret (TVal av)
                            | VOpt None => evt b | VOpt (Some x) => ret (TVal (VOpt (Some x)))
                            | _ => fail (Stuck "expected bool/optional") end
          | "or_unwrap", [a; b] => let! av := ev1 a in     (* or(Optional<T>, T) -> T *)
                            match av with
                            | VOpt None => evt b | VOpt (Some x) => ret (TVal x)
                            | _ => fail (Stuck "expected optional") end
          | "if_error", [a; b] => mcatch (let! v := ev1 a in ret (TVal v)) (fun _ => evt b)
          | "is_error", [a] => mcatch (let! _ := ev1 a in ret (TVal (VBool false))) (fun _ => ret (TVal (VBool true)))
          | "get_error", [a] => mcatch (let! _ := ev1 a in ret (TVal (VOpt None))) (fun m => ret (TVal (VOpt (Some (VStr m)))))
          | "then", [c; a] => let! cv := ev1 c in
                              match cv with VBool true => let! v := ev1 a in ret (TVal (VOpt (Some v)))
                                          | VBool false => ret (TVal (VOpt None)) | _ => fail (Stuck "expected bool") end
          | "map_or", [o; fn; d] =>
              let! ov := ev1 o in
              match ov with
              | VOpt None => evt d
              | VOpt (Some x) => let! fv := ev1 fn in let! r := apply f L h fv [x] in ret (TVal r)
              | _ => fail (Stuck "expected optional") end
          (* the library's DERIVED comparison operators (lt / le / gt / ge through cmp, ne through eq, for types without a native
             one): both operands are evaluated, in order, also when the first is an error; the leftmost error is the result *)
          | "lt_all", [a; b] | "le_all", [a; b] | "gt_all", [a; b] | "ge_all", [a; b] | "ne_all", [a; b] =>
              let! ra := mcatch (let! v := ev1 a in ret (inl v)) (fun m => ret (inr m)) in
              let! rb := mcatch (let! v := ev1 b in ret (inl v)) (fun m => ret (inr m)) in
              match ra, rb with
              | inr m, _ => fail (Err m)
              | _, inr m => fail (Err m)
              | inl va, inl vb =>
                  match prim_strict (String.substring 0 2 name) [va; vb] with
                  | Some r => retv r
                  | None => fail (Stuck "derived comparison applied to values of the wrong shape")
                  end
              end
          | "display", [a] => let! v := ev1 a in
                              fun s => (Val (TVal v), mkst (out s ++ [show_value v])%list (calls s))
          | "map", [a; fn] =>
              let! av := ev1 a in let! fv := ev1 fn in
              match av with
              | VArr l => let! rs := (fix go (l : list value) : M (list value) :=
                                        match l with [] => ret [] | x :: r => let! y := apply f L h fv [x] in let! ys := go r in ret (y :: ys) end) l in
                          ret (TVal (VArr rs))
              | _ => fail (Stuck "expected sequence") end
          | "reduce", [a; init; fn] =>
              let! av := ev1 a in let! iv := ev1 init in let! fv := ev1 fn in
              match av with
              | VArr l => let! r := (fix go (l : list value) (acc : value) : M value :=
                                       match l with [] => ret acc | x :: r => let! acc' := apply f L h fv [acc; x] in go r acc' end) l iv in
                          ret (TVal r)
              | _ => fail (Stuck "expected sequence") end
          | _, _ => fail (Stuck ("bad lazy call " ++ name))
          end
        else
          let! vs := evlist args in
          match prim_strict name vs with
          | Some r => retv r
          | None => fail (Stuck ("primitive " ++ name ++ " applied to values of the wrong shape"))
          end
    | VClo _ _ _ _ _ => let! vs := evlist args in let! r := apply f L h callee vs in ret (TVal r)
    | _ => fail (Stuck "expected a function")
    end
  end
(* calling a function value with evaluated arguments: counts as a user call, new frame at height h+1,
   trampoline for tail self-calls *)
with apply (fuel : nat) (L : lim) (h : N) (fv : value) (args : list value) : M value :=
  match fuel with
  | O => fail Fuel
  | S f =>
    match fv with
    | VClo selfname cenv ps ds r =>
        fun s =>
          let c := (calls s + 1)%N in
          if limit_reached (lcalls L) c false then (Viol VCalls, mkst (out s) c) else
          run_body f L (h + 1)%N fv selfname cenv ps ds r args 0%N (mkst (out s) c)
    | VPrim name =>
        match prim_strict name args with
        | Some r => fail r
        | None => fail (Stuck ("primitive " ++ name ++ " used as a first-class function on unsupported values"))
        end
    | _ => fail (Stuck "expected a function")
    end
  end
with run_body (fuel : nat) (L : lim) (h : N) (fv : value) (selfname : option ident) (cenv : env)
              (ps : list (ident * option value)) (ds : list decl) (r : expr) (args : list value) (rec : N) : M value :=
  match fuel with
  | O => fail Fuel
  | S f =>
    if limit_reached (ldepth L) h false then fail (Viol VDepth) else
    match bind_params ps args with
    | Val penv =>
        let base : env := (penv ++ match selfname with Some g => [(g, fv)] | None => [] end ++ cenv)%list in
        let self0 := shadow_all selfname (map fst ps) in
        let! en_self := (fix go (ds : list decl) (en : env) (self : option ident) : M (env * option ident) :=
                           match ds with
                           | [] => ret (en, self)
                           | DLet x e :: rest =>
                               let! t := mcatch (eval f L h self false en e) (fun m => ret (TVal (VErr m))) in
                               match t with TVal v => go rest ((x, v) :: en) (shadow self x) | TTail _ => fail (Stuck "tail call escaped") end
                           | DFn g gps gds gr :: rest =>
                               let! pvs := (fix gop (ps : list (ident * option expr)) : M (list (ident * option value)) :=
                                              match ps with
                                              | [] => ret []
                                              | (x, None) :: r => let! rest := gop r in ret ((x, None) :: rest)
                                              | (x, Some d) :: r =>
                                                  let! t := mcatch (eval f L h self false en d) (fun m => ret (TVal (VErr m))) in
                                                  match t with TVal v => let! rest := gop r in ret ((x, Some v) :: rest)
                                                             | TTail _ => fail (Stuck "tail call escaped") end
                                              end) gps in
                               go rest ((g, VClo (Some g) en pvs gds gr) :: en) (shadow self g)
                           end) ds base self0 in
        let! t := eval f L h (snd en_self) true (fst en_self) r in
        match t with
        | TVal v => ret v
        | TTail args' =>
            let rec' := (rec + 1)%N in
            if limit_reached (lrec L) rec' true then fail (Viol VRecursion)
            else run_body f L h fv selfname cenv ps ds r args' rec'
        end
    | Err m => fail (Err m) | Viol v => fail (Viol v) | Stuck w => fail (Stuck w) | Fuel => fail Fuel
    end
  end.

(* ---- whole programs: top-level declarations are evaluated in order in the root scope (height 0) ---- *)
Definition prims : list string :=
  ["add"; "sub"; "mul"; "mod"; "div_floor"; "neg"; "eq"; "ne"; "lt"; "le"; "gt"; "ge"; "not"; "len"; "to_str"; "error"; "some"; "none";
   "has_value"; "value"; "push"; "to_array"; "get"; "lt_all"; "le_all"; "gt_all"; "ge_all"; "ne_all"; "if"; "and"; "or"; "or_unwrap"; "if_error"; "is_error"; "get_error"; "then"; "map_or"; "display"; "map"; "reduce"].
Definition root_env : env := map (fun n => (n, VPrim n)) prims.

Fixpoint run_decls (fuel : nat) (L : lim) (ds : list decl) (en : env) : M env :=
  match ds with
  | [] => ret en
  | DLet x e :: rest =>
      let! t := mcatch (eval fuel L 0 None false en e) (fun m => ret (TVal (VErr m))) in
      match t with TVal v => run_decls fuel L rest ((x, v) :: en) | TTail _ => fail (Stuck "tail call escaped") end
  | DFn g gps gds gr :: rest =>
      let! pvs := (fix gop (ps : list (ident * option expr)) : M (list (ident * option value)) :=
                     match ps with
                     | [] => ret []
                     | (x, None) :: r => let! rest := gop r in ret ((x, None) :: rest)
                     | (x, Some d) :: r =>
                         let! t := mcatch (eval fuel L 0 None false en d) (fun m => ret (TVal (VErr m))) in
                         match t with TVal v => let! rest := gop r in ret ((x, Some v) :: rest) | TTail _ => fail (Stuck "tail call escaped") end
                     end) gps in
      run_decls fuel L rest ((g, VClo (Some g) en pvs gds gr) :: en)
  end.

(* instantiate, then run the nullary function [main]; observable = result + output + call counter *)
Definition show_viol' (v : viol) : string := show_viol v.
Definition show_outcome (r : res value) : string := show_res show_value r.
Definition run_program (fuel : nat) (L : lim) (ds : list decl) (calls_list : list ident) : string :=
  match run_decls fuel L ds root_env st0 with
  | (Val en, s) =>
      let '(outs, s') :=
        fold_left (fun (acc : list string * st) (fname : ident) =>
                     let '(outs, s) := acc in
                     if String.eqb fname "!reset" then ((outs ++ ["reset"])%list, mkst (out s) 0) else
                     match lookup fname en with
                     | Some fv => let '(r, s2) := apply fuel L 0 fv [] s in ((outs ++ [show_outcome r])%list, s2)
                     | None => ((outs ++ ["N:notfound"])%list, s)
                     end) calls_list ([], s) in
      String.concat "#" outs ++ "|" ++ String.concat "\n" (out s') ++ "|" ++ show_N (calls s')
  | (r, s) => "I:" ++ show_res (fun _ => "") r ++ "|" ++ String.concat "\n" (out s) ++ "|" ++ show_N (calls s)
  end.
