(* C03: the (ancestor depth, cell index) addressing of captured variables and its re-threading through intermediate scopes.
   Model of src/compilation_scope.rs:
     - a use of an outer name creates a cell  Capture{ancestor_depth d >= 1, cell_idx}  in the scope of the use, pointing at the
       Variable cell that holds the name (get_item never returns a capture: "will never lead to another capture");
     - when a function's scope is closed (into_static_ud) every capture with d > 1 becomes a request to the parent: the parent
       appends  Capture{d - 1, cell_idx}  to its own cells and the child's cell becomes  Capture{1, index of that new cell};
       captures with d = 1 and variables are kept.
   At run time a function value is created inside its parent's frame and copies the parent's cell for every Capture{1, _}
   (runtime_scope.rs from_specs); so what a cell denotes is found by following depth-1 hops.
   Theorem: closing scopes, innermost first, all the way to the root never changes what any cell of any scope denotes
   (which Variable cell of which ancestor), for every nesting depth and every arrangement of captures. *)
From Coq Require Import List Arith Lia.
Import ListNotations.

Inductive cell := CVar | CCap (d ci : nat).
Definition scope := list cell.

(* what cell i of the innermost scope of st (innermost first) denotes after skipping k scopes:
   (height of the scope that owns the variable = number of scopes below it, cell index there) *)
Fixpoint walk (st : list scope) (k i : nat) : option (nat * nat) :=
  match st with
  | [] => None
  | sc :: below =>
      match k with
      | S k' => walk below k' i
      | O =>
          match nth_error sc i with
          | None => None
          | Some CVar => Some (length below, i)
          | Some (CCap O _) => None
          | Some (CCap (S d) ci) => walk below d ci
          end
      end
  end.

(* into_static_ud: returns the child's cell specs and the parent with the requested captures appended *)
Fixpoint fin (child parent : scope) : scope * scope :=
  match child with
  | [] => ([], parent)
  | CCap (S (S d)) ci :: cs =>
      let (specs, parent') := fin cs (parent ++ [CCap (S d) ci]) in
      (CCap 1 (length parent) :: specs, parent')
  | c :: cs => let (specs, parent') := fin cs parent in (c :: specs, parent')
  end.

(* closing every scope of a nest, innermost first *)
Fixpoint fin_all (fuel : nat) (st : list scope) : list scope :=
  match fuel with
  | O => st
  | S f =>
      match st with
      | child :: parent :: rest => let (specs, parent') := fin child parent in specs :: fin_all f (parent' :: rest)
      | _ => st
      end
  end.
Definition close_all (st : list scope) : list scope := fin_all (length st) st.

(* ---------------------------------------------------------------- proofs *)
Definition extends (a b : scope) : Prop := exists e, b = a ++ e.
Lemma extends_refl a : extends a a.
Proof. exists []. symmetry. apply app_nil_r. Qed.

Lemma nth_error_extends a b i c : extends a b -> nth_error a i = Some c -> nth_error b i = Some c.
Proof.
  intros [e ->] H. rewrite nth_error_app1; [exact H|]. apply nth_error_Some. congruence.
Qed.

Lemma F2_length {A B} (R : A -> B -> Prop) l l' : Forall2 R l l' -> length l = length l'.
Proof. induction 1; cbn; congruence. Qed.

(* growing scopes (appending cells) never changes a successful walk *)
Lemma walk_extends : forall st st' k i r,
  Forall2 extends st st' -> walk st k i = Some r -> walk st' k i = Some r.
Proof.
  induction st as [|sc below IH]; intros st' k i r HF H; [discriminate|].
  inversion HF as [|? sc' ? below' Hsc Hb]; subst. cbn [walk] in *.
  pose proof (F2_length _ _ _ Hb) as Hlen.
  destruct k as [|k]; [|eapply IH; eauto].
  destruct (nth_error sc i) as [c|] eqn:E; [|discriminate].
  rewrite (nth_error_extends _ _ _ _ Hsc E).
  destruct c as [|[|d] ci]; [rewrite <- Hlen; exact H|discriminate|eapply IH; eauto].
Qed.

Lemma Forall2_extends_refl st : Forall2 extends st st.
Proof. induction st; constructor; auto using extends_refl. Qed.

Lemma fin_spec : forall child parent specs parent',
  fin child parent = (specs, parent') ->
  extends parent parent' /\ length specs = length child /\
  (forall c, In c specs -> c = CVar \/ exists ci, c = CCap 0 ci \/ c = CCap 1 ci) /\
  (forall rest i c, nth_error child i = Some c ->
     exists c', nth_error specs i = Some c' /\
       match c with
       | CVar => c' = CVar
       | CCap O ci => c' = CCap O ci
       | CCap (S d) ci => exists pi, c' = CCap 1 pi /\
            forall r, walk (parent :: rest) d ci = Some r -> walk (parent' :: rest) 0 pi = Some r
       end).
Proof.
  induction child as [|c cs IH]; intros parent specs parent' H.
  - inversion H; subst. repeat split; auto using extends_refl.
    + intros c [].
    + intros rest i c Hn. destruct i; discriminate.
  - cbn [fin] in H.
    assert (Hgen : forall p1 sp1 c1, fin cs p1 = (sp1, parent') -> specs = c1 :: sp1 -> extends parent p1 ->
              (c1 = CVar \/ exists ci, c1 = CCap 0 ci \/ c1 = CCap 1 ci) ->
              (forall rest, match c with
                 | CVar => c1 = CVar
                 | CCap O ci => c1 = CCap O ci
                 | CCap (S d) ci => exists pi, c1 = CCap 1 pi /\
                     forall r, walk (parent :: rest) d ci = Some r -> walk (parent' :: rest) 0 pi = Some r
                 end) ->
              extends parent parent' /\ length specs = length (c :: cs) /\
              (forall c0, In c0 specs -> c0 = CVar \/ exists ci, c0 = CCap 0 ci \/ c0 = CCap 1 ci) /\
              (forall rest i c0, nth_error (c :: cs) i = Some c0 ->
                 exists c', nth_error specs i = Some c' /\
                   match c0 with
                   | CVar => c' = CVar
                   | CCap O ci => c' = CCap O ci
                   | CCap (S d) ci => exists pi, c' = CCap 1 pi /\
                        forall r, walk (parent :: rest) d ci = Some r -> walk (parent' :: rest) 0 pi = Some r
                   end)).
    { intros p1 sp1 c1 Hf -> Hext Hshape Hhead.
      destruct (IH _ _ _ Hf) as (He & Hl & Hs & Hn).
      assert (Hpp : extends parent parent').
      { destruct Hext as [e1 ->]. destruct He as [e2 ->]. exists (e1 ++ e2). symmetry. apply app_assoc. }
      split; [exact Hpp|]. split; [cbn [length]; lia|]. split.
      - intros c0 [<-|Hin]; auto.
      - intros rest [|i] c0 Hi; cbn [nth_error] in *.
        + inversion Hi; subst. eexists; split; [reflexivity|]. apply Hhead.
        + destruct (Hn rest i c0 Hi) as (c' & Hc' & Hm). exists c'. split; [exact Hc'|].
          destruct c0 as [|[|d] ci]; auto. destruct Hm as (pi & -> & Hw). exists pi. split; [reflexivity|].
          intros r Hr. apply Hw. eapply walk_extends; [|exact Hr]. constructor; [exact Hext|apply Forall2_extends_refl]. }
    destruct c as [|[|[|d]] ci].
    + destruct (fin cs parent) as [sp1 p'] eqn:Hf. inversion H; subst.
      eapply Hgen; [exact Hf|reflexivity|apply extends_refl|left; reflexivity|intros; reflexivity].
    + destruct (fin cs parent) as [sp1 p'] eqn:Hf. inversion H; subst.
      eapply Hgen; [exact Hf|reflexivity|apply extends_refl|right; exists ci; auto|intros; reflexivity].
    + (* depth 1: kept *)
      destruct (fin cs parent) as [sp1 p'] eqn:Hf. inversion H; subst.
      eapply Hgen; [exact Hf|reflexivity|apply extends_refl|right; exists ci; auto|].
      intros rest. exists ci. split; [reflexivity|]. intros r Hr.
      destruct (IH _ _ _ Hf) as (He & _). eapply walk_extends; [|exact Hr].
      constructor; [exact He|apply Forall2_extends_refl].
    + (* depth >= 2: re-threaded through a new cell of the parent *)
      destruct (fin cs (parent ++ [CCap (S d) ci])) as [sp1 p'] eqn:Hf. inversion H; subst.
      eapply Hgen; [exact Hf|reflexivity|exists [CCap (S d) ci]; reflexivity|right; exists (length parent); auto|].
      intros rest. exists (length parent). split; [reflexivity|]. intros r Hr.
      destruct (IH _ _ _ Hf) as ([e He] & _). cbn [walk]. rewrite He.
      rewrite <- app_assoc. rewrite nth_error_app2 by lia. rewrite Nat.sub_diag. cbn [app nth_error].
      cbn [walk] in Hr. exact Hr.
Qed.

Lemma fin_all_length : forall f st, length (fin_all f st) = length st.
Proof.
  induction f as [|f IH]; intros st; [reflexivity|]. cbn [fin_all].
  destruct st as [|c [|p rest]]; try reflexivity.
  destruct (fin c p) as [sp p']. cbn [length]. rewrite IH. reflexivity.
Qed.

(* the statement for one scope: after everything is closed, cell i of the innermost scope denotes what it denoted before *)
Lemma close_preserves : forall f st i r,
  length st <= f -> walk st 0 i = Some r -> walk (fin_all f st) 0 i = Some r.
Proof.
  induction f as [|f IH]; intros st i r Hlen H.
  - destruct st; [discriminate|cbn in Hlen; lia].
  - cbn [fin_all]. destruct st as [|c [|p rest]]; try exact H.
    destruct (fin c p) as [sp p'] eqn:Hf. destruct (fin_spec _ _ _ _ Hf) as (He & Hl & Hs & Hn).
    cbn [walk] in H. destruct (nth_error c i) as [c0|] eqn:E; [|discriminate].
    destruct (Hn rest i c0 E) as (c' & Hc' & Hm). cbn [walk]. rewrite Hc'.
    destruct c0 as [|[|d] ci].
    + subst c'. rewrite fin_all_length. exact H.
    + discriminate.
    + destruct Hm as (pi & -> & Hw). apply IH; [cbn [length] in *; lia|]. apply Hw. exact H.
Qed.

Theorem close_all_preserves : forall st i r, walk st 0 i = Some r -> walk (close_all st) 0 i = Some r.
Proof. intros. apply close_preserves; auto. Qed.

(* ... and for the cells of EVERY scope of the nest: cell j of the scope k levels up *)
Theorem close_all_preserves_every_scope : forall st k j r,
  k < length st -> walk (skipn k st) 0 j = Some r -> walk (skipn k (close_all st)) 0 j = Some r.
Proof.
  intros st k. unfold close_all. generalize (le_n (length st)). generalize (length st) at 2 4 as f.
  revert st. induction k as [|k IH]; intros st f Hf j r Hk H.
  - cbn [skipn] in *. apply close_preserves; auto.
  - destruct f as [|f]; [lia|]. destruct st as [|c [|p rest]]; cbn [length] in *; try lia.
    cbn [fin_all]. destruct (fin c p) as [sp p'] eqn:E. cbn [skipn] in *.
    destruct (fin_spec _ _ _ _ E) as (He & _).
    apply IH; [cbn [length]; lia|cbn [length]; lia|].
    (* the parent only grew *)
    destruct k as [|k]; cbn [skipn] in *.
    + eapply walk_extends; [|exact H]. constructor; [exact He|apply Forall2_extends_refl].
    + exact H.
Qed.

(* closed scopes other than the root use depth 1 only (the comment "i'm pretty sure this is always 1" in CellSpec::Capture) *)
Theorem closed_depth_one : forall f st sc c,
  length st <= f -> In sc (removelast (fin_all f st)) -> In c sc -> c = CVar \/ exists ci, c = CCap 0 ci \/ c = CCap 1 ci.
Proof.
  induction f as [|f IH]; intros st sc c Hlen Hin Hc.
  - destruct st; [contradiction|cbn in Hlen; lia].
  - cbn [fin_all] in Hin. destruct st as [|c0 [|p rest]]; try contradiction.
    destruct (fin c0 p) as [sp p'] eqn:E. destruct (fin_spec _ _ _ _ E) as (_ & _ & Hs & _).
    assert (Hne : fin_all f (p' :: rest) <> []).
    { intros Hnil. apply (f_equal (@length scope)) in Hnil. rewrite fin_all_length in Hnil. discriminate. }
    cbn [removelast] in Hin. destruct (fin_all f (p' :: rest)) eqn:Ef; [congruence|].
    destruct Hin as [<-|Hin]; [apply Hs; exact Hc|].
    rewrite <- Ef in Hin. eapply IH; eauto. cbn [length] in *. lia.
Qed.


(* ---------------------------------------------------------------- what the denotation means at run time
   A frame holds one value per cell.  A function value is created inside its parent's frame: every Capture{1, pi} cell of the
   new frame is a copy of cell pi of the parent frame (runtime_scope.rs from_specs); values never change afterwards.  For a
   chain of frames (innermost first) built that way over closed specs, the value found in any cell is the value of the
   variable cell that [walk] says it denotes - at any depth of nesting. *)
Section Frames.
  Variable value : Type.
  Definition frame := list (option value).

  (* frames fs are consistent with the specs st: same shape, and each depth-1 capture holds the parent's cell *)
  Fixpoint consistent (st : list scope) (fs : list frame) : Prop :=
    match st, fs with
    | [], [] => True
    | sc :: below, f :: fbelow =>
        consistent below fbelow /\
        (forall i pi, nth_error sc i = Some (CCap 1 pi) ->
           match fbelow with pf :: _ => nth_error f i = nth_error pf pi | [] => True end)
    | _, _ => False
    end.

  (* the cell (h, j): cell j of the frame that has h frames below it *)
  Definition cell_at (fs : list frame) (h j : nat) : option (option value) :=
    match nth_error (rev fs) h with Some f => nth_error f j | None => None end.

  Lemma cell_at_cons f fs h j : h < length fs -> cell_at (f :: fs) h j = cell_at fs h j.
  Proof. intros H. unfold cell_at. cbn [rev]. rewrite nth_error_app1 by (rewrite rev_length; exact H). reflexivity. Qed.
  Lemma cell_at_top f fs j : cell_at (f :: fs) (length fs) j = nth_error f j.
  Proof.
    unfold cell_at. cbn [rev]. rewrite nth_error_app2 by (rewrite rev_length; lia). rewrite rev_length, Nat.sub_diag. reflexivity.
  Qed.

  Lemma consistent_length st fs : consistent st fs -> length st = length fs.
  Proof. revert fs. induction st as [|sc st IH]; intros [|f fs] H; cbn in *; try contradiction; auto. destruct H as [H _]. rewrite (IH fs H). reflexivity. Qed.

  Lemma walk_height st k i h j : walk st k i = Some (h, j) -> h < length st.
  Proof.
    revert k i. induction st as [|sc below IH]; intros k i H; [discriminate|]. cbn [walk] in H. cbn [length].
    destruct k as [|k]; [|specialize (IH _ _ H); lia].
    destruct (nth_error sc i) as [[|[|d] ci]|]; try discriminate.
    - inversion H; subst. lia.
    - specialize (IH _ _ H). lia.
  Qed.

  (* closed specs use depth 1 only; then every capture cell holds the value of the variable cell it denotes *)
  Theorem capture_holds_denoted_value : forall st fs,
    consistent st fs ->
    (forall sc c, In sc st -> In c sc -> c = CVar \/ exists ci, c = CCap 0 ci \/ c = CCap 1 ci) ->
    forall i h j, walk st 0 i = Some (h, j) ->
    match fs with f :: _ => cell_at fs h j = nth_error f i | [] => True end.
  Proof.
    induction st as [|sc below IH]; intros fs Hc Hd i h j Hw; [discriminate|].
    destruct fs as [|f fbelow]; [cbn in Hc; contradiction|]. cbn [consistent] in Hc. destruct Hc as [Hcb Hcap].
    pose proof (consistent_length _ _ Hcb) as Hlen.
    cbn [walk] in Hw. destruct (nth_error sc i) as [c|] eqn:E; [|discriminate].
    assert (Hin : In c sc) by (eapply nth_error_In; eauto).
    destruct (Hd sc c (or_introl eq_refl) Hin) as [->|[ci [->| ->]]].
    - inversion Hw; subst. rewrite Hlen. apply cell_at_top.
    - discriminate.
    - (* one hop to the parent *)
      destruct below as [|psc pbelow]; [discriminate|]. destruct fbelow as [|pf pfb]; [cbn in Hcb; contradiction|].
      specialize (Hcap i ci E). cbn in Hcap.
      assert (Hd' : forall sc c, In sc (psc :: pbelow) -> In c sc -> c = CVar \/ exists ci, c = CCap 0 ci \/ c = CCap 1 ci).
      { intros sc0 c0 H1 H2. apply (Hd sc0 c0); [right; exact H1|exact H2]. }
      pose proof (IH (pf :: pfb) Hcb Hd' ci h j Hw) as Hp. cbn in Hp.
      pose proof (walk_height _ _ _ _ _ Hw) as Hh. rewrite Hlen in Hh.
      rewrite cell_at_cons by exact Hh. rewrite Hp, Hcap. reflexivity.
  Qed.
End Frames.

(* the two halves together: compile-time re-threading followed by run-time copying gives every capture cell of the innermost
   function the value of the variable the ORIGINAL (ancestor depth, cell index) pair named (the outermost scope has no scope
   above it to capture from: its cells are variables) *)
Theorem captured_value_is_the_named_variable : forall (value : Type) st (fs : list (frame value)),
  (forall c, In c (last (close_all st) []) -> c = CVar) ->
  consistent value (close_all st) fs ->
  forall i h j, walk st 0 i = Some (h, j) ->
  match fs with f :: _ => cell_at value fs h j = nth_error f i | [] => True end.
Proof.
  intros value st fs Hroot Hc i h j Hw.
  apply (capture_holds_denoted_value value (close_all st) fs Hc); [|apply close_all_preserves; exact Hw].
  intros sc c Hsc Hcin.
  assert (Hne : close_all st <> []) by (intros Hn; rewrite Hn in Hsc; contradiction).
  rewrite (app_removelast_last [] Hne) in Hsc. apply in_app_or in Hsc as [Hsc|[<-|[]]].
  - apply (closed_depth_one (length st) st sc c (le_n _)); assumption.
  - left. apply Hroot. exact Hcin.
Qed.
