(* Proofs about the LazyBigint model: every operation preserves the canonical form, never gets
   stuck on canonical operands (under the guard the callers establish) and denotes the exact
   operation on Z. *)
From Coq Require Import ZArith Bool String List Lia.
From Xr Require Import Base.Res Int.Lbi.
Open Scope Z_scope.

Ltac Zify.zify_post_hook ::= Z.div_mod_to_equations.

Definition I64 (z : Z) : Prop := -9223372036854775808 <= z <= 9223372036854775807.

Lemma i64b_true z : i64b z = true <-> I64 z.
Proof.
  unfold i64b, i64_min, i64_max, I64. rewrite andb_true_iff, !Z.leb_le.
  change (2 ^ 63) with 9223372036854775808. lia.
Qed.

Lemma i64b_false z : i64b z = false <-> ~ I64 z.
Proof. rewrite <- i64b_true. destruct (i64b z); intuition congruence. Qed.

Lemma i64_min_val : i64_min = -9223372036854775808.
Proof. reflexivity. Qed.

(* [ok r z] : the result is a canonical value denoting z *)
Definition ok (r : res lbi) (z : Z) : Prop := exists c, r = Val c /\ wf c = true /\ den c = z.

Lemma wf_short z : wf (Short z) = true <-> I64 z.
Proof. apply i64b_true. Qed.
Lemma wf_long z : wf (Long z) = true <-> ~ I64 z.
Proof. unfold wf. rewrite negb_true_iff. apply i64b_false. Qed.

Lemma from_ok z : ok (Val (from z)) z.
Proof.
  unfold ok, from. destruct (i64b z) eqn:E; eexists; split; try reflexivity; split; try reflexivity.
  - exact E.
  - unfold wf. now rewrite E.
Qed.

Lemma from_wf z : wf (from z) = true.
Proof. destruct (from_ok z) as (c & H & Hw & _). injection H as <-. exact Hw. Qed.
Lemma from_den z : den (from z) = z.
Proof. unfold from. now destruct (i64b z). Qed.

Lemma checked_ok z : ok (checked z) z.
Proof.
  unfold ok, checked, assert_is_long. destruct (i64b z) eqn:E.
  - eexists; repeat split. exact E.
  - eexists; repeat split. unfold wf. now rewrite E.
Qed.

Lemma assert_long_ok z : ~ I64 z -> ok (assert_is_long z) z.
Proof.
  intros H. apply i64b_false in H. unfold ok, assert_is_long. rewrite H.
  eexists; repeat split. unfold wf. now rewrite H.
Qed.

Lemma val_ok c : wf c = true -> ok (Val c) (den c).
Proof. intros; exists c; auto. Qed.

Lemma short_ok z : I64 z -> ok (Val (Short z)) z.
Proof. intros H. exists (Short z). repeat split. now apply wf_short. Qed.

(* canonical form makes the representation unique *)
Lemma canonical_unique a b : wf a = true -> wf b = true -> den a = den b -> a = b.
Proof.
  destruct a as [s|l], b as [s'|l']; cbn [den]; intros Ha Hb <-; try reflexivity.
  - apply wf_short in Ha. apply wf_long in Hb. contradiction.
  - apply wf_long in Ha. apply wf_short in Hb. contradiction.
Qed.

Ltac wfs :=
  repeat match goal with
  | H : wf (Short _) = true |- _ => apply wf_short in H
  | H : wf (Long _) = true |- _ => apply wf_long in H
  end.

(* ---- neg ---- *)
Lemma neg_ok a : wf a = true -> ok (neg a) (- den a).
Proof.
  destruct a as [s|l]; intros Ha; wfs; cbn [neg den].
  - destruct (Z.eqb_spec s i64_min) as [->|Hne].
    + apply assert_long_ok. rewrite i64_min_val. unfold I64. lia.
    + apply short_ok. rewrite i64_min_val in Hne. unfold I64 in *. lia.
  - apply from_ok.
Qed.

(* ---- add ---- *)
Lemma add_ok a b : wf a = true -> wf b = true -> ok (add a b) (den a + den b).
Proof.
  intros Ha Hb. destruct a as [s1|l1], b as [s2|l2]; cbn [den].
  - destruct s1 as [|p1|p1]; [cbn [add]; replace (0 + s2) with s2 by lia; now apply (val_ok (Short s2))|..];
    (destruct s2 as [|p2|p2]; cbn [add];
      [ rewrite Z.add_0_r; now apply (val_ok (Short _)) | apply checked_ok ..]).
  - destruct s1 as [|p1|p1]; cbn [add].
    + replace (0 + l2) with l2 by lia. now apply (val_ok (Long l2)).
    + rewrite Z.add_comm. apply from_ok.
    + rewrite Z.add_comm. apply from_ok.
  - destruct s2 as [|p2|p2]; cbn [add].
    + rewrite Z.add_0_r. now apply (val_ok (Long l1)).
    + apply from_ok.
    + apply from_ok.
  - cbn [add]. apply from_ok.
Qed.

(* ---- sub ---- *)
Lemma sub_ok a b : wf a = true -> wf b = true -> ok (sub a b) (den a - den b).
Proof.
  intros Ha Hb. destruct a as [s1|l1], b as [s2|l2]; cbn [den].
  - destruct s2 as [|p2|p2]; cbn [sub].
    + rewrite Z.sub_0_r. now apply (val_ok (Short s1)).
    + apply checked_ok.
    + apply checked_ok.
  - cbn [sub]. apply from_ok.
  - destruct s2 as [|p2|p2]; cbn [sub].
    + rewrite Z.sub_0_r. now apply (val_ok (Long l1)).
    + apply from_ok.
    + apply from_ok.
  - cbn [sub]. apply from_ok.
Qed.

(* ---- mul ---- *)
Lemma long_mul_long l0 l1 : ~ I64 l0 -> ~ I64 l1 -> ~ I64 (l0 * l1).
Proof. unfold I64. nia. Qed.

Lemma mul_ok a b : wf a = true -> wf b = true -> ok (mul a b) (den a * den b).
Proof.
  intros Ha Hb. destruct a as [s1|l1], b as [s2|l2]; cbn [den].
  - destruct s1 as [|p1|p1]; [cbn [mul]; apply short_ok; unfold I64; lia|..];
    (destruct s2 as [|p2|p2]; cbn [mul];
      [ rewrite Z.mul_0_r; apply short_ok; unfold I64; lia | apply checked_ok ..]).
  - destruct s1 as [|p1|p1]; cbn [mul].
    + apply short_ok; unfold I64; lia.
    + rewrite Z.mul_comm. apply from_ok.
    + rewrite Z.mul_comm. apply from_ok.
  - destruct s2 as [|p2|p2]; cbn [mul].
    + rewrite Z.mul_0_r. apply short_ok; unfold I64; lia.
    + apply from_ok.
    + apply from_ok.
  - cbn [mul]. wfs. apply assert_long_ok. now apply long_mul_long.
Qed.

Lemma is_one_spec b : wf b = true -> is_one b = true <-> den b = 1.
Proof.
  destruct b as [s|l]; cbn [is_one den]; intros Hb.
  - destruct s as [|p|p]; try (split; [discriminate|lia]).
    destruct p; split; try discriminate; try lia; auto.
  - wfs. unfold I64 in Hb. split; [discriminate|lia].
Qed.

Lemma is_zero_spec b : wf b = true -> is_zero b = true <-> den b = 0.
Proof.
  destruct b as [s|l]; cbn [is_zero den]; intros Hb.
  - destruct s; split; try discriminate; try lia; auto.
  - wfs. unfold I64 in Hb. split; [discriminate|lia].
Qed.

Lemma mul_assign_ok a b : wf a = true -> wf b = true -> ok (mul_assign a b) (den a * den b).
Proof.
  intros Ha Hb. unfold mul_assign.
  destruct (is_one b) eqn:E1.
  - apply is_one_spec in E1; auto. rewrite E1, Z.mul_1_r. now apply val_ok.
  - destruct a as [s0|l0], b as [s1|l1]; try now apply mul_ok.
    + destruct (i64b (s0 * s1)) eqn:E; [|now apply mul_ok].
      apply short_ok. now apply i64b_true.
    + cbn [den]. wfs. exists (Long (l0 * l1)). repeat split.
      apply wf_long. now apply long_mul_long.
Qed.

Lemma add_assign_ok a b : wf a = true -> wf b = true -> ok (add_assign a b) (den a + den b).
Proof.
  intros Ha Hb. unfold add_assign.
  destruct (is_zero b) eqn:E1.
  - apply is_zero_spec in E1; auto. rewrite E1, Z.add_0_r. now apply val_ok.
  - destruct a as [s0|l0], b as [s1|l1]; try now apply add_ok.
    destruct (i64b (s0 + s1)) eqn:E; [|now apply add_ok].
    apply short_ok. now apply i64b_true.
Qed.

(* ---- rem (truncated) ---- *)
Lemma rem_m1 x : Z.rem x (-1) = 0.
Proof. change (-1) with (- (1)). rewrite Z.rem_opp_r'. apply Z.rem_1_r. Qed.

Lemma rem_ok a b : wf a = true -> wf b = true -> den b <> 0 -> ok (rem a b) (Z.rem (den a) (den b)).
Proof.
  intros Ha Hb Hnz. destruct a as [s1|l1], b as [s2|l2]; cbn [den] in *.
  - assert (Hr : I64 (Z.rem s1 s2)).
    { wfs. pose proof (Z.rem_bound_abs s1 s2 Hnz). unfold I64 in *. lia. }
    destruct s2 as [|p2|p2]; [lia|..]; destruct s1 as [|p1|p1]; cbn [rem];
      try (rewrite Z.rem_0_l by lia; apply short_ok; unfold I64; lia).
    + destruct p2; try (now apply short_ok). rewrite Z.rem_1_r. apply short_ok; unfold I64; lia.
    + destruct p2; try (now apply short_ok). rewrite Z.rem_1_r. apply short_ok; unfold I64; lia.
    + destruct p2; try (now apply short_ok).
      rewrite rem_m1. apply short_ok; unfold I64; lia.
    + destruct p2; try (now apply short_ok).
      rewrite rem_m1. apply short_ok; unfold I64; lia.
  - destruct s1 as [|p1|p1]; cbn [rem].
    + rewrite Z.rem_0_l by lia. apply short_ok; unfold I64; lia.
    + apply from_ok.
    + apply from_ok.
  - destruct s2 as [|p2|p2]; [lia|..]; cbn [rem].
    + destruct p2; try apply from_ok. rewrite Z.rem_1_r. apply short_ok; unfold I64; lia.
    + destruct p2; try apply from_ok.
      rewrite rem_m1. apply short_ok; unfold I64; lia.
  - cbn [rem]. apply from_ok.
Qed.

(* ---- mod_floor (the `mod` builtin) ---- *)
Lemma is_negative_spec a : is_negative a = (den a <? 0).
Proof. reflexivity. Qed.

Lemma mod_floor_ok a b : wf a = true -> wf b = true -> den b <> 0 ->
  ok (mod_floor a b) (den a mod den b).
Proof.
  intros Ha Hb Hnz. unfold mod_floor.
  destruct (rem_ok a b Ha Hb Hnz) as (r & -> & Hrw & Hrd). cbn [bind].
  pose proof (is_zero_spec r Hrw) as Hz.
  rewrite !is_negative_spec, Hrd.
  pose proof (Z.rem_bound_abs (den a) (den b) Hnz) as Hbound.
  pose proof (Z.quot_rem' (den a) (den b)) as Hqr.
  destruct (is_zero r) eqn:Ez; cbn [negb andb].
  - assert (Hr0 : Z.rem (den a) (den b) = 0) by (rewrite <- Hrd; now apply Hz).
    exists r. repeat split; auto. rewrite Hrd, Hr0. symmetry.
    apply Z.rem_divide in Hr0; auto. destruct Hr0 as [k Hk]. rewrite Hk. now apply Z.mod_mul.
  - assert (Hr0 : Z.rem (den a) (den b) <> 0).
    { intros H0. rewrite <- Hrd in H0. apply Hz in H0. discriminate. }
    pose proof (Z.rem_sign_nz (den a) (den b) Hnz Hr0) as Hsg.
    destruct (Bool.eqb (Z.rem (den a) (den b) <? 0) (den b <? 0)) eqn:Es; cbn [negb].
    + exists r. repeat split; auto. rewrite Hrd.
      apply eqb_prop in Es.
      apply Z.mod_unique with (q := Z.quot (den a) (den b)).
      * destruct (Z.ltb_spec (den b) 0), (Z.ltb_spec (Z.rem (den a) (den b)) 0); try discriminate; lia.
      * lia.
    + apply eqb_false_iff in Es.
      replace (den a mod den b) with (den r + den b).
      * now apply add_ok.
      * rewrite Hrd. apply Z.mod_unique with (q := Z.quot (den a) (den b) - 1).
        -- destruct (Z.ltb_spec (den b) 0), (Z.ltb_spec (Z.rem (den a) (den b)) 0); try congruence; lia.
        -- lia.
Qed.

(* ---- div (truncating), div_floor, div_ceil ---- *)
Lemma quot_i64 s1 s2 : I64 s1 -> I64 s2 -> s2 <> 0 -> ~ (s1 = -9223372036854775808 /\ s2 = -1) ->
  I64 (Z.quot s1 s2).
Proof.
  intros H1 H2 Hnz Hov. unfold I64 in *.
  pose proof (Z.quot_rem' s1 s2) as Hqr. pose proof (Z.rem_bound_abs s1 s2 Hnz) as Hb.
  pose proof (Z.rem_sign_mul s1 s2 Hnz) as Hs.
  nia.
Qed.

Lemma div_i64 s1 s2 : I64 s1 -> I64 s2 -> s2 <> 0 -> ~ (s1 = -9223372036854775808 /\ s2 = -1) ->
  I64 (s1 / s2).
Proof.
  intros H1 H2 Hnz Hov. unfold I64 in *.
  pose proof (Z.div_mod s1 s2 Hnz) as Hqr.
  assert (Hb : 0 <= s1 mod s2 < s2 \/ s2 < s1 mod s2 <= 0).
  { destruct (Z.lt_trichotomy s2 0) as [Hl|[He|Hg]]; [right|lia|left].
    - apply Z.mod_neg_bound; lia. - apply Z.mod_pos_bound; lia. }
  nia.
Qed.

Lemma div_ceil_i64 s1 s2 : I64 s1 -> I64 s2 -> s2 <> 0 -> ~ (s1 = -9223372036854775808 /\ s2 = -1) ->
  I64 (zdiv_ceil s1 s2).
Proof.
  intros H1 H2 Hnz Hov. unfold zdiv_ceil, I64 in *.
  pose proof (Z.div_mod (- s1) s2 Hnz) as Hqr.
  assert (Hb : 0 <= (- s1) mod s2 < s2 \/ s2 < (- s1) mod s2 <= 0).
  { destruct (Z.lt_trichotomy s2 0) as [Hl|[He|Hg]]; [right|lia|left].
    - apply Z.mod_neg_bound; lia. - apply Z.mod_pos_bound; lia. }
  nia.
Qed.

Lemma min_m1 s1 s2 : (s1 =? i64_min) && (s2 =? -1) = true <-> s1 = -9223372036854775808 /\ s2 = -1.
Proof. rewrite andb_true_iff, !Z.eqb_eq, i64_min_val. tauto. Qed.

Section DIV.
  Variable f : Z -> Z -> Z.
  Variable fdiv : lbi -> lbi -> res lbi.
  Hypothesis f_i64 : forall s1 s2, I64 s1 -> I64 s2 -> s2 <> 0 ->
      ~ (s1 = -9223372036854775808 /\ s2 = -1) -> I64 (f s1 s2).
  Hypothesis f_min : f (-9223372036854775808) (-1) = 9223372036854775808.
  Hypothesis fdiv_def : forall a b, fdiv a b =
    match a, b with
    | Short s1, Short s2 =>
        if (s1 =? i64_min) && (s2 =? -1) then Val (from (- i64_min))
        else if s2 =? 0 then Stuck "attempt to divide by zero"
        else Val (Short (f s1 s2))
    | Short s, Long l => Val (from (f s l))
    | Long l, Short s => if s =? 0 then Stuck "attempt to divide by zero" else Val (from (f l s))
    | Long l0, Long l1 => Val (from (f l0 l1))
    end.

  Lemma gen_div_ok a b : wf a = true -> wf b = true -> den b <> 0 -> ok (fdiv a b) (f (den a) (den b)).
  Proof.
    intros Ha Hb Hnz. rewrite fdiv_def. destruct a as [s1|l1], b as [s2|l2]; cbn [den] in *.
    - destruct ((s1 =? i64_min) && (s2 =? -1)) eqn:E.
      + apply min_m1 in E. destruct E as [-> ->]. rewrite f_min. apply from_ok.
      + destruct (Z.eqb_spec s2 0); [lia|]. wfs. apply short_ok. apply f_i64; auto.
        intros H. apply min_m1 in H. congruence.
    - apply from_ok.
    - destruct (Z.eqb_spec s2 0); [lia|]. apply from_ok.
    - apply from_ok.
  Qed.
End DIV.

Lemma div_ok a b : wf a = true -> wf b = true -> den b <> 0 -> ok (div a b) (Z.quot (den a) (den b)).
Proof. apply (gen_div_ok Z.quot div quot_i64); reflexivity. Qed.

Lemma div_floor_ok a b : wf a = true -> wf b = true -> den b <> 0 -> ok (div_floor a b) (den a / den b).
Proof. apply (gen_div_ok Z.div div_floor div_i64); reflexivity. Qed.

Lemma div_ceil_ok a b : wf a = true -> wf b = true -> den b <> 0 ->
  ok (div_ceil a b) (zdiv_ceil (den a) (den b)).
Proof. apply (gen_div_ok zdiv_ceil div_ceil div_ceil_i64); reflexivity. Qed.

(* ---- bit operations: the i64 range is closed under land / lor / lxor ---- *)
Lemma i64_shiftr z : I64 z <-> (Z.shiftr z 63 = 0 \/ Z.shiftr z 63 = -1).
Proof.
  rewrite Z.shiftr_div_pow2 by lia. change (2 ^ 63) with 9223372036854775808. unfold I64. lia.
Qed.

Lemma land_i64 a b : I64 a -> I64 b -> I64 (Z.land a b).
Proof.
  rewrite !i64_shiftr, Z.shiftr_land. intros [->| ->] [->| ->]; cbn; auto.
Qed.
Lemma lor_i64 a b : I64 a -> I64 b -> I64 (Z.lor a b).
Proof.
  rewrite !i64_shiftr, Z.shiftr_lor. intros [->| ->] [->| ->]; cbn; auto.
Qed.
Lemma lxor_i64 a b : I64 a -> I64 b -> I64 (Z.lxor a b).
Proof.
  rewrite !i64_shiftr, Z.shiftr_lxor. intros [->| ->] [->| ->]; cbn; auto.
Qed.

Lemma bitop_ok f a b :
  (forall x y, I64 x -> I64 y -> I64 (f x y)) -> (forall x y, f x y = f y x) ->
  wf a = true -> wf b = true -> ok (bitop f a b) (f (den a) (den b)).
Proof.
  intros Hf Hc Ha Hb. destruct a as [s1|l1], b as [s2|l2]; cbn [bitop den]; wfs.
  - apply short_ok. now apply Hf.
  - rewrite (Hc s1 l2). apply from_ok.
  - apply from_ok.
  - apply from_ok.
Qed.

Lemma bit_and_ok a b : wf a = true -> wf b = true -> ok (bit_and a b) (Z.land (den a) (den b)).
Proof. apply bitop_ok; [apply land_i64 | apply Z.land_comm]. Qed.
Lemma bit_or_ok a b : wf a = true -> wf b = true -> ok (bit_or a b) (Z.lor (den a) (den b)).
Proof. apply bitop_ok; [apply lor_i64 | apply Z.lor_comm]. Qed.
Lemma bit_xor_ok a b : wf a = true -> wf b = true -> ok (bit_xor a b) (Z.lxor (den a) (den b)).
Proof. apply bitop_ok; [apply lxor_i64 | apply Z.lxor_comm]. Qed.

(* ---- pow ---- *)
Lemma zpow_spec a b : 0 <= b -> zpow a b = a ^ b.
Proof.
  intros Hb. unfold zpow.
  destruct (Z.eqb_spec a 0) as [->|H0].
  - destruct (Z.eqb_spec b 0) as [->|Hb0]; [reflexivity|]. symmetry. apply Z.pow_0_l. lia.
  - destruct (Z.eqb_spec a 1) as [->|H1]; [symmetry; apply Z.pow_1_l; lia|].
    destruct (Z.eqb_spec a (-1)) as [->|Hm1]; [|reflexivity].
    destruct (Z.even b) eqn:Ev.
    + apply Z.even_spec in Ev. destruct Ev as [k ->].
      rewrite Z.pow_mul_r by lia. change ((-1) ^ 2) with 1. symmetry. apply Z.pow_1_l. lia.
    + assert (Hodd : Z.odd b = true) by (rewrite <- Z.negb_even, Ev; reflexivity).
      apply Z.odd_spec in Hodd. destruct Hodd as [k ->].
      rewrite Z.pow_add_r, Z.pow_mul_r by lia. change ((-1) ^ 2) with 1.
      rewrite Z.pow_1_l by lia. reflexivity.
Qed.

Lemma pow_ok a b : wf a = true -> wf b = true -> 0 <= den b -> ok (pow a b) (den a ^ den b).
Proof.
  intros Ha Hb Hnn. unfold pow. destruct (Z.ltb_spec (den b) 0); [lia|].
  rewrite <- (zpow_spec (den a) (den b)) by lia.
  destruct a as [s1|l1], b as [s2|l2]; cbn [den] in *; try apply from_ok.
  destruct (u32b s2 && i64b (zpow s1 s2)) eqn:E; [|apply from_ok].
  apply andb_true_iff in E. destruct E as [_ E]. apply short_ok. now apply i64b_true.
Qed.

(* ---- abs, signum ---- *)
Lemma abs_ok a : wf a = true -> ok (abs a) (Z.abs (den a)).
Proof.
  destruct a as [s|l]; intros Ha; wfs; cbn [abs den].
  - destruct (Z.eqb_spec s i64_min) as [->|Hne].
    + exists (Long (- i64_min)). split; [reflexivity|]. split; [|reflexivity].
      apply wf_long. rewrite i64_min_val. unfold I64. lia.
    + apply short_ok. rewrite i64_min_val in Hne. unfold I64 in *. lia.
  - apply assert_long_ok. unfold I64 in *. lia.
Qed.

Lemma signum_ok a : ok (Val (signum a)) (Z.sgn (den a)).
Proof. apply short_ok. unfold I64. lia. Qed.

(* ---- comparison and equality rely on the canonical form ---- *)
Lemma cmp_spec a b : wf a = true -> wf b = true -> cmp a b = Z.compare (den a) (den b).
Proof.
  intros Ha Hb. destruct a as [s1|l1], b as [s2|l2]; cbn [cmp den]; wfs; try reflexivity.
  - unfold I64 in *. destruct (Z.ltb_spec 0 l2); symmetry; [apply Z.compare_lt_iff|apply Z.compare_gt_iff]; lia.
  - unfold I64 in *. destruct (Z.ltb_spec 0 l1); symmetry; [apply Z.compare_gt_iff|apply Z.compare_lt_iff]; lia.
Qed.

Lemma eqb_spec a b : wf a = true -> wf b = true -> eqb a b = (den a =? den b).
Proof.
  intros Ha Hb. destruct a as [s1|l1], b as [s2|l2]; cbn [eqb den]; wfs; try reflexivity;
    symmetry; apply Z.eqb_neq; unfold I64 in *; lia.
Qed.

Lemma ltb_spec a b : wf a = true -> wf b = true -> ltb a b = (den a <? den b).
Proof.
  intros Ha Hb. unfold ltb, Z.ltb. now rewrite cmp_spec.
Qed.

Lemma leb_spec a b : wf a = true -> wf b = true -> leb a b = (den a <=? den b).
Proof.
  intros Ha Hb. unfold leb, Z.leb. now rewrite cmp_spec.
Qed.

(* ---- hash ---- *)
Lemma first_u64_ok a : wf (first_u64_digit a) = true /\ 0 <= den (first_u64_digit a) < 2 ^ 64.
Proof.
  destruct a as [s|l]; cbn [first_u64_digit]; rewrite from_wf, from_den; split; auto;
    apply Z.mod_pos_bound; lia.
Qed.

(* ---- float -> int for integral floats ---- *)
Lemma from_f64_exact_ok z : ok (from_f64_exact z) z.
Proof. exact (checked_ok z). Qed.
