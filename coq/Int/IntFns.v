(* Model of the integer builtins: the native wrappers of src/builtin/int.rs (argument checks, the
   loops of binom / digits, hash) and the integer functions written in xray in
   src/builtin/include.rs (abs, sign, gcd, lcm, factorial), composed from the Lbi operations. *)
From Coq Require Import ZArith Bool String List.
From Xr Require Import Base.Res Int.Lbi.
Import ListNotations.
Open Scope Z_scope.
Open Scope string_scope.

(* ---- natives (int.rs) ---- *)
Definition int_add := add.
Definition int_sub := sub.
Definition int_mul := mul.
Definition int_neg := neg.

Definition int_mod (a b : lbi) : res lbi :=
  if is_zero b then Err "Modulo by zero" else mod_floor a b.

Definition int_div_floor (a b : lbi) : res lbi :=
  if is_zero b then Err "Division by zero" else div_floor a b.

Definition int_div_ceil (a b : lbi) : res lbi :=
  if is_zero b then Err "Division by zero" else div_ceil a b.

Definition int_pow (a b : lbi) : res lbi :=
  if is_negative b then Err "cannot raise integer to a negative power"
  else if is_zero b && is_zero a then Err "cannot raise zero to a zero power"
  else pow a b.

Definition int_bit_and := bit_and.
Definition int_bit_or := bit_or.
Definition int_bit_xor := bit_xor.

Definition int_cmp (a b : lbi) : lbi :=
  match cmp a b with Lt => Short (-1) | Eq => Short 0 | Gt => Short 1 end.
Definition int_eq := eqb.
Definition int_ne (a b : lbi) := negb (eqb a b).
Definition int_lt := ltb.
Definition int_le := leb.
Definition int_gt (a b : lbi) := ltb b a.
Definition int_ge (a b : lbi) := leb b a.

Definition int_hash (a : lbi) : lbi :=
  match to_u64 a with Some _ => a | None => first_u64_digit a end.

(* binom: for i in 0..b { num *= a - i; denum *= i + 1 } ; num / denum
   [k] counts the remaining iterations (b fits usize in every feasible run), [i] is the loop variable *)
Fixpoint binom_loop (k : nat) (a i num denum : lbi) : res (lbi * lbi) :=
  match k with
  | O => Val (num, denum)
  | S k' =>
      do t <- sub a i;
      do num' <- mul_assign num t;
      do i1 <- add i lone;
      do denum' <- mul_assign denum i1;
      binom_loop k' a i1 num' denum'
  end.

Definition int_binom (a b : lbi) : res lbi :=
  if ltb a b then Err "argument 2 must be less than argument 1"
  else if is_negative b then Err "argument 2 must be non-negative"
  else
    do nd <- binom_loop (Z.to_nat (den b)) a lzero lone lone;
    div (fst nd) (snd nd).

(* digits: while n != 0 { push(n % b); n = n / b } with truncated % and / *)
Fixpoint digits_loop (fuel : nat) (n b : lbi) : res (list lbi) :=
  match fuel with
  | O => Fuel
  | S f =>
      if is_zero n then Val []
      else
        do d <- rem n b;
        do n' <- div n b;
        do rest <- digits_loop f n' b;
        Val (d :: rest)
  end.

Definition int_digits (n b : lbi) : res (list lbi) :=
  if ltb b (Short 2) then Err "base must be at least 2"
  else digits_loop (S (Z.to_nat (Z.log2 (Z.abs (den n)) + 1))) n b.

(* ---- include.rs ---- *)
(* fn abs(i: int)->int{ if(i < 0, -i, i) } *)
Definition x_abs (i : lbi) : res lbi := if ltb i (Short 0) then neg i else Val i.

(* fn sign(a: int)->int{ if(a>0, 1, if(a<0, -1, 0)) } *)
Definition x_sign (a : lbi) : lbi :=
  if ltb (Short 0) a then Short 1 else if ltb a (Short 0) then Short (-1) else Short 0.

(* fn gcd(a,b){ fn helper(a,b){ if(a == 0, b, helper(b % a, a)) } let a = abs(a); let b = abs(b);
                if(a<b, helper(a,b), helper(b,a)) } *)
Fixpoint gcd_helper (fuel : nat) (a b : lbi) : res lbi :=
  match fuel with
  | O => Fuel
  | S f => if eqb a (Short 0) then Val b else do r <- int_mod b a; gcd_helper f r a
  end.

Definition gcd_fuel (a b : lbi) : nat := S (S (Z.to_nat (2 * (Z.log2 (Z.abs (den a)) + Z.log2 (Z.abs (den b)) + 2)))).

Definition x_gcd_f (fuel : nat) (a b : lbi) : res lbi :=
  do a' <- x_abs a;
  do b' <- x_abs b;
  if ltb a' b' then gcd_helper fuel a' b' else gcd_helper fuel b' a'.

Definition x_gcd (a b : lbi) : res lbi := x_gcd_f (gcd_fuel a b) a b.

(* fn lcm(a,b){ let g = gcd(a,b); if(g == 0, 0, div_floor(a.abs(), g)*b.abs()) } *)
Definition x_lcm_f (fuel : nat) (a b : lbi) : res lbi :=
  do g <- x_gcd_f fuel a b;
  if eqb g (Short 0) then Val (Short 0)
  else
    do a' <- x_abs a;
    do q <- int_div_floor a' g;
    do b' <- x_abs b;
    mul q b'.

Definition x_lcm (a b : lbi) : res lbi := x_lcm_f (gcd_fuel a b) a b.

(* fn factorial(n, step ?= 1){ if(n < 0, error(..), range(n,0,-step).to_generator().reduce(1, mul)) }
   range(n, 0, -step) for step > 0 is n, n-step, ... while > 0 ; step = 0 is the range error ;
   a negative step gives the empty range when n >= 0 (start < end with a positive stride... see XSeq) *)
Fixpoint fact_loop (fuel : nat) (cur step acc : lbi) : res lbi :=
  match fuel with
  | O => Fuel
  | S f =>
      if ltb (Short 0) cur then
        do acc' <- mul acc cur;
        do cur' <- sub cur step;
        fact_loop f cur' step acc'
      else Val acc
  end.

Definition x_factorial (n step : lbi) : res lbi :=
  if ltb n (Short 0) then Err "cannot get factorial of negative number"
  else if is_zero step then Err "invalid range, step size cannot be zero"
  else if ltb step (Short 0) then (if is_zero n then Val lone else Val lone)
  else fact_loop (S (Z.to_nat (den n))) n step lone.
