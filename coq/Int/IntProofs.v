(* Proofs about the integer builtins (IntFns) against the Z specifications (IntSpec). *)
From Coq Require Import ZArith Bool String List Lia.
From Xr Require Import Base.Res Int.Lbi Int.IntFns Int.LbiProofs Int.IntSpec.
Import ListNotations.
Open Scope Z_scope.

Lemma is_zero_false b : wf b = true -> is_zero b = false <-> den b <> 0.
Proof.
  intros Hb. pose proof (is_zero_spec b Hb). destruct (is_zero b); intuition congruence.
Qed.

(* ---- mod / div_floor / div_ceil / pow wrappers ---- *)
Lemma int_mod_ok a b : wf a = true -> wf b = true ->
  (den b = 0 /\ int_mod a b = Err "Modulo by zero") \/ (den b <> 0 /\ ok (int_mod a b) (den a mod den b)).
Proof.
  intros Ha Hb. unfold int_mod. destruct (is_zero b) eqn:E.
  - left. split; auto. now apply is_zero_spec.
  - right. apply is_zero_false in E; auto. split; auto. now apply mod_floor_ok.
Qed.

Lemma int_div_floor_ok a b : wf a = true -> wf b = true ->
  (den b = 0 /\ int_div_floor a b = Err "Division by zero") \/
  (den b <> 0 /\ ok (int_div_floor a b) (den a / den b)).
Proof.
  intros Ha Hb. unfold int_div_floor. destruct (is_zero b) eqn:E.
  - left. split; auto. now apply is_zero_spec.
  - right. apply is_zero_false in E; auto. split; auto. now apply div_floor_ok.
Qed.

Lemma int_div_ceil_ok a b : wf a = true -> wf b = true ->
  (den b = 0 /\ int_div_ceil a b = Err "Division by zero") \/
  (den b <> 0 /\ ok (int_div_ceil a b) (zdiv_ceil (den a) (den b))).
Proof.
  intros Ha Hb. unfold int_div_ceil. destruct (is_zero b) eqn:E.
  - left. split; auto. now apply is_zero_spec.
  - right. apply is_zero_false in E; auto. split; auto. now apply div_ceil_ok.
Qed.

Lemma int_pow_ok a b : wf a = true -> wf b = true ->
  (den b < 0 /\ exists m, int_pow a b = Err m) \/
  (den b = 0 /\ den a = 0 /\ exists m, int_pow a b = Err m) \/
  (0 <= den b /\ ~ (den b = 0 /\ den a = 0) /\ ok (int_pow a b) (den a ^ den b)).
Proof.
  intros Ha Hb. unfold int_pow. rewrite is_negative_spec.
  destruct (Z.ltb_spec (den b) 0); [left; eauto|].
  destruct (is_zero b) eqn:Eb; destruct (is_zero a) eqn:Ea; cbn [andb].
  - right; left. apply is_zero_spec in Eb, Ea; eauto.
  - right; right. apply is_zero_false in Ea; auto. repeat split; try lia. now apply pow_ok.
  - right; right. apply is_zero_false in Eb; auto. repeat split; try lia. now apply pow_ok.
  - right; right. apply is_zero_false in Eb; auto. repeat split; try lia. now apply pow_ok.
Qed.

(* ---- hash: canonical, within [0, 2^64), a function of the value only ---- *)
Lemma int_hash_ok a : wf a = true ->
  wf (int_hash a) = true /\ 0 <= den (int_hash a) < 2 ^ 64.
Proof.
  intros Ha. unfold int_hash, to_u64, u64b.
  destruct ((0 <=? den a) && (den a <? 2 ^ 64)) eqn:E.
  - apply andb_true_iff in E. destruct E as [E1 E2]. apply Z.leb_le in E1. apply Z.ltb_lt in E2. auto.
  - apply first_u64_ok.
Qed.

(* ---- abs, sign ---- *)
Lemma x_abs_ok a : wf a = true -> ok (x_abs a) (Z.abs (den a)).
Proof.
  intros Ha. unfold x_abs. rewrite ltb_spec by auto. cbn [den].
  destruct (Z.ltb_spec (den a) 0).
  - replace (Z.abs (den a)) with (- den a) by lia. now apply neg_ok.
  - replace (Z.abs (den a)) with (den a) by lia. now apply val_ok.
Qed.

Lemma x_sign_ok a : wf a = true -> ok (Val (x_sign a)) (Z.sgn (den a)).
Proof.
  intros Ha. unfold x_sign. rewrite !ltb_spec by auto. cbn [den].
  destruct (Z.ltb_spec 0 (den a)); [|destruct (Z.ltb_spec (den a) 0)].
  - replace (Z.sgn (den a)) with 1 by lia. apply short_ok; unfold I64; lia.
  - replace (Z.sgn (den a)) with (-1) by lia. apply short_ok; unfold I64; lia.
  - replace (Z.sgn (den a)) with 0 by lia. apply short_ok; unfold I64; lia.
Qed.

(* ---- gcd ---- *)
Lemma gcd_helper_ok fuel : forall a b g, wf a = true -> wf b = true -> 0 <= den a -> 0 <= den b ->
  gcd_helper fuel a b = Val g -> wf g = true /\ den g = Z.gcd (den a) (den b).
Proof.
  induction fuel as [|f IH]; intros a b g Ha Hb Hna Hnb H; cbn [gcd_helper] in H; [discriminate|].
  rewrite eqb_spec in H by auto. cbn [den] in H.
  destruct (Z.eqb_spec (den a) 0) as [E|E].
  - injection H as <-. split; auto. rewrite E. cbn. lia.
  - destruct (int_mod_ok b a Hb Ha) as [[H0 _]|[_ (r & Hr & Hrw & Hrd)]]; [lia|].
    rewrite Hr in H. cbn [bind] in H.
    assert (0 <= den r) by (rewrite Hrd; apply Z.mod_pos_bound; lia).
    apply IH in H; auto. destruct H as [Hg Hd]. split; auto.
    rewrite Hd, Hrd. rewrite Z.gcd_mod by lia. reflexivity.
Qed.

Lemma x_gcd_f_ok fuel a b g : wf a = true -> wf b = true ->
  x_gcd_f fuel a b = Val g -> wf g = true /\ den g = Z.gcd (den a) (den b).
Proof.
  intros Ha Hb H. unfold x_gcd_f in H.
  destruct (x_abs_ok a Ha) as (a' & Ea & Haw & Had). rewrite Ea in H. cbn [bind] in H.
  destruct (x_abs_ok b Hb) as (b' & Eb & Hbw & Hbd). rewrite Eb in H. cbn [bind] in H.
  destruct (ltb a' b'); apply gcd_helper_ok in H; auto; try lia; destruct H as [Hg Hd]; split; auto;
    rewrite Hd, Had, Hbd.
  - now rewrite Z.gcd_abs_l, Z.gcd_abs_r.
  - now rewrite Z.gcd_abs_l, Z.gcd_abs_r, Z.gcd_comm.
Qed.

(* ---- lcm ---- *)
Lemma lcm_formula a b : Z.gcd a b <> 0 -> Z.abs a / Z.gcd a b * Z.abs b = Z.lcm a b.
Proof.
  intros Hg. unfold Z.lcm.
  destruct (Z.gcd_divide_l a b) as [a' Ha]. destruct (Z.gcd_divide_r a b) as [b' Hb].
  set (g := Z.gcd a b) in *. assert (0 < g) by (pose proof (Z.gcd_nonneg a b); lia).
  rewrite Hb at 2. rewrite Z.div_mul by lia.
  rewrite Ha at 1. rewrite Z.abs_mul, (Z.abs_eq g) by lia. rewrite Z.div_mul by lia.
  rewrite Ha at 1. rewrite Hb at 1. rewrite !Z.abs_mul, (Z.abs_eq g) by lia. ring.
Qed.

Lemma x_lcm_f_ok fuel a b l : wf a = true -> wf b = true ->
  x_lcm_f fuel a b = Val l -> wf l = true /\ den l = Z.lcm (den a) (den b).
Proof.
  intros Ha Hb H. unfold x_lcm_f in H.
  destruct (x_gcd_f fuel a b) as [g| | | |] eqn:Eg; try discriminate. cbn [bind] in H.
  apply x_gcd_f_ok in Eg; auto. destruct Eg as [Hgw Hgd].
  rewrite eqb_spec in H by auto. cbn [den] in H.
  destruct (Z.eqb_spec (den g) 0) as [E|E].
  - injection H as <-. split; auto. cbn [den]. rewrite Hgd in E.
    apply Z.gcd_eq_0 in E. destruct E as [-> ->]. reflexivity.
  - destruct (x_abs_ok a Ha) as (a' & Ea & Haw & Had). rewrite Ea in H. cbn [bind] in H.
    destruct (int_div_floor_ok a' g Haw Hgw) as [[H0 _]|[_ (q & Hq & Hqw & Hqd)]]; [lia|].
    rewrite Hq in H. cbn [bind] in H.
    destruct (x_abs_ok b Hb) as (b' & Eb & Hbw & Hbd). rewrite Eb in H. cbn [bind] in H.
    destruct (mul_ok q b' Hqw Hbw) as (m & Hm & Hmw & Hmd). rewrite Hm in H. injection H as <-.
    split; auto. rewrite Hmd, Hqd, Had, Hbd, Hgd. apply lcm_formula. congruence.
Qed.

(* ---- binom ---- *)
Lemma binom_loop_ok k : forall a i num denum (j : nat),
  wf a = true -> wf i = true -> wf num = true -> wf denum = true ->
  den i = Z.of_nat j -> den num = ffact (den a) j -> den denum = zfact j ->
  exists n' d', binom_loop k a i num denum = Val (n', d') /\ wf n' = true /\ wf d' = true /\
    den n' = ffact (den a) (j + k) /\ den d' = zfact (j + k).
Proof.
  induction k as [|k IH]; intros a i num denum j Ha Hi Hn Hd Ei En Ed.
  - cbn [binom_loop]. exists num, denum. rewrite Nat.add_0_r. auto.
  - cbn [binom_loop].
    destruct (sub_ok a i Ha Hi) as (t & -> & Htw & Htd). cbn [bind].
    destruct (mul_assign_ok num t Hn Htw) as (n1 & -> & Hn1w & Hn1d). cbn [bind].
    destruct (add_ok i lone Hi eq_refl) as (i1 & -> & Hi1w & Hi1d). cbn [bind].
    destruct (mul_assign_ok denum i1 Hd Hi1w) as (d1 & -> & Hd1w & Hd1d). cbn [bind].
    destruct (IH a i1 n1 d1 (S j)) as (n' & d' & E & H1 & H2 & H3 & H4); auto.
    + rewrite Hi1d, Ei. cbn [den lone]. lia.
    + rewrite Hn1d, En, Htd, Ei. reflexivity.
    + rewrite Hd1d, Ed, Hi1d, Ei. cbn [zfact den lone]. rewrite Nat2Z.inj_succ. reflexivity.
    + exists n', d'. replace (j + S k)%nat with (S j + k)%nat by lia. auto.
Qed.

Lemma int_binom_ok a b : wf a = true -> wf b = true -> 0 <= den b <= den a ->
  ok (int_binom a b) (choose (Z.to_nat (den a)) (Z.to_nat (den b))).
Proof.
  intros Ha Hb Hr. unfold int_binom.
  rewrite ltb_spec by auto. destruct (Z.ltb_spec (den a) (den b)); [lia|].
  rewrite is_negative_spec. destruct (Z.ltb_spec (den b) 0); [lia|].
  destruct (binom_loop_ok (Z.to_nat (den b)) a lzero lone lone 0) as (n' & d' & -> & H1 & H2 & H3 & H4); auto.
  cbn [bind fst snd]. cbn [Nat.add] in *.
  assert (Hd : den d' <> 0) by (rewrite H4; pose proof (zfact_pos (Z.to_nat (den b))); lia).
  destruct (div_ok n' d' H1 H2 Hd) as (c & -> & Hcw & Hcd).
  exists c. repeat split; auto. rewrite Hcd, H3, H4.
  rewrite <- (Z2Nat.id (den a)) at 1 by lia. apply binom_quot.
Qed.

(* ---- digits ---- *)
Lemma digits_loop_ok fuel : forall n b ds, wf n = true -> wf b = true -> 2 <= den b ->
  digits_loop fuel n b = Val ds ->
  Forall (fun d => wf d = true /\ Z.abs (den d) < den b) ds /\ from_digits (map den ds) (den b) = den n.
Proof.
  induction fuel as [|f IH]; intros n b ds Hn Hb Hb2 H; cbn [digits_loop] in H; [discriminate|].
  destruct (is_zero n) eqn:Ez.
  - injection H as <-. apply is_zero_spec in Ez; [|exact Hn]. split.
    + constructor.
    + cbn [map from_digits]. lia.
  - assert (Hnz : den b <> 0) by lia.
    destruct (rem_ok n b Hn Hb Hnz) as (d & Ed & Hdw & Hdd). rewrite Ed in H. cbn [bind] in H.
    destruct (div_ok n b Hn Hb Hnz) as (q & Eq & Hqw & Hqd). rewrite Eq in H. cbn [bind] in H.
    destruct (digits_loop f q b) as [rest| | | |] eqn:Er; try discriminate. cbn [bind] in H.
    injection H as <-. apply IH in Er; auto. destruct Er as [Hall Hsum]. split.
    + constructor; auto. split; auto. rewrite Hdd.
      pose proof (Z.rem_bound_abs (den n) (den b) Hnz). lia.
    + cbn [map from_digits]. rewrite Hsum, Hdd, Hqd.
      pose proof (Z.quot_rem' (den n) (den b)). lia.
Qed.

Lemma int_digits_ok n b ds : wf n = true -> wf b = true -> int_digits n b = Val ds ->
  2 <= den b /\ Forall (fun d => wf d = true /\ Z.abs (den d) < den b) ds /\
  from_digits (map den ds) (den b) = den n.
Proof.
  intros Hn Hb H. unfold int_digits in H. rewrite ltb_spec in H by auto. cbn [den] in H.
  destruct (Z.ltb_spec (den b) 2); [discriminate|]. split; [lia|]. eapply digits_loop_ok; eauto.
Qed.

(* ---- factorial (step 1) ---- *)
Lemma fact_loop_ok fuel : forall cur acc r (k : nat), wf cur = true -> wf acc = true ->
  den cur = Z.of_nat k ->
  fact_loop fuel cur lone acc = Val r -> wf r = true /\ den r = den acc * zfact k.
Proof.
  induction fuel as [|f IH]; intros cur acc r k Hc Ha Ek H; cbn [fact_loop] in H; [discriminate|].
  rewrite ltb_spec in H by auto. cbn [den] in H.
  destruct (Z.ltb_spec 0 (den cur)).
  - destruct (mul_ok acc cur Ha Hc) as (acc' & Em & Hmw & Hmd). rewrite Em in H. cbn [bind] in H.
    destruct (sub_ok cur lone Hc eq_refl) as (cur' & Es & Hsw & Hsd). rewrite Es in H. cbn [bind] in H.
    destruct k as [|k']; [lia|].
    apply (IH cur' acc' r k') in H; auto.
    + destruct H as [Hr Hd]. split; auto. rewrite Hd, Hmd, Ek. cbn [zfact]. ring.
    + rewrite Hsd, Ek. cbn [den lone]. lia.
  - injection H as <-. split; auto. assert (k = 0%nat) by lia. subst k. cbn [zfact]. lia.
Qed.

Lemma x_factorial_ok n r : wf n = true -> 0 <= den n -> x_factorial n lone = Val r ->
  wf r = true /\ den r = zfact (Z.to_nat (den n)).
Proof.
  intros Hn Hnn H. unfold x_factorial in H. rewrite ltb_spec in H by auto. cbn [den] in H.
  destruct (Z.ltb_spec (den n) 0); [lia|]. cbn [is_zero lone] in H.
  replace (ltb lone (Short 0)) with false in H by reflexivity.
  apply (fact_loop_ok _ n lone r (Z.to_nat (den n))) in H; auto.
  - destruct H as [Hr Hd]. split; auto. rewrite Hd. cbn [den lone]. lia.
  - lia.
Qed.
