(* rendering of integer-model results for the correspondence check *)
From Coq Require Import String List ZArith.
From Xr Require Import Base.Res Base.Show Int.Lbi Int.IntFns.
Open Scope string_scope.

Definition show_lbi (a : lbi) : string :=
  (if wf a then "" else "!noncanonical:") ++ show_Z (den a).
Definition show_lbis (l : list lbi) : string := show_list show_lbi l.
Definition L (z : Z) : lbi := from z.
Definition rlbi (r : res lbi) : string := show_res show_lbi r.
Definition rbool (r : res bool) : string := show_res show_bool r.
Definition rlbis (r : res (list lbi)) : string := show_res show_lbis r.
(* r == expected, hash r == hash expected, cmp r expected, for a computed result r *)
Definition same_as (r : res lbi) (e : Z) : string :=
  show_res (fun x => show_bool (eqb x (L e)) ++ "," ++ show_bool (eqb (int_hash x) (int_hash (L e)))
                     ++ "," ++ show_lbi (int_cmp x (L e))) r.

Definition both (r : res lbi) (e : Z) : string :=
  match r with Val _ => rlbi r ++ "|" ++ same_as r e | _ => rlbi r end.
