(* Mathematical specifications the integer builtins are compared with (pure Z / nat, no machine ranges). *)
From Coq Require Import ZArith List Lia.
Import ListNotations.
Open Scope Z_scope.

(* falling factorial n (n-1) ... (n-k+1) and factorial *)
Fixpoint ffact (n : Z) (k : nat) : Z :=
  match k with O => 1 | S k' => ffact n k' * (n - Z.of_nat k') end.
Fixpoint zfact (k : nat) : Z :=
  match k with O => 1 | S k' => zfact k' * Z.of_nat (S k') end.

(* Pascal's triangle *)
Fixpoint choose (n k : nat) : Z :=
  match k, n with
  | O, _ => 1
  | S _, O => 0
  | S k', S n' => choose n' k' + choose n' k
  end.

(* little-endian digits *)
Fixpoint from_digits (ds : list Z) (b : Z) : Z :=
  match ds with [] => 0 | d :: r => d + b * from_digits r b end.

Lemma zfact_pos k : 0 < zfact k.
Proof. induction k; cbn [zfact]; lia. Qed.

Lemma choose_0 n : choose n 0 = 1.
Proof. destruct n; reflexivity. Qed.

Lemma choose_S n k : choose (S n) (S k) = choose n k + choose n (S k).
Proof. reflexivity. Qed.

Lemma choose_zero_S k : choose 0 (S k) = 0.
Proof. reflexivity. Qed.

(* (k+1) C(n,k+1) = (n-k) C(n,k) *)
Lemma choose_step n : forall k,
  Z.of_nat (S k) * choose n (S k) = (Z.of_nat n - Z.of_nat k) * choose n k.
Proof.
  induction n as [|m IH]; intros k.
  - rewrite choose_zero_S. destruct k; [rewrite choose_0; lia | rewrite choose_zero_S; lia].
  - rewrite choose_S. destruct k as [|j].
    + rewrite !choose_0. pose proof (IH 0%nat) as H0. rewrite choose_0 in H0.
      rewrite Nat2Z.inj_succ in *. cbn [Z.of_nat] in *. lia.
    + rewrite choose_S. pose proof (IH j) as Hj. pose proof (IH (S j)) as HSj.
      rewrite !Nat2Z.inj_succ in *. clear IH. unfold Z.succ in *. ring_simplify in Hj. ring_simplify in HSj. ring_simplify. lia.
Qed.

Lemma ffact_choose n k : ffact (Z.of_nat n) k = choose n k * zfact k.
Proof.
  induction k as [|k IH].
  - rewrite choose_0. reflexivity.
  - cbn [ffact zfact]. rewrite IH. pose proof (choose_step n k) as H.
    transitivity (zfact k * ((Z.of_nat n - Z.of_nat k) * choose n k)); [ring|].
    rewrite <- H. ring.
Qed.

Lemma binom_quot n k : Z.quot (ffact (Z.of_nat n) k) (zfact k) = choose n k.
Proof.
  rewrite ffact_choose. apply Z.quot_mul. pose proof (zfact_pos k). lia.
Qed.
