(* Model of src/util/lazy_bigint.rs : LazyBigint = Short(i64) | Long(BigInt), arm by arm.
   BigInt / i64 arithmetic is modelled by Z; the i64 range and the debug-mode failures
   (checked arithmetic, assert_is_long, unwrap) are written into the model explicitly:
   every place where the Rust code can panic is a [Stuck] result here. *)
From Coq Require Import ZArith Bool String List.
From Xr Require Import Base.Res.
Open Scope Z_scope.

Definition i64_min : Z := - 2 ^ 63.
Definition i64_max : Z := 2 ^ 63 - 1.
Definition i64b (z : Z) : bool := (i64_min <=? z) && (z <=? i64_max).
Definition u64b (z : Z) : bool := (0 <=? z) && (z <? 2 ^ 64).
Definition u32b (z : Z) : bool := (0 <=? z) && (z <? 2 ^ 32).

Inductive lbi := Short (z : Z) | Long (z : Z).

(* the denotation: the mathematical integer *)
Definition den (a : lbi) : Z := match a with Short z => z | Long z => z end.

(* canonical form: Long iff the value does not fit i64 *)
Definition wf (a : lbi) : bool :=
  match a with Short z => i64b z | Long z => negb (i64b z) end.

(* impl From<T> for LazyBigint : try_into i64, else Long *)
Definition from (z : Z) : lbi := if i64b z then Short z else Long z.

(* fn assert_is_long : debug_assert!(try_into::<i64>().is_err()) *)
Definition assert_is_long (z : Z) : res lbi :=
  if i64b z then Stuck "assert_is_long" else Val (Long z).

(* sX.checked_op(sY).map_or_else(|| Long(assert_is_long(big op)), Short) *)
Definition checked (z : Z) : res lbi :=
  if i64b z then Val (Short z) else assert_is_long z.

Definition lzero := Short 0.
Definition lone := Short 1.

Definition is_zero (a : lbi) : bool := match a with Short 0 => true | _ => false end.
Definition is_one (a : lbi) : bool := match a with Short 1 => true | _ => false end.
Definition is_positive (a : lbi) : bool := 0 <? den a.
Definition is_negative (a : lbi) : bool := den a <? 0.

(* impl Neg *)
Definition neg (a : lbi) : res lbi :=
  match a with
  | Short s => if s =? i64_min then assert_is_long (- i64_min) else Val (Short (- s))
  | Long b => Val (from (- b))
  end.

(* impl Add for &LazyBigint *)
Definition add (a b : lbi) : res lbi :=
  match a, b with
  | Short 0, x => Val x
  | x, Short 0 => Val x
  | Short s1, Short s2 => checked (s1 + s2)
  | Short s, Long l => Val (from (l + s))
  | Long l, Short s => Val (from (l + s))
  | Long l0, Long l1 => Val (from (l0 + l1))
  end.

(* impl Sub for &LazyBigint *)
Definition sub (a b : lbi) : res lbi :=
  match a, b with
  | x, Short 0 => Val x
  | Short s1, Short s2 => checked (s1 - s2)
  | Short s, Long l => Val (from (s - l))
  | Long l, Short s => Val (from (l - s))
  | Long l0, Long l1 => Val (from (l0 - l1))
  end.

(* impl Mul for &LazyBigint *)
Definition mul (a b : lbi) : res lbi :=
  match a, b with
  | Short 0, _ => Val lzero
  | _, Short 0 => Val lzero
  | Short s1, Short s2 => checked (s1 * s2)
  | Short s, Long l => Val (from (l * s))
  | Long l, Short s => Val (from (l * s))
  | Long l0, Long l1 => assert_is_long (l0 * l1)
  end.

(* impl MulAssign<&Self> *)
Definition mul_assign (a b : lbi) : res lbi :=
  if is_one b then Val a else
  match a, b with
  | Short s0, Short s1 => if i64b (s0 * s1) then Val (Short (s0 * s1)) else mul a b
  | Long l0, Long l1 => Val (Long (l0 * l1))
  | _, _ => mul a b
  end.

(* impl AddAssign<&Self> *)
Definition add_assign (a b : lbi) : res lbi :=
  if is_zero b then Val a else
  match a, b with
  | Short s0, Short s1 => if i64b (s0 + s1) then Val (Short (s0 + s1)) else add a b
  | _, _ => add a b
  end.

(* impl Rem (truncated remainder, sign of the dividend) *)
Definition rem (a b : lbi) : res lbi :=
  match a, b with
  | _, Short 0 => Stuck "modulo by 0"
  | Short 0, _ => Val lzero
  | _, Short 1 => Val lzero
  | _, Short (-1) => Val lzero
  | Short s1, Short s2 => Val (Short (Z.rem s1 s2))
  | Long l, Short s => Val (from (Z.rem l s))
  | Short s, Long l => Val (from (Z.rem s l))
  | Long l0, Long l1 => Val (from (Z.rem l0 l1))
  end.

(* fn mod_floor : remainder of floored division *)
Definition mod_floor (a b : lbi) : res lbi :=
  do r <- rem a b;
  if negb (is_zero r) && negb (Bool.eqb (is_negative r) (is_negative b)) then add r b else Val r.

(* impl Div (truncating) *)
Definition div (a b : lbi) : res lbi :=
  match a, b with
  | Short s1, Short s2 =>
      if (s1 =? i64_min) && (s2 =? -1) then Val (from (- i64_min))
      else if s2 =? 0 then Stuck "attempt to divide by zero"
      else Val (Short (Z.quot s1 s2))
  | Short s, Long l => Val (from (Z.quot s l))
  | Long l, Short s => if s =? 0 then Stuck "attempt to divide by zero" else Val (from (Z.quot l s))
  | Long l0, Long l1 => Val (from (Z.quot l0 l1))
  end.

(* fn div_floor (num_integer::div_floor) *)
Definition div_floor (a b : lbi) : res lbi :=
  match a, b with
  | Short s1, Short s2 =>
      if (s1 =? i64_min) && (s2 =? -1) then Val (from (- i64_min))
      else if s2 =? 0 then Stuck "attempt to divide by zero"
      else Val (Short (Z.div s1 s2))
  | Short s, Long l => Val (from (Z.div s l))
  | Long l, Short s => if s =? 0 then Stuck "attempt to divide by zero" else Val (from (Z.div l s))
  | Long l0, Long l1 => Val (from (Z.div l0 l1))
  end.

Definition zdiv_ceil (a b : Z) : Z := - (Z.div (- a) b).

Definition div_ceil (a b : lbi) : res lbi :=
  match a, b with
  | Short s1, Short s2 =>
      if (s1 =? i64_min) && (s2 =? -1) then Val (from (- i64_min))
      else if s2 =? 0 then Stuck "attempt to divide by zero"
      else Val (Short (zdiv_ceil s1 s2))
  | Short s, Long l => Val (from (zdiv_ceil s l))
  | Long l, Short s => if s =? 0 then Stuck "attempt to divide by zero" else Val (from (zdiv_ceil l s))
  | Long l0, Long l1 => Val (from (zdiv_ceil l0 l1))
  end.

(* impl BitAnd / BitOr / BitXor : two's complement on both i64 and BigInt, Z.land etc. agree *)
Definition bitop (f : Z -> Z -> Z) (a b : lbi) : res lbi :=
  match a, b with
  | Short s1, Short s2 => Val (Short (f s1 s2))
  | Short s, Long l => Val (from (f l s))
  | Long l, Short s => Val (from (f l s))
  | Long l0, Long l1 => Val (from (f l0 l1))
  end.
Definition bit_and := bitop Z.land.
Definition bit_or := bitop Z.lor.
Definition bit_xor := bitop Z.lxor.

(* BigInt::pow has constant-time paths for the bases 0, 1 and -1 (num-bigint: is_one / is_zero / sign by
   parity); writing them into the model keeps it executable for astronomically large exponents *)
Definition zpow (a b : Z) : Z :=
  if a =? 0 then (if b =? 0 then 1 else 0)
  else if a =? 1 then 1
  else if a =? -1 then (if Z.even b then 1 else -1)
  else a ^ b.

(* impl Pow<Self> ; BigUint::try_from(negative).unwrap() is the only panic *)
Definition pow (a b : lbi) : res lbi :=
  if den b <? 0 then Stuck "BigUint::try_from(negative)" else
  match a, b with
  | Short s1, Short s2 =>
      if u32b s2 && i64b (zpow s1 s2) then Val (Short (zpow s1 s2)) else Val (from (zpow s1 s2))
  | _, _ => Val (from (zpow (den a) (den b)))
  end.

(* impl Signed *)
Definition abs (a : lbi) : res lbi :=
  match a with
  | Short s => if s =? i64_min then Val (Long (- i64_min)) else Val (Short (Z.abs s))
  | Long l => assert_is_long (Z.abs l)
  end.

Definition signum (a : lbi) : lbi := Short (Z.sgn (den a)).

(* impl Ord : relies on the canonical form for the mixed cases *)
Definition cmp (a b : lbi) : comparison :=
  match a, b with
  | Short s0, Short s1 => Z.compare s0 s1
  | Long l0, Long l1 => Z.compare l0 l1
  | Short _, Long l => if 0 <? l then Lt else Gt
  | Long l, Short _ => if 0 <? l then Gt else Lt
  end.

(* #[derive(PartialEq)] : constructor-wise *)
Definition eqb (a b : lbi) : bool :=
  match a, b with
  | Short s0, Short s1 => s0 =? s1
  | Long l0, Long l1 => l0 =? l1
  | _, _ => false
  end.

Definition ltb (a b : lbi) : bool := match cmp a b with Lt => true | _ => false end.
Definition leb (a b : lbi) : bool := match cmp a b with Gt => false | _ => true end.

(* ToPrimitive::to_u64 *)
Definition to_u64 (a : lbi) : option Z := if u64b (den a) then Some (den a) else None.

(* fn first_u64_digit : Short: `as u64` (wrapping) ; Long: least significant 64-bit digit of the magnitude *)
Definition first_u64_digit (a : lbi) : lbi :=
  match a with
  | Short s => from (s mod 2 ^ 64)
  | Long l => from (Z.abs l mod 2 ^ 64)
  end.

(* Display : decimal text of the value (the same for both constructors) *)
Definition to_Z (a : lbi) : Z := den a.

(* FromPrimitive::from_f64 on a float that holds the integer z exactly (fract = 0):
   i64::from_f64 succeeds iff the value is in the i64 range, else Long(assert_is_long(BigInt::from_f64)) *)
Definition from_f64_exact (z : Z) : res lbi :=
  if i64b z then Val (Short z) else assert_is_long z.
