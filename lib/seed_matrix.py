#!/usr/bin/env python3
"""Applies every seeded change under /verif/seeded (sub-agent changes and regression reverts) to /repo, runs the quick check of
its property (plus any extra checks named on the command line as ID=OTHER,OTHER), undoes it, and records which checks report
it: seeded/<name>/meta.json 'detected_by' and seeded/MATRIX.json.   usage: python3 lib/seed_matrix.py [name-prefix...]"""
import json, os, re, subprocess, sys, shutil

ROOT = '/verif'
EXTRA = {'C01': ['C03', 'C04', 'C05'], 'C04': ['C01'], 'C05': ['C04'], 'C02': ['C06', 'C07'], 'C08': ['C07'], 'C10': ['C08']}


def sh(cmd, **kw):
    return subprocess.run(cmd, shell=True, capture_output=True, text=True, **kw)


def run_check(pid):
    ev = f'{ROOT}/evidence/{pid}.json'
    bak = f'/tmp/seedmx_{pid}.json'
    if os.path.exists(ev):
        shutil.copy(ev, bak)
    p = sh(f'cd {ROOT} && timeout 1500 ./check {pid} --tier quick')
    if os.path.exists(bak):
        shutil.copy(bak, ev)
    line = next((l for l in p.stdout.split('\n') if l.startswith('VIOLATION')), '')
    what = re.search(r'"what": "(.*)"', p.stderr)
    return p.returncode, line, (what.group(1)[:200] if what else '')


def main():
    only = sys.argv[1:]
    names = sorted(os.listdir(f'{ROOT}/seeded'))
    matrix = json.load(open(f'{ROOT}/seeded/MATRIX.json')) if os.path.exists(f'{ROOT}/seeded/MATRIX.json') else {}
    jobs = []
    for n in names:
        d = f'{ROOT}/seeded/{n}'
        if n == 'regress':
            for f in sorted(os.listdir(d)):
                if f.endswith('.diff'):
                    jobs.append(('regress/' + f, f'{d}/{f}', None))
        elif os.path.isdir(d):
            patch = f'{d}/patch.ported.diff' if os.path.exists(f'{d}/patch.ported.diff') else f'{d}/patch.diff'
            jobs.append((n, patch, d))
    known = json.load(open(f'{ROOT}/known_findings.json'))['findings']
    for name, patch, d in jobs:
        if only and not any(name.startswith(o) for o in only):
            continue
        if name.startswith('regress/'):
            commit = name.split('/')[1].replace('m_', '').replace('.diff', '').replace('_revert', '')
            pid = next((e['property'] for e in known if e.get('commit', '').startswith(commit[:7])), None)
            if name.endswith('slice_end_revert.diff'):
                pid = 'C16'
            if pid is None:
                continue
        else:
            pid = name.split('-')[0]
        if sh(f'git -C /repo apply --check {patch}').returncode != 0:
            matrix[name] = {'property': pid, 'applies': False}
            print(name, 'DOES NOT APPLY', flush=True)
            continue
        sh(f'git -C /repo apply {patch}')
        res = {}
        try:
            for c in [pid] + ([] if os.environ.get('SEED_MATRIX_NO_EXTRA') else EXTRA.get(pid, [])):
                rc, line, what = run_check(c)
                res[c] = {'rc': rc, 'violation_line': line, 'what': what}
                if c != pid and res[pid]['rc'] == 1 and False:
                    break
        finally:
            sh('git -C /repo checkout -- .')
        det = [c for c, r in res.items() if r['rc'] == 1 and r['violation_line']]
        matrix[name] = {'property': pid, 'applies': True, 'detected_by': det, 'results': res}
        print(name, 'detected by', det or 'NOTHING', flush=True)
        if d:
            mp = f'{d}/meta.json'
            meta = json.load(open(mp)) if os.path.exists(mp) else {}
            meta['detected_by'] = det
            meta['detection_note'] = {c: r['what'] for c, r in res.items() if r['rc'] == 1}
            json.dump(meta, open(mp, 'w'), indent=1)
        json.dump(matrix, open(f'{ROOT}/seeded/MATRIX.json', 'w'), indent=1, sort_keys=True)
    sh(f'cd {ROOT} && python3 lib/extract.py')
    sh(f"cd {ROOT} && python3 -c \"from lib import core; core.build_harness('debug')\"")


if __name__ == '__main__':
    main()
