#!/bin/sh
# usage: lib/trymut.sh <patch.diff> <PROPERTY-ID> [tier]   : applies the patch to /repo, runs the check, undoes it
P="$1"; ID="$2"; TIER="${3:-quick}"
cd /repo || exit 2
if ! git apply --check "$P" 2>/dev/null; then echo "PATCH-DOES-NOT-APPLY $P"; exit 3; fi
git apply "$P"
cd /verif
cp evidence/$ID.json /tmp/evidence_$ID.bak 2>/dev/null
./check "$ID" --tier "$TIER" >/tmp/trymut.out 2>/tmp/trymut.err; RC=$?
grep -E "VIOLATION|KNOWN" /tmp/trymut.out | head -3
echo "rc=$RC"; grep -E "^\[$ID\]|CHECK-ERROR|\"what\"" /tmp/trymut.err | head -4
cp /tmp/evidence_$ID.bak evidence/$ID.json 2>/dev/null; git -C /repo checkout -- . ; python3 /verif/lib/extract.py >/dev/null; git -C /repo status --short | head -3
cd /verif && python3 -c "from lib import core; core.build_harness('debug')" >/dev/null 2>&1
