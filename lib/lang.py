"""AST of the core fragment shared by the language-level checks (C02, C03, C06, C07, C08): one tree is printed both as
xray source text and as a Coq term of Lang.Syntax, so that the interpreter and the reference evaluator
(coq/Lang/Eval.v) run the same program.  Includes a typed random program generator."""

OPS = {'add': '+', 'sub': '-', 'mul': '*', 'mod': '%', 'eq': '==', 'ne': '!=', 'lt': '<', 'le': '<=', 'gt': '>', 'ge': '>=', 'and': '&&', 'or': '||'}
UNOPS = {'neg': '-', 'not': '!'}


def coq_str(s):
    return '"' + s.replace('"', '""') + '"'


def xr_str(s):
    m = {'\\': '\\\\', '"': '\\"', '\n': '\\n'}
    return '"' + ''.join(m.get(c, c) for c in s) + '"'


def ty_xr(t):
    if isinstance(t, str):
        return {'int': 'int', 'bool': 'bool', 'str': 'str', 'seq': 'Sequence<int>', 'opt': 'Optional<int>'}[t]
    if t[0] == 'fn':
        return '(' + ', '.join(ty_xr(a) for a in t[1]) + ')->(' + ty_xr(t[2]) + ')'
    if t[0] == 'tup':
        return '(' + ', '.join(ty_xr(a) for a in t[1]) + ')'
    raise ValueError(t)


class E:
    """expression node"""
    def __init__(self, kind, *a, style='fn', coqname=None):
        self.kind, self.a, self.style, self.coqname = kind, a, style, coqname

    def xr(self):
        k, a = self.kind, self.a
        if k == 'int':
            return str(a[0]) if a[0] >= 0 else f'(-{-a[0]})'
        if k == 'bool':
            return 'true' if a[0] else 'false'
        if k == 'str':
            return xr_str(a[0])
        if k == 'var':
            return a[0]
        if k == 'arr':
            return '[' + ', '.join(x.xr() for x in a[0]) + ']' if a[0] else 'range(0).to_array()'
        if k == 'tup':
            return '(' + ', '.join(x.xr() for x in a[0]) + (',)' if len(a[0]) == 1 else ')')
        if k == 'item':
            return f'({a[0].xr()})::item{a[1]}'
        if k == 'lam':
            ps, ds, body = a
            return '(' + ', '.join(f'{x}: {ty_xr(t)}' + (f' ?= {d.xr()}' if d is not None else '') for x, t, d in ps) + ')->{ ' + \
                   ''.join(d.xr() + ' ' for d in ds) + body.xr() + ' }'
        if k == 'call':
            f, args = a
            if isinstance(f, str):
                if self.style == 'op' and f in OPS and len(args) == 2:
                    return f'(({args[0].xr()}) {OPS[f]} ({args[1].xr()}))'
                if self.style == 'op' and f in UNOPS and len(args) == 1:
                    return f'({UNOPS[f]}({args[0].xr()}))'
                if self.style == 'method' and args:
                    return f'({args[0].xr()}).{f}(' + ', '.join(x.xr() for x in args[1:]) + ')'
                return f'{f}(' + ', '.join(x.xr() for x in args) + ')'
            return f'({f.xr()})(' + ', '.join(x.xr() for x in args) + ')'
        raise ValueError(k)

    def coq(self):
        k, a = self.kind, self.a
        if k == 'int':
            return f'(EInt ({a[0]})%Z)'
        if k == 'bool':
            return f'(EBool {"true" if a[0] else "false"})'
        if k == 'str':
            return f'(EStr {coq_str(a[0])})'
        if k == 'var':
            return f'(EVar {coq_str(a[0])})'
        if k == 'arr':
            return '(EArr [' + '; '.join(x.coq() for x in a[0]) + '])'
        if k == 'tup':
            return '(ETup [' + '; '.join(x.coq() for x in a[0]) + '])'
        if k == 'item':
            return f'(EItem {a[0].coq()} {a[1]}%nat)'
        if k == 'lam':
            ps, ds, body = a
            return '(ELam [' + '; '.join(f'({coq_str(x)}, {"Some " + d.coq() if d is not None else "None"})' for x, t, d in ps) + '] [' + \
                   '; '.join(d.coq() for d in ds) + '] ' + body.coq() + ')'
        if k == 'call':
            f, args = a
            fe = f'(EVar {coq_str(self.coqname or f)})' if isinstance(f, str) else f.coq()
            return f'(ECall {fe} [' + '; '.join(x.coq() for x in args) + '])'
        raise ValueError(k)


class D:
    """declaration: ('let', x, e) | ('fn', name, params[(x, type, default)], ret, decls, body)"""
    def __init__(self, kind, *a):
        self.kind, self.a = kind, a

    def xr(self):
        if self.kind == 'let':
            return f'let {self.a[0]} = {self.a[1].xr()};'
        name, ps, ret, ds, body = self.a
        return f'fn {name}(' + ', '.join(f'{x}: {ty_xr(t)}' + (f' ?= {d.xr()}' if d is not None else '') for x, t, d in ps) + \
               f')->{ty_xr(ret)} {{ ' + ''.join(d.xr() + ' ' for d in ds) + body.xr() + ' }'

    def coq(self):
        if self.kind == 'let':
            return f'(DLet {coq_str(self.a[0])} {self.a[1].coq()})'
        name, ps, ret, ds, body = self.a
        return f'(DFn {coq_str(name)} [' + '; '.join(f'({coq_str(x)}, {"Some " + d.coq() if d is not None else "None"})' for x, t, d in ps) + \
               '] [' + '; '.join(d.coq() for d in ds) + '] ' + body.coq() + ')'


def call(f, *args, style='fn', coqname=None):
    return E('call', f, list(args), style=style, coqname=coqname)


def I(n):
    return E('int', n)


def V(x):
    return E('var', x)


# ---------------------------------------------------------------------------------------------------------------
# typed random generation
# ---------------------------------------------------------------------------------------------------------------
class Gen:
    def __init__(self, rng, err_rate=0.03, display_rate=0.12, big=True):
        self.rng, self.err_rate, self.display_rate, self.big = rng, err_rate, display_rate, big
        self.fresh = 0

    def name(self, prefix='v'):
        self.fresh += 1
        # identifier spellings incl. the special prefix of the interner and keyword-like prefixes
        pool = [f'{prefix}{self.fresh}', f'item{self.fresh}', f'item{self.fresh}x', f'{prefix}_{self.fresh}', f'if{self.fresh}', f'_{prefix}{self.fresh}',
                f'fn_{self.fresh}', f'r{self.fresh}', f'f{self.fresh}x', f'xitem{self.fresh}']
        return self.rng.choice(pool)

    def style(self, f):
        return self.rng.choice(['fn', 'method', 'op'] if (f in OPS or f in UNOPS) else ['fn', 'method'])

    def lit(self, ty):
        r = self.rng
        if ty == 'int':
            return I(r.choice([0, 1, 2, 3, 7, -1, -5, 10, 100, r.randint(-20, 20)] + ([2 ** 63, -2 ** 64 - 1, 10 ** 30] if self.big else [])))
        if ty == 'bool':
            return E('bool', r.random() < 0.5)
        if ty == 'str':
            return E('str', r.choice(['', 'a', 'bc', 'x y', 'q"', 'zz9']))
        if ty == 'seq':
            return E('arr', [self.lit('int') for _ in range(r.choice([0, 1, 2, 3]))])
        if ty == 'opt':
            return call('some', self.lit('int')) if r.random() < 0.6 else self.typed_none()
        if isinstance(ty, tuple) and ty[0] == 'tup':
            return E('tup', [self.lit(t) for t in ty[1]])
        raise ValueError(ty)

    def lit_noerr(self, ty):
        return self.lit(ty)

    def typed_none(self):
        # none() has the bottom element type; `then` gives a typed empty optional
        return call('then', E('bool', False), I(0))

    def expr(self, ty, scope, depth):
        """scope: list of (name, type) visible (innermost last)"""
        r = self.rng
        if r.random() < self.err_rate and ty in ('int', 'bool', 'str', 'seq', 'opt'):
            # error() alone has the bottom type, which makes overloaded callers ambiguous; the conditional fixes the type
            return call('if', E('bool', True), call('error', E('str', r.choice(['e1', 'e2', 'boom']))), self.lit_noerr(ty))
        cands = [n for n, t in scope if t == ty]
        if isinstance(ty, tuple) and ty[0] == 'fn':
            # a function value: a visible function of exactly that type, or a lambda closing over the scope
            if cands and r.random() < 0.5:
                return V(r.choice(cands))
            ps = [(self.name('a'), t, None) for t in ty[1]]
            return E('lam', ps, [], self.expr(ty[2], scope + [(x, t) for x, t, _ in ps], max(0, depth - 1)))
        if depth <= 0 or r.random() < 0.18:
            if cands and r.random() < 0.65:
                return V(r.choice(cands))
            return self.lit(ty)
        e = self._expr(ty, scope, depth)
        if ty in ('int', 'bool', 'str') and r.random() < self.display_rate:
            e = call('display', e, style=r.choice(['fn', 'method']))
        return e

    def _expr(self, ty, scope, depth):
        r = self.rng
        d = depth - 1
        fns = [(n, t) for n, t in scope if isinstance(t, tuple) and t[0] == 'fn' and t[2] == ty]
        if fns and r.random() < 0.3:
            n, t = r.choice(fns)
            nreq = t[3] if len(t) > 3 else len(t[1])
            k = r.randint(nreq, len(t[1]))
            return call(n, *[self.expr(a, scope, d) for a in t[1][:k]])
        if r.random() < 0.15:
            f = 'if'
            return call('if', self.expr('bool', scope, d), self.expr(ty, scope, d), self.expr(ty, scope, d), style=r.choice(['fn', 'method']))
        if r.random() < 0.08:
            return call('if_error', self.expr(ty, scope, d), self.expr(ty, scope, d))
        if ty == 'int':
            k = r.random()
            if k < 0.45:
                f = r.choice(['add', 'sub', 'mul', 'add', 'sub'])
                return call(f, self.expr('int', scope, d), self.expr('int', scope, d), style=self.style(f))
            if k < 0.55:
                f = r.choice(['mod', 'div_floor'])
                return call(f, self.expr('int', scope, d), self.expr('int', scope, d), style=self.style(f))
            if k < 0.62:
                return call('neg', self.expr('int', scope, d), style=self.style('neg'))
            if k < 0.72:
                return call('len', self.expr(r.choice(['seq', 'str']), scope, d), style=r.choice(['fn', 'method']))
            if k < 0.8:
                return call('get', self.expr('seq', scope, d), self.expr('int', scope, 0), style=r.choice(['fn', 'method']))
            if k < 0.86:
                return call('value', self.expr('opt', scope, d), style=r.choice(['fn', 'method']))
            if k < 0.92:
                return call('or', self.expr('opt', scope, d), self.expr('int', scope, d), style=self.style('or'), coqname='or_unwrap')
            if k < 0.96:
                x = self.name('p')
                lam = E('lam', [(x, 'int', None)], [], self.expr('int', scope + [(x, 'int')], d))
                return call('map_or', self.expr('opt', scope, d), lam, self.expr('int', scope, d), style=r.choice(['fn', 'method']))
            a, b = self.name('a'), self.name('b')
            lam = E('lam', [(a, 'int', None), (b, 'int', None)], [], self.expr('int', scope + [(a, 'int'), (b, 'int')], d))
            return call('reduce', self.expr('seq', scope, d), self.expr('int', scope, d), lam, style='fn')
        if ty == 'bool':
            k = r.random()
            if k < 0.4:
                f = r.choice(['eq', 'ne', 'lt', 'le', 'gt', 'ge'])
                return call(f, self.expr('int', scope, d), self.expr('int', scope, d), style=self.style(f))
            if k < 0.65:
                f = r.choice(['and', 'or'])
                return call(f, self.expr('bool', scope, d), self.expr('bool', scope, d), style=self.style(f))
            if k < 0.75:
                return call('not', self.expr('bool', scope, d), style=self.style('not'))
            if k < 0.85:
                return call('is_error', self.expr(r.choice(['int', 'str', 'bool']), scope, d))
            if k < 0.93:
                return call('has_value', self.expr('opt', scope, d), style=r.choice(['fn', 'method']))
            # comparisons of strings go through the library's derived operators (cmp based): same strict left-to-right order
            # the derived operators evaluate BOTH operands even when the first is an error (model: the *_all primitives)
            f = r.choice(['eq', 'eq', 'ne', 'lt', 'le', 'gt', 'ge'])
            return call(f, self.expr('str', scope, d), self.expr('str', scope, d), style=self.style(f), coqname=(None if f == 'eq' else f + '_all'))
        if ty == 'str':
            k = r.random()
            if k < 0.4:
                return call('add', self.expr('str', scope, d), self.expr('str', scope, d), style=self.style('add'))
            return call('to_str', self.expr(r.choice(['int', 'bool', 'str', 'seq', 'opt', 'int']), scope, d), style=r.choice(['fn', 'method']))
        if ty == 'seq':
            k = r.random()
            if k < 0.3:
                return E('arr', [self.expr('int', scope, d) for _ in range(r.choice([1, 2, 3]))])
            if k < 0.5:
                return call('add', self.expr('seq', scope, d), self.expr('seq', scope, d), style=self.style('add'))
            if k < 0.7:
                return call('push', self.expr('seq', scope, d), self.expr('int', scope, d), style=r.choice(['fn', 'method']))
            x = self.name('m')
            lam = E('lam', [(x, 'int', None)], [], self.expr('int', scope + [(x, 'int')], d))
            return call('to_array', call('map', self.expr('seq', scope, d), lam, style=r.choice(['fn', 'method'])), style='method')
        if ty == 'opt':
            k = r.random()
            if k < 0.4:
                return call('some', self.expr('int', scope, d))
            if k < 0.7:
                return call('then', self.expr('bool', scope, d), self.expr('int', scope, d), style=r.choice(['fn', 'method']))
            return call('or', self.expr('opt', scope, d), self.expr('opt', scope, d), style=self.style('or'))
        return self.lit(ty)
