"""writes MANIFEST.json from the table below (keeps it valid at all times)"""
import json
import os

ROOT = os.path.dirname(os.path.dirname(os.path.abspath(__file__)))

CLAIMED = json.load(open(os.path.join(ROOT, 'lib', 'claims.json')))

NOT_YET = {}


def write():
    props = [json.loads(l) for l in open(os.path.join(ROOT, 'properties.jsonl'))]
    checks = []
    na = []
    for p in props:
        pid = p['id']
        if pid in CLAIMED:
            c = CLAIMED[pid]
            checks.append({
                'property_id': pid,
                'quick_cmd': f'./check {pid} --tier quick',
                'thorough_cmd': f'./check {pid} --tier thorough',
                'evidence_file': f'/verif/evidence/{pid}.json',
                'replay_cmd_template': f'./check {pid} --replay {{path}}',
                'engine': 'coq-xr',
                'level_claimed': {'category': 'proof', 'text': c['text'], 'design_ref': 'DESIGN.md section ' + c['design']},
                'level_note': c['note'],
                'technique': c['technique'],
            })
        else:
            na.append({'property_id': pid, 'reason': NOT_YET.get(pid, 'check not built yet in this round (a Coq model and theorem are planned, see DESIGN.md section 5); not claimed until it exists')})
    m = {
        'version': 1,
        'setup_cmd': './setup.sh',
        'hooks': {
            'guard': 'xray_verif',
            'enable': 'RUSTFLAGS="--cfg xray_verif" cargo build --offline (the harness crate /verif/harness depends on /repo by path)',
            'baseline_off_cmd': 'cd /repo && cargo test --workspace --no-fail-fast --offline',
            'source_commits': ['2b15049', '3600292', '46c3229'],
            'add_only': True,
        },
        'engines': [{'name': 'coq-xr', 'path': '/verif/coq', 'serves_properties': sorted(CLAIMED),
                     'kind_free_text': 'Coq 8.16.1 project Xr (models + theorems) with Python driver (/verif/check), Rust harness (/verif/harness) running the real interpreter, model evaluated by vm_compute inside coqc'}],
        'checks': checks,
        'not_applicable': na,
        'notes': 'see DESIGN.md; known_findings.json lists fixed and known defects',
    }
    with open(os.path.join(ROOT, 'MANIFEST.json'), 'w') as f:
        json.dump(m, f, indent=1)


if __name__ == '__main__':
    write()
