#!/usr/bin/env python3
"""copies confirmed seeded changes from /tmp/mut/out/<ID>/mK into /verif/seeded/<ID>-mK/ (patch.diff, demo.*, meta.json)"""
import json, os, shutil, sys
src = sys.argv[1] if len(sys.argv) > 1 else '/tmp/mut/out'
for pid in sorted(os.listdir(src)):
    pd = os.path.join(src, pid)
    if not os.path.isdir(pd):
        continue
    for m in sorted(os.listdir(pd)):
        d = os.path.join(pd, m)
        if not os.path.isdir(d) or not os.path.exists(os.path.join(d, 'confirm.json')):
            continue
        conf = json.load(open(os.path.join(d, 'confirm.json')))
        if not conf.get('confirmed'):
            print('skip (not confirmed)', d)
            continue
        out = os.path.join('/verif/seeded', f'{pid}-{m}')
        os.makedirs(out, exist_ok=True)
        for f in os.listdir(d):
            if f.startswith('patch') or f.startswith('demo'):
                shutil.copy(os.path.join(d, f), out)
        try:
            meta = json.load(open(os.path.join(d, 'meta.json')))
        except Exception:
            meta = {}
        old = {}
        if os.path.exists(os.path.join(out, 'meta.json')):
            old = json.load(open(os.path.join(out, 'meta.json')))
        meta['property'] = pid
        meta['base_commit'] = conf.get('base')
        meta['confirmed_by_me'] = {
            'how': 'lib/confirm_mut.py in a scratch worktree of /repo at base_commit: demo passes without the change; change applies and compiles; whole existing suite passes with it; demo fails with it',
            'suite_passed': conf.get('suite_passed'), 'demo_passes_without_change': conf.get('demo_passes_without_change'),
            'demo_fails_with_change': conf.get('demo_fails_with_change')}
        for k in ('detected_by', 'detection_note'):
            if k in old:
                meta[k] = old[k]
        json.dump(meta, open(os.path.join(out, 'meta.json'), 'w'), indent=1)
        print('imported', out)
