#!/bin/sh
# runs every claimed check under several generator seeds (false-alarm hunt); usage: lib/run_seeds.sh 1 2 3 ...
cd /verif
for sd in "$@"; do
  VERIF_SEED=$sd sh lib/run_all.sh > /tmp/run_all_seed$sd.log 2>&1
  echo "seed $sd: $(grep -c 'rc=0' /tmp/run_all_seed$sd.log) of $(grep -c 'rc=' /tmp/run_all_seed$sd.log) ok"
  grep -v 'rc=0' /tmp/run_all_seed$sd.log | cut -c1-220
done
