#!/usr/bin/env python3
"""DESIGN.md = lib/design_part1.md (with the detection table generated from seeded/MATRIX.json and the fix count from
known_findings.json) + lib/design_part2.md (the original design)."""
import json, os
R = '/verif'
p1 = open(f'{R}/lib/design_part1.md').read()
p2 = open(f'{R}/lib/design_part2.md').read()
kf = json.load(open(f'{R}/known_findings.json'))['findings']
nfixed = sum(1 for e in kf if e.get('kind') == 'fixed')
p1 = p1.replace('56 defects were repaired', f'{nfixed} defects were repaired')
rows = ['| change | property | what it does (one line) | reported by |', '|---|---|---|---|']
mx = json.load(open(f'{R}/seeded/MATRIX.json')) if os.path.exists(f'{R}/seeded/MATRIX.json') else {}
for name in sorted(mx):
    m = mx[name]
    summ = ''
    mp = f'{R}/seeded/{name}/meta.json'
    if os.path.exists(mp):
        meta = json.load(open(mp))
        summ = (meta.get('summary') or meta.get('description') or '')
    elif name.startswith('regress/'):
        c = name.split('/')[1].replace('m_', '').replace('.diff', '')
        e = next((e for e in kf if e.get('commit', '').startswith(c[:7])), None)
        summ = 'revert of fix ' + c[:7] + ((': ' + e['what'].split(' ', 3)[3]) if e else '')
    summ = ' '.join(summ.split())[:150].replace('|', '/')
    det = ', '.join(m.get('detected_by') or []) if m.get('applies') else 'does not apply to the current head'
    rows.append(f'| {name} | {m.get("property")} | {summ} | {det or "**none**"} |')
p1 = p1.replace('@@MATRIX@@', '\n'.join(rows) if len(rows) > 2 else '(run `python3 lib/seed_matrix.py` to fill this table)')
open(f'{R}/DESIGN.md', 'w').write(p1 + p2)
print('DESIGN.md written:', len((p1 + p2).split('\n')), 'lines;', len(rows) - 2, 'matrix rows;', nfixed, 'fixes')
