#!/usr/bin/env python3
"""quick probe: python3 lib/probe.py [--release] 'expr' 'expr' ...   (each expr becomes fn cN()->str{ to_str(expr) } unless prefixed with T:type:)"""
import json, subprocess, sys, os, tempfile
args = sys.argv[1:]
prof = 'debug'
limits = None
if args and args[0] == '--release':
    prof = 'release'; args = args[1:]
if args and args[0].startswith('--limits='):
    limits = json.loads(args[0][9:]); args = args[1:]
pre = ''
if args and args[0].startswith('--pre='):
    pre = args[0][6:]; args = args[1:]
jobs = []
for i, e in enumerate(args):
    if e.startswith('T:'):
        _, ty, ex = e.split(':', 2)
    else:
        ty, ex = 'str', f'to_str({e})'
    j = {"id": str(i), "src": pre + f"\nfn c0()->{ty}{{ {ex} }}", "calls": ["c0"]}
    if limits: j["limits"] = limits
    jobs.append(j)
d = tempfile.mkdtemp(dir='/verif/work')
open(d + '/j', 'w').write('\n'.join(json.dumps(j) for j in jobs) + '\n')
for i, j in enumerate(jobs):
    open(d + '/j1', 'w').write(json.dumps(j) + '\n')
    try:
        p = subprocess.run([f'/verif/.build/cargo/{prof}/xharness', d + '/j1', d + '/o'], timeout=20, capture_output=True)
        out = open(d + '/o').read().strip()
        if not out:
            print(args[i], '=> CRASH', p.returncode, p.stderr[-300:]); continue
        r = json.loads(out)
        if r['compile'] != 'ok': print(args[i], '=> COMPILE', r['compile'])
        else: print(args[i], '=>', r.get('calls'), r.get('inst') if r.get('inst') != 'ok' else '', repr(r.get('stdout')) if r.get('stdout') else '')
    except subprocess.TimeoutExpired:
        print(args[i], '=> TIMEOUT')
import shutil; shutil.rmtree(d)
