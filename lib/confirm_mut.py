#!/usr/bin/env python3
"""Confirms seeded changes independently in a scratch worktree of /repo (outside /repo and /verif):
for each <dir> with patch.diff + demo.xr[/demo.toml] or demo.rs:
  demo passes without the change, the change compiles, the whole existing suite passes with it, the demo fails with it.
usage: confirm_mut.py <base-commit> <dir>...     writes <dir>/confirm.json ; removes the worktree at the end"""
import json, os, re, shutil, subprocess, sys

BASE = os.environ.get('CONFIRM_DIR', '/tmp/confirm')
WT = BASE + '/wt'
ENV = dict(os.environ, CARGO_NET_OFFLINE='true', CARGO_TARGET_DIR=BASE + '/target')


def sh(cmd, cwd=WT, timeout=3000):
    p = subprocess.run(cmd, shell=True, cwd=cwd, env=ENV, stdout=subprocess.PIPE, stderr=subprocess.STDOUT, text=True, timeout=timeout)
    return p.returncode, p.stdout


def reset(base):
    sh(f'git checkout -q -f {base} && git clean -fdq -e target')


def run_demo(d):
    if os.path.exists(os.path.join(d, 'demo.xr')):
        shutil.copy(os.path.join(d, 'demo.xr'), WT + '/test_scripts/999_demo.xr')
        if os.path.exists(os.path.join(d, 'demo.toml')):
            shutil.copy(os.path.join(d, 'demo.toml'), WT + '/test_scripts/999.toml')
        with open(WT + '/tests/run_scripts.rs', 'a') as f:
            f.write('\n#[test]\nfn test_script_999() {\n    run_script_from_name(function_name!());\n}\n')
        try:
            rc, out = sh('timeout 600 cargo test --offline --test run_scripts test_script_999 2>&1 | tail -25', timeout=900)
        except subprocess.TimeoutExpired:
            rc, out = 124, 'timeout'
        ok = 'test result: ok. 1 passed' in out
        sh('git checkout -q -- tests/run_scripts.rs; rm -f test_scripts/999_demo.xr test_scripts/999.toml')
        return ok, out[-1500:]
    elif os.path.exists(os.path.join(d, 'demo.rs')):
        shutil.copy(os.path.join(d, 'demo.rs'), WT + '/tests/demo_seeded.rs')
        try:
            rc, out = sh('timeout 900 cargo test --offline --test demo_seeded 2>&1 | tail -25', timeout=1200)
        except subprocess.TimeoutExpired:
            rc, out = 124, 'timeout'
        ok = bool(re.search(r'test result: ok\. [1-9]\d* passed; 0 failed', out))
        os.remove(WT + '/tests/demo_seeded.rs')
        return ok, out[-1500:]
    return None, 'no demo'


def main():
    base = sys.argv[1]
    dirs = sys.argv[2:]
    os.makedirs(BASE, exist_ok=True)
    if not os.path.exists(WT):
        subprocess.run(f'git -C /repo worktree add -q --detach {WT} {base}', shell=True, check=True)
    for d in dirs:
        res = {'base': base, 'dir': d}
        reset(base)
        ok0, out0 = run_demo(d)
        res['demo_passes_without_change'] = ok0
        rc, out = sh(f'git apply {d}/patch.diff')
        res['applies'] = rc == 0
        if rc == 0:
            try:
                rc, out = sh('timeout 2400 cargo test --workspace --offline 2>&1 | grep -E "^test result|FAILED|error(\\[|:)" | head -20', timeout=2700)
            except subprocess.TimeoutExpired:
                out = 'timeout'
            passed = sum(int(x) for x in re.findall(r'test result: ok\. (\d+) passed', out))
            failed = re.findall(r'(\d+) failed', out)
            res['suite'] = out.strip()
            res['suite_passed'] = passed
            res['suite_ok'] = passed >= 432 and all(f == '0' for f in failed) and 'FAILED' not in out and 'error' not in out
            ok1, out1 = run_demo(d)
            res['demo_fails_with_change'] = (ok1 is False)
            res['demo_output_with_change'] = out1[-800:]
        res['confirmed'] = bool(res.get('demo_passes_without_change') and res.get('applies') and res.get('suite_ok') and res.get('demo_fails_with_change'))
        json.dump(res, open(os.path.join(d, 'confirm.json'), 'w'), indent=1)
        print(d, 'CONFIRMED' if res['confirmed'] else 'NOT-CONFIRMED', {k: res.get(k) for k in ('demo_passes_without_change', 'applies', 'suite_ok', 'suite_passed', 'demo_fails_with_change')}, flush=True)
    subprocess.run(f'git -C /repo worktree remove --force {WT}', shell=True)
    shutil.rmtree(BASE + '/target', ignore_errors=True)


if __name__ == '__main__':
    main()
