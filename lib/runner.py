"""Generic flow of a property check:
   (1) proof obligations: gate + full build of Props/<id>.vo + Print Assumptions allow-list
   (2) correspondence: generated cases run on the real interpreter and on the Coq model (vm_compute)
   (3) triage, known findings, evidence, VIOLATION lines."""
import json
import os
import random
import sys
import time

from . import core
from .core import log


class Case:
    __slots__ = ('key', 'kind', 'ret', 'body', 'coq', 'pre', 'meta', 'limits', 'expect')

    def __init__(self, key, kind, body, coq, ret='str', pre='', meta=None, limits=None, expect=None):
        self.key = key          # stable identity of the case (used for known findings and replays)
        self.kind = kind        # category for the distribution report
        self.ret = ret          # return type of the generated xray function
        self.body = body        # xray function body
        self.coq = coq          # Coq term of type string (None: no model side, `expect` is the oracle)
        self.pre = pre          # top-level declarations the body needs
        self.meta = meta or {}
        self.limits = limits
        self.expect = expect    # python-side expected string (second opinion / oracle when coq is None)

    def to_json(self):
        return {'key': self.key, 'kind': self.kind, 'ret': self.ret, 'body': self.body, 'coq': self.coq,
                'pre': self.pre, 'meta': self.meta, 'limits': self.limits, 'expect': self.expect}

    @staticmethod
    def from_json(d):
        return Case(d['key'], d['kind'], d['body'], d.get('coq'), d.get('ret', 'str'), d.get('pre', ''),
                    d.get('meta'), d.get('limits'), d.get('expect'))


def norm_impl(r, err_text=False):
    """implementation repr -> the format the model's show_res prints"""
    if r is None:
        return 'A:no result'
    tag, _, rest = r.partition(':')
    if tag in ('s', 'i', 'b'):
        return rest
    if tag == 'f':
        return rest
    if tag == 'E':
        return 'E:' + rest if err_text else 'E:'
    if tag == 'X':
        # PermissionError("regex") -> PermissionError(regex)
        return 'X:' + rest.replace('"', '')
    if tag == 'P':
        return 'P:' + rest
    if tag in ('H', 'A', 'N'):
        return r
    return r


def norm_model(m, err_text=False):
    if m is None:
        return None
    if m.startswith('E:') and not err_text:
        return 'E:'
    return m


class PropertyCheck:
    """subclass per property"""
    id = None
    imports = ''
    batch = 50              # cases per generated program
    err_text = False        # compare error messages too
    technique = ''
    trusted = []
    assumptions = []
    job_timeout = 240

    def generate(self, rng, tier):
        raise NotImplementedError

    def corpus(self):
        p = os.path.join(core.ROOT, 'corpus', self.id + '.jsonl')
        if not os.path.exists(p):
            return []
        return [Case.from_json(json.loads(l)) for l in open(p) if l.strip()]

    def nontrivial(self, case, impl, model):
        return True

    def known(self, case, impl, model, known_entries):
        """returns the known-finding entry that explains this disagreement, or None"""
        for e in known_entries:
            m = e.get('match', {})
            if 'key' in m and m['key'] == case.key:
                return e
            if 'kind' in m and m['kind'] == case.kind and ('impl_prefix' not in m or (impl or '').startswith(m['impl_prefix'])):
                return e
        return None

    def agree(self, case, impl, model):
        return impl == model

    # ---- extra obligations on facts extracted from the source (translators); return list of (name, ok, detail)
    def pre_build(self):
        """regenerate extracted facts (translators) before the Coq build"""
        return None

    def extracted_obligations(self):
        return []

    def extra_checks(self, ctx):
        """property-specific additional correspondence (host histories etc.); returns list of violation dicts"""
        return []


def make_jobs(cases, batch, prefix):
    """group cases by (pre, limits) into programs of `batch` functions"""
    groups = {}
    for idx, c in enumerate(cases):
        k = (c.pre, json.dumps(c.limits, sort_keys=True))
        groups.setdefault(k, []).append(idx)
    jobs = []
    where = {}
    for (pre, lim), idxs in groups.items():
        for b in range(0, len(idxs), batch):
            chunk = idxs[b:b + batch]
            src = [pre]
            calls = []
            for n, idx in enumerate(chunk):
                c = cases[idx]
                src.append(f'fn c{n}()->{c.ret}{{ {c.body} }}')
                calls.append(f'c{n}')
                where[idx] = (len(jobs), n)
            job = {'id': f'{prefix}{len(jobs)}', 'src': '\n'.join(src), 'calls': calls}
            if lim != 'null':
                job['limits'] = json.loads(lim)
            jobs.append(job)
    return jobs, where


def run_cases(prop, cases, binary, workdir, tag):
    jobs, where = make_jobs(cases, prop.batch, tag)
    res = core.run_harness(binary, jobs, os.path.join(workdir, 'h_' + tag), timeout=prop.job_timeout)
    out = []
    for idx, c in enumerate(cases):
        j, n = where[idx]
        r = res.get(jobs[j]['id'])
        if r is None:
            out.append('A:no result')
            continue
        if r.get('compile') != 'ok':
            out.append('C:' + str(r.get('compile')))
            continue
        if r.get('inst') != 'ok':
            out.append('I:' + str(r.get('inst')))
            continue
        calls = r.get('calls') or []
        out.append(calls[n] if n < len(calls) else 'A:no result')
    return out


def main(prop, argv):
    import argparse
    ap = argparse.ArgumentParser()
    ap.add_argument('--tier', default=os.environ.get('VERIF_TIER', 'quick'))
    ap.add_argument('--replay', default=None)
    ap.add_argument('--seed', type=int, default=int(os.environ.get('VERIF_SEED', '0') or 0))
    args = ap.parse_args(argv)
    tier = 'thorough' if args.tier == 'thorough' else 'quick'
    t0 = time.time()
    pid = prop.id
    workdir = os.path.join(core.BUILD, 'work', pid)
    os.makedirs(workdir, exist_ok=True)
    rng = random.Random(args.seed * 1000003 + 17)
    violations = []      # dicts: {what, case?, impl?, model?}
    broken = []          # names of theorems / obligations / correspondences that no longer check

    # ---------------- (1) proof obligations
    prop.pre_build()
    bad = core.coq_gate()
    if bad:
        broken.append('gate: forbidden vernacular: ' + '; '.join(bad[:5]))
    ok, n_thm, blocks, bad_ax, out = core.coq_props(pid)
    # the model files the correspondence evaluates (imports of the cases files) must be built as well
    import re as _re
    mods = []
    for m in _re.finditer(r'From Xr Require Import ([^\n]*)\.\s*(?:\n|$)', prop.imports):
        mods += m.group(1).split()
    mod_targets = sorted({x.replace('.', '/') + '.vo' for x in mods} | set(getattr(prop, 'extra_vo', [])))
    if mod_targets:
        okm, outm = core.coq_make(mod_targets)
        if not okm:
            ok = False
            out = outm
    obligations = n_thm
    discharged = n_thm if ok else 0
    if not ok:
        tail = '\n'.join(out.splitlines()[-25:])
        broken.append('Props/%s.v does not compile (a proof obligation fails):\n%s' % (pid, tail))
    if bad_ax:
        broken.append('assumptions outside the allow-list: ' + ', '.join(bad_ax))
    axioms_used = sorted({a for b in blocks for a in b})
    extr = prop.extracted_obligations()
    for name, okk, detail in extr:
        obligations += 1
        if okk:
            discharged += 1
        else:
            broken.append(f'extracted-fact obligation {name}: {detail}')
    checker = f'make -C coq Props/{pid}.vo (coqc 8.16.1, full .vo build) + Print Assumptions allow-list'
    if tier == 'thorough' and ok:
        rc, chk = core.sh(['timeout', '1500', 'coqchk', '-silent', '-o', '-Q', core.COQ, 'Xr', f'Xr.Props.{pid}'],
                          cwd=core.COQ, timeout=1600)
        if rc != 0:
            broken.append('coqchk failed: ' + chk[-800:])
        checker += ' + coqchk -o'

    # ---------------- (2) correspondence
    binary = core.build_harness('debug')
    binaries = [('debug', binary)]
    if tier == 'thorough':
        binaries.append(('release', core.build_harness('release')))
    if args.replay:
        payload = json.load(open(args.replay))
        cases = [Case.from_json(c) for c in payload.get('cases', [])]
    else:
        cases = prop.corpus() + prop.generate(rng, tier)
        if broken:
            # a broken obligation: widen the search for a concrete failing input
            log('[search] obligations broken; generating additional cases for the search')
            for k in range(3):
                cases += prop.generate(random.Random(args.seed * 7919 + 101 + k), tier)
    # model side
    terms = [c.coq if c.coq is not None else core.coq_str(c.expect or '') for c in cases]
    model_raw = core.coq_eval(terms, prop.imports, os.path.join(workdir, 'coq')) if ok or True else []
    model_fail = sum(1 for m in model_raw if m is None)
    known_entries = core.load_known(pid)
    known_hit = {}
    kinds = {}
    outcomes = {}
    distinct = set()
    samples = []
    n_eval = 0
    for prof, binp in binaries:
        impl_raw = run_cases(prop, cases, binp, workdir, prof[0])
        for c, ir, mr in zip(cases, impl_raw, model_raw):
            n_eval += 1
            impl = norm_impl(ir, prop.err_text)
            model = norm_model(mr, prop.err_text)
            kinds[c.kind] = kinds.get(c.kind, 0) + 1
            oc = (impl.split(':')[0] + ':') if impl[:2] in ('E:', 'X:', 'P:', 'H:', 'A:', 'C:', 'I:', 'N:') else 'value'
            outcomes[oc] = outcomes.get(oc, 0) + 1
            if model is None:
                continue
            if c.expect is not None and c.coq is not None and model != c.expect:
                violations.append({'what': 'model disagrees with the python second opinion (machinery)',
                                   'case': c.to_json(), 'model': model, 'expect': c.expect, 'profile': prof})
                continue
            if prop.agree(c, impl, model):
                if prop.nontrivial(c, impl, model):
                    distinct.add(c.key)
                if len(samples) < 12 and prof == 'debug' and (len(samples) < 4 or rng.random() < 0.02):
                    samples.append({'xray': c.body, 'model_term': c.coq, 'result': impl})
                continue
            e = prop.known(c, impl, model, known_entries)
            if e is not None:
                known_hit.setdefault(e['id'], (e, c, impl, model))
                continue
            violations.append({'what': 'implementation differs from the proved model', 'case': c.to_json(),
                               'impl': impl, 'model': model, 'profile': prof})
    if model_fail > max(3, len(cases) // 20):
        raise core.CheckError(f'{model_fail} of {len(cases)} model evaluations failed inside coqc')
    # property-specific extras
    ctx = {'binary': binary, 'binaries': binaries, 'workdir': workdir, 'tier': tier, 'rng': rng,
           'known': known_entries, 'known_hit': known_hit}
    extra = prop.extra_checks(ctx)
    violations.extend(extra)
    extra_cov = ctx.get('coverage', {})
    n_eval += extra_cov.get('evaluations', 0)

    # ---------------- (3) report
    for fid, (e, c, impl, model) in sorted(known_hit.items()):
        print(f"KNOWN-FINDING: property={pid} {e['what']} [{fid}]")
    rc = 0
    # a disagreement that only shows that the MODEL no longer describes the code (an algorithm trace, not a wrong result) is a broken
    # correspondence: reported with a concrete failing input if any other comparison found one, otherwise as no-failing-input-found
    soft = [v for v in violations if v.get('broken_correspondence')]
    if soft and len(soft) == len(violations):
        broken = broken + [f"correspondence {v['broken_correspondence']}: {v['what']} (input: {json.dumps(v.get('case', {}))[:600]})" for v in soft[:5]]
        violations_real = []
    else:
        violations_real = [v for v in violations if not v.get('broken_correspondence')]
    if violations_real:
        violations = violations_real + soft
        # smallest case first
        violations_real.sort(key=lambda v: len(json.dumps(v.get('case', {}))))
        violations = violations_real + soft
        v = violations[0]
        payload = {'property': pid, 'seed': args.seed, 'tier': tier, 'violation': v,
                   'cases': [v['case']] if 'case' in v else [], 'broken_obligations': broken,
                   'others': violations[1:20]}
        path = core.write_replay(pid, payload)
        print(f'VIOLATION property={pid} replay={path}')
        log(json.dumps(v, indent=1)[:3000])
        rc = 1
    elif broken:
        payload = {'property': pid, 'seed': args.seed, 'tier': tier, 'broken_obligations': broken, 'cases': []}
        path = core.write_replay(pid, payload)
        print(f'VIOLATION property={pid} replay={path} no-failing-input-found')
        log('\n'.join(broken)[:3000])
        rc = 1
    cov = {
        'obligations': obligations, 'discharged': discharged if not bad_ax else 0,
        'checker_cmd': checker,
        'trusted_base': ['Coq 8.16.1 kernel (coqc; vm_compute used for closed computations)',
                         'axioms reported by Print Assumptions: ' + (', '.join(axioms_used) if axioms_used else 'none (closed under the global context)'),
                         'correspondence check: hand-written model vs /repo working tree through xharness (differential, sampled)',
                         ] + list(prop.trusted),
        'traces_validated_against_impl': len(cases) * len(binaries),
        'evaluations': n_eval,
        'distinct_nontrivial': len(distinct) + extra_cov.get('distinct_nontrivial', 0),
        'rule': getattr(prop, 'rule', 'distinct case keys whose implementation and model results agree and are non-trivial'),
        'samples': samples[:12] + extra_cov.get('samples', []),
        'case_kinds': kinds, 'impl_outcomes': outcomes, 'model_eval_failures': model_fail,
        'known_findings_reproduced': sorted(known_hit.keys()),
        'profiles': [p for p, _ in binaries],
        'theorems_file': f'coq/Props/{pid}.v',
        'broken_obligations': broken,
    }
    for k, v in extra_cov.items():
        if k not in ('evaluations', 'distinct_nontrivial', 'samples'):
            cov[k] = v
    if not cov['samples']:
        cov['samples'] = [{'note': 'no agreeing sample recorded'}]
    core.write_evidence(pid, tier, args.seed, cov, list(prop.assumptions), time.time() - t0, len(violations))
    log(f'[{pid}] tier={tier} cases={len(cases)} evals={n_eval} violations={len(violations)} '
        f'known={len(known_hit)} broken={len(broken)} wall={time.time() - t0:.1f}s')
    return rc
