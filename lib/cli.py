import importlib
import sys
import traceback

from . import core, runner


def main():
    if len(sys.argv) < 2:
        print('usage: ./check <ID> [--tier quick|thorough] [--replay file]', file=sys.stderr)
        return 2
    pid = sys.argv[1].upper()
    try:
        mod = importlib.import_module('props.' + pid.lower())
    except ModuleNotFoundError:
        print(f'no check for {pid}', file=sys.stderr)
        return 2
    try:
        if hasattr(mod, 'main'):
            return mod.main(sys.argv[2:])
        return runner.main(mod.PROP, sys.argv[2:])
    except core.CheckError as e:
        print(f'CHECK-ERROR {pid}: {e}', file=sys.stderr)
        return 2
    except Exception:
        traceback.print_exc()
        return 2


if __name__ == '__main__':
    sys.exit(main())
