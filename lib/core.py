"""Shared machinery of /verif/check: building the harness and the Coq project, running batches on the
real interpreter, evaluating model terms inside Coq (vm_compute), evidence, known findings."""
import hashlib
import json
import os
import re
import shutil
import subprocess
import sys
import time
from concurrent.futures import ThreadPoolExecutor

ROOT = os.path.dirname(os.path.dirname(os.path.abspath(__file__)))
BUILD = os.path.join(ROOT, '.build')
COQ = os.path.join(ROOT, 'coq')
REPO = '/repo'
NPROC = 16

ENV = dict(os.environ)
ENV.update({
    'CARGO_NET_OFFLINE': 'true',
    'CARGO_TARGET_DIR': os.path.join(BUILD, 'cargo'),
    'RUSTFLAGS': '--cfg xray_verif',
})


class CheckError(Exception):
    """the machinery itself could not run (build failure of /repo etc.)"""


def log(*a):
    print(*a, file=sys.stderr, flush=True)


def sh(cmd, timeout=None, cwd=None, env=None):
    p = subprocess.run(cmd, shell=isinstance(cmd, str), cwd=cwd, env=env or ENV, timeout=timeout,
                       stdout=subprocess.PIPE, stderr=subprocess.STDOUT, text=True, errors='replace')
    return p.returncode, p.stdout


# --------------------------------------------------------------------------------------------
# harness
# --------------------------------------------------------------------------------------------
def build_harness(profile='debug'):
    os.makedirs(BUILD, exist_ok=True)
    hdir = os.path.join(ROOT, 'harness')
    lock = os.path.join(hdir, 'Cargo.lock')
    # the lock file follows /repo's (same dependency versions, nothing fetched)
    shutil.copyfile(os.path.join(REPO, 'Cargo.lock'), lock)
    cmd = ['cargo', 'build', '--offline'] + (['--release'] if profile == 'release' else [])
    t0 = time.time()
    rc, out = sh(cmd, timeout=1800, cwd=hdir)
    if rc != 0:
        raise CheckError('cargo build of the harness against /repo failed:\n' + out[-4000:])
    log(f'[build] xharness {profile} ok in {time.time() - t0:.1f}s')
    return os.path.join(BUILD, 'cargo', profile, 'xharness')


def _run_shard(binary, jobs, workdir, name, timeout):
    jf = os.path.join(workdir, name + '.jobs')
    of = os.path.join(workdir, name + '.out')
    with open(jf, 'w') as f:
        for j in jobs:
            f.write(json.dumps(j) + '\n')
    if os.path.exists(of):
        os.remove(of)
    status = 'ok'
    try:
        p = subprocess.run([binary, jf, of], timeout=timeout, stdout=subprocess.PIPE, stderr=subprocess.PIPE)
        if p.returncode != 0:
            status = f'exit {p.returncode}: ' + p.stderr.decode(errors='replace')[-300:]
    except subprocess.TimeoutExpired:
        status = 'timeout'
    res = {}
    if os.path.exists(of):
        with open(of) as f:
            for line in f:
                line = line.strip()
                if not line:
                    continue
                try:
                    r = json.loads(line)
                    res[r['id']] = r
                except Exception:
                    pass
    return res, status


def run_harness(binary, jobs, workdir, timeout=180, single_timeout=20, shards=NPROC):
    """runs jobs (dicts with unique 'id'); returns {id: result}.  A job whose process hangs or dies is
    re-run alone, split per call, so that exactly the offending call is marked:
    result['calls'][k] = 'H:timeout' | 'A:<abort status>'."""
    os.makedirs(workdir, exist_ok=True)
    if not jobs:
        return {}
    shards = max(1, min(shards, len(jobs)))
    parts = [jobs[i::shards] for i in range(shards)]
    results = {}
    with ThreadPoolExecutor(max_workers=shards) as ex:
        futs = [ex.submit(_run_shard, binary, part, workdir, f's{i}', timeout) for i, part in enumerate(parts)]
        for fu in futs:
            r, _ = fu.result()
            results.update(r)
    missing = [j for j in jobs if j['id'] not in results]
    if missing:
        log(f'[harness] {len(missing)} job(s) lost to a hang/abort; re-running them call by call')
        singles = []
        for j in missing:
            calls = j.get('calls') or []
            if len(calls) <= 1:
                singles.append((j['id'], 0, dict(j, id=j['id'] + '#0')))
            else:
                for k, c in enumerate(calls):
                    jj = dict(j)
                    jj['calls'] = [c]
                    jj['id'] = f"{j['id']}#{k}"
                    singles.append((j['id'], k, jj))

        def one(t):
            jid, k, jj = t
            r, status = _run_shard(binary, [jj], workdir, 'x' + hashlib.md5(jj['id'].encode()).hexdigest()[:10],
                                   single_timeout)
            return jid, k, r.get(jj['id']), status
        with ThreadPoolExecutor(max_workers=NPROC) as ex:
            outs = list(ex.map(one, singles))
        for j in missing:
            calls = j.get('calls') or []
            merged = None
            call_res = [None] * len(calls)
            for jid, k, r, status in outs:
                if jid != j['id']:
                    continue
                if r is not None:
                    if merged is None:
                        merged = dict(r)
                    if calls:
                        call_res[k] = (r.get('calls') or [None])[0] if r.get('calls') else None
                        if call_res[k] is None and r.get('compile') == 'ok' and r.get('inst') == 'ok':
                            call_res[k] = 'A:no result'
                else:
                    tag = 'H:timeout' if status == 'timeout' else 'A:' + status
                    if calls:
                        call_res[k] = tag
                    else:
                        merged = {'id': j['id'], 'crash': tag}
            if merged is None:
                merged = {'id': j['id'], 'compile': 'ok', 'inst': 'ok', 'values': {}, 'crash_all': True}
            merged['id'] = j['id']
            if calls:
                merged['calls'] = call_res
            results[j['id']] = merged
    return results


# --------------------------------------------------------------------------------------------
# Coq
# --------------------------------------------------------------------------------------------
FORBIDDEN = re.compile(r'\b(Admitted|admit|Axiom|Axioms|Parameter|Parameters|Conjecture|Conjectures|'
                       r'Unset\s+Guard|bypass_check|Admit\s+Obligations|type-in-type|impredicative-set|'
                       r'Unset\s+Universe\s+Checking|Unset\s+Positivity)\b')


def coq_gate():
    """no Admitted/Axiom/... anywhere in the development (comments included: simplest sound rule)."""
    bad = []
    for dp, dn, fn in os.walk(COQ):
        for f in fn:
            if f.endswith('.v'):
                p = os.path.join(dp, f)
                for i, line in enumerate(open(p, errors='replace'), 1):
                    if FORBIDDEN.search(line):
                        bad.append(f'{p}:{i}: {line.strip()}')
    for f in ('_CoqProject',):
        txt = open(os.path.join(COQ, f)).read()
        if 'type-in-type' in txt or 'impredicative-set' in txt:
            bad.append(f + ': forbidden flag')
    return bad


def coq_make(targets, timeout=1500):
    """full .vo build of the given targets and their dependencies (never -vos)."""
    if not os.path.exists(os.path.join(COQ, 'Makefile')) or \
            os.path.getmtime(os.path.join(COQ, 'Makefile')) < os.path.getmtime(os.path.join(COQ, '_CoqProject')):
        rc, out = sh('coq_makefile -f _CoqProject -o Makefile', cwd=COQ, timeout=120)
        if rc != 0:
            return False, out
    t0 = time.time()
    rc, out = sh(['timeout', str(timeout), 'make', f'-j{NPROC}'] + targets, cwd=COQ, timeout=timeout + 30)
    log(f'[coq] make {" ".join(targets)} rc={rc} in {time.time() - t0:.1f}s')
    return rc == 0, out


ALLOWED_AXIOMS = {
    # standard-library axioms that may appear through Reals/Flocq (C13 only); named in DESIGN.md section 4
    'Classical_Prop.classic', 'ClassicalDedekindReals.sig_forall_dec', 'ClassicalDedekindReals.sig_not_dec',
    'FunctionalExtensionality.functional_extensionality_dep',
}


def coq_props(prop_id, timeout=900):
    """(re)compiles Props/<id>.v, returns (ok, n_theorems, assumption_blocks, bad_axioms, log).
    The file is always recompiled so that Print Assumptions is re-emitted."""
    src = os.path.join(COQ, 'Props', prop_id + '.v')
    text = open(src).read()
    theorems = re.findall(r'^\s*(?:Theorem|Example|Corollary)\s+(\w+)', text, re.M)
    printed = re.findall(r'^\s*Print Assumptions\s+(\w+)\s*\.', text, re.M)
    missing = [t for t in theorems if t not in printed]
    vo = os.path.join(COQ, 'Props', prop_id + '.vo')
    if os.path.exists(vo):
        os.remove(vo)
    ok, out = coq_make([f'Props/{prop_id}.vo'], timeout=timeout)
    if not ok:
        return False, len(theorems), [], [], out
    # parse Print Assumptions output
    blocks = []
    cur = None
    for line in out.splitlines():
        if line.startswith('Closed under the global context'):
            blocks.append([])
            cur = None
        elif line.startswith('Axioms:'):
            cur = []
            blocks.append(cur)
        elif cur is not None and line.strip() and not line.startswith('COQ') and not line.startswith('make'):
            m = re.match(r"^([A-Za-z_][\w.']*)\s*(:|$)", line)
            if m:
                cur.append(m.group(1))
    bad = []
    for b in blocks:
        for ax in b:
            if ax not in ALLOWED_AXIOMS:
                bad.append(ax)
    if missing:
        bad.append('no Print Assumptions for: ' + ','.join(missing))
    if len(blocks) != len(printed):
        bad.append(f'Print Assumptions blocks {len(blocks)} != requested {len(printed)}')
    return True, len(theorems), blocks, bad, out


def coq_eval(terms, imports, workdir, name="cases", shard_size=400, timeout=300, preamble=""):
    """evaluates each Coq term (of type string) with vm_compute; returns the list of resulting python
    strings (None where evaluation failed)."""
    os.makedirs(workdir, exist_ok=True)
    if not terms:
        return []
    nshards = max(1, min(NPROC, (len(terms) + shard_size - 1) // shard_size))
    # contiguous shards keep indices simple
    per = (len(terms) + nshards - 1) // nshards
    shards = [terms[i * per:(i + 1) * per] for i in range(nshards)]

    def run(i):
        part = shards[i]
        if not part:
            return []
        fn = os.path.join(workdir, f'{name}_{i}.v')
        with open(fn, 'w') as f:
            f.write(imports + '\n')
            f.write('Set Printing Width 1000000.\nSet Printing Depth 1000000.\n')
            f.write('Open Scope string_scope.\n')
            f.write(preamble + '\n')
            for k, t in enumerate(part):
                f.write(f'Definition case_{k} := ({t}).\n')
                f.write(f'Eval vm_compute in (String.append "@{k}@" case_{k}).\n')
        rc, out = sh(['timeout', str(timeout), 'coqc', '-noglob', '-w', 'none', '-Q', COQ, 'Xr', fn],
                     cwd=workdir, timeout=timeout + 30)
        res = [None] * len(part)
        for m in re.finditer(r'=\s*"@(\d+)@((?:[^"]|"")*)"', out):
            res[int(m.group(1))] = m.group(2).replace('""', '"')
        if rc != 0:
            log(f'[coq_eval] shard {i} rc={rc}: ' + out[-1500:])
        return res
    with ThreadPoolExecutor(max_workers=nshards) as ex:
        parts = list(ex.map(run, range(nshards)))
    out = []
    for p in parts:
        out.extend(p)
    return out


def coq_str(s):
    """python str -> Coq string literal (ASCII only; others via explicit ascii codes are not needed)."""
    return '"' + s.replace('"', '""') + '"'


def coq_z(n):
    return f'({n})%Z'


# --------------------------------------------------------------------------------------------
# known findings / evidence / reporting
# --------------------------------------------------------------------------------------------
def load_known(prop_id):
    p = os.path.join(ROOT, 'known_findings.json')
    if not os.path.exists(p):
        return []
    data = json.load(open(p))
    return [e for e in data.get('findings', []) if e.get('property') == prop_id and e.get('kind') == 'known']


def write_evidence(prop_id, tier, seed, coverage, assumptions, wall, violations, level='proof'):
    os.makedirs(os.path.join(ROOT, 'evidence'), exist_ok=True)
    ev = {
        'property_id': prop_id, 'tier': tier, 'seed': seed, 'level': level,
        'coverage': coverage, 'assumptions': assumptions, 'wall_s': round(wall, 2),
        'violations': violations,
    }
    with open(os.path.join(ROOT, 'evidence', prop_id + '.json'), 'w') as f:
        json.dump(ev, f, indent=1, sort_keys=True)


def write_replay(prop_id, payload):
    os.makedirs(os.path.join(ROOT, 'evidence'), exist_ok=True)
    p = os.path.join(ROOT, 'evidence', prop_id + '.replay.json')
    with open(p, 'w') as f:
        json.dump(payload, f, indent=1)
    return p


def case_hash(obj):
    return hashlib.sha1(json.dumps(obj, sort_keys=True).encode()).hexdigest()[:16]
