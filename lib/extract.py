"""regenerates coq/Extracted/*.v from /repo's current working tree (run by setup.sh and by every check)"""
import os
import sys
sys.path.insert(0, os.path.dirname(os.path.dirname(os.path.abspath(__file__))))
ROOT = os.path.dirname(os.path.dirname(os.path.abspath(__file__)))
OUT = os.path.join(ROOT, 'coq', 'Extracted')


def write_if_changed(path, text):
    if os.path.exists(path) and open(path).read() == text:
        return False
    with open(path, 'w') as f:
        f.write(text)
    return True


def run_all():
    os.makedirs(OUT, exist_ok=True)
    import importlib
    res = {}
    for name in ('perms', 'floatsites', 'idents', 'optable', 'tailsites'):
        mod = importlib.import_module('translator.' + name)
        tmp = os.path.join(OUT, '.' + name + '.tmp')
        info = mod.emit(tmp)
        final = os.path.join(OUT, {'optable': 'Ops', 'tailsites': 'Tails'}.get(name, name.capitalize()) + '.v')
        write_if_changed(final, open(tmp).read())
        os.remove(tmp)
        res[name] = info
    return res


if __name__ == '__main__':
    run_all()
    print('extracted facts regenerated')
