#!/bin/sh
# runs every claimed check (quick tier) on the current tree; prints one summary line per property
cd /verif
for id in $(python3 -c "import json;print(' '.join(c['property_id'] for c in json.load(open('MANIFEST.json'))['checks']))"); do
  ./check $id --tier ${1:-quick} >/tmp/runall_$id.out 2>/tmp/runall_$id.err; rc=$?
  echo "$id rc=$rc $(grep -E '^\[' /tmp/runall_$id.err | tail -1) $(grep -E 'VIOLATION|KNOWN|CHECK-ERROR' /tmp/runall_$id.out /tmp/runall_$id.err | head -2)"
done
