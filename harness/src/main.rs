// xharness: runs batches of xray programs on the real interpreter (/repo working tree) and prints
// language-level observables, one JSON object per job.  Used by /verif/check for the correspondence
// between the Coq models and the implementation.
//
// usage: xharness <jobs.jsonl> <out.jsonl>
//
// job  = {"id":str, "src":str, "limits":{...}?, "now":f64?, "seed":u64?,
//         "values":[name...]?, "calls":[fname...]?, "ops":[{"op":"call","fn":name}|{"op":"reset_calls"}|
//         {"op":"reset_timeout"}|{"op":"drop_results"}]?, "twice":bool?}
// out  = {"id", "compile": "ok"|"err:<text>"|"panic:<msg>", "inst": "ok"|"viol:<kind>"|"panic:<msg>",
//         "values": {name: repr}, "calls": [repr...], "ops":[...], "stdout": str,
//         "touched": {"writer":n,"clock":n,"rng":n}, "bytes":{"base":n,"inst":n,"end":n,"after_drop":n},
//         "ud_calls": n}
// repr = "i:<int>" | "f:<float>" | "s:<text>" | "b:true|false" | "fn" | "struct(...)" | "union(k,..)" |
//        "native" | "E:<error message>" | "X:<violation>" | "P:<panic message>" | "N:<lookup failure>"

use rand::rngs::StdRng;
use rand::{RngCore, SeedableRng};
use serde_json::{json, Map, Value};
use std::cell::{Cell, RefCell};
use std::io::{BufRead, BufReader, Write};
use std::panic::{catch_unwind, AssertUnwindSafe};
use std::rc::Rc;
use std::time::Duration;
use xray::builtin::builtin_permissions as bp;
use xray::permissions::{Permission, PermissionSet};
use xray::root_runtime_scope::{EvaluatedValue, RootEvaluationScope};
use xray::runtime::{RTCell, RuntimeLimits};
use xray::std_compilation_scope;
use xray::time_provider::TimeProvider;
use xray::xvalue::XValue;

thread_local! {
    static PANIC_MSG: RefCell<String> = RefCell::new(String::new());
    static WRITES: Cell<u64> = Cell::new(0);
    static CLOCKS: Cell<u64> = Cell::new(0);
    static RNGS: Cell<u64> = Cell::new(0);
    static OUT: RefCell<Vec<u8>> = RefCell::new(Vec::new());
}

struct RecWriter;
impl Write for RecWriter {
    fn write(&mut self, buf: &[u8]) -> std::io::Result<usize> {
        WRITES.with(|w| w.set(w.get() + 1));
        OUT.with(|o| o.borrow_mut().extend_from_slice(buf));
        Ok(buf.len())
    }
    fn flush(&mut self) -> std::io::Result<()> {
        Ok(())
    }
}

struct RecClock(f64);
impl TimeProvider for RecClock {
    fn unix_now(&self) -> f64 {
        CLOCKS.with(|w| w.set(w.get() + 1));
        self.0
    }
}

struct RecRng(StdRng);
impl RngCore for RecRng {
    fn next_u32(&mut self) -> u32 {
        RNGS.with(|w| w.set(w.get() + 1));
        self.0.next_u32()
    }
    fn next_u64(&mut self) -> u64 {
        RNGS.with(|w| w.set(w.get() + 1));
        self.0.next_u64()
    }
    fn fill_bytes(&mut self, dest: &mut [u8]) {
        RNGS.with(|w| w.set(w.get() + 1));
        self.0.fill_bytes(dest)
    }
    fn try_fill_bytes(&mut self, dest: &mut [u8]) -> Result<(), rand::Error> {
        RNGS.with(|w| w.set(w.get() + 1));
        self.0.try_fill_bytes(dest)
    }
}
impl SeedableRng for RecRng {
    type Seed = <StdRng as SeedableRng>::Seed;
    fn from_seed(seed: Self::Seed) -> Self {
        // construction of the generator is itself "drawing on the random source" (from_entropy)
        RNGS.with(|w| w.set(w.get() + 1));
        RecRng(StdRng::from_seed(seed))
    }
}

type W = RecWriter;
type R = RecRng;
type T = RecClock;

fn opt_usize(v: Option<&Value>) -> Option<usize> {
    v.and_then(|x| x.as_u64()).map(|x| x as usize)
}

fn mk_limits(l: Option<&Value>) -> RuntimeLimits {
    let mut perms = PermissionSet::default();
    let mut ret = RuntimeLimits::default();
    if let Some(l) = l {
        ret.size_limit = opt_usize(l.get("size"));
        ret.depth_limit = opt_usize(l.get("depth"));
        ret.recursion_limit = opt_usize(l.get("recursion"));
        ret.ud_call_limit = opt_usize(l.get("ud_calls"));
        ret.maximum_search = opt_usize(l.get("search"));
        ret.time_limit = l
            .get("time_ms")
            .and_then(|x| x.as_u64())
            .map(Duration::from_millis);
        let by_id = l.get("perms_by_id").and_then(|x| x.as_bool()).unwrap_or(false);
        if let Some(p) = l.get("perms").and_then(|p| p.as_object()) {
            for (k, v) in p {
                let perm = match k.as_str() {
                    "now" => &bp::NOW,
                    "print" => &bp::PRINT,
                    "print_debug" => &bp::PRINT_DEBUG,
                    "random" => &bp::RANDOM,
                    "regex" => &bp::REGEX,
                    "sleep" => &bp::SLEEP,
                    _ => continue,
                };
                // "perms_by_id": the host names the permission by its id through a value of its own making (same id, the other
                // default) instead of the builtin constant: a permission is identified by its id
                let fresh = Permission::new(perm.id, !perm.default);
                let perm = if by_id { &fresh } else { perm };
                match v.as_bool() {
                    Some(true) => perms.allow(perm),
                    Some(false) => perms.forbid(perm),
                    None => {}
                }
            }
        }
    }
    ret.permissions = perms;
    ret
}

fn dump_val(v: &XValue<W, R, T>, depth: usize) -> String {
    match v {
        XValue::Int(i) => format!("i:{i}"),
        XValue::Float(f) => format!("f:{f:?}"),
        XValue::String(s) => format!("s:{s}"),
        XValue::Bool(b) => format!("b:{b}"),
        XValue::Function(_) => "fn".to_string(),
        XValue::StructInstance(items) => {
            if depth > 8 {
                return "struct(...)".to_string();
            }
            let parts: Vec<String> = items.iter().map(|i| dump_val(&i.value, depth + 1)).collect();
            format!("struct({})", parts.join(","))
        }
        XValue::UnionInstance((k, inner)) => {
            if depth > 8 {
                return "union(...)".to_string();
            }
            format!("union({k},{})", dump_val(&inner.value, depth + 1))
        }
        XValue::Native(_) => "native".to_string(),
    }
}

fn dump_ev(v: &EvaluatedValue<W, R, T>) -> String {
    match v {
        Ok(v) => dump_val(&v.value, 0),
        Err(e) => format!("E:{}", e.error),
    }
}

fn guarded<F: FnOnce() -> String>(f: F) -> String {
    match catch_unwind(AssertUnwindSafe(f)) {
        Ok(s) => s,
        Err(_) => format!("P:{}", PANIC_MSG.with(|m| m.borrow().clone())),
    }
}

#[cfg(xray_verif)]
fn bytes_of(rt: &RTCell<W, R, T>) -> u64 {
    rt.verif_accounted_bytes() as u64
}
#[cfg(not(xray_verif))]
fn bytes_of(_rt: &RTCell<W, R, T>) -> u64 {
    0
}
#[cfg(xray_verif)]
fn calls_of(rt: &RTCell<W, R, T>) -> u64 {
    rt.verif_ud_calls() as u64
}
#[cfg(not(xray_verif))]
fn calls_of(_rt: &RTCell<W, R, T>) -> u64 {
    0
}

#[cfg(xray_verif)]
fn clog_start() {
    xray::verif_cell_log::start()
}
#[cfg(not(xray_verif))]
fn clog_start() {}
#[cfg(xray_verif)]
fn clog_take() -> Vec<String> {
    xray::verif_cell_log::take()
}
#[cfg(not(xray_verif))]
fn clog_take() -> Vec<String> {
    Vec::new()
}
#[cfg(xray_verif)]
fn alog_start() {
    xray::runtime::verif_alloc_log::start()
}
#[cfg(not(xray_verif))]
fn alog_start() {}
#[cfg(xray_verif)]
fn alog_take() -> Vec<(char, usize, bool)> {
    xray::runtime::verif_alloc_log::take()
}
#[cfg(not(xray_verif))]
fn alog_take() -> Vec<(char, usize, bool)> {
    vec![]
}

fn alog_txt() -> String {
    let l = alog_take();
    alog_start();
    let txt: Vec<String> = l
        .iter()
        .map(|(k, sz, ok)| format!("{k}{sz}{}", if *ok { "" } else { "!" }))
        .collect();
    txt.join(" ")
}

fn run_job(job: &Value) -> Value {
    let mut out = Map::new();
    out.insert("id".into(), job.get("id").cloned().unwrap_or(Value::Null));
    WRITES.with(|w| w.set(0));
    CLOCKS.with(|w| w.set(0));
    RNGS.with(|w| w.set(0));
    OUT.with(|o| o.borrow_mut().clear());
    let src = job.get("src").and_then(|s| s.as_str()).unwrap_or("");
    let twice = job.get("twice").and_then(|s| s.as_bool()).unwrap_or(false);

    // ---- compile
    // "cell_log": what into_static_ud did with the cells of every scope closed while THIS text was compiled
    let want_clog = job.get("cell_log").and_then(|s| s.as_bool()).unwrap_or(false);
    let compiled = catch_unwind(AssertUnwindSafe(|| {
        let mut cs = std_compilation_scope::<W, R, T>();
        if want_clog {
            clog_start();
        }
        let r = cs.feed_file(src).map_err(|e| format!("{e}"));
        (cs, r)
    }));
    if want_clog {
        out.insert("cell_log".into(), json!(clog_take()));
    }
    let (cs, cres) = match compiled {
        Err(_) => {
            out.insert(
                "compile".into(),
                json!(format!("panic:{}", PANIC_MSG.with(|m| m.borrow().clone()))),
            );
            out.insert("touched".into(), touched());
            return Value::Object(out);
        }
        Ok(x) => x,
    };
    if twice {
        // determinism of compilation inside one process
        let again = catch_unwind(AssertUnwindSafe(|| {
            let mut cs2 = std_compilation_scope::<W, R, T>();
            cs2.feed_file(src).map_err(|e| format!("{e}"))
        }));
        let same = match (&again, &cres) {
            (Ok(Ok(())), Ok(())) => true,
            (Ok(Err(a)), Err(b)) => a == b,
            _ => false,
        };
        out.insert("compile_twice_same".into(), json!(same));
    }
    match &cres {
        Ok(()) => {
            out.insert("compile".into(), json!("ok"));
        }
        Err(e) => {
            out.insert("compile".into(), json!(format!("err:{e}")));
            out.insert("touched".into(), touched());
            return Value::Object(out);
        }
    }
    out.insert("touched_compile".into(), touched());

    // ---- instantiate
    let limits = mk_limits(job.get("limits"));
    let now = job.get("now").and_then(|x| x.as_f64()).unwrap_or(1_000_000.0);
    let want_alog = job.get("alloc_log").and_then(|s| s.as_bool()).unwrap_or(false);
    if want_alog {
        alog_start();
    }
    let runtime: RTCell<W, R, T> = limits.to_runtime(RecWriter, RecClock(now));
    let base = bytes_of(&runtime);
    let mut bytes = Map::new();
    bytes.insert("base".into(), json!(base));
    let inst = catch_unwind(AssertUnwindSafe(|| {
        RootEvaluationScope::from_compilation_scope(&cs, runtime.clone())
    }));
    let scope = match inst {
        Err(_) => {
            out.insert(
                "inst".into(),
                json!(format!("panic:{}", PANIC_MSG.with(|m| m.borrow().clone()))),
            );
            None
        }
        Ok(Err(v)) => {
            out.insert("inst".into(), json!(format!("viol:{v:?}")));
            None
        }
        Ok(Ok(s)) => {
            out.insert("inst".into(), json!("ok"));
            Some(s)
        }
    };
    bytes.insert("inst".into(), json!(bytes_of(&runtime)));
    let mut alog = Map::new();
    if want_alog {
        alog.insert("inst".into(), json!(alog_txt()));
    }
    out.insert("ud_calls_inst".into(), json!(calls_of(&runtime)));

    if let Some(scope) = &scope {
        // ---- values
        let mut values = Map::new();
        if let Some(names) = job.get("values").and_then(|v| v.as_array()) {
            for n in names {
                let n = n.as_str().unwrap_or("");
                let r = guarded(|| match scope.get_value(n) {
                    Ok(v) => dump_ev(v),
                    Err(e) => format!("N:{e:?}"),
                });
                values.insert(n.to_string(), json!(r));
            }
        }
        out.insert("values".into(), Value::Object(values));
        // ---- calls (each independent; results dropped immediately)
        let mut calls = Vec::new();
        let mut calls_touched = Vec::new();
        if let Some(names) = job.get("calls").and_then(|v| v.as_array()) {
            for n in names {
                let n = n.as_str().unwrap_or("");
                calls.push(json!(call_fn(scope, n)));
                calls_touched.push(touched());
            }
        }
        out.insert("calls".into(), Value::Array(calls));
        out.insert("calls_touched".into(), Value::Array(calls_touched));
        // ---- host history
        let mut ops_out = Vec::new();
        let mut kept: Vec<EvaluatedValue<W, R, T>> = Vec::new();
        if let Some(ops) = job.get("ops").and_then(|v| v.as_array()) {
            for op in ops {
                let kind = op.get("op").and_then(|s| s.as_str()).unwrap_or("");
                match kind {
                    "call" | "call_keep" => {
                        let n = op.get("fn").and_then(|s| s.as_str()).unwrap_or("");
                        let r = guarded(|| match scope.get_user_defined_function(n) {
                            Err(e) => format!("N:{e:?}"),
                            Ok(f) => match scope.run_function(f, vec![]) {
                                Err(v) => format!("X:{v:?}"),
                                Ok(t) => {
                                    let ev = t.unwrap_value();
                                    let s = dump_ev(&ev);
                                    if kind == "call_keep" {
                                        kept.push(ev);
                                    }
                                    s
                                }
                            },
                        });
                        ops_out.push(json!({"r": r, "ud_calls": calls_of(&runtime), "bytes": bytes_of(&runtime)}));
                    }
                    "reset_calls" => {
                        runtime.reset_ud_calls();
                        ops_out.push(json!({"r": "reset", "ud_calls": calls_of(&runtime), "bytes": bytes_of(&runtime)}));
                    }
                    "reset_call_limit" => {
                        runtime.reset_call_limit();
                        ops_out.push(json!({"r": "reset", "ud_calls": calls_of(&runtime), "bytes": bytes_of(&runtime)}));
                    }
                    "reset_timeout" => {
                        runtime.reset_timeout();
                        ops_out.push(json!({"r": "reset_timeout", "ud_calls": calls_of(&runtime), "bytes": bytes_of(&runtime)}));
                    }
                    "drop_results" => {
                        kept.clear();
                        ops_out.push(json!({"r": "dropped", "ud_calls": calls_of(&runtime), "bytes": bytes_of(&runtime)}));
                    }
                    _ => ops_out.push(json!({"r": "N:unknown op"})),
                }
            }
        }
        out.insert("ops".into(), Value::Array(ops_out));
        drop(kept);
    }
    bytes.insert("end".into(), json!(bytes_of(&runtime)));
    if want_alog {
        alog.insert("run".into(), json!(alog_txt()));
    }
    out.insert("ud_calls".into(), json!(calls_of(&runtime)));
    let dropped = catch_unwind(AssertUnwindSafe(|| drop(scope)));
    if dropped.is_err() {
        out.insert(
            "drop".into(),
            json!(format!("panic:{}", PANIC_MSG.with(|m| m.borrow().clone()))),
        );
    }
    bytes.insert("after_drop".into(), json!(bytes_of(&runtime)));
    if want_alog {
        alog.insert("drop".into(), json!(alog_txt()));
        out.insert("alloc_log".into(), Value::Object(alog));
    }
    out.insert("bytes".into(), Value::Object(bytes));
    out.insert(
        "stdout".into(),
        json!(OUT.with(|o| String::from_utf8_lossy(&o.borrow()).to_string())),
    );
    out.insert("touched".into(), touched());
    Value::Object(out)
}

fn touched() -> Value {
    json!({"writer": WRITES.with(|w| w.get()), "clock": CLOCKS.with(|w| w.get()), "rng": RNGS.with(|w| w.get())})
}

fn call_fn(scope: &RootEvaluationScope<'_, W, R, T>, n: &str) -> String {
    guarded(|| match scope.get_user_defined_function(n) {
        Err(e) => format!("N:{e:?}"),
        Ok(f) => match scope.run_function(f, vec![]) {
            Err(v) => format!("X:{v:?}"),
            Ok(t) => dump_ev(&t.unwrap_value()),
        },
    })
}

fn main() {
    let args: Vec<String> = std::env::args().collect();
    if args.len() < 3 {
        eprintln!("usage: xharness <jobs.jsonl> <out.jsonl>");
        std::process::exit(2);
    }
    std::panic::set_hook(Box::new(|info| {
        let msg = if let Some(s) = info.payload().downcast_ref::<&str>() {
            s.to_string()
        } else if let Some(s) = info.payload().downcast_ref::<String>() {
            s.clone()
        } else {
            "<non-string panic>".to_string()
        };
        let loc = info
            .location()
            .map(|l| format!("{}:{}", l.file(), l.line()))
            .unwrap_or_default();
        PANIC_MSG.with(|m| *m.borrow_mut() = format!("{msg} @ {loc}"));
    }));
    let inp = BufReader::new(std::fs::File::open(&args[1]).expect("jobs file"));
    let mut outp = std::io::BufWriter::new(std::fs::File::create(&args[2]).expect("out file"));
    // run on a thread with a large stack so that deep (but legal) recursion in the interpreter
    // is not confused with a crash of the harness
    let handle = std::thread::Builder::new()
        .stack_size(1 << 30)
        .spawn(move || {
            for line in inp.lines() {
                let line = line.expect("read");
                if line.trim().is_empty() {
                    continue;
                }
                let job: Value = serde_json::from_str(&line).expect("job json");
                let res = run_job(&job);
                writeln!(outp, "{}", res).unwrap();
                outp.flush().unwrap();
            }
        })
        .unwrap();
    handle.join().unwrap();
}

#[allow(dead_code)]
fn _unused(_: Rc<()>) {}
