"""C14 - integers are exact at every magnitude.
Correspondence: operand tuples around the 64/128-bit boundaries and random 1-400 bit values, every
modelled integer builtin, operands produced through different computation routes, and for each
result the indistinguishability probes (==, hash, cmp against the value parsed from text)."""
import math

from lib.runner import Case, PropertyCheck
from lib.core import coq_z, coq_str


def specials():
    s = [0, 1, 2, 3, 5, 7, 10, 12, 16, 36, 100, 255, 256, 1000, 65535, 2 ** 31 - 1, 2 ** 31, 2 ** 31 + 1,
         2 ** 32 - 1, 2 ** 32, 2 ** 32 + 1, 2 ** 53, 2 ** 62, 2 ** 63 - 2, 2 ** 63 - 1, 2 ** 63, 2 ** 63 + 1,
         2 ** 64 - 1, 2 ** 64, 2 ** 64 + 1, 2 ** 65, 2 ** 126, 2 ** 127 - 1, 2 ** 127, 2 ** 127 + 1, 2 ** 128,
         2 ** 128 + 1, 10 ** 18, 10 ** 19, 10 ** 38, 10 ** 39]
    return s + [-x for x in s if x]


SPECIALS = specials()


def rand_int(rng):
    r = rng.random()
    if r < 0.45:
        return rng.choice(SPECIALS)
    if r < 0.6:
        return rng.choice(SPECIALS) + rng.choice([-2, -1, 1, 2])
    if r < 0.7:
        return rng.randint(-50, 50)
    bits = rng.choice([8, 16, 31, 32, 33, 62, 63, 64, 65, 66, 90, 127, 128, 129, 200, 400])
    v = rng.getrandbits(bits)
    return -v if rng.random() < 0.5 else v


def lit(n):
    """xray literal expression for n (literals are unsigned and below 2^127)"""
    if n < 0:
        return f'(-{-n})'
    return str(n)


def route(rng, n, depth=0):
    """an xray expression of type int whose value is n, built by a randomly chosen route"""
    choices = ['parse']
    if abs(n) < 2 ** 127:
        choices += ['lit', 'lit', 'lit']
    if depth < 2:
        choices += ['split', 'plus1', 'negneg']
    c = rng.choice(choices)
    if c == 'lit':
        return lit(n)
    if c == 'parse':
        return f'"{n}".to_int()'
    if c == 'split':
        q, r = divmod(n, 2 ** 64)
        return f'({route(rng, q, depth + 1)} * 18446744073709551616 + {route(rng, r, depth + 1)})'
    if c == 'plus1':
        k = rng.choice([1, 2 ** 63, 2 ** 64, 12345])
        return f'({route(rng, n - k, depth + 1)} + {lit(k)})'
    if c == 'negneg':
        return f'(-({route(rng, -n, depth + 1)}))'
    raise AssertionError


def py_mod(a, b):
    return a % b


def py_div_ceil(a, b):
    return -((-a) // b)


BIN = {
    # name: (coq function, operator or None, python function (None on error))
    'add': ('int_add', '+', lambda a, b: a + b),
    'sub': ('int_sub', '-', lambda a, b: a - b),
    'mul': ('int_mul', '*', lambda a, b: a * b),
    'mod': ('int_mod', '%', lambda a, b: a % b if b else None),
    'div_floor': ('int_div_floor', None, lambda a, b: a // b if b else None),
    'div_ceil': ('int_div_ceil', None, lambda a, b: py_div_ceil(a, b) if b else None),
    'bit_and': ('int_bit_and', '&', lambda a, b: a & b),
    'bit_or': ('int_bit_or', '|', lambda a, b: a | b),
    'bit_xor': ('int_bit_xor', '^', lambda a, b: a ^ b),
    'gcd': ('x_gcd', None, lambda a, b: math.gcd(a, b)),
    'lcm': ('x_lcm', None, lambda a, b: abs(a * b) // math.gcd(a, b) if math.gcd(a, b) else 0),
}
CMP = {
    'eq': ('int_eq', '==', lambda a, b: a == b), 'ne': ('int_ne', '!=', lambda a, b: a != b),
    'lt': ('int_lt', '<', lambda a, b: a < b), 'le': ('int_le', '<=', lambda a, b: a <= b),
    'gt': ('int_gt', '>', lambda a, b: a > b), 'ge': ('int_ge', '>=', lambda a, b: a >= b),
}


def call(rng, name, op, xa, xb):
    style = rng.choice(['fn', 'method', 'op'] if op else ['fn', 'method'])
    if style == 'fn':
        return f'{name}({xa}, {xb})'
    if style == 'method':
        return f'({xa}).{name}({xb})'
    return f'(({xa}) {op} ({xb}))'


CORE = [0, 1, -1, 2, -2, 3, -7, 2 ** 32, 2 ** 63 - 1, -(2 ** 63 - 1), 2 ** 63, -(2 ** 63), 2 ** 63 + 1, -(2 ** 63 + 1),
        2 ** 64, -(2 ** 64), 2 ** 64 + 1, -(2 ** 64 + 1), 2 ** 127, -(2 ** 127), 2 ** 127 + 1, -(2 ** 127 + 1)]


def boundary_route(rng, n):
    """routes that reach the boundary values through the arms that normalise (neg of a long, long +- short ...)"""
    opts = [route(rng, n)]
    if n != 0:
        opts.append(f'(-({lit(-n)}))' if abs(n) < 2 ** 127 else f'(-("{-n}".to_int()))')
    opts.append(f'({lit(n + 1) if abs(n + 1) < 2 ** 127 else chr(34) + str(n + 1) + chr(34) + ".to_int()"} - 1)')
    opts.append(f'({lit(n - 1) if abs(n - 1) < 2 ** 127 else chr(34) + str(n - 1) + chr(34) + ".to_int()"} + 1)')
    return rng.choice(opts)


def probe(x, e):
    return (f'let r = {x}; let e = "{e}".to_int(); '
            f'to_str(r) + "|" + to_str(r == e) + "," + to_str(hash(r) == hash(e)) + "," + to_str(cmp(r, e))')


def exact_double(n):
    if n == 0:
        return True
    m = abs(n)
    while m % 2 == 0:
        m //= 2
    return m < 2 ** 53 and abs(n) < 2 ** 1000


class C14(PropertyCheck):
    id = 'C14'
    imports = 'From Coq Require Import ZArith String List.\nFrom Xr Require Import Base.Res Base.Show Int.Lbi Int.IntFns Int.IntShow.\nImport ListNotations.'
    batch = 40
    technique = 'Coq proof: arm-by-arm model of LazyBigint and the int builtins refines Z; differential correspondence with the interpreter'
    trusted = ['num-bigint/num-integer (modelled by Z: add sub mul quot rem div mod land lor lxor pow)',
               'model of lazy_bigint.rs / int.rs / include.rs integer functions is hand-written (coq/Int/Lbi.v, IntFns.v)']
    assumptions = ['BigInt arithmetic of num-bigint is exact (modelled by Z)',
                   'the model is tied to the code by sampled differential testing, not by translation']
    rule = ('operand tuples from boundary set {0,+-1,small,+-2^31,+-2^63+-1,+-2^64,+-2^127+-1,..} and random 1-400 bit '
            'values, each operand written through a random route (literal / parse / split at 2^64 / +k-k / double '
            'negation); distinct = distinct (op, operands, route) keys; non-trivial = at least one operand or the '
            'result is outside the i64 range, or the case is an error/edge case')

    def generate(self, rng, tier):
        n = 500 if tier == 'quick' else 6000
        cases = []
        seen = set()

        def add_case(kind, body, coq, expect=None, meta=None):
            key = f'{kind}|{body}'
            if key in seen:
                return
            seen.add(key)
            cases.append(Case(key, kind, body, coq, 'str', '', meta or {}, None, expect))

        # ---- boundary grid: every unary op on every core value, binary ops on pairs of core values
        grid = []
        for a in CORE:
            for name in ('neg', 'abs', 'sign', 'hash', 'float_rt'):
                grid.append((name, a, None))
        pairs = [(name, a, b) for name in BIN for a in CORE for b in CORE]
        rng.shuffle(pairs)
        grid += pairs if tier != 'quick' else pairs[:1400]
        for name, a, b in grid:
            if b is None:
                xa = boundary_route(rng, a)
                if name == 'neg':
                    add_case('g/neg', probe(f'neg({xa})', -a), f'both (int_neg (L {coq_z(a)})) {coq_z(-a)}', f'{-a}|true,true,0', {'big': True})
                elif name == 'abs':
                    add_case('g/abs', probe(f'abs({xa})', abs(a)), f'both (x_abs (L {coq_z(a)})) {coq_z(abs(a))}', f'{abs(a)}|true,true,0', {'big': True})
                elif name == 'sign':
                    sg = (a > 0) - (a < 0)
                    add_case('g/sign', probe(f'sign({xa})', sg), f'both (Val (x_sign (L {coq_z(a)}))) {coq_z(sg)}', f'{sg}|true,true,0', {'big': True})
                elif name == 'hash':
                    e = a if 0 <= a < 2 ** 64 else (a % 2 ** 64 if -2 ** 63 <= a < 0 else abs(a) % 2 ** 64)
                    add_case('g/hash', probe(f'hash({xa})', e), f'both (Val (int_hash (L {coq_z(a)}))) {coq_z(e)}', f'{e}|true,true,0', {'big': True})
                elif name == 'float_rt' and exact_double(a):
                    fn = rng.choice(['floor', 'ceil', 'trunc'])
                    add_case('g/float_rt', probe(f'{fn}(({xa}).to_float())', a), f'both (from_f64_exact {coq_z(a)}) {coq_z(a)}', f'{a}|true,true,0', {'big': True})
                continue
            cf, op, pf = BIN[name]
            e = pf(a, b)
            x = call(rng, name, op, boundary_route(rng, a), boundary_route(rng, b))
            if e is None:
                add_case('g/' + name, f'to_str({x})', f'rlbi ({cf} (L {coq_z(a)}) (L {coq_z(b)}))', None, {'big': True})
            else:
                add_case('g/' + name, probe(x, e), f'both ({cf} (L {coq_z(a)}) (L {coq_z(b)})) {coq_z(e)}', f'{e}|true,true,0', {'big': True})
        for _ in range(n):
            r = rng.random()
            if r < 0.55:
                name = rng.choice(list(BIN))
                cf, op, pf = BIN[name]
                a, b = rand_int(rng), rand_int(rng)
                if name in ('gcd', 'lcm') and rng.random() < 0.5:
                    g = rand_int(rng)
                    a, b = a * g, b * g
                xa, xb = route(rng, a), route(rng, b)
                e = pf(a, b)
                x = call(rng, name, op, xa, xb)
                big = max(abs(a), abs(b), abs(e) if e is not None else 0) >= 2 ** 63
                add_case(name, f'to_str({x})', f'rlbi ({cf} (L {coq_z(a)}) (L {coq_z(b)}))',
                         str(e) if e is not None else None, {'big': big})
                if e is not None and rng.random() < 0.6:
                    # indistinguishability: the computed result against the same value parsed from text
                    body = (f'let r = {x}; let e = "{e}".to_int(); '
                            f'to_str(r == e) + "," + to_str(hash(r) == hash(e)) + "," + to_str(cmp(r, e))')
                    add_case(name + '/same', body, f'same_as ({cf} (L {coq_z(a)}) (L {coq_z(b)})) {coq_z(e)}',
                             'true,true,0', {'big': big})
            elif r < 0.67:
                name = rng.choice(list(CMP))
                cf, op, pf = CMP[name]
                a = rand_int(rng)
                b = a if rng.random() < 0.3 else rand_int(rng)
                x = call(rng, name, op, route(rng, a), route(rng, b))
                add_case(name, f'to_str({x})', f'show_bool ({cf} (L {coq_z(a)}) (L {coq_z(b)}))',
                         'true' if pf(a, b) else 'false', {'big': max(abs(a), abs(b)) >= 2 ** 63})
            elif r < 0.72:
                a = rand_int(rng)
                b = a if rng.random() < 0.3 else rand_int(rng)
                add_case('cmp', f'to_str(cmp({route(rng, a)}, {route(rng, b)}))',
                         f'show_lbi (int_cmp (L {coq_z(a)}) (L {coq_z(b)}))', str((a > b) - (a < b)),
                         {'big': max(abs(a), abs(b)) >= 2 ** 63})
            elif r < 0.82:
                name = rng.choice(['neg', 'abs', 'sign', 'hash', 'to_str'])
                a = rand_int(rng)
                xa = route(rng, a)
                if name == 'neg':
                    x, coq, e = rng.choice([f'neg({xa})', f'(-({xa}))']), f'rlbi (int_neg (L {coq_z(a)}))', str(-a)
                elif name == 'abs':
                    x, coq, e = f'abs({xa})', f'rlbi (x_abs (L {coq_z(a)}))', str(abs(a))
                elif name == 'sign':
                    x, coq, e = f'sign({xa})', f'show_lbi (x_sign (L {coq_z(a)}))', str((a > 0) - (a < 0))
                elif name == 'hash':
                    e = a if 0 <= a < 2 ** 64 else (a % 2 ** 64 if -2 ** 63 <= a < 0 else abs(a) % 2 ** 64)
                    x, coq, e = f'hash({xa})', f'show_lbi (int_hash (L {coq_z(a)}))', str(e)
                else:
                    x, coq, e = f'({xa})', f'show_lbi (L {coq_z(a)})', str(a)
                add_case(name, f'to_str({x})', coq, e, {'big': abs(a) >= 2 ** 63})
            elif r < 0.9:
                # pow: keep the result below ~6000 bits
                a = rand_int(rng)
                if abs(a) <= 1:
                    b = rng.choice([0, 1, 2, 63, 64, 2 ** 32, 2 ** 32 + 1, 2 ** 64, 2 ** 64 + 1, -1, -2 ** 64])
                else:
                    maxe = max(1, 6000 // max(1, abs(a).bit_length()))
                    b = rng.choice([0, 1, 2, 3, rng.randint(0, maxe), maxe, -1, -rng.randint(1, 2 ** 70)])
                if b < 0 or (a == 0 and b == 0):
                    e = None
                else:
                    e = a ** b
                x = call(rng, 'pow', '**', route(rng, a), route(rng, b))
                add_case('pow', f'to_str({x})', f'rlbi (int_pow (L {coq_z(a)}) (L {coq_z(b)}))',
                         str(e) if e is not None else None, {'big': True})
                if e is not None and rng.random() < 0.5:
                    body = (f'let r = {x}; let e = "{e}".to_int(); '
                            f'to_str(r == e) + "," + to_str(hash(r) == hash(e)) + "," + to_str(cmp(r, e))')
                    add_case('pow/same', body, f'same_as (int_pow (L {coq_z(a)}) (L {coq_z(b)})) {coq_z(e)}',
                             'true,true,0', {'big': True})
            elif r < 0.95:
                nn = rng.choice([0, 1, 2, 5, 20, 30, 40, 62, 66, 67, 68, 70, 100, 130, rng.randint(0, 160), -3, 2 ** 64])
                k = rng.choice([0, 1, nn // 2, nn, nn + 1, -1, rng.randint(0, max(0, min(nn, 160)))])
                if nn > 1000:
                    k = rng.choice([0, 1, 2, 3])
                if k > nn or k < 0:
                    e = None
                else:
                    e = math.comb(nn, k)
                add_case('binom', f'to_str(binom({route(rng, nn)}, {route(rng, k)}))',
                         f'rlbi (int_binom (L {coq_z(nn)}) (L {coq_z(k)}))', str(e) if e is not None else None,
                         {'big': e is not None and e >= 2 ** 63})
            elif r < 0.975:
                nn = rng.choice([0, 1, 2, 5, 19, 20, 21, 22, 25, 30, 33, 34, 35, 50, rng.randint(0, 80), -1, -5])
                st = rng.choice([1, 1, 1, 2, 3, 0, 7])
                if nn < 0 or st == 0:
                    e = None
                else:
                    e = 1
                    c = nn
                    while c > 0:
                        e *= c
                        c -= st
                args = route(rng, nn) if st == 1 and rng.random() < 0.5 else f'{route(rng, nn)}, {lit(st)}'
                add_case('factorial', f'to_str(factorial({args}))',
                         f'rlbi (x_factorial (L {coq_z(nn)}) (L {coq_z(st)}))', str(e) if e is not None else None,
                         {'big': e is not None and e >= 2 ** 63})
            else:
                a = rand_int(rng)
                b = rng.choice([10, 10, 2, 3, 7, 16, 36, 256, 2 ** 63, 2 ** 64, 2 ** 64 + 1, 1, 0, -1, -10])
                if b < 2:
                    e = None
                else:
                    ds = []
                    m = a
                    while m != 0:
                        q = abs(m) // b * (1 if m > 0 else -1)
                        ds.append(m - q * b)
                        m = q
                    e = '[' + ', '.join(str(d) for d in ds) + ']'
                args = route(rng, a) if b == 10 and rng.random() < 0.5 else f'{route(rng, a)}, {route(rng, b)}'
                add_case('digits', f'to_str(digits({args}))',
                         f'rlbis (int_digits (L {coq_z(a)}) (L {coq_z(b)}))', e, {'big': abs(a) >= 2 ** 63})
        return cases

    def nontrivial(self, case, impl, model):
        return bool(case.meta.get('big')) or impl.startswith('E:')

    def agree(self, case, impl, model):
        if model is not None and model.startswith('E:') and case.expect is None:
            return impl.startswith('E:')
        return impl == model


PROP = C14()
