"""C15 - sequences behave as lists whatever their representation.
Histories of 1-12 sequence operations; each operation applies to earlier versions (literal arrays, ranges with any
start/end/step incl. negative and 64-bit edges, count(), empties and results of earlier operations); every version is
dumped at the end, after all later operations (no operation may alter its inputs): finiteness, length, the first 12
elements, and the elements at indices 0, len-1, len, -1, -len, -len-1."""
import os
import re

from lib import core
from lib.runner import PropertyCheck

INF = float('inf')
I64MAX = 2 ** 63 - 1
I64MIN = -2 ** 63


def z(n):
    return f'({n})'


def lit(n):
    return f'(-{-n})' if n < 0 else str(n)


def range_len(a, b, c):
    if c > 0 and a < b:
        return 1 + (b - 1 - a) // c
    if c < 0 and a > b:
        return 1 + (a - 1 - b) // (-c)
    return 0


class C15(PropertyCheck):
    id = 'C15'
    imports = ('From Coq Require Import List ZArith NArith String.\nFrom Xr Require Import Base.Res Base.Show Seq.XSeq Seq.SeqInst.\n'
               'Import ListNotations.\nOpen Scope Z_scope.\n')
    technique = 'Coq model of the eight sequence representations with proofs for index normalisation, slicing (merged slices), concatenation and range length; history correspondence'
    trusted = ['element functions of map are drawn from a small closed family (affine, error-injecting, first-of-tuple, reverse/repeat indexers)',
               'user callbacks are assumed pure']
    assumptions = ['sequence elements are integers or tuples of integers in the correspondence']
    rule = ('histories of 1-12 operations (arr, range incl. 64-bit edges and negative steps, count, take, skip, add, map, error-injecting map, '
            'zip, enumerate, push, rpush, insert, pop, set, swap, to_array, reverse, repeat) each applied to earlier versions, indices drawn from '
            '{-len-1,-len,-1,0,len-1,len,len+1,huge}; distinct = distinct history texts; non-trivial = the history contains a lazy '
            'representation (slice of slice, chain, range, map, zip) or an out-of-range request')

    def generate(self, rng, tier):
        # arrangements and selections of a sequence, against itertools (python second opinion, no Coq model): the MULTISET of rows
        # and their number, for k from 0 to beyond the length (more distinct elements than there are: no row, not an error)
        import itertools
        from lib.runner import Case
        cases = []
        for _ in range(30 if tier == 'quick' else 300):
            n = rng.choice([0, 1, 2, 3, 4])
            a = rng.sample(range(1, 9), n)
            k = rng.choice([0, 1, 2, n, n + 1, n + 2, rng.randint(0, 4)])
            src = ('[' + ', '.join(map(str, a)) + ']') if a else 'range(0).to_array()'
            if rng.random() < 0.3:
                src = f'({src}).map((x: int)->{{x}})'          # a lazy representation of the same list
            fam = rng.choice(['permutations', 'combinations', 'combinations_with_replacement', 'permutations_all'])
            if fam == 'permutations':
                rows = list(itertools.permutations(a, k))
                call = f'({src}).permutations({k})'
            elif fam == 'combinations':
                rows = list(itertools.combinations(a, k))
                call = f'({src}).combinations({k})'
            elif fam == 'combinations_with_replacement':
                rows = list(itertools.combinations_with_replacement(a, k))
                call = f'({src}).combinations_with_replacement({k})'
            else:
                rows = list(itertools.permutations(a))
                call = f'({src}).permutations()'
            want = str(len(rows)) + '|' + str(sorted(list(r) for r in rows)).replace(' ', '')
            body = f'to_str(({call}).len()) + "|" + to_str(({call}).map((r: Sequence<int>)->{{r.to_array()}}).to_array().sort()).replace(" ", "")'
            meta = {'error_ok': (fam in ('permutations', 'combinations') and k > n) or (fam == 'combinations_with_replacement' and n == 0 and k > 0)}
            cases.append(Case(f'{fam}|{call}', fam, body, None, 'str', '', meta, None, want))
        # index spaces beyond a machine word (defect repaired in /repo: overflow crash): the i-th selection for small i is known in closed form
        for n, i, k in [(100, 0, 50), (70, 5, 35), (68, 3, 34), (66, 3, 33), (90, 1, 45)]:
            want = str(list(range(k - 1)) + [k - 1 + i])
            cases.append(Case(f'combination-large|{n},{i},{k}', 'combination-large', f'to_str(combination({n}, {i}, {k}))', None, 'str', '', None, None, want))
            if n <= 66:
                cases.append(Case(f'combinations-large|{n},{i},{k}', 'combination-large', f'to_str(range({n}).combinations({k})[{i}])', None, 'str', '', None, None, want))
        cases.append(Case('permutation-large|25,3', 'combination-large', 'to_str(permutation(25, 3))', None, 'str', '', None, None, str(list(range(22)) + [23, 24, 22])))
        cases.append(Case('cwr-large|40,0,40', 'combination-large', 'to_str(combination_with_replacement(40, 0, 40))', None, 'str', '', None, None, str([0] * 40)))
        cases.append(Case('combination-huge|300,0,150', 'combination-large', 'to_str(is_error(combination(300, 0, 150)) || combination(300, 0, 150) == range(150).to_array())', None, 'str', '', None, None, 'true'))
        return cases

    def agree(self, case, impl, model):
        # more distinct elements than there are is an ill-defined request: "no rows" and an error value are both what the property allows
        if case.meta.get('error_ok') and impl.startswith('E:'):
            return True
        return impl == model

    def gen_history(self, rng):
        n = rng.randint(1, 12)
        ops = []      # (coq, xray)
        ub = []       # upper bound of the length of each version
        ty = []       # 'int' | 'tup'
        lazy = False
        for i in range(n):
            cands = ['arr', 'range', 'range', 'count', 'count2']
            if i > 0:
                cands += ['take', 'skip', 'take', 'skip', 'add', 'add', 'map', 'maperr', 'zip', 'enum', 'push', 'rpush', 'insert', 'pop',
                          'set', 'swap', 'swap', 'to_array', 'reverse', 'repeat', 'fst', 'nth', 'nth', 'take_while', 'skip_until']
            kind = rng.choice(cands)
            k = rng.randrange(i) if i > 0 else 0

            def idx_for(kk):
                u = ub[kk]
                base = 5 if u == INF else int(u)
                return rng.choice([-base - 1, -base, -1, 0, base - 1, base, base + 1, 2 ** 64, -2 ** 64, rng.randint(-3, 8)])
            if kind == 'arr':
                l = [rng.randint(-9, 9) for _ in range(rng.choice([0, 1, 2, 3, 5, 8]))]
                if l:
                    ops.append((f'OArr [{"; ".join(z(x) for x in l)}]', '[' + ', '.join(lit(x) for x in l) + ']'))
                else:
                    ops.append(('OArr []', 'range(0).to_array()'))
                ub.append(len(l)); ty.append('int')
            elif kind == 'range':
                edge = [I64MIN, I64MIN + 1, I64MAX, I64MAX - 1, 0, 1, -1, 2 ** 62]
                if rng.random() < 0.3:
                    a, b = rng.choice(edge), rng.choice(edge)
                    c = rng.choice([1, -1, 2, -3, I64MAX, I64MIN, 2 ** 62, 0, 2 ** 63])
                else:
                    a, b = rng.randint(-12, 12), rng.randint(-12, 12)
                    c = rng.choice([1, 1, 2, 3, -1, -2, 5, -7, 0])
                ops.append((f'ORange {z(a)} {z(b)} {z(c)}', f'range({lit(a)}, {lit(b)}, {lit(c)})'))
                ub.append(range_len(a, b, c) if c != 0 else 0); ty.append('int'); lazy = True
            elif kind == 'count':
                ops.append(('OCount', 'count()')); ub.append(INF); ty.append('int'); lazy = True
            elif kind == 'count2':
                a, b = rng.randint(-5, 5), rng.randint(-3, 3)
                ops.append((f'OCount2 {z(a)} {z(b)}', f'count({lit(a)}, {lit(b)})')); ub.append(INF); ty.append('int'); lazy = True
            elif kind in ('take', 'skip'):
                u = ub[k]
                base = 6 if u == INF else int(u)
                nn = rng.choice([0, 1, 2, base - 1, base, base + 1, 3, 7, -1, 2 ** 64, 2 ** 63])
                if kind == 'take':
                    ops.append((f'OTake {k}%nat {z(nn)}', f's{k}.take({lit(nn)})')); ub.append(min(u, nn) if nn >= 0 else u)
                else:
                    ops.append((f'OSkip {k}%nat {z(nn)}', f's{k}.skip({lit(nn)})')); ub.append(u)
                ty.append(ty[k]); lazy = True
            elif kind == 'add':
                j = rng.randrange(i)
                if ty[j] != ty[k]:
                    j = k
                ops.append((f'OAdd {k}%nat {j}%nat', f'(s{k} + s{j})')); ub.append(ub[k] + ub[j]); ty.append(ty[k]); lazy = True
            elif kind == 'map' and ty[k] == 'int':
                a, b = rng.choice([1, -1, 2, 3, 2 ** 40]), rng.randint(-5, 5)
                ops.append((f'OMap {k}%nat {z(a)} {z(b)}', f's{k}.map((x: int)->{{ {lit(a)} * x + {lit(b)} }})')); ub.append(ub[k]); ty.append('int'); lazy = True
            elif kind == 'maperr' and ty[k] == 'int':
                m = rng.choice([2, 3, 5, 7])
                ops.append((f'OMapErr {k}%nat {z(m)}', f's{k}.map((x: int)->{{ if(x % {m} == 0, error("boom"), x) }})')); ub.append(ub[k]); ty.append('int'); lazy = True
            elif kind == 'zip' and ty[k] == 'int':
                j = rng.randrange(i)
                if ty[j] != 'int':
                    j = k
                ops.append((f'OZip {k}%nat {j}%nat', f'zip(s{k}, s{j})')); ub.append(min(ub[k], ub[j])); ty.append('tup'); lazy = True
            elif kind == 'enum' and ty[k] == 'int':
                a, b = rng.randint(-3, 3), rng.choice([1, 1, 2, -1])
                ops.append((f'OEnum {k}%nat {z(a)} {z(b)}', f's{k}.enumerate({lit(a)}, {lit(b)})')); ub.append(ub[k]); ty.append('tup'); lazy = True
            elif kind == 'fst' and ty[k] == 'tup':
                ops.append((f'OFst {k}%nat', f's{k}.map((t: (int, int))->{{ t::item0 }})')); ub.append(ub[k]); ty.append('int'); lazy = True
            elif kind in ('push', 'rpush') and ty[k] == 'int' and ub[k] <= 60:
                x = rng.randint(-9, 9)
                ops.append((f'{"OPush" if kind == "push" else "ORpush"} {k}%nat {z(x)}', f's{k}.{kind}({lit(x)})')); ub.append(ub[k] + 1); ty.append('int')
            elif kind == 'insert' and ty[k] == 'int' and ub[k] <= 60:
                ii, x = idx_for(k), rng.randint(-9, 9)
                ops.append((f'OInsert {k}%nat {z(ii)} {z(x)}', f's{k}.insert({lit(ii)}, {lit(x)})')); ub.append(ub[k] + 1); ty.append('int')
            elif kind == 'pop' and ub[k] <= 60:
                ii = idx_for(k)
                ops.append((f'OPop {k}%nat {z(ii)}', f's{k}.pop({lit(ii)})')); ub.append(ub[k]); ty.append(ty[k])
            elif kind == 'set' and ty[k] == 'int' and ub[k] <= 60:
                ii, x = idx_for(k), rng.randint(-9, 9)
                ops.append((f'OSet {k}%nat {z(ii)} {z(x)}', f's{k}.set({lit(ii)}, {lit(x)})')); ub.append(ub[k]); ty.append('int')
            elif kind in ('nth', 'take_while', 'skip_until') and ty[k] == 'int' and ub[k] <= 60:
                if rng.random() < 0.5:
                    t = rng.randint(-6, 8)
                    pc, px = f'(PGt {z(t)})', f'(x: int)->{{ x > {lit(t)} }}'
                else:
                    m, r = rng.choice([2, 3, 4]), rng.randint(0, 2)
                    pc, px = f'(PMod {z(m)} {z(r)})', f'(x: int)->{{ x % {m} == {r} }}'
                if kind == 'nth':
                    nn = rng.choice([0, 1, 2, 3, -1, -2, -3, -4, 5])
                    ops.append((f'ONth {k}%nat {z(nn)} {pc}',
                                f'if(s{k}.nth({lit(nn)}, {px}).has_value(), [s{k}.nth({lit(nn)}, {px}).value()], range(0).to_array())'))
                    ub.append(1)
                elif kind == 'take_while':
                    ops.append((f'OTakeWhile {k}%nat {pc}', f's{k}.take_while({px})')); ub.append(ub[k])
                else:
                    ops.append((f'OSkipUntil {k}%nat {pc}', f's{k}.skip_until({px})')); ub.append(ub[k])
                ty.append('int'); lazy = True
            elif kind == 'swap' and ub[k] <= 60:
                ii, jj = idx_for(k), idx_for(k)
                if rng.random() < 0.35 and ub[k] > 0:
                    # two different integers naming the same or neighbouring position
                    jj = ii + rng.choice([int(ub[k]), -int(ub[k])])
                ops.append((f'OSwap {k}%nat {z(ii)} {z(jj)}', f's{k}.swap({lit(ii)}, {lit(jj)})')); ub.append(ub[k]); ty.append(ty[k])
            elif kind == 'to_array' and ub[k] <= 60:
                ops.append((f'OToArray {k}%nat', f's{k}.to_array()')); ub.append(ub[k]); ty.append(ty[k])
            elif kind == 'reverse' and ub[k] != INF:
                ops.append((f'OReverse {k}%nat', f's{k}.reverse()')); ub.append(ub[k]); ty.append(ty[k]); lazy = True
            elif kind == 'repeat':
                nn = rng.choice([0, 1, 2, 3])
                ops.append((f'ORepeat {k}%nat {z(nn)}', f's{k}.repeat({lit(nn)})')); ub.append(ub[k] * nn if ub[k] != INF else INF); ty.append(ty[k]); lazy = True
            else:
                l = [rng.randint(-9, 9) for _ in range(rng.choice([1, 2, 4]))]
                ops.append((f'OArr [{"; ".join(z(x) for x in l)}]', '[' + ', '.join(lit(x) for x in l) + ']'))
                ub.append(len(l)); ty.append('int')
        return ops, ty, lazy

    OBS = '''fn gets(s: Sequence<int>, idxs: Sequence<int>)->str { idxs.map((i: int)->{ if_error(to_str(s[i]), "E:") }).to_array().join(",") }
fn gets(s: Sequence<(int,int)>, idxs: Sequence<int>)->str { idxs.map((i: int)->{ if_error(to_str(s[i]), "E:") }).to_array().join(",") }
fn obs(s: Sequence<int>)->str {
  let inf = s.is_infinite();
  let n = if(inf, 0, s.len());
  if(inf, "inf", to_str(n)) + "|" + if_error(to_str(s.take(12).to_array()), "E:") + "|" +
  if(inf, gets(s, [0, 5, -1, 18446744073709551616]), gets(s, [0, n-1, n, -1, -n, -n-1]))
}
fn obs(s: Sequence<(int,int)>)->str {
  let inf = s.is_infinite();
  let n = if(inf, 0, s.len());
  if(inf, "inf", to_str(n)) + "|" + if_error(to_str(s.take(12).to_array()), "E:") + "|" +
  if(inf, gets(s, [0, 5, -1, 18446744073709551616]), gets(s, [0, n-1, n, -1, -n, -n-1]))
}
'''

    def program(self, ops):
        lines = [self.OBS]
        for i, (_, x) in enumerate(ops):
            lines.append(f'let s{i} = {x};')
        lines.append('fn f()->str { ' + ' + "#" + '.join(f'if_error(obs(s{i}), "E:")' for i in range(len(ops))) + ' }')
        return '\n'.join(lines)

    def extra_checks(self, ctx):
        rng = ctx['rng']
        tier = ctx['tier']
        workdir = ctx['workdir']
        nh = 300 if tier == 'quick' else 3000
        jobs, terms, meta = [], [], []
        for i in range(nh):
            ops, ty, lazy = self.gen_history(rng)
            jobs.append({'id': f'j{i}', 'src': self.program(ops), 'calls': ['f']})
            terms.append('srun [' + '; '.join(c for c, _ in ops) + ']')
            meta.append((ops, lazy))
        res = {}
        for prof, binary in ctx['binaries']:
            res[prof] = core.run_harness(binary, jobs, os.path.join(workdir, 'h_' + prof), timeout=300)
        model = core.coq_eval(terms, self.imports, os.path.join(workdir, 'coq'), shard_size=10)
        violations, samples = [], []
        n_eval = 0
        distinct = set()
        for job, m, (ops, lazy) in zip(jobs, model, meta):
            if m is None:
                raise core.CheckError('model evaluation failed for ' + job['id'] + '\n' + job['src'])
            want = '#'.join('E:' if (part.startswith('E:') and '|' not in part) else re.sub(r'E:[^|,\]]*', 'E:', part)
                            for part in m.split('#'))
            for prof, _ in ctx['binaries']:
                r = res[prof].get(job['id'])
                n_eval += 1
                if r is None or r.get('compile') != 'ok':
                    raise core.CheckError(f'C15 program did not compile: {r and r.get("compile")}\n{job["src"]}')
                out = r['calls'][0] if r.get('inst') == 'ok' else 'I:' + str(r.get('inst'))
                got = out[2:] if out.startswith('s:') else out
                if got != want:
                    gp, wp = got.split('#'), want.split('#')
                    idx = next((k for k, (a, b) in enumerate(zip(gp, wp)) if a != b), min(len(gp), len(wp)))
                    violations.append({'what': f'sequence history: version {idx} ({ops[idx][1] if idx < len(ops) else "?"}) observed differently from the list model '
                                               '(format: len|first 12|elements at 0,len-1,len,-1,-len,-len-1)',
                                       'case': {'src': job['src'], 'ops': [x for _, x in ops[:idx + 1]]},
                                       'impl': gp[idx] if idx < len(gp) else out[:300], 'model': wp[idx] if idx < len(wp) else None, 'profile': prof})
                else:
                    if lazy or 'E:' in want:
                        distinct.add(job['src'])
                    if len(samples) < 4:
                        samples.append({'history': [x for _, x in ops], 'observed': got[:200]})
        ctx['coverage'] = {'evaluations': n_eval, 'distinct_nontrivial': len(distinct), 'samples': samples, 'histories': nh}
        return violations


PROP = C15()
