"""C04 - static checking accepts exactly the assignable programs.
For (required type, supplied type) pairs - exhaustive over a small base to nesting depth 1, near-miss mutations and
random pairs to depth 3 - one program per pair and syntactic position is compiled by the real compiler and the verdict
(accept / reject with a type error) is compared with the Coq model (coq/Ty/Types.v: bind_in_assignment, mix,
common_type, resolve_bind, call / struct / variant / literal / call-through-value typing), whose agreement with the
documented rules is proved in coq/Ty/TypesProofs.v.  For accepted generic calls, constructions and literals the
INFERRED type (read back from a deliberately failing `let probe: Probe0 = ...` message) is compared as well."""
import os
import re

from lib import core
from lib.runner import PropertyCheck

NATS = {'Sequence': (0, 1), 'Optional': (1, 1), 'Generator': (2, 1), 'Mapping': (3, 2)}
COMPS = {'P': (0, 2, False), 'Q': (1, 1, False), 'Z': (2, 0, False), 'E': (3, 2, True)}
GENS = {'T': 0, 'U': 1, 'X': 2, 'Y': 3}
PRIMS = {'bool': 0, 'int': 1, 'float': 2, 'str': 3}
LIT = {'bool': 'true', 'int': '1', 'float': '1.5', 'str': '"s"'}

PRELUDE = '''struct P<A,B>(a: A, b: B)
struct Q<A>(a: A)
struct Z(n: int)
struct Probe0(n: int)
union E<A,B>(l: A, r: B)
fn w_Sequence<X>(x: X)->Sequence<X>{ error("w") }
fn w_Optional<X>(x: X)->Optional<X>{ error("w") }
fn w_Generator<X>(x: X)->Generator<X>{ error("w") }
fn w_Mapping<X,Y>(x: X, y: Y)->Mapping<X,Y>{ error("w") }
fn w_P<X,Y>(x: X, y: Y)->P<X,Y>{ error("w") }
fn w_Q<X>(x: X)->Q<X>{ error("w") }
fn w_E<X,Y>(x: X, y: Y)->E<X,Y>{ error("w") }
fn w_f0<R>(r: R)->()->(R){ error("w") }
fn w_f1<X,R>(x: X, r: R)->(X)->(R){ error("w") }
fn w_f2<X,Y,R>(x: X, y: Y, r: R)->(X,Y)->(R){ error("w") }
'''


class T:
    """a type of the model universe: kind in prim/unk/gen/nat/tup/comp/fn"""

    def __init__(self, kind, name=None, args=(), nreq=None, ret=None):
        self.kind, self.name, self.args, self.nreq, self.ret = kind, name, tuple(args), nreq, ret

    def key(self):
        return (self.kind, self.name, tuple(a.key() for a in self.args), self.nreq, self.ret.key() if self.ret else None)

    def __eq__(self, o):
        return self.key() == o.key()

    def __hash__(self):
        return hash(self.key())

    def subterms(self):
        yield self
        for a in self.args:
            yield from a.subterms()
        if self.ret:
            yield from self.ret.subterms()

    def ufree(self):
        return all(t.kind != 'unk' for t in self.subterms())

    def has_fn(self):
        return any(t.kind == 'fn' for t in self.subterms())

    def gens(self):
        return {t.name for t in self.subterms() if t.kind == 'gen'}

    def depth(self):
        ds = [a.depth() for a in self.args] + ([self.ret.depth()] if self.ret else [])
        return 1 + max(ds) if ds else 0

    def xr(self):
        """type text (only for unknown-free types)"""
        k = self.kind
        if k in ('prim', 'gen'):
            return self.name
        if k == 'nat' or k == 'comp':
            return self.name + ('<' + ', '.join(a.xr() for a in self.args) + '>' if self.args else '')
        if k == 'tup':
            return '(' + ', '.join(a.xr() for a in self.args) + ')'
        if k == 'fn':
            return '(' + ', '.join(a.xr() for a in self.args) + ')->(' + self.ret.xr() + ')'
        raise ValueError('unknown has no spelling')

    def show(self):
        """the compiler's rendering (messages)"""
        k = self.kind
        if k == 'unk':
            return '?'
        if k in ('prim', 'gen'):
            return self.name
        if k == 'nat' or k == 'comp':
            return self.name + ('<' + ', '.join(a.show() for a in self.args) + '>' if self.args else '')
        if k == 'tup':
            return '(' + ', '.join(a.show() for a in self.args) + ')'
        return '(' + ', '.join(a.show() for a in self.args) + ')->(' + self.ret.show() + ')'

    def coq(self):
        k = self.kind

        def lst(xs):
            out = 'TNil'
            for a in reversed(xs):
                out = f'(TCons {a.coq()} {out})'
            return out
        if k == 'prim':
            return f'(TPrim {PRIMS[self.name]})'
        if k == 'unk':
            return 'TUnk'
        if k == 'gen':
            return f'(TGen {GENS[self.name]})'
        if k == 'nat':
            return f'(TCon (CNat {NATS[self.name][0]}) {lst(self.args)})'
        if k == 'tup':
            return f'(TCon CTup {lst(self.args)})'
        if k == 'comp':
            cid, _, union = COMPS[self.name] if self.name in COMPS else ({'S1': 4, 'U1': 5}[self.name], 2, self.name == 'U1')
            return f'(TCon (CComp {"true" if union else "false"} {cid}) {lst(self.args)})'
        return f'(TFn {self.nreq} {lst(self.args)} {self.ret.coq()})'

    def expr(self):
        """an xray expression whose static type is exactly this type (inside host<T,U>(t: T, u: U))"""
        k = self.kind
        if k == 'prim':
            return LIT[self.name]
        if k == 'unk':
            return 'error("u")'
        if k == 'gen':
            return self.name.lower()
        if k == 'nat':
            return f'w_{self.name}(' + ', '.join(a.expr() for a in self.args) + ')'
        if k == 'tup':
            return '(' + ', '.join(a.expr() for a in self.args) + ')'
        if k == 'comp':
            if self.name == 'Z':
                return 'Z(1)'
            return f'w_{self.name}(' + ', '.join(a.expr() for a in self.args) + ')'
        import zlib
        as_lambda = zlib.crc32(repr(self.key()).encode()) % 3 == 0 and all(a.ufree() for a in self.args)
        if self.nreq == len(self.args) and not as_lambda:
            return f'w_f{len(self.args)}(' + ', '.join([a.expr() for a in self.args] + [self.ret.expr()]) + ')'
        ps = []
        for i, a in enumerate(self.args):
            ps.append(f'p{i}: {a.xr()}' + (f' ?= {a.expr()}' if i >= self.nreq else ''))
        return '((' + ', '.join(ps) + ')->{' + self.ret.expr() + '})'


def lambda_expr(t):
    if t.kind != 'fn':
        return t.expr()
    ps = [f'p{i}: {a.xr()}' + (f' ?= {a.expr()}' if i >= t.nreq else '') for i, a in enumerate(t.args)]
    return '((' + ', '.join(ps) + ')->{' + t.ret.expr() + '})'


def prim(n):
    return T('prim', n)


UNK = T('unk')


def gen(n):
    return T('gen', n)


def nat(n, *a):
    return T('nat', n, a)


def tup(*a):
    return T('tup', None, a)


def comp(n, *a):
    return T('comp', n, a)


def fn(nreq, ps, r):
    return T('fn', None, ps, nreq, r)


def as_callable(t):
    """the same type with every function type all-required (what a spelled type means)"""
    return T(t.kind, t.name, [as_callable(a) for a in t.args], len(t.args) if t.kind == 'fn' else t.nreq, as_callable(t.ret) if t.ret else None)


def norm(t):
    """parameter types of a function type are spelled, hence callables"""
    if t.kind == 'fn':
        return T('fn', None, [as_callable(norm(a)) for a in t.args], t.nreq, norm(t.ret))
    return T(t.kind, t.name, [norm(a) for a in t.args], t.nreq, norm(t.ret) if t.ret else None)


class TGen:
    def __init__(self, rng, gens=('T', 'U')):
        self.rng, self.gens = rng, gens

    def leaf(self, unk_ok):
        r = self.rng.random()
        if unk_ok and r < 0.2:
            return UNK
        if r < 0.4 and self.gens:
            return gen(self.rng.choice(self.gens))
        return prim(self.rng.choice(['int', 'int', 'str', 'bool', 'float']))

    def ty(self, depth, unk_ok=True, fn_ok=True):
        rng = self.rng
        if depth == 0 or rng.random() < 0.25:
            return self.leaf(unk_ok)
        c = rng.choice(['Sequence', 'Optional', 'Optional', 'Generator', 'Mapping', 'tup', 'tup', 'P', 'Q', 'Z', 'E', 'fn', 'fn'] if fn_ok
                       else ['Sequence', 'Optional', 'Mapping', 'tup', 'P', 'Q', 'E'])
        sub = lambda: self.ty(depth - 1, unk_ok, fn_ok)
        if c in NATS:
            return nat(c, *[sub() for _ in range(NATS[c][1])])
        if c == 'tup':
            return tup(*[sub() for _ in range(rng.choice([0, 2, 2, 3]))])
        if c in COMPS:
            return comp(c, *[sub() for _ in range(COMPS[c][1])])
        n = rng.choice([0, 1, 1, 2])
        ps = [self.ty(depth - 1, False, fn_ok) for _ in range(n)]          # parameter types are always spelled
        # a type that has to be SPELLED (required types, parameter types) is a callable: no optional parameters
        nreq = n if (not unk_ok or rng.random() < 0.7) else rng.randint(0, n)
        return fn(nreq, ps, sub())

    def blur(self, t, p=0.35):
        """the same type with some subterms replaced by the bottom type"""
        if self.rng.random() < p and t.kind != 'gen':
            return UNK
        if t.kind == 'fn':
            return T('fn', None, t.args, t.nreq, self.blur(t.ret, p))
        return T(t.kind, t.name, [self.blur(a, p) for a in t.args], t.nreq, None)

    def mutate(self, t, unk_ok=True):
        m = self.mutate1(t, unk_ok)
        return m if unk_ok else as_callable(m)

    def mutate1(self, t, unk_ok=True):
        """a near miss of t"""
        rng = self.rng
        r = rng.random()
        if r < 0.15:
            return t
        if r < 0.3 and unk_ok:
            return UNK
        if t.kind == 'prim':
            return prim(rng.choice(['int', 'str', 'float'])) if r < 0.8 else (gen(rng.choice(self.gens)) if self.gens else t)
        if t.kind == 'gen':
            return rng.choice([prim('int')] + [gen(g) for g in self.gens])
        if t.kind == 'unk':
            return self.leaf(True)
        if t.kind in ('nat', 'comp'):
            if r < 0.4 and t.kind == 'nat' and NATS[t.name][1] == 1:
                return nat(rng.choice(['Sequence', 'Optional', 'Generator']), *t.args)
            if r < 0.5 and len(t.args) == 2:
                return T(t.kind, t.name, (t.args[1], t.args[0]))
            if not t.args:
                return t
            i = rng.randrange(len(t.args))
            return T(t.kind, t.name, [self.mutate(a, unk_ok) if j == i else a for j, a in enumerate(t.args)])
        if t.kind == 'tup':
            if r < 0.45 and t.args:
                return tup(*t.args[:-1]) if len(t.args) != 1 and len(t.args) - 1 != 1 else tup(*t.args, prim('int'))
            if r < 0.55:
                return tup(*t.args, prim('int')) if len(t.args) + 1 != 1 else t
            if not t.args:
                return t
            i = rng.randrange(len(t.args))
            return tup(*[self.mutate(a, unk_ok) if j == i else a for j, a in enumerate(t.args)])
        # fn
        ps, nreq = list(t.args), t.nreq
        if r < 0.45 and len(ps) < 2:
            return fn(nreq + (1 if rng.random() < 0.5 else 0), ps + [prim('int')], t.ret)      # one more parameter (required or optional)
        if r < 0.55 and ps:
            return fn(min(nreq, len(ps) - 1), ps[:-1], t.ret)
        if r < 0.65 and ps:
            return fn(rng.randint(0, len(ps)), ps, t.ret)
        if r < 0.8 or not ps:
            return fn(nreq, ps, self.mutate(t.ret, unk_ok))
        i = rng.randrange(len(ps))
        return fn(nreq, [self.mutate(a, False) if j == i else a for j, a in enumerate(ps)], t.ret)


def writable(t):
    """can the test spell this type / synthesise an expression for it"""
    for s in t.subterms():
        if s.kind == 'fn':
            if len(s.args) > 2 or not all(a.ufree() for a in s.args):
                return False
        if s.kind == 'tup' and len(s.args) == 1:
            return False
    return True


TYPE_ERRORS = {'VariableTypeMismatch', 'FunctionOutputTypeMismatch', 'NoOverload', 'StructFieldTypeMismatch', 'VariantConstructorTypeArgMismatch',
               'InvalidArgumentType', 'CallableBindingFailed', 'IncompatibleTypes', 'StructParamsLengthMismatch'}


def host(body):
    return PRELUDE + 'fn host<T,U>(t: T, u: U) -> int {\n' + body + '\n0\n}\n'


def verdict(r):
    """'ok' | 'rej' | ('bad', text)"""
    c = r.get('compile')
    if c == 'ok':
        return 'ok'
    m = re.search(r'\[(\w+)\]\s*$', c or '')
    if c and c.startswith('err:') and m and m.group(1) in TYPE_ERRORS:
        return 'rej'
    return ('bad', c)


def probed_type(r):
    c = r.get('compile') or ''
    m = re.search(r'Variable probe has type (.*), but expected Probe0', c, re.S)
    return m.group(1) if m else None


IMPORTS = ('From Coq Require Import List NArith String.\nFrom Xr Require Import Base.Show Ty.Types Ty.Overload Ty.TyInst.\n'
           'Import ListNotations.\nOpen Scope N_scope.\n')


def clist(ts):
    out = 'TNil'
    for a in reversed(ts):
        out = f'(TCons {a.coq()} {out})'
    return out


def nat_lit(n):
    return f'{n}%nat'


class C04(PropertyCheck):
    id = 'C04'
    imports = IMPORTS
    technique = ('Coq model of bind_in_assignment / mix / common_type / resolve_bind and of the typing of calls, constructions, literals; proofs of soundness, '
                 'completeness and leastness against the declarative rules; differential correspondence over type pairs x syntactic positions')
    trusted = ['the Python type-pair generator prints one type as xray text, as a Coq term and as an expression of that static type (self-checked: every '
               'synthesised expression is probed and its reported type compared with the intended one)',
               'compile-error classes are read from the bracketed class at the end of the message']
    assumptions = ['XCallable and XFunc are one constructor in the model (a callable type = a function type without optional parameters); generic function VALUES and '
                   'turbofish specialisation are not modelled', 'a required type containing the bottom type is outside the theorems (user programs cannot spell it)']
    rule = ('(required, supplied) pairs: exhaustive over base {int,str,?,T} x {Sequence,Optional,tuple2,P<,>,(x)->(y)} to depth 1 (thorough), near-miss mutations and '
            'random pairs to depth 3; positions: let, function output, default value, call through a callable value, argument of a generic function, struct field, '
            'variant payload; two-argument generic calls, literals of 2-3 elements, calls of function values with optional parameters; distinct = (position, pair); '
            'non-trivial = the pair is not syntactically equal and not of different head constructors')

    def generate(self, rng, tier):
        return []

    def extra_checks(self, ctx):
        rng, tier, workdir = ctx['rng'], ctx['tier'], ctx['workdir']
        g = TGen(rng)
        gx = TGen(rng, gens=('X', 'Y'))
        tests = []          # (kind, program, probe_program|None, coq term, meta)

        def add(kind, body, probe_body, term, meta):
            tests.append((kind, host(body), host(probe_body) if probe_body else None, term, meta))

        # ---------- pairs for the declared positions
        pairs = []
        if tier == 'thorough':
            base = [prim('int'), prim('str'), UNK, gen('T')]
            d1 = list(base)
            for a in base:
                d1 += [nat('Sequence', a), nat('Optional', a)]
                for b in base:
                    d1 += [tup(a, b), comp('P', a, b)]
                    if a.ufree():
                        d1.append(fn(1, [a], b))
            for r in d1:
                if r.ufree():
                    for s in d1:
                        pairs.append((r, s))
        n_rand = 150 if tier == 'quick' else 1500
        while n_rand > 0:
            r = g.ty(rng.choice([1, 2, 2, 3]), unk_ok=False)
            if not writable(r):
                continue
            s = g.mutate(r)
            if rng.random() < 0.3:
                s = g.mutate(s)
            if rng.random() < 0.1:
                s = g.ty(2)
            s = norm(s)
            if not writable(s):
                continue
            pairs.append((r, s))
            n_rand -= 1
        # argument-count windows: a callable of k parameters against function values accepting [a, b] arguments
        for k in range(0, 3):
            for b in range(0, 4):
                for a in range(0, b + 1):
                    pt = rng.choice([prim('int'), prim('str'), gen('T')])
                    sf = fn(a, [pt] * b, prim('int'))
                    pairs.append((fn(k, [pt] * k, prim('int')), sf, lambda_expr(sf)))
                    if a == b and b <= 2:
                        pairs.append((fn(k, [pt] * k, prim('int')), sf, f'w_f{b}(' + ', '.join([pt.expr()] * b + ['1']) + ')'))
        for i, pr in enumerate(pairs):
            r, s = pr[0], pr[1]
            e = pr[2] if len(pr) > 2 else s.expr()
            term = f'obs_declared {r.coq()} {s.coq()}'
            meta = {'required': r.show(), 'supplied': s.show()}
            positions = [('let', f'let x: {r.xr()} = {e};'), ('output', f'fn r1() -> {r.xr()} {{ {e} }}'),
                         ('default', f'fn d1(x: {r.xr()} ?= {e}) -> int {{ 0 }}'), ('value-call', f'fn c1(cb: ({r.xr()})->(int)) -> int {{ cb({e}) }}'),
                         ('let-in-lambda', f'let lam = (q: int) -> {{ let x: {r.xr()} = {e}; q }};'),
                         ('default-of-lambda', f'let lam = (q: int, x: {r.xr()} ?= {e}) -> {{ q }};')]
            for pos, body in positions:
                add('declared:' + pos, body, None, term, meta)
        # ---------- flexible positions: the callee's / compound's own generics X, Y
        n_flex = 120 if tier == 'quick' else 1200
        while n_flex > 0:
            r = gx.ty(rng.choice([1, 2, 2, 3]), unk_ok=False)
            if rng.random() < 0.25:       # mention a rigid generic of the host as well
                r = T(r.kind, r.name, [gen('T') if (a.kind == 'prim' and rng.random() < 0.5) else a for a in r.args], r.nreq, r.ret)
            if not writable(r):
                continue
            # supplied: an instance of r (X, Y replaced) then possibly mutated
            inst = {'X': g.ty(1), 'Y': g.ty(1)}

            def subst(t):
                if t.kind == 'gen' and t.name in inst:
                    return inst[t.name]
                return T(t.kind, t.name, [subst(a) for a in t.args], t.nreq, subst(t.ret) if t.ret else None)
            s = subst(r)
            if rng.random() < 0.6:
                s = g.mutate(s)
            s = norm(s)
            if not writable(s):
                continue
            n_flex -= 1
            e = s.expr()
            meta = {'required': r.show(), 'supplied': s.show()}
            ret = rng.choice([gen('X'), nat('Sequence', gen('X')), tup(gen('X'), gen('Y')), prim('int')])
            add('argument', f'fn a1<X,Y>(x: {r.xr()}) -> {ret.xr()} {{ error("a") }}\nlet v = a1({e});',
                f'fn a1<X,Y>(x: {r.xr()}) -> {ret.xr()} {{ error("a") }}\nlet probe: Probe0 = a1({e});',
                f'obs_call [2;3] {nat_lit(1)} {clist([r])} {ret.coq()} {clist([s])}', meta)
            add('struct-field', f'struct S1<X,Y>(f: {r.xr()})\nlet v = S1({e});', f'struct S1<X,Y>(f: {r.xr()})\nlet probe: Probe0 = S1({e});',
                f'obs_struct false 4 [2;3] {clist([r])} {clist([s])}', meta)
            add('variant', f'union U1<X,Y>(v: {r.xr()}, w: int)\nlet v = U1::v({e});', f'union U1<X,Y>(v: {r.xr()}, w: int)\nlet probe: Probe0 = U1::v({e});',
                f'obs_variant 5 [2;3] {r.coq()} {s.coq()}', meta)
        # ---------- several arguments binding the same generic; argument-count window
        n_multi = 100 if tier == 'quick' else 1000
        while n_multi > 0:
            shape = rng.choice([[gen('X'), gen('X')], [gen('X'), nat('Sequence', gen('X'))], [nat('Optional', gen('X')), gen('X'), gen('Y')],
                                [comp('P', gen('X'), gen('Y')), gen('Y')], [fn(1, [gen('X')], gen('Y')), gen('X')], [tup(gen('X'), gen('X')), nat('Optional', gen('X'))],
                                [gen('X'), gen('T')], [fn(2, [gen('X'), gen('X')], prim('bool')), nat('Sequence', gen('X'))]])
            a0 = g.ty(rng.choice([0, 1, 2]))
            inst = {'X': a0, 'Y': g.ty(1)}

            def subst(t):
                if t.kind == 'gen' and t.name in inst:
                    return inst[t.name]
                return T(t.kind, t.name, [subst(a) for a in t.args], t.nreq, subst(t.ret) if t.ret else None)
            def blur(t, p=0.35):
                if rng.random() < p and t.kind != 'gen':
                    return UNK
                if t.kind == 'fn':
                    return T('fn', None, t.args, t.nreq, blur(t.ret, p))
                return T(t.kind, t.name, [blur(a, p) for a in t.args], t.nreq, None)
            args = [subst(p) for p in shape]
            if rng.random() < 0.6:
                # every occurrence of a generic gets its own partially-unknown view of the same type
                def subst_blur(t):
                    if t.kind == 'gen' and t.name in inst:
                        return blur(inst[t.name])
                    if t.kind == 'fn':
                        return T('fn', None, [subst(a) for a in t.args], t.nreq, subst_blur(t.ret))
                    return T(t.kind, t.name, [subst_blur(a) for a in t.args], t.nreq, None)
                args = [subst_blur(p) for p in shape]
            args = [norm(g.mutate(a) if rng.random() < 0.3 else a) for a in args]
            nopt = rng.choice([0, 0, 1])
            nreq = len(shape) - nopt
            if rng.random() < 0.25:
                args = args[:-1] if rng.random() < 0.6 or len(args) > 2 else args + [prim('int')]
            if not all(writable(a) for a in args) or not all(writable(p) for p in shape):
                continue
            n_multi -= 1
            ret = rng.choice([gen('X'), nat('Sequence', gen('X')), tup(gen('X'), gen('Y')), comp('P', gen('Y'), gen('X'))])
            ps = ', '.join(f'p{i}: {p.xr()}' + (' ?= error("d")' if i >= nreq else '') for i, p in enumerate(shape))
            decl = f'fn a2<X,Y>({ps}) -> {ret.xr()} {{ error("a") }}'
            call = 'a2(' + ', '.join(a.expr() for a in args) + ')'
            if len(args) == len(shape) or rng.random() < 0.3:
                sdecl = 'struct S1<X,Y>(' + ', '.join(f'f{i}: {p.xr()}' for i, p in enumerate(shape)) + ')'
                scall = 'S1(' + ', '.join(a.expr() for a in args) + ')'
                add('struct-fields', f'{sdecl}\nlet v = {scall};', f'{sdecl}\nlet probe: Probe0 = {scall};',
                    f'obs_struct false 4 [2;3] {clist(shape)} {clist(args)}', {'fields': [p.show() for p in shape], 'arguments': [a.show() for a in args]})
            add('generic-call', f'{decl}\nlet v = {call};', f'{decl}\nlet probe: Probe0 = {call};',
                f'obs_call [2;3] {nat_lit(nreq)} {clist(shape)} {ret.coq()} {clist(args)}',
                {'parameters': [p.show() for p in shape], 'arguments': [a.show() for a in args], 'required_count': nreq})
        # ---------- literals
        n_lit = 100 if tier == 'quick' else 1000
        while n_lit > 0:
            a = g.ty(rng.choice([0, 1, 2, 2]))
            elems = [norm(e) for e in [a] + [g.mutate(a) for _ in range(rng.choice([1, 1, 2]))]]
            if rng.random() < 0.4:
                # the first element fully known, a later one partly bottom and (usually) incompatible elsewhere
                elems = [norm(a), norm(g.blur(g.mutate(g.mutate(a)), 0.3))] + elems[2:]
            else:
                rng.shuffle(elems)
            if not all(writable(e) for e in elems):
                continue
            n_lit -= 1
            lit = '[' + ', '.join(e.expr() for e in elems) + ']'
            add('literal', f'let v = {lit};', f'let probe: Probe0 = {lit};', 'obs_literal [' + '; '.join(e.coq() for e in elems) + ']',
                {'elements': [e.show() for e in elems]})
        # ---------- literals of function values: same parameters, different return types / optional flags
        n_litf = 40 if tier == 'quick' else 400
        while n_litf > 0:
            n = rng.choice([0, 1, 1, 2])
            ps = [g.ty(rng.choice([0, 1]), unk_ok=False, fn_ok=False) for _ in range(n)]
            f0 = fn(rng.randint(0, n), ps, g.ty(1, fn_ok=False))
            elems = [f0]
            for _ in range(rng.choice([1, 2])):
                r = rng.random()
                if r < 0.3:
                    elems.append(fn(f0.nreq, ps, g.mutate(f0.ret)))
                elif r < 0.6:
                    elems.append(fn(rng.randint(0, n), ps, f0.ret))
                elif r < 0.8:
                    elems.append(f0)
                else:
                    elems.append(g.mutate(f0))
            elems = [norm(e) for e in elems]
            if not all(writable(e) for e in elems):
                continue
            n_litf -= 1
            rng.shuffle(elems)
            # force lambda spelling: function literals, not callables
            lit = '[' + ', '.join(lambda_expr(e) for e in elems) + ']'
            add('literal-of-functions', f'let v = {lit};', None, 'obs_literal [' + '; '.join(e.coq() for e in elems) + ']', {'elements': [e.show() + f' (required: {e.nreq})' if e.kind == 'fn' else e.show() for e in elems]})
        # ---------- calls of function VALUES (lambdas with optional parameters, callable parameters)
        n_val = 80 if tier == 'quick' else 800
        while n_val > 0:
            n = rng.choice([0, 1, 2, 2])
            ps = [g.ty(rng.choice([0, 1]), unk_ok=False) for _ in range(n)]
            nreq = rng.randint(0, n)
            f = norm(fn(nreq, ps, g.ty(1)))
            args = [norm(g.mutate(p) if rng.random() < 0.4 else p) for p in ps]
            k = rng.choice([0, 0, 0, -1, 1])
            if k == -1 and args:
                args = args[:-1]
            elif k == 1:
                args = args + [prim('int')]
            if not writable(f) or not all(writable(a) for a in args):
                continue
            n_val -= 1
            call = 'fv(' + ', '.join(a.expr() for a in args) + ')'
            add('function-value-call', f'let fv = {f.expr()};\nlet v = {call};', f'let fv = {f.expr()};\nlet probe: Probe0 = {call};',
                f'obs_value_call {f.coq()} {clist(args)}', {'function': f.show(), 'window': [nreq, n], 'arguments': [a.show() for a in args]})
        # ---------- designated: function VALUES whose parameter / return types mention a generic of the enclosing function,
        #            called with bottom-typed arguments (the enclosing generic must come back unchanged)
        for f, args in [(fn(2, [prim('str'), gen('U')], comp('Q', gen('U'))), [prim('str'), UNK]), (fn(1, [gen('T')], gen('T')), [UNK]),
                        (fn(1, [gen('T')], nat('Sequence', gen('T'))), [UNK]), (fn(2, [gen('T'), gen('U')], tup(gen('U'), gen('T'))), [UNK, gen('U')]),
                        (fn(1, [nat('Optional', gen('U'))], gen('U')), [nat('Optional', UNK)]), (fn(1, [gen('T')], gen('T')), [gen('T')])]:
            for spell in (lambda_expr, lambda t: t.expr()):
                call = 'fv(' + ', '.join(a.expr() for a in args) + ')'
                add('function-value-call', f'let fv = {spell(f)};\nlet v = {call};', f'let fv = {spell(f)};\nlet probe: Probe0 = {call};',
                    f'obs_value_call {f.coq()} {clist(args)}', {'function': f.show(), 'arguments': [a.show() for a in args], 'designated': True})
        # ---------- two different compounds with the same name at different scope levels are different types
        shadow = [('let', 'let p: Pt = origin();'), ('output', 'fn r1() -> Pt { origin() }'), ('argument', 'fn a1(x: Pt) -> int { 0 }\nlet v = a1(origin());'),
                  ('struct-field', 'struct W(f: Pt)\nlet v = W(origin());'), ('literal', 'let v = [origin(), Pt("s")];'), ('let-inner-ok', 'let p: Pt = Pt("s");')]
        for kind, body in shadow:
            for inner_decl, outer_val in [('struct Pt(x: str)', 'Pt(1)'), ('struct Pt(x: str, y: int)', 'Pt(1)'), ('union Pt(x: str, y: int)', 'Pt(1)')]:
                prog = (PRELUDE + f'struct Pt(x: int)\nfn origin() -> Pt {{ {outer_val} }}\nfn host<T,U>(t: T, u: U) -> int {{\n{inner_decl}\n' +
                        body.replace('Pt("s")', 'Pt("s")' if 'y: int' not in inner_decl else ('Pt("s", 1)' if inner_decl.startswith('struct') else 'Pt::x("s")')) + '\n0\n}\n')
                want = 'ok:Pt' if kind == 'let-inner-ok' else 'rej'
                tests.append(('shadowed-compound:' + kind, prog, None, f'(if true then "{want}" else "")%string', {'inner': inner_decl, 'statement': body}))
        # ---------- self-check of the expression synthesis: every supplied expression has the intended static type
        seen_types = {}
        for pr in pairs:
            seen_types.setdefault(pr[1].show(), pr[1])
        jobs = []
        for i, (kind, prog, probe, term, meta) in enumerate(tests):
            jobs.append({'id': f'a{i}', 'src': prog, 'calls': []})
            if probe:
                jobs.append({'id': f'b{i}', 'src': probe, 'calls': []})
        sy = list(seen_types.values())
        for i, s in enumerate(sy):
            jobs.append({'id': f's{i}', 'src': host(f'let probe: Probe0 = {s.expr()};'), 'calls': []})
        res = core.run_harness(ctx['binary'], jobs, os.path.join(workdir, 'h'), timeout=600)
        model = core.coq_eval([t[3] for t in tests], self.imports, os.path.join(workdir, 'coq'), shard_size=300, timeout=600)
        violations, samples = [], []
        for i, s in enumerate(sy):
            r = res.get(f's{i}')
            got = probed_type(r) if r else None
            if s.has_fn() or s.kind == 'unk':
                continue
            if got != s.show() and not (s.show() == 'Probe0'):
                violations.append({'what': 'the static type the compiler reports for an expression differs from the type its parts determine (generic call / constructor inference)',
                                   'case': {'src': host(f'let probe: Probe0 = {s.expr()};')}, 'impl': got or (r and r.get('compile')), 'model': s.show()})
        distinct, n_eval, by_kind, by_verdict = set(), 0, {}, {'ok': 0, 'rej': 0}
        for i, (kind, prog, probe, term, meta) in enumerate(tests):
            m = model[i]
            if m is None:
                raise core.CheckError('model evaluation failed: ' + term)
            r = res.get(f'a{i}')
            if r is None:
                raise core.CheckError('no harness result for ' + prog)
            v = verdict(r)
            n_eval += 1
            by_kind[kind] = by_kind.get(kind, 0) + 1
            want = 'ok' if m.startswith('ok') else 'rej'
            if isinstance(v, tuple):
                violations.append({'what': f'position {kind}: the compiler neither accepted nor rejected with a type error (crash or unrelated error)',
                                   'case': {'src': prog, **meta}, 'impl': v[1], 'model': m})
                continue
            by_verdict[want] += 1
            if v != want:
                if kind.startswith('literal'):
                    what = (f'{kind}: the compiler ACCEPTS a sequence literal whose elements have no common type' if v == 'ok'
                            else f'{kind}: the compiler REJECTS a sequence literal whose elements have a common type')
                else:
                    what = (f'position {kind}: the compiler ACCEPTS a supplied type that is not assignable to the required type' if v == 'ok'
                            else f'position {kind}: the compiler REJECTS a supplied type that is assignable to the required type')
                violations.append({'what': what, 'case': {'src': prog, **meta}, 'impl': r.get('compile'), 'model': m})
                continue
            if want == 'ok' and probe and m.startswith('ok:') and '->' not in m and m != 'ok:?':
                rb = res.get(f'b{i}')
                got = probed_type(rb) if rb else None
                n_eval += 1
                if got is None and m[3:] == 'Probe0':
                    pass
                elif got != m[3:]:
                    violations.append({'what': f'position {kind}: the inferred type is not the least common type of the parts',
                                       'case': {'src': probe, **meta}, 'impl': got or (rb and rb.get('compile')), 'model': m[3:]})
                    continue
            distinct.add((kind, str(meta)))
            if len(samples) < 6 and want == ('rej' if len(samples) % 2 else 'ok'):
                samples.append({'position': kind, **meta, 'verdict': m})
        ctx['coverage'] = {'evaluations': n_eval, 'distinct_nontrivial': len(distinct), 'samples': samples, 'by_position': by_kind,
                           'model_verdicts': by_verdict, 'synthesised_types_checked': len(sy)}
        return violations


PROP = C04()
