"""C13 - floats are always finite.
(1) extracted inventory of float construction sites + the predicates of the checked constructor / literal check (static tie)
(2) float arithmetic of the model (Flocq binary64, round-to-nearest-even, then the checked constructor) against the
    interpreter on edge operands, compared BIT FOR BIT (or error vs error)
(3) sweep: every float-producing library function on edge arguments - no observable float may be inf or NaN."""
import math
import os
import re
import struct

from lib import core
from lib.runner import Case, PropertyCheck

EDGE = [0.0, -0.0, 5e-324, -5e-324, 2.2250738585072014e-308, 1.0, -1.0, 0.5, 2.0, 3.0, -3.0, 10.0, 1e-10, 0.1, 1e10, 1e100, -1e100, 1e154,
        1.3407807929942597e154, 1e200, 1e300, 1e308, -1e308, 1.7e308, 1.7976931348623157e308, -1.7976931348623157e308, 9007199254740992.0,
        9223372036854775808.0, 709.78, 710.0, -745.2, 1.5, -1.5, math.pi, 1e-300, 123456.789]


def bits(x):
    return struct.unpack('<Q', struct.pack('<d', x))[0]


def flit(x):
    """xray expression for the double x (literals are unsigned decimal; exact via repr)"""
    if x == 0.0 and math.copysign(1, x) < 0:
        return '(-0.0)'
    r = repr(abs(x))
    if 'e' in r and '.' not in r:
        m, e = r.split('e')
        r = m + '.0e' + e
    r = r.replace('e+', 'e')
    return f'(-{r})' if x < 0 else r


UNARY = ['sqrt', 'cbrt', 'sin', 'cos', 'tan', 'asin', 'acos', 'atan', 'sinh', 'cosh', 'tanh', 'asinh', 'acosh', 'atanh', 'ln', 'exp', 'erf', 'erfc',
         'gamma', 'gammaln', 'abs', 'neg', 'sign', 'log2', 'log10', 'expm1', 'log1p']
BINARY = ['add', 'sub', 'mul', 'div', 'pow', 'mod', 'atan', 'log', 'harmonic_mean']


class C13(PropertyCheck):
    id = 'C13'
    imports = ('From Coq Require Import ZArith String List.\nFrom Flocq Require Import IEEE754.BinarySingleNaN IEEE754.Binary IEEE754.Bits.\n'
               'From Xr Require Import Base.Res Base.Show Rt.Floats.\n'
               'Definition sb (r : res f64) : string := show_res show_Z (show_bits r).\n')
    batch = 40
    technique = 'Coq (Flocq binary64) proof that the checked constructor and every known construction site only yield finite floats + extracted site inventory + bit-exact arithmetic correspondence and edge-argument sweep'
    trusted = ['Flocq binary64 as the model of f64 (its theorems use the classical axioms of the Reals library, listed)',
               'libm / statrs results are uninterpreted: covered only through the checked constructor and the sweep',
               'serde_json rejects non-finite numbers (KJsonNumber)', 'translator/floatsites.py']
    assumptions = ['every float value of the language is created at one of the inventoried construction sites']
    rule = ('(a) + - * / neg sqrt on all pairs of 36 edge doubles through the Flocq model, bit-exact; (b) every float-producing builtin on edge arguments; '
            'distinct = distinct call texts; non-trivial = the result is an error value, or an operand/result is outside [1e-300,1e300] or subnormal/zero')

    def pre_build(self):
        from lib import extract
        try:
            self._info = extract.run_all()['floatsites']
            self._err = None
        except Exception as e:
            self._info = ([], '', '', '')
            self._err = str(e)

    def extracted_obligations(self):
        if self._err:
            return [('floatsites_translator', False, self._err)]
        sites = self._info[0]
        return [('float_sites_found', len(sites) >= 4, f'{len(sites)} construction sites found')]

    def generate(self, rng, tier):
        cases = []
        ops = {'add': 'fadd', 'sub': 'fsub', 'mul': 'fmul', 'div': 'fdiv'}
        pairs = [(a, b) for a in EDGE for b in EDGE]
        rng.shuffle(pairs)
        if tier == 'quick':
            pairs = pairs[:260]
        for a, b in pairs:
            name = rng.choice(list(ops))
            body = f'to_str(({flit(a)}).{name}({flit(b)}))'
            # the implementation result is compared through its decimal text parsed back to bits (repr round-trips)
            cases.append(Case(f'{name}|{a!r}|{b!r}', 'arith/' + name, f'{name}({flit(a)}, {flit(b)})',
                              f'sb ({ops[name]} (b64_of_bits {bits(a)}) (b64_of_bits {bits(b)}))', ret='float', meta={'a': a, 'b': b}))
        for a in EDGE:
            cases.append(Case(f'neg|{a!r}', 'arith/neg', f'neg({flit(a)})', f'sb (Val (fneg (b64_of_bits {bits(a)})))', ret='float', meta={'a': a}))
            cases.append(Case(f'sqrt|{a!r}', 'arith/sqrt', f'sqrt({flit(a)})', f'sb (fsqrt (b64_of_bits {bits(a)}))', ret='float', meta={'a': a}))
        return cases

    def agree(self, case, impl, model):
        if model.startswith('E:'):
            return impl.startswith('E:')
        try:
            x = float(impl)
        except ValueError:
            return False
        if not math.isfinite(x):
            return False
        return str(bits(x)) == model

    def nontrivial(self, case, impl, model):
        vals = [v for v in (case.meta.get('a'), case.meta.get('b')) if v is not None]
        return impl.startswith('E:') or any(v == 0 or abs(v) < 1e-300 or abs(v) > 1e300 for v in vals)

    def extra_checks(self, ctx):
        rng = ctx['rng']
        tier = ctx['tier']
        binary = ctx['binary']
        calls = []
        for f in UNARY:
            for a in EDGE:
                calls.append((f'{f}({flit(a)})', 'float'))
        for f in BINARY:
            pairs = [(a, b) for a in EDGE for b in EDGE]
            rng.shuffle(pairs)
            for a, b in pairs[: (40 if tier == 'quick' else 400)]:
                calls.append((f'{f}({flit(a)}, {flit(b)})', 'float'))
        ints = [0, 1, -1, 2, 10 ** 18, 2 ** 63, 2 ** 64, 10 ** 300, 10 ** 308, 2 ** 1023, 2 ** 1024 - 1, 2 ** 1024, 10 ** 400, -(10 ** 400), 3 ** 700]
        for a in ints:
            lit = f'"{a}".to_int()'
            calls.append((f'({lit}).to_float()', 'float'))
            for b in [1, -1, 3, 10 ** 200, 2 ** 1024]:
                calls.append((f'({lit}) / ("{b}".to_int())', 'float'))
            calls.append((f'({lit}) ** 0.5', 'float'))
            calls.append((f'2.0 ** ({lit})', 'float'))
            calls.append((f'({lit}) + 0.5', 'float'))
            calls.append((f'({lit}) * 1.5', 'float'))
            calls.append((f'harmonic_mean({lit}, 3)', 'float'))
        seqs = ['[1e308, 1e308]', '[1e308, -1e308, 1e308]', '[0.0, 0.0]', '[5e-324, 5e-324]', '[1e154, 1e154, 1e155]', '[1.0]', '[1e308, 1e308, 1e308, 1e308]']
        for s in seqs:
            for f in ['sum', 'mean', 'product', 'geo_mean', 'harmonic_mean', 'variance', 'std_dev', 'median', 'max', 'min']:
                calls.append((f'to_str({s}.{f}())', 'str'))
            calls.append((f'to_str({s}.map((x: float)->{{x * 10.0}}).to_array())', 'str'))
            calls.append((f'to_str({s}.to_generator().sum())', 'str'))
        dists = ['normal_distribution(0.0, 1.0)', 'normal_distribution(1e308, 1e308)', 'exp_distribution(1e-300)', 'gamma_distribution(1e300, 1e-300)',
                 'lognormal_distribution(700.0, 50.0)', 'weibull_distribution(1e-3, 1e300)', 'beta_distribution(1e-300, 1e-300)',
                 'students_t_distribution(0.0, 1.0, 1.0)', 'rectangular_distribution(-1e308, 1e308)', 'triangular_distribution(-1e308, 1e308, 0.0)',
                 'fisher_snedecor_distribution(2.0, 3.0)', 'fisher_snedecor_distribution(1e300, 1e-300)', 'fisher_snedecor_distribution(1e-300, 5.0)']
        for d in dists:
            for f in ['mean()', 'variance()', 'skewness()', 'std_dev()', 'pdf(0.0)', 'pdf(1e308)', 'cdf(1e308)', 'cdf(-1e308)', 'quantile(0.0)', 'quantile(1.0)',
                      'quantile(0.5)', 'z_score(1e308)']:
                calls.append((f'{d}.{f}', 'float'))
        ddists = ['poisson_distribution(1e300)', 'binomial_distribution(1000000, 0.5)', 'uniform_distribution(-1000000000000, 1000000000000)',
                  'geometric_distribution(1e-300)', 'negative_binomial_distribution(1e300, 0.5)']
        for d in ddists:
            for f in ['mean()', 'variance()', 'skewness()', 'std_dev()', 'pmf(0)', 'pmf(1000000)', 'cdf(1000000)', 'z_score(1e300)']:
                calls.append((f'{d}.{f}', 'float'))
        cx = ['Complex(1e308, 1e308)', 'Complex(0.0, 0.0)', 'Complex(5e-324, -5e-324)', 'Complex(1e200, -1e200)']
        for a in cx:
            for b in cx:
                for op in ['+', '-', '*', '/', '**']:
                    calls.append((f'to_str(members(({a}) {op} ({b})))', 'str'))
            for f in ['abs()', 'arg()']:
                calls.append((f'({a}).{f}', 'float'))
            calls.append((f'to_str(members(({a}).ln()))', 'str'))
            calls.append((f'to_str(members(({a}) ** 3))', 'str'))
        misc = ['json_deserialize("1e999")', 'json_deserialize("[1e308, 1e309]")', '"1e999".to_float()', '"inf".to_float()', '"NaN".to_float()', '"-infinity".to_float()',
                'days(1e308).seconds()', 'years(1e308).seconds()', 'datetime(1e308).unix()', 'fraction(1, 3).to_float()']
        for mexpr in misc:
            calls.append((f'to_str({mexpr})', 'str'))
        jobs = []
        per = 60
        for b in range(0, len(calls), per):
            chunk = calls[b:b + per]
            src = '\n'.join(f'fn c{n}()->{ty}{{ {e} }}' for n, (e, ty) in enumerate(chunk))
            jobs.append({'id': f's{b}', 'src': src, 'calls': [f'c{n}' for n in range(len(chunk))], '_chunk': chunk})
        # programs that do not compile (a function of the sweep does not exist for that type) are retried call by call
        res = core.run_harness(binary, [{k: v for k, v in j.items() if k != '_chunk'} for j in jobs], os.path.join(ctx['workdir'], 'h_sweep'), timeout=300)
        retry = []
        results = []
        for j in jobs:
            r = res.get(j['id'])
            if r is None or r.get('compile') != 'ok':
                for n, (e, ty) in enumerate(j['_chunk']):
                    retry.append({'id': f"{j['id']}_{n}", 'src': f'fn c0()->{ty}{{ {e} }}', 'calls': ['c0'], '_e': e})
            else:
                for (e, ty), out in zip(j['_chunk'], r['calls']):
                    results.append((e, out))
        if retry:
            res2 = core.run_harness(binary, [{k: v for k, v in j.items() if k != '_e'} for j in retry], os.path.join(ctx['workdir'], 'h_retry'), timeout=300)
            for j in retry:
                r = res2.get(j['id'])
                if r is None or r.get('compile') != 'ok':
                    results.append((j['_e'], 'C:' + str(r and r.get('compile'))[:80]))
                else:
                    results.append((j['_e'], r['calls'][0] if r.get('inst') == 'ok' else 'I:' + str(r.get('inst'))))
        violations = []
        distinct = 0
        skipped = 0
        samples = []
        bad = re.compile(r'(?<![A-Za-z])(inf|nan|NaN|infinity)(?![A-Za-z])')
        for e, out in results:
            if out.startswith('C:'):
                skipped += 1
                continue
            if out[:2] in ('f:', 's:', 'i:') and bad.search(out[2:]):
                violations.append({'what': 'a float observable by the program is NaN or infinite', 'case': {'src': f'fn f()->...{{ {e} }}'}, 'impl': out[:200]})
            elif out.startswith('P:') or out.startswith('H:') or out.startswith('A:'):
                violations.append({'what': 'float builtin crashed or hung on an edge argument', 'case': {'src': e}, 'impl': out[:200]})
            else:
                distinct += 1
                if len(samples) < 6 and out.startswith('E:'):
                    samples.append({'call': e, 'result': out[:80]})
        ctx['coverage'] = {'evaluations': len(results), 'distinct_nontrivial': distinct, 'samples': samples, 'sweep_calls': len(calls),
                           'sweep_calls_not_compiling': skipped}
        return violations


PROP = C13()
