"""C03 - lexical scoping, closures and one-time defaults.
Programs with function / lambda declarations nested to depth 6, captures at every ancestor distance, shadowing chains
(names are drawn from a SMALL pool so that parameters, lets and functions shadow each other), escaping closures
(returned, stored, passed through map), recursion through captured names, defaults that mention captured values and
contain display calls, and identifier spellings the old interner confused (item1 / item1x / item01 / xitem1 ...),
compared with the reference evaluator (lexical environments).  Forward declarations: direct templates."""
import os

from lib import core
from lib.lang import D, E, Gen, I, V, call
from lib.runner import PropertyCheck
from props.c02 import IMPORTS, impl_observation, model_term

NAMEPOOL = ['x', 'y', 'z', 'item1', 'item1x', 'item01', 'xitem1', 'item2', 'item10', 'item100', '_', 'r', 'f', 'a1', 'ifx', 'fnx', 'item1_', 'item', 'items1', 'item65537']


class NGen(Gen):
    """generator whose fresh names come from a small pool: shadowing happens all the time"""
    def __init__(self, rng):
        super().__init__(rng, err_rate=0.0, display_rate=0.15, big=False)
        self.counter = 0

    def name(self, prefix='v'):
        self.counter += 1
        if self.rng.random() < 0.75:
            return self.rng.choice(NAMEPOOL)
        return f'{prefix}{self.counter}'

    def fname(self):
        self.counter += 1
        return f'fun{self.counter}'


def shadow(scope, name, ty):
    """innermost binding wins; function names and value names share one namespace in the generator (a value may not
    be shadowed by a function in xray, so function names are always fresh)"""
    return [(n, t) for n, t in scope if n != name] + [(name, ty)]


def gen_fn(g, rng, scope, level, name):
    nparams = rng.randint(0, 2)
    ps = []
    inner = list(scope)
    nreq = nparams
    used = set()
    for k in range(nparams):
        px = g.name('p')
        if px in used:
            px = f'p{g.counter}_{k}'
        used.add(px)
        dflt = None
        if k == nparams - 1 and rng.random() < 0.5:
            dflt = g.expr('int', scope, 2)
            if rng.random() < 0.6:
                dflt = call('display', dflt)
            nreq = k
        ps.append((px, 'int', dflt))
        inner = shadow(inner, px, 'int')
    decls = []
    for _ in range(rng.randint(0, 3)):
        k = rng.random()
        if k < 0.45:
            lx = g.name('l')
            decls.append(D('let', lx, g.expr('int', inner, 2)))
            inner = shadow(inner, lx, 'int')
        elif k < 0.8 and level > 0:
            fn_name = g.fname()
            d, fty = gen_fn(g, rng, inner, level - 1, fn_name)
            decls.append(d)
            inner = shadow(inner, fn_name, fty)
        else:
            # a closure stored in a variable
            lx = g.fname()
            fty = ('fn', ['int'], 'int', 1)
            decls.append(D('let', lx, g.expr(fty, inner, 2)))
            inner = shadow(inner, lx, fty)
    ret = rng.choice(['int', 'int', ('fn', ['int'], 'int', 1)])
    body = g.expr(ret, inner, 3)
    return D('fn', name, ps, ret, decls, body), ('fn', ['int'] * nparams, ret, nreq)


def gen_nested_program(rng, nobs=6):
    g = NGen(rng)
    scope, decls = [], []
    for _ in range(rng.randint(2, 6)):
        if rng.random() < 0.4:
            x = g.name('t')
            decls.append(D('let', x, g.expr('int', scope, 2)))
            scope = shadow(scope, x, 'int')
        else:
            name = g.fname()
            d, fty = gen_fn(g, rng, scope, rng.randint(1, 5), name)
            decls.append(d)
            scope = shadow(scope, name, fty)
    obs = []
    for i in range(nobs):
        decls.append(D('fn', f'c{i}', [], 'str', [], call('to_str', g.expr('int', scope, 4))))
        obs.append(f'c{i}')
    return decls, obs


def gen_ladder(rng):
    """functions nested L levels, every level with uniquely named parameters and locals; the innermost bodies use
    values of ancestors at every distance (captures re-threaded through all intermediate scopes)"""
    L = rng.randint(3, 6)
    g = Gen(rng, err_rate=0.0, display_rate=0.0, big=False)
    visible = []

    def level(k):
        ps = [(f'p{k}_{j}', 'int', None) for j in range(rng.randint(1, 2))]
        decls = []
        for x, _, _ in ps:
            visible.append(x)
        if rng.random() < 0.6:
            lx = f'l{k}'
            decls.append(D('let', lx, call('add', V(rng.choice(visible)), I(k), style='op')))
            visible.append(lx)
        if k < L:
            inner, nparams = level(k + 1)
            decls.append(inner)
            args = [call('add', V(rng.choice(visible)), I(rng.randint(0, 3)), style='op') for _ in range(nparams)]
            body = call('add', call(f'lev{k + 1}', *args), V(rng.choice(visible)), style='op')
        else:
            pick = rng.sample(visible, min(len(visible), rng.randint(2, 6)))
            body = I(0)
            for i, x in enumerate(pick):
                body = call('add', body, call('mul', V(x), I(10 ** (i % 4)), style='op'), style='op')
        # names of this level go out of scope for the caller
        d = D('fn', f'lev{k}', ps, 'int', decls, body)
        for x, _, _ in ps:
            visible.remove(x)
        if decls and decls[0].kind == 'let':
            visible.remove(decls[0].a[0])
        return d, len(ps)
    top, n = level(1)
    obs = []
    decls = [top]
    for i in range(3):
        decls.append(D('fn', f'c{i}', [], 'str', [], call('to_str', call('lev1', *[I(rng.randint(1, 9)) for _ in range(n)]))))
        obs.append(f'c{i}')
    return decls, obs


def special_templates():
    n = V('n')
    out = []
    # a default whose tail position (through if) calls the ENCLOSING function: defaults are not in tail position
    inner = D('fn', 'inner', [('k', 'int', call('if', call('le', n, I(0), style='op'), I(0), call('outer', call('sub', n, I(1), style='op'))))], 'int', [],
              call('add', V('k'), I(1), style='op'))
    outer = D('fn', 'outer', [('n', 'int', None)], 'int', [inner], call('inner'))
    out.append(([outer, D('fn', 'c0', [], 'str', [], call('to_str', call('outer', I(3))))], ['c0']))
    # a lambda default capturing a parameter of the enclosing function, called after the function returned
    mk = D('fn', 'mk', [('base', 'int', None)], ('fn', ['int'], 'int', 0), [D('let', 'twice', call('mul', V('base'), I(2), style='op'))],
           E('lam', [('q', 'int', call('display', V('twice')))], [], call('add', V('q'), V('base'), style='op')))
    out.append(([mk, D('let', 'g1', call('mk', I(5))), D('let', 'g2', call('mk', I(7))),
                 D('fn', 'c0', [], 'str', [], call('to_str', E('tup', [call('g1'), call('g2'), call('g1', I(1)), call('g1')])))], ['c0']))
    return out


def gen_forward_events(rng, names=6):
    """a random top-level program of forward declarations, definitions (callees: smaller declared names) and invocations; every
    pending forward declaration is fulfilled before the end.  Returns the event list [(kind, name, callees)]."""
    declared, pending, defined = set(), set(), set()
    evs = []
    for _ in range(rng.randint(4, 12)):
        k = rng.random()
        fresh = [n for n in range(names) if n not in declared]
        if k < 0.25 and fresh:
            g = rng.choice(fresh)
            declared.add(g)
            pending.add(g)
            evs.append(('fwd', g, []))
        elif k < 0.7 and (fresh or pending):
            cand = list(pending) * 2 + fresh
            f = rng.choice(cand)
            smaller = [c for c in declared if c < f]
            cs = rng.sample(smaller, rng.randint(0, min(3, len(smaller)))) if smaller else []
            # an implementation that itself depends on a still pending declaration is the interesting case: make it frequent
            pend_small = [c for c in pending if c < f and c not in cs]
            if pend_small and rng.random() < 0.5:
                cs.append(rng.choice(pend_small))
            declared.add(f)
            pending.discard(f)
            defined.add(f)
            evs.append(('def', f, cs))
        elif declared:
            evs.append(('use', rng.choice(sorted(declared)), []))
    for g in sorted(pending):
        smaller = [c for c in declared if c < g]
        evs.append(('def', g, rng.sample(smaller, rng.randint(0, min(2, len(smaller)))) if smaller else []))
    if declared:
        evs.append(('use', rng.choice(sorted(declared)), []))
    return evs


def forward_program(evs):
    src, uses = [], 0
    for kind, f, cs in evs:
        if kind == 'fwd':
            src.append(f'forward fn f{f}(x: int)->int;')
        elif kind == 'def':
            src.append(f'fn f{f}(x: int)->int {{ x + 1' + ''.join(f' + f{c}(x)' for c in cs) + ' }')
        else:
            src.append(f'let u{uses} = f{f}(1);')
            uses += 1
    src.append('fn r()->str { to_str([' + ', '.join(f'u{i}' for i in range(uses)) + ']) }')
    term = 'run_program [' + '; '.join({'fwd': f'Fwd {f}', 'def': f'Def {f} [{"; ".join(map(str, cs))}]', 'use': f'Use {f}'}[kind] for kind, f, cs in evs) + ']'
    return '\n'.join(src), term



FORWARD_TEMPLATES = [
    # (source, expected compile outcome class or None, expected value of f() when it compiles)
    ('forward fn g(x: int)->int;\nfn h(x: int)->int { g(x) + 1 }\nfn g(x: int)->int { x * 2 }\nfn f()->int { h(3) }', None, 'i:7'),
    ('forward fn g(x: int)->int;\nfn h(x: int)->int { g(x) + 1 }\nlet early = h(1);\nfn g(x: int)->int { x * 2 }\nfn f()->int { early }', 'MissingForwardImplementation', None),
    ('forward fn g(x: int)->int;\nfn h(x: int)->int { fn k(y: int)->int { g(y) } k(x) + 1 }\nfn mid(x: int)->int { h(x) }\nlet early = mid(1);\nfn g(x: int)->int { x * 2 }\nfn f()->int { early }',
     'MissingForwardImplementation', None),
    ('forward fn g(x: int)->int;\nfn h(x: int)->int { g(x) + 1 }\nfn f()->int { h(3) }', 'MissingForwardImplementation', None),
    ('forward fn ev(n: int)->bool;\nfn od(n: int)->bool { if(n == 0, false, ev(n - 1)) }\nfn ev(n: int)->bool { if(n == 0, true, od(n - 1)) }\nfn f()->int { if(ev(10) && od(7), 1, 0) }', None, 'i:1'),
    ('forward fn g(x: int)->int;\nfn g(x: str)->int { 100 }\nfn h(x: int)->int { g(x) + 1 }\nfn g(x: int)->int { x * 2 }\nfn f()->int { h(3) }', None, 'i:7'),
    # two forward declarations needed by one function, only the first fulfilled when it is invoked
    ('forward fn a(i: int)->int;\nforward fn b(i: int)->int;\nfn both(i: int)->int { a(i) + b(i) }\nfn a(i: int)->int { i + 1 }\nlet early = both(1);\nfn b(i: int)->int { i * 2 }\nfn f()->int { early }',
     'MissingForwardImplementation', None),
    ('forward fn a(i: int)->int;\nforward fn b(i: int)->int;\nfn both(i: int)->int { a(i) + b(i) }\nfn b(i: int)->int { i * 2 }\nlet early = both(1);\nfn a(i: int)->int { i + 1 }\nfn f()->int { early }',
     'MissingForwardImplementation', None),
    ('forward fn a(i: int)->int;\nforward fn b(i: int)->int;\nfn both(i: int)->int { a(i) + b(i) }\nfn b(i: int)->int { i * 2 }\nfn a(i: int)->int { i + 1 }\nlet early = both(1);\nfn f()->int { early }', None, 'i:4'),
    # the implementation that fulfils a forward declaration depends on another one that is still pending (defect repaired in /repo 5441009)
    ('forward fn g(i: int)->int;\nforward fn k(i: int)->int;\nfn h(i: int)->int { g(i) + 1 }\nfn g(i: int)->int { k(i) * 2 }\nlet early = h(1);\nfn k(i: int)->int { i + 10 }\nfn f()->int { early }',
     'MissingForwardImplementation', None),
    ('forward fn g(i: int)->int;\nforward fn k(i: int)->int;\nfn g(i: int)->int { k(i) * 2 }\nlet early = g(1);\nfn k(i: int)->int { i + 10 }\nfn f()->int { early }', 'MissingForwardImplementation', None),
    ('forward fn g(i: int)->int;\nforward fn k(i: int)->int;\nfn h(i: int)->int { g(i) + 1 }\nfn g(i: int)->int { k(i) * 2 }\nfn k(i: int)->int { i + 10 }\nlet late = h(1);\nfn f()->int { late }', None, 'i:23'),
]


class C03(PropertyCheck):
    extra_vo = ['Lang/CellsInst.vo', 'Lang/ForwardInst.vo']          # model files evaluated by the correspondence that Props/<id>.v does not depend on
    id = 'C03'
    imports = IMPORTS
    technique = ('Coq proofs: interner injectivity (extracted regex); capture re-threading (into_static_ud) preserves what every cell of every scope denotes, for every nest, and its '
                 'run-time meaning over copying frames; forward-declaration gate exact for every program (accepted iff no reachable function lacks a body); lexical reference evaluator; '
                 'deep-nesting / shadowing / escaping-closure differential correspondence; model of into_static_ud compared with the compiler\'s own record of every closed scope (hook); generated forward programs')
    trusted = ['translator/idents.py', 'see C02 for the evaluator and generator', 'hook verif_cell_log (cfg xray_verif) reports the cells / specs / requests of each closed scope faithfully',
               'the forward model covers top-level programs whose functions call smaller names unconditionally']
    assumptions = ['forward declarations are outside the Coq evaluator: modelled separately in coq/Lang/Forward.v (gate = reachability, exhaustively checked to a stated bound) plus template oracle']
    rule = ('programs with functions nested up to depth 6, names from a pool of 20 spellings (so parameters/lets shadow constantly), closures stored/returned/passed, '
            'defaults with display; distinct = distinct program texts; non-trivial = the program has a function nested at level >= 2 or a shadowed name')

    def pre_build(self):
        from lib import extract
        try:
            self._info = extract.run_all()['idents']
            self._err = None
        except Exception as e:
            self._info, self._err = None, str(e)

    def extracted_obligations(self):
        if self._err:
            return [('idents_translator', False, self._err)]
        return [('interner_regex_found', self._info[0] != 'unknown', str(self._info))]

    def generate(self, rng, tier):
        return []

    def extra_checks(self, ctx):
        rng, tier, workdir = ctx['rng'], ctx['tier'], ctx['workdir']
        n = 200 if tier == 'quick' else 2500
        jobs, terms = [], []
        for i in range(n):
            decls, obs = gen_nested_program(rng)
            jobs.append({'id': f'n{i}', 'src': '\n'.join(d.xr() for d in decls), 'calls': obs, 'cell_log': True})
            terms.append(model_term(decls, obs, fuel=6000))
        extra = [gen_ladder(rng) for _ in range(60 if tier == 'quick' else 600)] + special_templates()
        for i, (decls, obs) in enumerate(extra):
            jobs.append({'id': f'l{i}', 'src': '\n'.join(d.xr() for d in decls), 'calls': obs, 'cell_log': True})
            terms.append(model_term(decls, obs, fuel=6000))
        # identifier spellings: every name of the pool bound to a different value in one scope
        names = [x for x in NAMEPOOL if x not in ('_',)] + ['item1000', 'item0001', 'ITEM1', 'item99999999999999999999999', 'item1item1']
        src = '\n'.join(f'let {x} = {i + 1};' for i, x in enumerate(names)) + '\nfn observe_all()->str { to_str([' + ', '.join(names) + ']) }'
        idjob = {'id': 'idents', 'src': src, 'calls': ['observe_all']}
        fjobs = [{'id': f'fw{i}', 'src': t[0], 'calls': ['f']} for i, t in enumerate(FORWARD_TEMPLATES)]
        # generated forward-declaration programs against the Coq model of the gate (Lang/Forward.v)
        fwd_terms = []
        for i in range(150 if tier == 'quick' else 1500):
            fsrc, fterm = forward_program(gen_forward_events(rng, rng.choice([4, 6, 8])))
            fjobs.append({'id': f'fg{i}', 'src': fsrc, 'calls': ['r']})
            fwd_terms.append((f'fg{i}', fsrc, fterm))
        fwd_model = core.coq_eval([t for _, _, t in fwd_terms], 'From Coq Require Import List String.\nFrom Xr Require Import Lang.Forward Lang.ForwardInst.\nImport ListNotations.\n',
                                  os.path.join(workdir, 'coq_fwd'), name='fwd', shard_size=40)
        res = {}
        for prof, binary in ctx['binaries']:
            res[prof] = core.run_harness(binary, jobs + [idjob] + fjobs, os.path.join(workdir, 'h_' + prof), timeout=300)
        model = core.coq_eval(terms, self.imports, os.path.join(workdir, 'coq'), shard_size=10, timeout=900)
        violations, samples = [], []
        distinct, n_eval, skipped = set(), 0, 0
        for job, m in zip(jobs, model):
            for prof, _ in ctx['binaries']:
                r = res[prof].get(job['id'])
                n_eval += 1
                if m is None or 'FUEL' in m or r is None or r.get('compile') != 'ok':
                    skipped += 1
                    continue
                got, want = impl_observation(r).rsplit('|', 1)[0], m.rsplit('|', 1)[0]
                if got != want:
                    violations.append({'what': 'a name did not denote the nearest enclosing preceding declaration / a closure lost its bindings / a default was not computed exactly once',
                                       'case': {'src': job['src']}, 'impl': got[:500], 'model': want[:500], 'profile': prof})
                else:
                    distinct.add(job['src'])
                    if len(samples) < 3:
                        samples.append({'program': job['src'][:500], 'observed': got[:160]})
        if skipped > n_eval // 3:
            raise core.CheckError(f'too many nested programs rejected or out of fuel ({skipped}/{n_eval})')
        for prof, _ in ctx['binaries']:
            r = res[prof].get('idents')
            n_eval += 1
            want = 's:[' + ', '.join(str(i + 1) for i in range(len(names))) + ']'
            got = (r.get('calls') or [r.get('compile')])[0] if r else None
            if got != want:
                violations.append({'what': 'distinct identifiers alias each other (or an identifier spelling crashes the compiler)', 'case': {'src': src}, 'impl': str(got)[:300], 'model': want})
            else:
                distinct.add(src)
            for i, (fsrc, cls, val) in enumerate(FORWARD_TEMPLATES):
                r = res[prof].get(f'fw{i}')
                n_eval += 1
                comp = r.get('compile', '')
                if cls is None:
                    ok = comp == 'ok' and r.get('inst') == 'ok' and r['calls'][0] == val
                else:
                    ok = (comp.startswith('err:') and comp.rstrip().endswith(f'[{cls}]')) or \
                         (comp == 'ok' and r.get('inst') == 'ok' and str(r['calls'][0]).startswith('N:ForwardRefFunction'))
                if not ok:
                    violations.append({'what': 'forward declaration rule violated (a function depending on an unfulfilled forward declaration was invocable, or a fulfilled one was not)',
                                       'case': {'src': fsrc}, 'impl': (comp if comp != 'ok' else str(r.get('calls')))[:300], 'model': cls or val})
                else:
                    distinct.add(fsrc)
        # ---- the model of into_static_ud (coq/Lang/Cells.v fin) against the compiler's own record (hook verif_cell_log) of every scope
        # it closed while compiling the nested programs: cells, size of the parent, resulting specs, requests handed to the parent
        def coq_cells(txt):
            out = []
            for c in txt.split():
                if c in ('V', 'R'):
                    out.append('CVar')
                else:
                    d_, i_ = c[1:].split('.')
                    out.append(f'CCap {d_} {i_}')
            return '[' + '; '.join(out) + ']'
        cell_terms, cell_lines = [], []
        prof0 = ctx['binaries'][0][0]
        seen_lines = set()
        deep = 0
        for job in jobs:
            r = res[prof0].get(job['id'])
            for line in (r or {}).get('cell_log') or []:
                if line in seen_lines:
                    continue
                seen_lines.add(line)
                child, plen, specs, reqs = line.split('|')
                if plen == '-':
                    continue
                if any(c.startswith('C') and int(c[1:].split('.')[0]) > 1 for c in child.split()):
                    deep += 1
                cell_terms.append(f'check_fin {coq_cells(child)} {plen} {coq_cells(specs)} {coq_cells(reqs)}')
                cell_lines.append((line, job['src']))
        cell_model = core.coq_eval(cell_terms, 'From Coq Require Import List String.\nFrom Xr Require Import Lang.Cells Lang.CellsInst.\nImport ListNotations.\n',
                                   os.path.join(workdir, 'coq_cells'), name='cells', shard_size=150)
        cells_ok = 0
        for (line, src_), m in zip(cell_lines, cell_model):
            n_eval += 1
            if m is None:
                raise core.CheckError('cell model evaluation failed for ' + line)
            if m != 'ok':
                violations.append({'what': f'MODEL: the compiler closed a scope differently from the model of into_static_ud ({m}): cells|parent size|specs|requests = {line}',
                                   'case': {'src': src_, 'cell_log_line': line}, 'impl': line, 'model': m, 'broken_correspondence': 'Lang/Cells.v fin = into_static_ud'})
            else:
                cells_ok += 1
        if not cell_terms:
            violations.append({'what': 'MODEL: the cell-log hook returned nothing (hook missing or harness built without --cfg xray_verif)', 'case': {},
                               'broken_correspondence': 'Lang/Cells.v fin = into_static_ud'})
        fwd_out = {}
        for (jid, fsrc, fterm), m in zip(fwd_terms, fwd_model):
            if m is None:
                raise core.CheckError('forward model evaluation failed: ' + fterm)
            if m in ('NotDeclared', 'Duplicate'):
                raise core.CheckError('forward generator produced an ill-formed program: ' + fterm)
            for prof, _ in ctx['binaries']:
                r = res[prof].get(jid)
                n_eval += 1
                comp = r.get('compile', '') if r else 'no result'
                if comp == 'ok' and r.get('inst') == 'ok':
                    got = 'ok:' + str(r['calls'][0])[2:] if str(r['calls'][0]).startswith('s:') else str(r['calls'][0])
                elif comp.startswith('err:') and comp.rstrip().endswith('[MissingForwardImplementation]'):
                    got = 'MissingForwardImplementation'
                else:
                    got = (comp if comp != 'ok' else 'inst:' + str(r.get('inst')))[:300]
                fwd_out[got.split(':')[0]] = fwd_out.get(got.split(':')[0], 0) + 1
                if got != m:
                    violations.append({'what': 'forward declaration rule violated: an invocation is accepted although a function it reaches has no implementation yet '
                                               '(or a safe invocation is rejected, or the value differs)', 'case': {'src': fsrc, 'events': fterm}, 'impl': got, 'model': m, 'profile': prof})
                else:
                    distinct.add(fsrc)
        ctx['coverage'] = {'evaluations': n_eval, 'distinct_nontrivial': len(distinct), 'samples': samples, 'programs': n, 'skipped': skipped,
                           'forward_programs': len(fwd_terms), 'forward_outcomes': fwd_out,
                           'closed_scopes_compared_with_cell_model': cells_ok, 'closed_scopes_with_captures_beyond_parent': deep}
        return violations


PROP = C03()
