"""C16 - generators denote fixed lazy streams.
Random pipelines of 1-10 generator operations over finite and endless sources are run on the interpreter - the result
consumed twice through the same generator value, with a display call at the source that shows how far the source was
evaluated - and compared with (1) the list semantics of coq/Gen/XGen.v (values, in order) and (2) a lazy Python
reference that counts how many source elements the requested outputs need (laziness: evaluated <= needed + a constant
look-ahead per adaptor)."""
import itertools
import os
import re

from lib import core
from lib.runner import PropertyCheck

IMPORTS = ('From Coq Require Import List ZArith String.\nFrom Xr Require Import Base.Show Gen.XGen.\nImport ListNotations.\nOpen Scope Z_scope.\n'
           'Definition show_l (l : list Z) : string := show_list show_Z l.\n')
LIMITS = {'search': 20000, 'ud_calls': 400000, 'size': 1 << 26, 'time_ms': 8000}


def zl(k):
    return str(k) if k >= 0 else f'({k})'


class Stall(Exception):
    pass


TOTAL = [0]


class Src:
    def __init__(self, kind, *a):
        self.kind, self.a = kind, a

    def infinite(self):
        return self.kind != 'range'

    def xr(self):
        k, a = self.kind, self.a
        if k == 'range':
            return f'range({a[0]}).to_generator()'
        if k == 'count':
            return f'count({zl(a[0])}, {zl(a[1])}).to_generator()'
        if k == 'cycle':
            return '[' + ', '.join(zl(x) for x in a[0]) + '].to_generator().repeat()'
        return f'successors({zl(a[2])}, (x: int)->{{{zl(a[0])} * x + {zl(a[1])}}})'

    def coq(self):
        k, a = self.kind, self.a
        if k == 'range':
            return f'(SRange {a[0]})'
        if k == 'count':
            return f'(SCount {zl(a[0])} {zl(a[1])})'
        if k == 'cycle':
            return '(SCycle [' + '; '.join(zl(x) for x in a[0]) + '])'
        return f'(SSucc {zl(a[0])} {zl(a[1])} {zl(a[2])})'

    def py(self, counter=None):
        k, a = self.kind, self.a

        def it():
            if k == 'range':
                g = iter(range(a[0]))
            elif k == 'count':
                g = itertools.count(a[0], a[1])
            elif k == 'cycle':
                g = itertools.cycle(a[0]) if a[0] else iter(())
            else:
                def succ():
                    x = a[2]
                    while True:
                        yield x
                        x = a[0] * x + a[1]
                g = succ()
            pulled = 0
            for x in g:
                pulled += 1
                TOTAL[0] += 1                  # every source, also the second one of zip / add
                if counter is not None:
                    counter[0] += 1
                if pulled > 4000:
                    raise Stall()
                yield x
        return it()


class Op:
    def __init__(self, kind, *a):
        self.kind, self.a = kind, a

    def xr(self):
        k, a = self.kind, self.a
        T2 = '(t: (int, int))'
        return {
            'mapadd': lambda: f'.map((x: int)->{{x + {zl(a[0])}}})', 'mapmul': lambda: f'.map((x: int)->{{x * {zl(a[0])}}})', 'mapmod': lambda: f'.map((x: int)->{{x % {a[0]}}})',
            'filtermod': lambda: f'.filter((x: int)->{{x % {a[0]} == {a[1]}}})', 'filterlt': lambda: f'.filter((x: int)->{{x < {zl(a[0])}}})',
            'take': lambda: f'.take({a[0]})', 'skip': lambda: f'.skip({a[0]})', 'takewhile': lambda: f'.take_while((x: int)->{{x < {zl(a[0])}}})',
            'skipuntil': lambda: f'.skip_until((x: int)->{{x > {zl(a[0])}}})', 'zipadd': lambda: f'.zip({a[0].xr()}).map({T2}->{{t::item0 + t::item1}})',
            'chain': lambda: f'.add({a[0].xr()})', 'agg': lambda: ('.aggregate((a: int, b: int)->{a - b})' if a[0] is None else f'.aggregate({zl(a[0])}, (a: int, b: int)->{{a - b}})'),
            'enum': lambda: f'.enumerate({zl(a[0])}, {zl(a[1])}).map({T2}->{{t::item0 * 1000 + t::item1}})',
            'windows': lambda: f'.windows({a[0]}).map((w: Sequence<int>)->{{w.to_generator().reduce(0, (a: int, b: int)->{{a + b}})}})',
            'chunks': lambda: f'.chunks({a[0]}).map((w: Sequence<int>)->{{w.to_generator().reduce(0, (a: int, b: int)->{{a + b}})}})',
            'group': lambda: f'.group((a: int, b: int)->{{(a - b) <= {a[0]} && (b - a) <= {a[0]}}}).map((g: Sequence<int>)->{{g.len() * 1000 + g.get(0)}})',
            'distinct': lambda: '.distinct()', 'withcount': lambda: f'.with_count().map({T2}->{{t::item0 * 100 + t::item1}})',
            'repeat': lambda: f'.repeat({a[0]})', 'flatdup': lambda: '.map((x: int)->{[x, x + 1].to_generator()}).flatten()'}[k]()

    def coq(self):
        k, a = self.kind, self.a
        return {'mapadd': lambda: f'(OMapAdd {zl(a[0])})', 'mapmul': lambda: f'(OMapMul {zl(a[0])})', 'mapmod': lambda: f'(OMapMod {a[0]})',
                'filtermod': lambda: f'(OFilterMod {a[0]} {a[1]})', 'filterlt': lambda: f'(OFilterLt {zl(a[0])})', 'take': lambda: f'(OTake {a[0]})', 'skip': lambda: f'(OSkip {a[0]})',
                'takewhile': lambda: f'(OTakeWhileLt {zl(a[0])})', 'skipuntil': lambda: f'(OSkipUntilGt {zl(a[0])})', 'zipadd': lambda: f'(OZipAdd {a[0].coq()})',
                'chain': lambda: f'(OChain {a[0].coq()})', 'agg': lambda: f'(OAggSum {"None" if a[0] is None else "(Some " + zl(a[0]) + ")"})',
                'enum': lambda: f'(OEnumMix {zl(a[0])} {zl(a[1])})', 'windows': lambda: f'(OWindowsSum {a[0]})', 'chunks': lambda: f'(OChunksSum {a[0]})',
                'group': lambda: f'(OGroupNear {a[0]})', 'distinct': lambda: 'ODistinct', 'withcount': lambda: 'OWithCountMix', 'repeat': lambda: f'(ORepeat {a[0]})',
                'flatdup': lambda: 'OFlatDup'}[k]()

    def py(self, it):
        """lazy reference with zero look-ahead"""
        k, a = self.kind, self.a
        if k == 'mapadd':
            return (x + a[0] for x in it)
        if k == 'mapmul':
            return (x * a[0] for x in it)
        if k == 'mapmod':
            return (x % a[0] for x in it)
        if k == 'filtermod':
            return (x for x in it if x % a[0] == a[1])
        if k == 'filterlt':
            return (x for x in it if x < a[0])
        if k == 'take':
            return itertools.islice(it, a[0])
        if k == 'skip':
            return itertools.islice(it, a[0], None)
        if k == 'takewhile':
            return itertools.takewhile(lambda x: x < a[0], it)
        if k == 'skipuntil':
            return itertools.dropwhile(lambda x: not (x > a[0]), it)
        if k == 'zipadd':
            return (x + y for x, y in zip(it, a[0].py()))
        if k == 'chain':
            return itertools.chain(it, a[0].py())
        if k == 'agg':
            def g():
                # the non-commutative callback (a, b) -> a - b; the seedless form starts with the first element itself
                first = True
                acc = a[0]
                if a[0] is not None:
                    yield acc
                for x in it:
                    if acc is None and first:
                        acc = x
                    else:
                        acc = acc - x
                    first = False
                    yield acc
            return g()
        if k == 'enum':
            return (i * 1000 + x for i, x in zip(itertools.count(a[0], a[1]), it))
        if k == 'windows':
            def g():
                w = []
                for x in it:
                    w.append(x)
                    if len(w) > a[0]:
                        w.pop(0)
                    if len(w) == a[0]:
                        yield sum(w)
            return g()
        if k == 'chunks':
            def g():
                w = []
                for x in it:
                    w.append(x)
                    if len(w) == a[0]:
                        yield sum(w)
                        w = []
                if w:
                    yield sum(w)
            return g()
        if k == 'group':
            def g():
                cur = []
                for x in it:
                    if cur and abs(cur[0] - x) <= a[0]:
                        cur.append(x)
                    else:
                        if cur:
                            yield len(cur) * 1000 + cur[0]
                        cur = [x]
                if cur:
                    yield len(cur) * 1000 + cur[0]
            return g()
        if k == 'distinct':
            def g():
                seen = set()
                for x in it:
                    if x not in seen:
                        seen.add(x)
                        yield x
            return g()
        if k == 'withcount':
            def g():
                c = {}
                for x in it:
                    c[x] = c.get(x, 0) + 1
                    yield x * 100 + c[x]
            return g()
        if k == 'repeat':
            def g():
                items = list(itertools.islice(it, 5000))
                for _ in range(a[0]):
                    for x in items:
                        yield x
            return g()
        if k == 'flatdup':
            return (y for x in it for y in (x, x + 1))
        raise ValueError(k)


def gen_src(rng):
    r = rng.random()
    if r < 0.4:
        return Src('range', rng.choice([0, 1, 2, 5, 9, 17, 30]))
    if r < 0.7:
        return Src('count', rng.randint(-5, 20), rng.choice([1, 1, 2, 3, -1, 7]))
    if r < 0.85:
        return Src('cycle', [rng.randint(-3, 9) for _ in range(rng.randint(1, 4))])
    return Src('succ', rng.choice([1, 2, 3]), rng.randint(-2, 3), rng.randint(0, 3))


def gen_op(rng, infinite_input):
    kinds = ['mapadd', 'mapmul', 'mapmod', 'filtermod', 'filterlt', 'take', 'skip', 'takewhile', 'skipuntil', 'zipadd', 'chain', 'agg', 'enum', 'windows', 'chunks', 'group',
             'withcount', 'take', 'skip', 'skip']
    if not infinite_input:
        # flatten of an endless generator of generators is a recorded finding (probed separately below), not part of the random stream
        kinds += ['distinct', 'repeat', 'distinct', 'flatdup', 'flatdup']
    k = rng.choice(kinds)
    if k in ('mapadd',):
        return Op(k, rng.randint(-9, 9))
    if k == 'mapmul':
        return Op(k, rng.choice([-2, -1, 2, 3]))
    if k == 'mapmod':
        return Op(k, rng.choice([2, 3, 5, 7]))
    if k == 'filtermod':
        m = rng.choice([2, 3, 4])
        return Op(k, m, rng.randrange(m))
    if k in ('filterlt', 'takewhile', 'skipuntil'):
        return Op(k, rng.randint(-5, 40))
    if k in ('take', 'skip'):
        return Op(k, rng.choice([0, 1, 2, 3, 5, 8, 13]))
    if k in ('zipadd', 'chain'):
        return Op(k, gen_src(rng))
    if k == 'agg':
        return Op(k, rng.choice([None, None, 0, 5, -3]))
    if k == 'enum':
        return Op(k, rng.randint(-3, 9), rng.choice([1, 1, 2, -1, 3]))
    if k in ('windows', 'chunks'):
        return Op(k, rng.choice([1, 2, 3, 4]))
    if k == 'group':
        return Op(k, rng.choice([0, 1, 2, 5]))
    if k == 'repeat':
        return Op(k, rng.choice([0, 1, 2, 3]))
    return Op(k)


# does the output stay finite on an endless input, or need unbounded input for the next output
def may_stall(op):
    return op.kind in ('filtermod', 'filterlt', 'skipuntil', 'distinct', 'group')


class C16(PropertyCheck):
    id = 'C16'
    imports = IMPORTS
    technique = ('Coq list semantics of every generator operation with proofs about merged slices and prefix-closedness; random-pipeline differential correspondence '
                 '(values, twice) and a laziness bound against a lazy Python reference that counts source pulls')
    trusted = ['the pipeline generator prints one pipeline as xray text, as a Coq term and as a Python lazy iterator; the Python reference is cross-checked against the Coq values',
               'the projections back to int after tuple / sequence producing operations']
    assumptions = ['element type int; product / join / unzip are not generated', 'look-ahead allowance: 2 source elements per adaptor plus window / chunk widths']
    rule = ('pipelines of 1-10 operations from 20 operation kinds over range / count / cycle / successors sources, closed by take(n), n <= 12, then to_array (twice), len, last, '
            'get, reduce; distinct = pipeline text; non-trivial = at least 3 operations or an endless source')

    def generate(self, rng, tier):
        return []

    def extra_checks(self, ctx):
        rng, tier, workdir = ctx['rng'], ctx['tier'], ctx['workdir']
        n_pipes = 150 if tier == 'quick' else 1500
        P = 240
        jobs, terms, meta = [], [], []
        for i in range(n_pipes):
            src = gen_src(rng)
            ops = []
            # "not certainly finite": a take(n) over a filter that stops matching still never ends when consumed eagerly,
            # so only range sources (and chains / zips of them) count as finite for the eager operations
            inf = src.infinite()
            for _ in range(rng.choice([1, 2, 3, 3, 4, 5, 6, 8, 10])):
                o = gen_op(rng, inf)
                ops.append(o)
                if o.kind == 'chain' and o.a[0].infinite():
                    inf = True
                if o.kind == 'zipadd' and not o.a[0].infinite():
                    inf = False
            n = rng.choice([1, 2, 3, 5, 8, 12])
            ops.append(Op('take', n))
            # python lazy reference: values and source pulls (with a stall guard)
            counter = [0]
            TOTAL[0] = 0
            it = src.py(counter)
            for o in ops:
                it = o.py(it)
            ref, stalled = [], False
            try:
                for x in it:
                    ref.append(x)
                    if counter[0] > 4000:
                        stalled = True
                        break
            except (RecursionError, Stall):
                stalled = True
            if TOTAL[0] > 150:
                stalled = True            # the Coq evaluation looks at a prefix of P = 240 source elements: keep well inside it
            if stalled or any(abs(x) > 10 ** 15 for x in ref):
                continue
            need = counter[0]
            pipe = src.xr().replace('.to_generator()', '.to_generator().map((x: int)->{display(x)})', 1) if src.kind != 'succ' else src.xr() + '.map((x: int)->{display(x)})'
            body = pipe + ''.join(o.xr() for o in ops)
            prog = (f'fn c0() -> str {{ let g = {body}; let a = g.to_array(); let b = g.to_array(); to_str((a, b)) }}\n'
                    f'fn c1() -> str {{ let g = {body}; to_str((g.len(), g.to_generator_probe())) }}\n' if False else
                    f'fn c0() -> str {{ let g = {body}; let a = g.to_array(); let b = g.to_array(); to_str((a, b)) }}\n'
                    f'fn c1() -> str {{ let g = {body}; to_str((g.len(), g.reduce(0, (a: int, b: int)->{{a * 2 + b}}))) }}\n'
                    f'fn c2() -> str {{ let g = {body}; to_str(g.last()) }}\nfn c3() -> str {{ let g = {body}; to_str(g.get({max(0, len(ref) // 2)})) }}\n')
            jobs.append({'id': f'p{i}', 'src': prog, 'calls': ['c0', 'c1', 'c2', 'c3'], 'limits': LIMITS})
            terms.append(f'show_l (run {P} {src.coq()} [{"; ".join(o.coq() for o in ops)}])')
            look = 2 * (len(ops) + 1) + sum(o.a[0] for o in ops if o.kind in ('windows', 'chunks')) + 3
            meta.append({'pipeline': body, 'reference': ref, 'need': need, 'lookahead_allowed': look, 'nops': len(ops), 'infinite': src.infinite(),
                         'eager_by_finding': any(o.kind in ('flatdup', 'repeat') for o in ops)})
        res = core.run_harness(ctx['binary'], jobs, os.path.join(workdir, 'h'), timeout=600, single_timeout=20)
        model = core.coq_eval(terms, self.imports, os.path.join(workdir, 'coq'), shard_size=60, timeout=900)
        violations, samples = [], []
        n_eval, distinct = 0, set()
        for job, m, mt in zip(jobs, model, meta):
            if m is None:
                raise core.CheckError('model evaluation failed for ' + mt['pipeline'])
            want = '[' + ', '.join(str(x) for x in mt['reference']) + ']'
            if m != want:
                raise core.CheckError(f'the Python lazy reference and the Coq list semantics disagree (generator defect in props/c16.py or prefix too short):\n{mt["pipeline"]}\ncoq {m}\npy  {want}')
            r = res.get(job['id'])
            n_eval += 1
            case = {'src': job['src'], 'pipeline': mt['pipeline']}
            if r is None or r.get('compile') != 'ok':
                raise core.CheckError(f'pipeline program did not compile: {r and r.get("compile")}\n{job["src"]}')
            c0, c1, c2, c3 = r['calls']
            ref = mt['reference']
            exp0 = f's:({want}, {want})'
            if c0 != exp0:
                twice = re.fullmatch(r's:\((\[.*\]), (\[.*\])\)', c0)
                what = ('the same generator value yields different elements when consumed twice' if twice and twice.group(1) != twice.group(2)
                        else 'the pipeline does not produce the elements, in order, that the same pipeline produces over plain lists')
                violations.append({'what': what, 'case': case, 'impl': c0[:300], 'model': exp0[:300]})
                continue
            red = 0
            for x_ in ref:
                red = red * 2 + x_
            exp1 = f's:({len(ref)}, {red})'
            exp2 = f's:{ref[-1]}' if ref else None
            exp3 = f's:{ref[len(ref) // 2]}' if ref else None
            bad = None
            if c1 != exp1:
                bad = ('len / reduce', c1, exp1)
            elif exp2 and c2 != exp2:
                bad = ('last', c2, exp2)
            elif not ref and not c2.startswith('E:'):
                bad = ('last of an empty generator', c2, 'an error value')
            elif exp3 and c3 != exp3:
                bad = ('get', c3, exp3)
            if bad:
                violations.append({'what': f'consumer {bad[0]} disagrees with the elements of the pipeline', 'case': case, 'impl': bad[1][:200], 'model': bad[2][:200]})
                continue
            # laziness: how many source elements were evaluated during the first consumption
            out = r.get('stdout') or ''
            evaluated_total = len([l for l in out.split('\n') if l.strip() != ''])
            per_consumption = evaluated_total / 6.0          # to_array x2, len, reduce, last, get
            # flatten (and repeat(n), which is built on it) is eager: recorded finding C16-flatten-endless-eager; values are still compared
            if not mt['eager_by_finding'] and per_consumption > mt['need'] + mt['lookahead_allowed']:
                violations.append({'what': (f'the pipeline evaluated about {per_consumption:.0f} source elements per consumption; the requested elements need {mt["need"]} '
                                            f'(+{mt["lookahead_allowed"]} look-ahead allowed): it is not lazy'), 'case': case, 'impl': evaluated_total, 'model': mt['need']})
                continue
            if mt['nops'] >= 3 or mt['infinite']:
                distinct.add(mt['pipeline'])
            if len(samples) < 4 and mt['nops'] >= 4:
                samples.append({'pipeline': mt['pipeline'][:300], 'elements': want[:80], 'source_elements_needed': mt['need']})
        # ---- designated: (1) len of a zip whose shorter part is only known by running it agrees with the elements;
        # (2) repeat(n) of an endless generator is lazy (it is written with flatten, but over a FINITE outer generator)
        dprobes = [
            ('to_str((zip(range(10).to_generator(), range(10).to_generator().filter((x: int)->{x % 3 == 0})).len(), zip(range(10).to_generator(), range(10).to_generator().filter((x: int)->{x % 3 == 0})).to_array().len()))', 's:(4, 4)'),
            ('to_str((zip(range(3, 9).to_generator().filter((x: int)->{x > 6}), [1, 2, 3, 4, 5].to_generator()).len(), zip([1, 2, 3, 4, 5].to_generator().take_while((x: int)->{x < 3}), count().to_generator()).len()))', 's:(2, 2)'),
            ('to_str(zip(range(10).to_generator().skip(2).take(5), range(10).to_generator().filter((x: int)->{x < 3}), [7, 8].to_generator().add([9, 10].to_generator())).len())', 's:3'),
            ('to_str(count().to_generator().map((x: int)->{x * x}).repeat(3).take(5).to_array())', 's:[0, 1, 4, 9, 16]'),
            ('to_str(count().to_generator().repeat(2).get(4))', 's:4'),
            ('to_str([1, 2].to_generator().add(count().to_generator()).repeat(3).take(4).to_array())', 's:[1, 2, 0, 1]'),
        ]
        djobs = [{'id': f'dz{i}', 'src': f'fn c0() -> str {{ {e} }}', 'calls': ['c0'], 'limits': LIMITS} for i, (e, _) in enumerate(dprobes)]
        dres = core.run_harness(ctx['binary'], djobs, os.path.join(workdir, 'hd'), timeout=60)
        for job, (e, want) in zip(djobs, dprobes):
            r = dres.get(job['id'])
            n_eval += 1
            got = r['calls'][0] if r and r.get('calls') else str(r and r.get('compile'))
            if got != want:
                violations.append({'what': 'a generator does not denote the stream its elements show (len of a zip with a part of unknown length) / repeat(n) of an endless generator is not lazy',
                                   'case': {'src': job['src'], 'limits': LIMITS}, 'impl': got[:200], 'model': want})
        # ---- fixed probes for recorded findings
        probe = 'count().to_generator().map((x: int)->{[x, x + 1].to_generator()}).flatten().take(3).to_array()'
        pr = core.run_harness(ctx['binary'], [{'id': 'k', 'src': f'fn c0() -> str {{ to_str({probe}) }}', 'calls': ['c0'], 'limits': LIMITS}], os.path.join(workdir, 'hk'), timeout=60, shards=1).get('k')
        got = pr['calls'][0] if pr and pr.get('calls') else str(pr and pr.get('compile'))
        n_eval += 1
        if got != 's:[0, 1, 1]':
            e = next((e for e in ctx['known'] if e.get('id') == 'C16-flatten-endless-eager'), None)
            if e is not None and got.startswith('X:MaximumSearch'):
                ctx['known_hit'][e['id']] = (e, None, got, 's:[0, 1, 1]')
            else:
                violations.append({'what': 'flatten of an endless generator of generators is not lazy (or yields other elements)', 'case': {'src': probe}, 'impl': got, 'model': 's:[0, 1, 1]'})
        ctx['coverage'] = {'evaluations': n_eval, 'distinct_nontrivial': len(distinct), 'samples': samples, 'pipelines_generated': n_pipes, 'pipelines_compared': len(jobs)}
        return violations


PROP = C16()
