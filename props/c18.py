"""C18 - strings are code-point sequences; literals mean what they say.
Strings over an alphabet mixing ASCII, 2-, 3-, 4-byte characters, combining marks, case-expanding characters and the
empty string; all index arguments around 0 and len; overlapping and multi-byte needles; every literal spelling
(quoted, #-fenced, raw, escaped, formatted) evaluated by the interpreter and read back."""
import json
import os

from lib import core
from lib.runner import Case, PropertyCheck

ALPHA = ['a', 'b', 'l', 'A', ' ', 'é', 'ß', 'İ', 'ǆ', '€', '日', '😀', '́', 'ﬁ', 'z', '0']


def rand_str(rng, maxlen=9):
    n = rng.choice([0, 1, 2, 3, 4, 5, 6, maxlen])
    if rng.random() < 0.25:
        return ''.join(rng.choice('abl') for _ in range(n))
    return ''.join(rng.choice(ALPHA) for _ in range(n))


def esc(t):
    m = {'\\': '\\\\', '"': '\\"', "'": "\\'", '\n': '\\n', '\t': '\\t', '\r': '\\r', '\0': '\\0'}
    return ''.join(m.get(c, c) for c in t)


def q(t):
    """xray literal for text t (the canonical escaped spelling, proved to round-trip in Coq)"""
    return '"' + esc(t) + '"'


def cq(t):
    return 'S_ [' + '; '.join(str(ord(c)) for c in t) + ']%N'


def pycps(t):
    return '[' + ', '.join(str(ord(c)) for c in t) + ']'


def idx(rng, n):
    return rng.choice([-n - 1, -n, -1, 0, 1, n - 1, n, n + 1, 2 ** 64, -2 ** 64, rng.randint(-2, n + 2)])


def lit(n):
    return f'(-{-n})' if n < 0 else str(n)


CPS = '.chars().map((c: str)->{c.code_point()}).to_array()'


class C18(PropertyCheck):
    id = 'C18'
    imports = ('From Coq Require Import List NArith ZArith String.\nFrom Xr Require Import Base.Res Base.Show Str.Fenced Str.StrFns Str.Escapes Str.StrInst.\n'
               'Import ListNotations.\nOpen Scope Z_scope.\n')
    batch = 40
    err_text = False
    technique = 'Coq model of the dual string representation (UTF-8 buffer + offset table) with proofs, escape round-trip theorem, differential correspondence incl. literal spellings'
    trusted = ["Rust's String is valid UTF-8 and str::find/rfind return the first/last character-aligned match (modelled on code points)",
               'Unicode case mapping is uninterpreted (upper/lower compared with a Python oracle only)', 'the pest grammar delimits literals as written in xray.pest (not modelled)']
    assumptions = ['strings are lists of Unicode scalar values']
    rule = ('strings over {ASCII, 2/3/4-byte chars, combining mark, case-expanding chars, empty}; indices around 0 and len incl. negative and huge; '
            'needles incl. overlapping and multi-byte; distinct = distinct call texts; non-trivial = the string or needle is non-ASCII, or the index is out of range, or the result is an error')

    def generate(self, rng, tier):
        n = 900 if tier == 'quick' else 9000
        cases, seen = [], set()

        def add(kind, body, coq, expect, nt):
            if body in seen:
                return
            seen.add(body)
            cases.append(Case(f'{kind}|{body}', kind, body, coq, 'str', '', {'nt': nt}, None, expect))
        # mixed-width records: wide characters first, then ASCII fields with separators, searched / split from a start > 0
        # (byte offsets and character offsets drift apart only on such strings)
        for _ in range(60 if tier == 'quick' else 600):
            wide = ''.join(rng.choice(['日', '本', '語', 'é', '€', '\U0001F600', 'ß']) for _ in range(rng.randint(1, 5)))
            sep = rng.choice([',', ';', '::', '→'])
            fields = [''.join(rng.choice('abcxyz') for _ in range(rng.randint(0, 4))) for _ in range(rng.randint(2, 4))]
            s = wide + sep + sep.join(fields) + rng.choice(['', 'é', '日本'])
            L = len(s)
            st = rng.randint(1, L - 1)
            k = s.find(sep, st)
            add('find-mixed', f'to_str(({q(s)}).find({q(sep)}, {st}))', f'roz (s_find ({cq(s)}) ({cq(sep)}) ({st}))', str(k) if k >= 0 else 'None', True)
            add('split-mixed', f'to_str(({q(s)}).split({q(sep)}).map((p: str)->{{p{CPS}}}).to_array())', f'rlfs (x_split ({cq(s)}) ({cq(sep)}))',
                '[' + ', '.join(pycps(p) for p in s.split(sep)) + ']', True)
            new = rng.choice(['', '|', 'é'])
            add('replace-mixed', f'to_str(({q(s)}).replace({q(sep)}, {q(new)}){CPS})', f'rfs (x_replace ({cq(s)}) ({cq(sep)}) ({cq(new)}))', pycps(s.replace(sep, new)), True)
            add('contains-mixed', f'to_str(({q(s)}).contains({q(sep)}, {st}))', None, 'true' if k >= 0 else 'false', True)
        for _ in range(n):
            s = rand_str(rng)
            na = not s.isascii()
            L = len(s)
            r = rng.random()
            if r < 0.07:
                add('len', f'to_str(len({q(s)}))', f'show_nat (flen ({cq(s)}))', str(L), na)
            elif r < 0.2:
                i = idx(rng, L)
                j = i + L if i < 0 else i
                e = pycps(s[j]) if 0 <= j < L else None
                add('get', f'to_str(({q(s)})[{lit(i)}]{CPS})', f'rfs (s_get ({cq(s)}) ({i}))', e, na or e is None)
            elif r < 0.35:
                a, b = idx(rng, L), idx(rng, L)
                bb = b + L if b < 0 else b
                e = pycps(s[a:bb]) if (0 <= a <= L and 0 <= bb < 2 ** 64 and bb >= a) else None
                add('substring', f'to_str(({q(s)}).substring({lit(a)}, {lit(b)}){CPS})', f'rfs (s_substring ({cq(s)}) ({a}) ({b}))', e, na or e is None)
            elif r < 0.5:
                nd = rng.choice([rand_str(rng, 3), s[rng.randint(0, max(0, L - 1)):][:rng.randint(1, 3)] if L else 'a', 'll', 'l', ''])
                st = rng.choice([0, 0, idx(rng, L)])
                if nd == '' or not (0 <= st <= L):
                    e = None
                else:
                    k = s.find(nd, st)
                    e = str(k) if k >= 0 else 'None'
                if rng.random() < 0.5:
                    add('find', f'to_str(({q(s)}).find({q(nd)}, {lit(st)}))', f'roz (s_find ({cq(s)}) ({cq(nd)}) ({st}))', e, na or e is None)
                else:
                    en = rng.choice([None, idx(rng, L)])
                    if nd == '' or (en is not None and not (0 <= en < 2 ** 64)):
                        e = None
                    else:
                        k = s.rfind(nd, 0, en if en is not None else L) if (en is None or en <= L) else s.rfind(nd)
                        e = str(k) if k >= 0 else 'None'
                    call = f'({q(s)}).rfind({q(nd)})' if en is None else f'({q(s)}).rfind({q(nd)}, {lit(en)})'
                    add('rfind', f'to_str({call})', f'roz (s_rfind ({cq(s)}) ({cq(nd)}) ({"None" if en is None else f"(Some ({en}))"}))', e, na or e is None)
            elif r < 0.58:
                t = rand_str(rng)
                add('add', f'to_str(({q(s)} + {q(t)}){CPS}) + to_str(len({q(s)} + {q(t)}))',
                    f'(show_fs (s_add ({cq(s)}) ({cq(t)})) ++ show_nat (flen (s_add ({cq(s)}) ({cq(t)}))))%string', pycps(s + t) + str(len(s + t)),
                    not (s + t).isascii())
            elif r < 0.72:
                nd = rng.choice([rand_str(rng, 2) or 'a', 'l', 'll', 'aa', 'aa', 'aba', 'a', s[:1] or 'b', 'é', 'll'])
                if rng.random() < 0.3:
                    s = rng.choice(['aaaa', 'abababa', 'xaaay', 'llll', 'aaa', 'éaaé', 'lllll'])
                    na = True
                if rng.random() < 0.35 and nd != '':
                    cnt = rng.choice([0, 1, 1, 2, 2, 3, 5])
                    if rng.random() < 0.5:
                        s, nd = rng.choice([('a:::b', '::'), ('aaaa', 'aa'), ('banana', 'ana'), ('x→→→y', '→→'), ('a::b::c', '::'), ('llll', 'll'), ('aaaaa', 'aa'), ('abababa', 'aba')])
                        na = True
                    e = '[' + ', '.join(pycps(p) for p in s.rsplit(nd, cnt)) + ']'
                    add('rsplit', f'to_str(({q(s)}).rsplit({q(nd)}, {cnt}).map((p: str)->{{p{CPS}}}).to_array())', f'rlfs (x_rsplit ({cq(s)}) ({cq(nd)}) {cnt})', e, na)
                elif rng.random() < 0.5:
                    e = '[' + ', '.join(pycps(p) for p in s.split(nd)) + ']'
                    add('split', f'to_str(({q(s)}).split({q(nd)}).map((p: str)->{{p{CPS}}}).to_array())', f'rlfs (x_split ({cq(s)}) ({cq(nd)}))', e, na)
                else:
                    new = rand_str(rng, 2)
                    add('replace', f'to_str(({q(s)}).replace({q(nd)}, {q(new)}){CPS})', f'rfs (x_replace ({cq(s)}) ({cq(nd)}) ({cq(new)}))', pycps(s.replace(nd, new)), na)
            elif r < 0.8:
                nd = rng.choice(['l', 'll', 'a', 'é', s[1:2] or 'b'])
                if rng.random() < 0.5:
                    p = s.partition(nd)
                    e = f'({pycps(p[0])}, {pycps(p[2])})'
                    add('partition', f'"(" + to_str(({q(s)}).partition({q(nd)})::item0{CPS}) + ", " + to_str(({q(s)}).partition({q(nd)})::item1{CPS}) + ")"',
                        f'rpair (x_partition ({cq(s)}) ({cq(nd)}))', e, na)
                else:
                    p = s.rpartition(nd)
                    e = f'({pycps(p[0])}, {pycps(p[2])})'
                    add('rpartition', f'"(" + to_str(({q(s)}).rpartition({q(nd)})::item0{CPS}) + ", " + to_str(({q(s)}).rpartition({q(nd)})::item1{CPS}) + ")"',
                        f'rpair (x_rpartition ({cq(s)}) ({cq(nd)}))', e, na)
            elif r < 0.88:
                p = rng.choice([s[:rng.randint(0, 3)], s[-rng.randint(1, 3):] if L else '', rand_str(rng, 2), s + 'x', ''])
                if rng.random() < 0.5:
                    add('starts_with', f'to_str(({q(s)}).starts_with({q(p)}))', f'rb (x_starts_with ({cq(s)}) ({cq(p)}))', 'true' if s.startswith(p) else 'false', na)
                else:
                    add('ends_with', f'to_str(({q(s)}).ends_with({q(p)}))', f'rb (x_ends_with ({cq(s)}) ({cq(p)}))', 'true' if s.endswith(p) else 'false', na)
            elif r < 0.93:
                add('reverse', f'to_str(({q(s)}).reverse(){CPS})', f'show_fs (x_reverse ({cq(s)}))', pycps(s[::-1]), na)
            elif r < 0.97:
                k = rng.choice([0, 1, 2, 3])
                add('mul', f'to_str(({q(s)} * {k}){CPS})', f'rfs (x_mul ({cq(s)}) ({k}))', pycps(s * k), na)
            else:
                # case mapping: uninterpreted in the model, compared with the Python (Unicode) oracle only
                if rng.random() < 0.5:
                    add('upper', f'to_str(({q(s)}).upper(){CPS}) + to_str(({q(s)}).upper().len())', None, pycps(s.upper()) + str(len(s.upper())), na)
                else:
                    add('lower', f'to_str(({q(s)}).lower(){CPS}) + to_str(({q(s)}).lower().len())', None, pycps(s.lower()) + str(len(s.lower())), na)
        return cases

    def nontrivial(self, case, impl, model):
        return bool(case.meta.get('nt')) or impl.startswith('E:')

    def agree(self, case, impl, model):
        if model is not None and model.startswith('E:') and case.expect is None:
            return impl.startswith('E:')
        return impl == model

    def extra_checks(self, ctx):
        """literal spellings: one program per literal (a malformed literal is a compile error, not a value)"""
        rng = ctx['rng']
        tier = ctx['tier']
        n = 160 if tier == 'quick' else 1600
        jobs, terms, meta = [], [], []
        SPECIAL = ['\\', '"', "'", '\n', '\t', '\r', '\0', '{', '}', '#', 'u', 'n', 'é', '\U0001F600', ' ']
        for i in range(n):
            kind = rng.choice(['escaped', 'escaped', 'rawbody', 'malformed', 'fenced', 'raw', 'unicode_escape', 'fstring'])
            t = ''.join(rng.choice(SPECIAL + ALPHA) for _ in range(rng.randint(0, 8)))
            coq = None
            expect = None
            if kind == 'escaped':
                quote = rng.choice(['"', "'"])
                body = esc(t)
                src = quote + body + quote
                coq = f'rcps (apply_escapes [{"; ".join(str(ord(c)) for c in body)}]%N)'
                expect = t
            elif kind == 'rawbody':
                # an arbitrary body (no quote characters, no trailing backslash) through the model's unescape
                body = ''.join(rng.choice(['\\\\', '\\n', '\\t', 'a', 'é', '\\u{e9}', '\\u{1F600}', '\\0', ' ', '\\\n', 'x', '\\r']) for _ in range(rng.randint(0, 6)))
                src = '"' + body + '"'
                coq = f'rcps (apply_escapes [{"; ".join(str(ord(c)) for c in body)}]%N)'
            elif kind == 'malformed':
                body = 'a' + rng.choice(['\\q', '\\u{zz}', '\\u{110000}', '\\u{d800}', '\\u{}', '\\u{1234567}', '\\x41', '\\u{41', '\\8', '\\u41}', '\\u{0000041}', '\\u{00000041}', '\\u{0000000041}']) + 'b'
                src = '"' + body + '"'
                coq = f'rcps (apply_escapes [{"; ".join(str(ord(c)) for c in body)}]%N)'
            elif kind == 'unicode_escape':
                cp = rng.choice([0x41, 0xe9, 0x20ac, 0x1f600, 0x10ffff, 0xd7ff, 0xe000, 0x0, 0x7f, 0x80, 0x7ff, 0x800, 0xffff, 0x10000])
                body = 'x\\u{' + format(cp, rng.choice(['x', 'X', '06x'])) + '}y'
                src = '"' + body + '"'
                coq = f'rcps (apply_escapes [{"; ".join(str(ord(c)) for c in body)}]%N)'
                expect = 'x' + chr(cp) + 'y'
            elif kind == 'fenced':
                k = rng.randint(1, 3)
                t2 = t.replace('"' + '#' * k, '"')
                body = esc(t2).replace('\\"', '"')          # quotes need no escape inside a fenced literal
                if body.endswith('\\') and not body.endswith('\\\\'):
                    body += '\\'
                src = '#' * k + '"' + body + '"' + '#' * k
                coq = f'rcps (apply_escapes [{"; ".join(str(ord(c)) for c in body)}]%N)'
            elif kind == 'raw':
                k = rng.randint(0, 2)
                t2 = t.replace('"', "'") if k == 0 else t.replace('"' + '#' * k, '"')
                if rng.random() < 0.4:
                    t2 += rng.choice(['\\', 'C:\\', '\\\\', "\\'"])          # raw literals ending in a backslash
                src = 'r' + '#' * k + '"' + t2 + '"' + '#' * k
                expect = t2
            else:
                a, b = rng.randint(-5, 50), rand_str(rng, 3)
                t2 = t.replace('\\', '').replace('"', '').replace("'", '')
                lit_text = esc(t2).replace('{', '{{').replace('}', '}}')
                spec = rng.choice(['', ':05', ':>6', ':x'])
                src = 'f"' + lit_text + '{' + str(a) + spec + '}' + lit_text + '{' + q(b).replace('"', "'") + '}"'
                fa = {'': str(a), ':05': format(a, '05'), ':>6': format(a, '>6'), ':x': format(a, 'x')}[spec]
                expect = t2 + fa + t2 + b
            jobs.append({'id': f'l{i}', 'src': f'let x = {src};\nfn f()->Sequence<int>{{ x{CPS} }}\nfn g()->str{{ x }}', 'calls': ['g']})
            terms.append(coq if coq is not None else '""%string')
            meta.append((kind, src, coq, expect))
        res = core.run_harness(ctx['binary'], jobs, os.path.join(ctx['workdir'], 'h_lit'))
        model = core.coq_eval(terms, self.imports, os.path.join(ctx['workdir'], 'coq_lit'))
        violations, samples = [], []
        distinct = 0
        for job, (kind, src, coq, expect), m in zip(jobs, meta, model):
            r = res.get(job['id'])
            if r is None:
                raise core.CheckError('no result for literal job')
            if r.get('compile', '').startswith('panic'):
                violations.append({'what': 'the compiler crashed on a string literal', 'case': {'src': job['src']}, 'impl': r['compile'][:200]})
                continue
            if r.get('compile') != 'ok':
                got = 'E:'
            else:
                out = r['calls'][0] if r.get('inst') == 'ok' else 'I:' + str(r.get('inst'))
                got = pycps(out[2:]) if out.startswith('s:') else out
            wants = []
            if coq is not None:
                if m is None:
                    raise core.CheckError('model evaluation failed for literal ' + src)
                wants.append(('model', 'E:' if m.startswith('E:') else m))
            if expect is not None:
                wants.append(('literal rules', pycps(expect)))
            bad = [(w, v) for w, v in wants if v != got]
            if bad:
                violations.append({'what': f'{kind} literal does not denote the text the literal rules prescribe (disagrees with: {bad[0][0]})',
                                   'case': {'src': job['src'], 'literal': src}, 'impl': got[:200], 'model': bad[0][1][:200]})
            else:
                distinct += 1
                if len(samples) < 5:
                    samples.append({'literal': src, 'code_points': got[:80]})
        ctx['coverage'] = {'evaluations': len(jobs), 'distinct_nontrivial': distinct, 'samples': samples, 'literal_spellings': len(jobs)}
        return violations


PROP = C18()
