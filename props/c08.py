"""C08 - depth, recursion, call and search limits are exact and transparent.
For programs whose call depth / call count / tail-iteration count are measured by the reference evaluator
(coq/Lang/Eval.v), every limit value from 1 to beyond the program's need is set - each limit separately and combined -
and the interpreter must end in the corresponding violation exactly where the reference does, return exactly the
unlimited result otherwise, and report the same user-call counter.  Host histories run_function / reset on one
runtime; searching builtins (take_while, skip_until, nth) around the number of elements they have to examine."""
import os

from lib import core
from lib.lang import D, E, I, V, call
from lib.runner import PropertyCheck
from props.c02 import IMPORTS, gen_program, impl_observation
from props.c07 import shapes, run_decl


def lim_coq(l):
    f = lambda k: f'(Some {l[k]}%N)' if l.get(k) is not None else 'None'
    return f'(mklim {f("depth")} {f("ud_calls")} {f("recursion")} true)'


class C08(PropertyCheck):
    id = 'C08'
    imports = IMPORTS
    technique = 'Coq proofs of guard exactness / transparency / reset over all event histories + limit sweeps against the reference evaluator'
    trusted = ['the event-history machine abstracts runtime.rs/runtime_scope.rs guards; its link to the code is the sweep', 'see C02 for the evaluator']
    assumptions = ['timeouts are not part of this check (wall clock)']
    rule = ('programs (typed random programs with user functions, recursion shapes) x limit values 1..need+2 for depth, calls, recursion, separately and combined; '
            'host histories of run_function/reset; search sweeps at need-1, need, need+1; distinct = (program, limits); non-trivial = the limit value is within 2 of the need')

    def generate(self, rng, tier):
        return []

    def extra_checks(self, ctx):
        rng, tier, workdir = ctx['rng'], ctx['tier'], ctx['workdir']
        progs = []      # (decls, calls)
        sh = shapes()
        for name in ['if_else', 'or', 'opt_or', 'opt_or_default', 'under_operator', 'inside_lambda', 'argument_position', 'if_error_fallback', 'first_arg_of_if_error', 'default_omitted_in_tail']:
            is_tail, decls, kind = sh[name]
            for count in ([3, 12] if tier == 'quick' else [0, 1, 3, 7, 12, 40]):
                progs.append((decls + [run_decl(kind, count)], ['run']))
        for _ in range(10 if tier == 'quick' else 120):
            decls, obs = gen_program(rng, nobs=3, err_rate=0.05, depth=3)
            if 'reduce(' in '\n'.join(d.xr() for d in decls):
                continue            # reduce is a library function written in xray: counted as a user call by the interpreter, native in the model
            progs.append((decls, obs))
        # pass 1: unlimited run in the model gives the call need
        terms0 = [f'run_program (N.to_nat 6000%N) nolimits [{"; ".join(d.coq() for d in decls)}] [{"; ".join(chr(34) + o + chr(34) for o in obs)}]%string' for decls, obs in progs]
        base = core.coq_eval(terms0, self.imports, os.path.join(workdir, 'coq0'), shard_size=4, timeout=600)
        jobs, terms, meta = [], [], []
        for pi, ((decls, obs), b) in enumerate(zip(progs, base)):
            if b is None or 'FUEL' in b:
                continue
            need_calls = int(b.rsplit('|', 1)[1])
            src = '\n'.join(d.xr() for d in decls)
            cq = '[' + '; '.join(d.coq() for d in decls) + ']'
            oq = '[' + '; '.join('"' + o + '"' for o in obs) + ']%string'
            configs = []
            for L in sorted({1, 2, 3, max(1, need_calls - 1), need_calls, need_calls + 1, need_calls + 2}):
                configs.append({'ud_calls': L})
            for L in range(1, 9):
                configs.append({'depth': L})
            for L in [1, 2, 3, 6, 11, 12, 13]:
                configs.append({'recursion': L})
            for _ in range(4):
                configs.append({'depth': rng.randint(1, 8), 'ud_calls': rng.randint(1, need_calls + 3), 'recursion': rng.randint(1, 14)})
            for ci, l in enumerate(configs):
                jobs.append({'id': f'p{pi}c{ci}', 'src': src, 'calls': obs, 'limits': l})
                terms.append(f'run_program (N.to_nat 6000%N) {lim_coq(l)} {cq} {oq}')
                meta.append((pi, l, need_calls, b))
            # host history: calls interleaved with resets, under a call limit around the need
            for hi in range(2):
                ops, names = [], []
                for _ in range(rng.randint(2, 6)):
                    if rng.random() < 0.3:
                        ops.append({'op': 'reset_calls'}); names.append('!reset')
                    else:
                        o = rng.choice(obs)
                        ops.append({'op': 'call', 'fn': o}); names.append(o)
                L = rng.randint(1, max(2, need_calls + 2))
                jobs.append({'id': f'p{pi}h{hi}', 'src': src, 'ops': ops, 'limits': {'ud_calls': L}})
                terms.append(f'run_program (N.to_nat 6000%N) {lim_coq({"ud_calls": L})} {cq} [{"; ".join(chr(34) + x + chr(34) for x in names)}]%string')
                meta.append((pi, {'ud_calls': L, 'history': names}, need_calls, b))
        res = core.run_harness(ctx['binary'], jobs, os.path.join(workdir, 'h'), timeout=300)
        model = core.coq_eval(terms, self.imports, os.path.join(workdir, 'coq'), shard_size=12, timeout=900)
        violations, samples = [], []
        distinct, n_eval = 0, 0
        for job, m, (pi, l, need, b) in zip(jobs, model, meta):
            if m is None or 'FUEL' in m:
                continue
            r = res.get(job['id'])
            n_eval += 1
            if r is None or r.get('compile') != 'ok':
                continue
            if 'ops' in job:
                if r.get('inst') != 'ok':
                    got = impl_observation(r)
                else:
                    outs = []
                    for o in r['ops']:
                        x = o['r']
                        outs.append('reset' if x == 'reset' else (x[2:] if x.startswith('s:') else ('X:' + x[2:].replace('"', '') if x.startswith('X:') else x)))
                    so = r.get('stdout', '')
                    got = '#'.join(outs) + '|' + (so[:-1] if so.endswith('\n') else so).replace('\n', '\\n') + '|' + str(r.get('ud_calls', 0))
            else:
                got = impl_observation(r)
            want = m
            if 'ud_calls' not in l:
                got, want = got.rsplit('|', 1)[0], want.rsplit('|', 1)[0]      # the counter is only maintained under a call limit
            case = {'src': job['src'], 'limits': {k: v for k, v in l.items() if k != 'history'}, 'history': l.get('history')}
            if got != want:
                kind = 'swallowed or spurious violation / wrong counter' if ('X:' in got or 'X:' in want) else 'a limit that does not trip changed the result'
                violations.append({'what': f'limits not exact/transparent ({kind}); format: results#...|output|ud_calls', 'case': case,
                                   'impl': got[:400], 'model': want[:400], 'unlimited_model': b[:200]})
            else:
                near = any(abs(v - need) <= 2 for k, v in l.items() if k == 'ud_calls') or 'X:' in want
                if near:
                    distinct += 1
                if len(samples) < 5 and 'X:' in want:
                    samples.append({'limits': case['limits'], 'observed': got[:160]})
        # ---- search limit
        sjobs, sterms, smeta = [], [], []
        SI = ('From Coq Require Import List ZArith NArith String.\nFrom Xr Require Import Base.Res Base.Show Seq.XSeq Seq.SeqInst.\nImport ListNotations.\nOpen Scope Z_scope.\n'
              'Definition sr (r : res xseq) : string := match r with Val s => obs s | r => show_res (fun _ => ""%string) r end.\n'
              'Definition so (r : res (option elem)) : string := show_res (fun o => match o with Some e => show_elem e | None => "None"%string end) r.\n')
        for _ in range(12 if tier == 'quick' else 120):
            n = rng.randint(5, 60)
            k = rng.randint(0, n + 3)
            op = rng.choice(['take_while', 'skip_until', 'nth', 'nth_back'])
            for L in sorted({max(0, k - 1), k, k + 1, k + 2, n, n + 1, 1}):
                if op == 'take_while':
                    body = f'to_str(range({n}).take_while((x: int)->{{ x < {k} }}).len())'
                    term = f'show_res (fun s => match len s with Val (Some l) => show_N l | _ => "?"%string end) (x_take_while_lim (Some {L}%N) (SRange 0 {n} 1) (PLt {k}))'
                elif op == 'skip_until':
                    body = f'to_str(range({n}).skip_until((x: int)->{{ x > {k} }}).len())'
                    term = f'show_res (fun s => match len s with Val (Some l) => show_N l | _ => "?"%string end) (x_skip_until_lim (Some {L}%N) (SRange 0 {n} 1) (PGt {k}))'
                elif op == 'nth':
                    body = f'to_str(range({n}).nth(0, (x: int)->{{ x > {k} }}))'
                    term = f'so (x_nth_lim (Some {L}%N) (SRange 0 {n} 1) 0 (PGt {k}))'
                else:
                    body = f'to_str(range({n}).nth(-1, (x: int)->{{ x % {n + 7} == {k} }}))'
                    term = f'so (x_nth_lim (Some {L}%N) (SRange 0 {n} 1) (-1) (PMod {n + 7} {k}))'
                sjobs.append({'id': f's{len(sjobs)}', 'src': f'fn f()->str{{ {body} }}', 'calls': ['f'], 'limits': {'search': L}})
                sterms.append(term)
                smeta.append((body, L))
        sres = core.run_harness(ctx['binary'], sjobs, os.path.join(workdir, 'hs'))
        smodel = core.coq_eval(sterms, SI, os.path.join(workdir, 'coqs'))
        for job, m, (body, L) in zip(sjobs, smodel, smeta):
            r = sres.get(job['id'])
            n_eval += 1
            if r is None or r.get('compile') != 'ok' or m is None:
                raise core.CheckError(f'search sweep job failed: {r and r.get("compile")} {job["src"]}')
            out = r['calls'][0]
            got = out[2:] if out.startswith('s:') else ('X:' + out[2:] if out.startswith('X:') else out)
            if got != m:
                violations.append({'what': 'search limit not exact: a searching builtin must end in MaximumSearch exactly when it has to examine more than L elements',
                                   'case': {'src': job['src'], 'limits': {'search': L}}, 'impl': got, 'model': m})
            else:
                distinct += 1
        ctx['coverage'] = {'evaluations': n_eval, 'distinct_nontrivial': distinct, 'samples': samples, 'programs': len(progs), 'limit_points': len(jobs), 'search_points': len(sjobs)}
        return violations


PROP = C08()
