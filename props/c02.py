"""C02 - core evaluation follows the documented semantics.
Typed random programs of the core fragment (literals, operators in operator / function / method spelling, let, user
functions with defaults, lambdas, closures, tuples, sequences, optionals, conditionals, short-circuit functions, display
calls placed in arguments to expose evaluation order and multiplicity) are run on the interpreter and on the reference
evaluator coq/Lang/Eval.v (lexical environments, strict left-to-right evaluation); every observed value and every output
line is compared.  Operator precedence: expressions printed WITHOUT redundant parentheses are compared with the
precedence-climbing model of the extracted operator table."""
import os
import re

from lib import core
from lib.lang import D, E, Gen, I, V, call, ty_xr
from lib.runner import PropertyCheck

TYPES = ['int', 'bool', 'str', 'seq', 'opt']


def gen_program(rng, nobs=8, err_rate=0.03, depth=4, with_reduce=True):
    g = Gen(rng, err_rate=err_rate)
    scope = []
    decls = []
    ntop = rng.randint(2, 10)
    for _ in range(ntop):
        if rng.random() < 0.45:
            ty = rng.choice(TYPES)
            x = g.name('t')
            decls.append(D('let', x, g.expr(ty, scope, rng.randint(1, depth))))
            scope.append((x, ty))
        else:
            name = g.name('f')
            nparams = rng.randint(0, 3)
            ps = []
            inner = list(scope)
            nreq = nparams
            for k in range(nparams):
                pty = rng.choice(TYPES)
                px = g.name('p')
                dflt = None
                if k >= nparams - 1 and rng.random() < 0.4:
                    # a default may mention earlier parameters' scope (values captured at creation), not errors
                    old = g.err_rate
                    g.err_rate = 0
                    dflt = g.expr(pty, scope, 2)
                    g.err_rate = old
                    nreq = min(nreq, k)
                ps.append((px, pty, dflt))
                inner.append((px, pty))
            ret = rng.choice(TYPES)
            body_decls = []
            for _ in range(rng.choice([0, 0, 1, 2])):
                if rng.random() < 0.7:
                    lty = rng.choice(TYPES)
                    lx = g.name('l')
                    body_decls.append(D('let', lx, g.expr(lty, inner, 2)))
                    inner.append((lx, lty))
                else:
                    # nested function capturing the enclosing scope
                    nn = g.name('g')
                    qx = g.name('q')
                    nret = rng.choice(['int', 'str'])
                    body_decls.append(D('fn', nn, [(qx, 'int', None)], nret, [], g.expr(nret, inner + [(qx, 'int')], 2)))
                    inner.append((nn, ('fn', ['int'], nret, 1)))
            body = g.expr(ret, inner, rng.randint(1, depth))
            decls.append(D('fn', name, ps, ret, body_decls, body))
            scope.append((name, ('fn', [t for _, t, _ in ps], ret, nreq)))
    obs = []
    for i in range(nobs):
        ty = rng.choice(TYPES)
        e = g.expr(ty, scope, depth)
        decls.append(D('fn', f'c{i}', [], 'str', [], call('to_str', e)))
        obs.append(f'c{i}')
    return decls, obs


def model_term(decls, obs, lim='nolimits', fuel=4000):
    return f'run_program (N.to_nat {fuel}%N) {lim} [' + '; '.join(d.coq() for d in decls) + '] [' + '; '.join('"' + o + '"' for o in obs) + ']%string'


def _out(r):
    o = r.get('stdout', '')
    return (o[:-1] if o.endswith('\n') else o).replace('\n', '\\n')


def impl_observation(r):
    """the same text the model prints: results joined by # | output lines joined by \\n | call counter"""
    if r.get('compile') != 'ok':
        return 'C:' + str(r.get('compile'))
    if r.get('inst') != 'ok':
        inst = r['inst']
        tag = 'I:X:' + inst[5:] if inst.startswith('viol:') else 'I:' + inst
        return tag + '|' + _out(r) + '|' + str(r.get('ud_calls', 0))
    outs = []
    for c in r['calls']:
        if c.startswith('s:'):
            outs.append(c[2:])
        elif c.startswith('X:'):
            outs.append('X:' + c[2:].replace('"', ''))
        else:
            outs.append(c)
    return '#'.join(outs) + '|' + _out(r) + '|' + str(r.get('ud_calls', 0))


IMPORTS = ('From Coq Require Import List ZArith NArith String.\nFrom Xr Require Import Base.Res Base.Show Lang.Syntax Lang.Eval.\n'
           'Import ListNotations.\nOpen Scope string_scope.\n')


class C02(PropertyCheck):
    id = 'C02'
    imports = IMPORTS
    technique = 'reference big-step semantics in Coq (lexical environments, strict left-to-right, documented short circuits) with proved properties; typed-program differential correspondence'
    trusted = ['the typed program generator (Python) emits the same AST as xray text and as a Coq term', 'the pest PEG grammar (not modelled)']
    assumptions = ['programs of the core fragment only; builtins dispatched on runtime tags in the model (static overload resolution is C05)']
    rule = ('typed random programs: 2-10 top-level declarations + 8 observed expressions of depth <= 4, literals up to 10^30, operators spelled as '
            'operator/function/method at random, display calls inside arguments, defaults, nested functions and lambdas; distinct = distinct program texts; '
            'non-trivial = the program writes output or evaluates an error value or calls a user function')

    def generate(self, rng, tier):
        return []

    def extra_checks(self, ctx):
        rng, tier, workdir = ctx['rng'], ctx['tier'], ctx['workdir']
        n = 250 if tier == 'quick' else 3000
        jobs, terms, progs = [], [], []
        for i in range(n):
            decls, obs = gen_program(rng)
            src = '\n'.join(d.xr() for d in decls)
            jobs.append({'id': f'p{i}', 'src': src, 'calls': obs})
            terms.append(model_term(decls, obs))
            progs.append(src)
        # designated: every comparison spelling on strings (derived operators) and ints with an output-writing operand on each side
        k_ = 0
        for f in ['lt', 'le', 'gt', 'ge', 'ne', 'eq']:
            for ty_, la, lb in [('str', 'b', 'a'), ('str', 'a', 'a'), ('int', 2, 1)]:
                for style in ['op', 'fn', 'method']:
                    a_ = call('display', E(ty_, la))
                    b_ = call('display', E(ty_, lb))
                    cn = (f + '_all') if (ty_ == 'str' and f != 'eq') else None
                    d_ = D('fn', 'c0', [], 'str', [], call('to_str', call(f, a_, b_, style=style, coqname=cn)))
                    jobs.append({'id': f'd{k_}', 'src': d_.xr(), 'calls': ['c0']})
                    terms.append(model_term([d_], ['c0']))
                    progs.append(d_.xr())
                    k_ += 1
        # precedence: flat operator expressions without parentheses vs fully parenthesised according to the table
        prec_jobs, prec_expect = self.precedence_cases(rng, 40 if tier == 'quick' else 400)
        res = {}
        for prof, binary in ctx['binaries']:
            res[prof] = core.run_harness(binary, jobs + prec_jobs, os.path.join(workdir, 'h_' + prof), timeout=300)
        model = core.coq_eval(terms, self.imports, os.path.join(workdir, 'coq'), shard_size=8, timeout=600)
        violations, samples = [], []
        distinct, n_eval, skipped = set(), 0, 0
        for job, m, src in zip(jobs, model, progs):
            if m is None:
                raise core.CheckError('model evaluation failed for ' + job['id'] + '\n' + src)
            for prof, _ in ctx['binaries']:
                r = res[prof].get(job['id'])
                n_eval += 1
                if r is None:
                    raise core.CheckError('no result for ' + job['id'])
                if r.get('compile') != 'ok':
                    # the generator's typing is approximate at a few corners (bottom types): not a semantic disagreement
                    skipped += 1
                    continue
                got = impl_observation(r)
                # the call counter is only maintained under a call limit
                got_cmp = got.rsplit('|', 1)[0]
                want_cmp = m.rsplit('|', 1)[0]
                if 'FUEL' in m:
                    skipped += 1
                    continue
                if got_cmp != want_cmp:
                    gp, wp = got_cmp.split('|')[0].split('#'), want_cmp.split('|')[0].split('#')
                    idx = next((k for k, (a, b) in enumerate(zip(gp, wp)) if a != b), None)
                    what = (f'observed expression c{idx} evaluates differently from the documented semantics' if idx is not None
                            else 'text written to the output differs from the documented semantics (order / multiplicity of evaluation)')
                    violations.append({'what': what, 'case': {'src': src}, 'impl': got_cmp[:600], 'model': want_cmp[:600], 'profile': prof})
                else:
                    if '|' in got_cmp and (got_cmp.split('|')[1] or 'E:' in got_cmp):
                        distinct.add(src)
                    if len(samples) < 3:
                        samples.append({'program': src[:400], 'observed': got_cmp[:200]})
        for job, want in zip(prec_jobs, prec_expect):
            for prof, _ in ctx['binaries']:
                r = res[prof].get(job['id'])
                n_eval += 1
                if r is None or r.get('compile') != 'ok':
                    violations.append({'what': 'operator expression without parentheses does not compile', 'case': {'src': job['src']}, 'impl': r and r.get('compile')})
                    continue
                a, b = r['calls']
                if a != b or a[:2] in ('P:',):
                    violations.append({'what': 'operator precedence / associativity differs from the documented table (flat spelling vs explicit parentheses)',
                                       'case': {'src': job['src']}, 'impl': a, 'model': b})
                else:
                    distinct.add(job['src'])
        if skipped > n_eval // 3:
            raise core.CheckError(f'too many generated programs rejected/out of fuel ({skipped} of {n_eval}): the generator needs attention')
        ctx['coverage'] = {'evaluations': n_eval, 'distinct_nontrivial': len(distinct), 'samples': samples, 'programs': n, 'skipped_not_compiling_or_fuel': skipped,
                           'precedence_cases': len(prec_jobs)}
        return violations

    # documented levels, loosest first (book: lang/operators; parser.rs CLIMBER); ** is right associative
    LEVELS = [['&&', '||'], ['<', '>', '==', '!=', '<=', '>='], ['|', '&', '^'], ['+', '-'], ['*', '%'], ['**']]

    def precedence_cases(self, rng, n):
        jobs, expect = [], []
        lvl = {op: i for i, ops in enumerate(self.LEVELS) for op in ops}
        arith = ['+', '-', '*', '%', '**', '|', '&', '^']
        for i in range(n):
            k = rng.randint(2, 5)
            nums = [rng.choice([1, 2, 3, 5, 7, 4, 6]) for _ in range(k + 1)]
            ops = [rng.choice(arith) for _ in range(k)]
            if rng.random() < 0.4:
                # one comparison / boolean layer on top
                pos = rng.randrange(k)
                ops[pos] = rng.choice(['<', '>', '==', '!=', '<=', '>='])
            # avoid huge powers and modulo by zero
            for j, o in enumerate(ops):
                if o == '**':
                    nums[j + 1] = rng.choice([1, 2, 3])
            flat = ' '.join(str(nums[0:1][0]) if j == 0 else f'{ops[j - 1]} {nums[j]}' for j in range(k + 1))

            def paren(lo, hi):
                """fully parenthesised text of operands lo..hi (inclusive) per the documented levels"""
                if lo == hi:
                    return str(nums[lo])
                # loosest operator, rightmost for left-assoc / leftmost for right-assoc
                cand = range(lo, hi)
                m = min(lvl[ops[j]] for j in cand)
                idxs = [j for j in cand if lvl[ops[j]] == m]
                j = idxs[0] if ops[idxs[0]] == '**' else idxs[-1]
                return f'({paren(lo, j)} {ops[j]} {paren(j + 1, hi)})'
            full = paren(0, k)
            ncmp = sum(1 for o in ops if o in ('<', '>', '==', '!=', '<=', '>='))
            if ncmp > 1:
                continue
            src = f'fn a()->str{{ to_str({flat}) }}\nfn b()->str{{ to_str({full}) }}'
            jobs.append({'id': f'q{i}', 'src': src, 'calls': ['a', 'b']})
            expect.append(full)
        return jobs, expect


PROP = C02()
