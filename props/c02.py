"""C02 - core evaluation follows the documented semantics.
Typed random programs of the core fragment (literals, operators in operator / function / method spelling, let, user
functions with defaults, lambdas, closures, tuples, sequences, optionals, conditionals, short-circuit functions, display
calls placed in arguments to expose evaluation order and multiplicity) are run on the interpreter and on the reference
evaluator coq/Lang/Eval.v (lexical environments, strict left-to-right evaluation); every observed value and every output
line is compared.  Operator precedence: expressions printed WITHOUT redundant parentheses are compared with the
precedence-climbing model of the extracted operator table."""
import os
import re

from lib import core
from lib.lang import D, E, Gen, I, V, call, ty_xr
from lib.runner import PropertyCheck

TYPES = ['int', 'bool', 'str', 'seq', 'opt']


def gen_program(rng, nobs=8, err_rate=0.03, depth=4, with_reduce=True):
    g = Gen(rng, err_rate=err_rate)
    scope = []
    decls = []
    ntop = rng.randint(2, 10)
    for _ in range(ntop):
        if rng.random() < 0.45:
            ty = rng.choice(TYPES)
            x = g.name('t')
            decls.append(D('let', x, g.expr(ty, scope, rng.randint(1, depth))))
            scope.append((x, ty))
        else:
            name = g.name('f')
            nparams = rng.randint(0, 3)
            ps = []
            inner = list(scope)
            nreq = nparams
            for k in range(nparams):
                pty = rng.choice(TYPES)
                px = g.name('p')
                dflt = None
                if k >= nparams - 1 and rng.random() < 0.4:
                    # a default may mention earlier parameters' scope (values captured at creation), not errors
                    old = g.err_rate
                    g.err_rate = 0
                    dflt = g.expr(pty, scope, 2)
                    g.err_rate = old
                    nreq = min(nreq, k)
                ps.append((px, pty, dflt))
                inner.append((px, pty))
            ret = rng.choice(TYPES)
            body_decls = []
            for _ in range(rng.choice([0, 0, 1, 2])):
                if rng.random() < 0.7:
                    lty = rng.choice(TYPES)
                    lx = g.name('l')
                    body_decls.append(D('let', lx, g.expr(lty, inner, 2)))
                    inner.append((lx, lty))
                else:
                    # nested function capturing the enclosing scope
                    nn = g.name('g')
                    qx = g.name('q')
                    nret = rng.choice(['int', 'str'])
                    body_decls.append(D('fn', nn, [(qx, 'int', None)], nret, [], g.expr(nret, inner + [(qx, 'int')], 2)))
                    inner.append((nn, ('fn', ['int'], nret, 1)))
            body = g.expr(ret, inner, rng.randint(1, depth))
            decls.append(D('fn', name, ps, ret, body_decls, body))
            scope.append((name, ('fn', [t for _, t, _ in ps], ret, nreq)))
    obs = []
    for i in range(nobs):
        ty = rng.choice(TYPES)
        e = g.expr(ty, scope, depth)
        decls.append(D('fn', f'c{i}', [], 'str', [], call('to_str', e)))
        obs.append(f'c{i}')
    return decls, obs


def model_term(decls, obs, lim='nolimits', fuel=4000):
    return f'run_program (N.to_nat {fuel}%N) {lim} [' + '; '.join(d.coq() for d in decls) + '] [' + '; '.join('"' + o + '"' for o in obs) + ']%string'


def _out(r):
    o = r.get('stdout', '')
    return (o[:-1] if o.endswith('\n') else o).replace('\n', '\\n')


def impl_observation(r):
    """the same text the model prints: results joined by # | output lines joined by \\n | call counter"""
    if r.get('compile') != 'ok':
        return 'C:' + str(r.get('compile'))
    if r.get('inst') != 'ok':
        inst = r['inst']
        tag = 'I:X:' + inst[5:] if inst.startswith('viol:') else 'I:' + inst
        return tag + '|' + _out(r) + '|' + str(r.get('ud_calls', 0))
    outs = []
    for c in r['calls']:
        if c.startswith('s:'):
            outs.append(c[2:])
        elif c.startswith('X:'):
            outs.append('X:' + c[2:].replace('"', ''))
        else:
            outs.append(c)
    return '#'.join(outs) + '|' + _out(r) + '|' + str(r.get('ud_calls', 0))


IMPORTS = ('From Coq Require Import List ZArith NArith String.\nFrom Xr Require Import Base.Res Base.Show Lang.Syntax Lang.Eval.\n'
           'Import ListNotations.\nOpen Scope string_scope.\n')


class C02(PropertyCheck):
    extra_vo = ['Lang/PrecInst.vo']          # model files evaluated by the correspondence that Props/<id>.v does not depend on
    id = 'C02'
    imports = IMPORTS
    technique = 'reference big-step semantics in Coq (lexical environments, strict left-to-right, documented short circuits) with proved properties; operator table extracted from parser.rs / xray.pest / the book and proved equal to the documented table; Coq proof that the precedence climber groups every operator sequence by that table; typed-program differential correspondence'
    trusted = ['the typed program generator (Python) emits the same AST as xray text and as a Coq term', 'the pest PEG grammar other than the operator table (not modelled); translator/optable.py (regular expressions over parser.rs, xray.pest, functions.md); Lang/Prec.v is a model of pest::prec_climber (library code), tied by the flat / parenthesised / nested-call comparison']
    assumptions = ['programs of the core fragment only; builtins dispatched on runtime tags in the model (static overload resolution is C05)']
    rule = ('typed random programs: 2-10 top-level declarations + 8 observed expressions of depth <= 4, literals up to 10^30, operators spelled as '
            'operator/function/method at random, display calls inside arguments, defaults, nested functions and lambdas; distinct = distinct program texts; '
            'non-trivial = the program writes output or evaluates an error value or calls a user function')

    def generate(self, rng, tier):
        # literal magnitudes are unbounded: two operands beyond 64 bits whose sum / difference falls back inside, then compared with
        # and printed next to a small literal (the reference evaluator computes over Z: the expectation is plain arithmetic)
        from lib.runner import Case
        cases = []

        def lit(n):
            return f'(-{-n})' if n < 0 else str(n)
        for k in range(24 if tier == 'quick' else 200):
            x = rng.choice([2 ** 63, 2 ** 64, 2 ** 70, 10 ** 30, 2 ** 120, rng.randint(2 ** 63, 2 ** 100)])
            sm = rng.choice([0, 1, -1, 5, -7, 1000, rng.randint(-1000, 1000)])
            shape = rng.randrange(4)
            a, b, op = [(x + sm, -x, '+'), (x + sm, x, '-'), (-x, x + sm, '+'), (x, x - sm, '-')][shape]
            fn = {'+': 'add', '-': 'sub'}[op]
            spell = rng.choice([f'({lit(a)} {op} {lit(b)})', f'{fn}({lit(a)}, {lit(b)})', f'({lit(a)}).{fn}({lit(b)})'])
            body = (f'to_str({spell}) + "|" + to_str({spell} == {lit(sm)}) + to_str({spell} < {lit(sm + 1)}) + to_str({spell} != {lit(sm)})'
                    f' + to_str([{spell}] == [{lit(sm)}]) + to_str({spell} * 2 == {lit(2 * sm)})')
            cases.append(Case(f'cancel|{spell}', 'bigint-cancel', body, None, 'str', '', None, None, f'{sm}|truetruefalsetruetrue'))
        return cases

    def pre_build(self):
        # the operator table (parser.rs CLIMBER, xray.pest tokens, book list) is re-extracted into coq/Extracted/Ops.v
        from lib import extract
        try:
            self._ops = extract.run_all()['optable']
            self._err = None
        except Exception as e:        # fails closed
            self._ops, self._err = {}, str(e)

    def extracted_obligations(self):
        if self._err:
            return [('optable_translator', False, f'translator failed: {self._err}')]
        o = self._ops
        return [('optable_translator_found_table', o.get('levels', 0) >= 1 and o.get('operators', 0) >= 1 and o.get('unary', 0) >= 1,
                 f"{o.get('levels')} levels, {o.get('operators')} binary operators, {o.get('unary')} unary operators extracted")]

    def extra_checks(self, ctx):
        rng, tier, workdir = ctx['rng'], ctx['tier'], ctx['workdir']
        n = 250 if tier == 'quick' else 3000
        jobs, terms, progs = [], [], []
        for i in range(n):
            decls, obs = gen_program(rng)
            src = '\n'.join(d.xr() for d in decls)
            jobs.append({'id': f'p{i}', 'src': src, 'calls': obs})
            terms.append(model_term(decls, obs))
            progs.append(src)
        # designated: every comparison spelling on strings (derived operators) and ints with an output-writing operand on each side
        k_ = 0
        for f in ['lt', 'le', 'gt', 'ge', 'ne', 'eq']:
            for ty_, la, lb in [('str', 'b', 'a'), ('str', 'a', 'a'), ('int', 2, 1)]:
                for style in ['op', 'fn', 'method']:
                    a_ = call('display', E(ty_, la))
                    b_ = call('display', E(ty_, lb))
                    cn = (f + '_all') if (ty_ == 'str' and f != 'eq') else None
                    d_ = D('fn', 'c0', [], 'str', [], call('to_str', call(f, a_, b_, style=style, coqname=cn)))
                    jobs.append({'id': f'd{k_}', 'src': d_.xr(), 'calls': ['c0']})
                    terms.append(model_term([d_], ['c0']))
                    progs.append(d_.xr())
                    k_ += 1
        # precedence: flat operator expressions without parentheses vs fully parenthesised according to the table
        prec_jobs, prec_expect = self.precedence_cases(rng, 80 if tier == 'quick' else 600, workdir)
        res = {}
        for prof, binary in ctx['binaries']:
            res[prof] = core.run_harness(binary, jobs + prec_jobs, os.path.join(workdir, 'h_' + prof), timeout=300)
        model = core.coq_eval(terms, self.imports, os.path.join(workdir, 'coq'), shard_size=8, timeout=600)
        violations, samples = [], []
        distinct, n_eval, skipped = set(), 0, 0
        for job, m, src in zip(jobs, model, progs):
            if m is None:
                raise core.CheckError('model evaluation failed for ' + job['id'] + '\n' + src)
            for prof, _ in ctx['binaries']:
                r = res[prof].get(job['id'])
                n_eval += 1
                if r is None:
                    raise core.CheckError('no result for ' + job['id'])
                if r.get('compile') != 'ok':
                    # the generator's typing is approximate at a few corners (bottom types): not a semantic disagreement
                    skipped += 1
                    continue
                got = impl_observation(r)
                # the call counter is only maintained under a call limit
                got_cmp = got.rsplit('|', 1)[0]
                want_cmp = m.rsplit('|', 1)[0]
                if 'FUEL' in m:
                    skipped += 1
                    continue
                if got_cmp != want_cmp:
                    gp, wp = got_cmp.split('|')[0].split('#'), want_cmp.split('|')[0].split('#')
                    idx = next((k for k, (a, b) in enumerate(zip(gp, wp)) if a != b), None)
                    what = (f'observed expression c{idx} evaluates differently from the documented semantics' if idx is not None
                            else 'text written to the output differs from the documented semantics (order / multiplicity of evaluation)')
                    violations.append({'what': what, 'case': {'src': src}, 'impl': got_cmp[:600], 'model': want_cmp[:600], 'profile': prof})
                else:
                    if '|' in got_cmp and (got_cmp.split('|')[1] or 'E:' in got_cmp):
                        distinct.add(src)
                    if len(samples) < 3:
                        samples.append({'program': src[:400], 'observed': got_cmp[:200]})
        for job, want in zip(prec_jobs, prec_expect):
            for prof, _ in ctx['binaries']:
                r = res[prof].get(job['id'])
                n_eval += 1
                if r is None or r.get('compile') != 'ok':
                    violations.append({'what': 'operator expression without parentheses does not compile', 'case': {'src': job['src']}, 'impl': r and r.get('compile')})
                    continue
                a, b, c = r['calls']
                meta = self._prec_meta[job['id']]
                if a != b or a[:2] in ('P:',):
                    violations.append({'what': 'operator precedence / associativity differs from the documented table (flat spelling vs explicit parentheses)',
                                       'case': {'src': job['src']}, 'impl': a, 'model': b})
                elif meta['model_group'] != want:
                    violations.append({'what': 'the precedence climber run with the table extracted from the parser groups a sequence differently from the documented table',
                                       'case': {'src': job['src'], 'flat': meta['flat']}, 'impl': meta['model_group'], 'model': want})
                elif a != c:
                    violations.append({'what': 'an operator expression differs from the nested calls of the functions its operators alias (grouping by the proved climber model)',
                                       'case': {'src': job['src']}, 'impl': a, 'model': c})
                else:
                    distinct.add(job['src'])
        if skipped > n_eval // 3:
            raise core.CheckError(f'too many generated programs rejected/out of fuel ({skipped} of {n_eval}): the generator needs attention')
        ctx['coverage'] = {'evaluations': n_eval, 'distinct_nontrivial': len(distinct), 'samples': samples, 'programs': n, 'skipped_not_compiling_or_fuel': skipped,
                           'precedence_cases': len(prec_jobs)}
        return violations

    # documented levels, loosest first (book: lang/functions.md "Operators"; parser.rs CLIMBER); ** is right associative.
    # The SAME table is coq/Lang/PrecInst.v model_levels, which Props/C02.v proves equal to the table extracted from the parser.
    LEVELS = [['&&', '||'], ['<', '>', '==', '!=', '<=', '>='], ['|', '&', '^'], ['+', '-'], ['*', '/', '%'], ['**']]
    CMP = ['<', '>', '==', '!=', '<=', '>=']

    def precedence_cases(self, rng, n, workdir=None):
        """three spellings of one operator sequence: (a) flat, no parentheses; (b) fully parenthesised by the DOCUMENTED table
        (python); (c) nested calls of the aliased functions as the Coq model of the precedence climber, run with the table
        EXTRACTED from the parser, groups the sequence.  All three must give one value."""
        jobs, expect, seqs = [], [], []
        lvl = {op: i for i, ops in enumerate(self.LEVELS) for op in ops}
        arith = ['+', '-', '*', '%', '**', '|', '&', '^', '+', '*', '-']

        def arith_seq(k):
            nums = [str(rng.choice([1, 2, 3, 5, 7, 4, 6])) for _ in range(k + 1)]
            ops = [rng.choice(arith) for _ in range(k)]
            for j, o in enumerate(ops):
                if o == '**':
                    nums[j + 1] = str(rng.choice([1, 2, 3]))
            return nums, ops
        for i in range(n):
            fam = rng.random()
            if fam < 0.45:
                atoms, ops = arith_seq(rng.randint(2, 6))
                if rng.random() < 0.4:
                    ops[rng.randrange(len(ops))] = rng.choice(self.CMP)
            elif fam < 0.55:
                # true division mixed in (float results; a zero divisor is an error value on every spelling)
                atoms, ops = arith_seq(rng.randint(2, 4))
                ops = [rng.choice(['/', '*', '+', '-', '/']) for _ in ops]
                atoms = [a + '.0' for a in atoms]
            else:
                # boolean chain: terms joined by && / || (one level, left associative); a term is a literal or a comparison
                atoms, ops = [], []
                for t in range(rng.randint(2, 4)):
                    if t:
                        ops.append(rng.choice(['&&', '||']))
                    if rng.random() < 0.5:
                        atoms.append(rng.choice(['true', 'false']))
                    else:
                        l_a, l_o = arith_seq(rng.randint(0, 2))
                        r_a, r_o = arith_seq(rng.randint(0, 2))
                        atoms += l_a + r_a
                        ops += l_o + [rng.choice(self.CMP)] + r_o
            if sum(1 for o in ops if o in self.CMP) > 1 and not any(o in ('&&', '||') for o in ops):
                continue
            k = len(ops)
            flat = ' '.join(atoms[0] if j == 0 else f'{ops[j - 1]} {atoms[j]}' for j in range(k + 1))

            def paren(lo, hi):
                """fully parenthesised text of operands lo..hi (inclusive) per the documented levels"""
                if lo == hi:
                    return atoms[lo]
                cand = range(lo, hi)
                m = min(lvl[ops[j]] for j in cand)
                idxs = [j for j in cand if lvl[ops[j]] == m]
                j = idxs[0] if ops[idxs[0]] == '**' else idxs[-1]
                return f'({paren(lo, j)} {ops[j]} {paren(j + 1, hi)})'
            full = paren(0, k)
            jobs.append({'id': f'q{i}', 'flat': flat, 'full': full})
            expect.append(full)
            seqs.append((atoms, ops))
        # the Coq climber (extracted table) groups every sequence: as parenthesised text and as nested function calls
        def term(fn, atoms, ops):
            return f'{fn} "{atoms[0]}" [' + '; '.join(f'("{o}", "{a}")' for o, a in zip(ops, atoms[1:])) + ']'
        imports = 'From Coq Require Import List String.\nFrom Xr Require Import Lang.Prec Lang.PrecInst.\nImport ListNotations.\nOpen Scope string_scope.\n'
        terms = [term('group', a, o) for a, o in seqs] + [term('group_calls', a, o) for a, o in seqs]
        out = core.coq_eval(terms, imports, os.path.join(workdir or core.BUILD, 'coq_prec'), name='prec', shard_size=100)
        groups, calls = out[:len(seqs)], out[len(seqs):]
        final = []
        for job, g, c in zip(jobs, groups, calls):
            if g is None or c is None:
                raise core.CheckError('precedence model evaluation failed for ' + job['flat'])
            job['model_group'] = g
            job['src'] = f'fn a()->str{{ to_str({job["flat"]}) }}\nfn b()->str{{ to_str({job["full"]}) }}\nfn c()->str{{ to_str({c}) }}'
            job['calls'] = ['a', 'b', 'c']
            final.append({'id': job['id'], 'src': job['src'], 'calls': job['calls']})
        self._prec_meta = {j['id']: j for j in jobs}
        return final, expect


PROP = C02()
