"""C07 - tail-call optimisation is semantically transparent.
Recursive functions are generated with the self-call in every syntactic position: tail through if / && / || / if_error /
optional or / map_or default / to_str(str), and NON-tail: argument position, under an operator, inside a lambda, via an
alias, call of a different function.  For iteration counts 0..10^5:
 (a) transparency: the interpreter (which optimises) must return what the reference evaluator returns with the
     optimisation switched OFF (ordinary recursion), no limits;
 (b) no depth: under a small depth limit the tail shapes succeed for every count, the non-tail shapes end in
     MaximumStackDepth exactly where the reference (optimisation on, same limits) says;
 (c) bounded by the recursion limit only: recursion_limit = count passes, count - 1 fails (tail shapes)."""
import os

from lib import core
from lib.lang import D, E, I, V, call
from lib.runner import PropertyCheck
from props.c02 import IMPORTS, impl_observation


def B(b):
    return E('bool', b)


def typed_none():
    return call('then', B(False), I(0))


def shapes():
    """name -> (is_tail, declarations(count) ) ; every function is called as run(count)"""
    out = {}
    n, acc = V('n'), V('acc')
    dec = call('sub', n, I(1), style='op')
    zero = call('eq', n, I(0), style='op')

    def fn(name, params, ret, decls, body):
        return D('fn', name, params, ret, decls, body)
    P2 = [('n', 'int', None), ('acc', 'int', None)]
    P1 = [('n', 'int', None)]
    step = call('loop', dec, call('add', acc, n, style='op'))
    # ---- tail shapes
    out['if_else'] = (True, [fn('loop', P2, 'int', [], call('if', zero, acc, step))], 'int2')
    out['if_then'] = (True, [fn('loop', P2, 'int', [], call('if', call('ne', n, I(0), style='op'), step, acc))], 'int2')
    out['if_method'] = (True, [fn('loop', P2, 'int', [], call('if', zero, acc, step, style='method'))], 'int2')
    out['nested_if'] = (True, [fn('loop', P2, 'int', [], call('if', zero, acc, call('if', call('lt', n, I(0), style='op'), I(-1), step)))], 'int2')
    out['or'] = (True, [fn('loop', P1, 'bool', [], call('or', zero, call('loop', dec), style='op'))], 'bool1')
    out['and'] = (True, [fn('loop', P1, 'bool', [], call('and', call('ne', n, I(0), style='op'), call('loop', dec), style='op'))], 'bool1')
    out['if_error_fallback'] = (True, [fn('loop', P2, 'int', [], call('if', zero, acc, call('if_error', call('if', B(True), call('error', E('str', 'x')), I(0)), step)))], 'int2')
    out['opt_or'] = (True, [fn('loop', P1, 'opt', [], call('if', zero, call('some', I(7)), call('or', typed_none(), call('loop', dec), style='op')))], 'opt1')
    out['opt_or_default'] = (True, [fn('loop', P2, 'int', [], call('if', zero, acc, call('or', typed_none(), step, style='op', coqname='or_unwrap')))], 'int2')
    out['map_or_default'] = (True, [fn('loop', P2, 'int', [], call('if', zero, acc, call('map_or', typed_none(), E('lam', [('q', 'int', None)], [], V('q')), step)))], 'int2')
    out['local_let_then_tail'] = (True, [fn('loop', P2, 'int', [D('let', 'k', call('add', acc, n, style='op'))], call('if', zero, acc, call('loop', dec, V('k'))))], 'int2')
    out['default_param'] = (True, [fn('loop', [('n', 'int', None), ('acc', 'int', I(0))], 'int', [], call('if', zero, acc, step))], 'int1d')
    # a tail self-call that leaves a trailing parameter to its default is a tail iteration like any other
    out['default_omitted_in_tail'] = (True, [fn('loop', [('n', 'int', None), ('acc', 'int', None), ('cap', 'int', I(1000))], 'int', [], call('if', zero, acc, step))], 'int2')
    # ---- non-tail shapes
    out['under_operator'] = (False, [fn('loop', P1, 'int', [], call('if', zero, I(0), call('add', I(1), call('loop', dec), style='op')))], 'int1')
    out['argument_position'] = (False, [fn('idf', [('x', 'int', None)], 'int', [], V('x')),
                                        fn('loop', P1, 'int', [], call('if', zero, I(0), call('idf', call('loop', dec))))], 'int1')
    out['inside_lambda'] = (False, [fn('loop', P1, 'int', [], call('if', zero, I(0), call(E('lam', [], [], call('loop', dec)))))], 'int1')
    out['via_alias'] = (False, [fn('loop', P1, 'int', [D('let', 'again', V('loop'))], call('if', zero, I(0), call('again', dec)))], 'int1')
    out['other_function'] = (False, [fn('helper', P1, 'int', [], call('if', zero, I(0), call('helper', dec))),
                                     fn('loop', P1, 'int', [], call('if', zero, I(0), call('add', call('helper', I(0)), call('loop', dec), style='op')))], 'int1')
    out['condition_position'] = (False, [fn('loop', P1, 'bool', [], call('if', zero, B(True), call('if', call('loop', dec), B(True), B(False))))], 'bool1')
    out['first_arg_of_if_error'] = (False, [fn('loop', P1, 'int', [], call('if', zero, I(0), call('if_error', call('loop', dec), I(-1))))], 'int1')
    # an error argument in a tail call: the error is the result (not re-entered)
    out['tail_with_error_arg'] = (True, [fn('loop', P2, 'int', [], call('if', call('eq', n, I(0), style='op'), acc,
                                            call('loop', dec, call('if', call('eq', n, I(1), style='op'), call('error', E('str', 'boom')), acc))))], 'int2')
    return out


def run_decl(kind, count):
    if kind == 'int2':
        return D('fn', 'run', [], 'str', [], call('to_str', call('loop', I(count), I(0))))
    return D('fn', 'run', [], 'str', [], call('to_str', call('loop', I(count))))


class C07(PropertyCheck):
    id = 'C07'
    imports = IMPORTS
    technique = 'Coq proof of trampoline transparency and limit exactness (abstract) + reference evaluator with TCO on/off; table of tail-forwarding natives extracted from src/builtin/*.rs and proved equal to the modelled table; shape x count differential correspondence'
    trusted = ['shape templates cover the documented tail-forwarding functions (if, and, or, if_error, optional or, map_or)',
               'the link between the abstract trampoline theorem and runtime_scope.rs is the correspondence', 'translator/tailsites.py (regular expressions over src/builtin/*.rs: closures whose third parameter is named tca)']
    assumptions = ['see C02: reference evaluator coq/Lang/Eval.v']
    rule = ('every shape x iteration count in {0,1,2,10,1000,100000 (tail shapes)} x {no limits, depth limit 6, recursion limit = count / count-1}; '
            'distinct = (shape, count, limits); non-trivial = count >= 2')

    def pre_build(self):
        # every native that receives the tail flag as `tca` and the argument it forwards it to: coq/Extracted/Tails.v
        from lib import extract
        try:
            self._tails = extract.run_all()['tailsites']
            self._err = None
        except Exception as e:        # fails closed
            self._tails, self._err = {}, str(e)

    def extracted_obligations(self):
        if self._err:
            return [('tailsites_translator', False, f'translator failed: {self._err}')]
        return [('tailsites_translator_found_sites', self._tails.get('sites', 0) >= 1, f"{self._tails.get('sites')} tail-forwarding natives extracted")]

    def generate(self, rng, tier):
        return []

    def extra_checks(self, ctx):
        tier, workdir = ctx['tier'], ctx['workdir']
        sh = shapes()
        jobs, terms, meta = [], [], []
        counts_tail = [0, 1, 2, 10, 1000] + ([100000] if True else [])
        counts_nontail = [0, 1, 2, 4, 5, 6, 10, 60]
        for name, (is_tail, decls, kind) in sh.items():
            for count in (counts_tail if is_tail else counts_nontail):
                prog = decls + [run_decl(kind, count)]
                src = '\n'.join(d.xr() for d in prog)
                cq = '[' + '; '.join(d.coq() for d in prog) + ']'
                fuel = 40 * count + 2000
                configs = [('nolimits/plain-recursion', None, f'(mklim None None None false)', count <= 1000)]
                configs.append(('depth6', {'depth': 6}, '(mklim (Some 6%N) None None true)', True))
                if is_tail and count >= 1:
                    configs.append(('rec=count', {'recursion': count, 'depth': 6}, f'(mklim (Some 6%N) None (Some {count}%N) true)', True))
                    configs.append(('rec=count-1', {'recursion': count - 1, 'depth': 6}, f'(mklim (Some 6%N) None (Some {count - 1}%N) true)', True))
                for cname, limits, lim, use_model in configs:
                    if not use_model:
                        continue
                    if count >= 100000 and cname != 'depth6':
                        continue
                    jid = f'{name}_{count}_{cname}'
                    job = {'id': jid, 'src': src, 'calls': ['run']}
                    if limits:
                        job['limits'] = limits
                    jobs.append(job)
                    terms.append(f'run_program (N.to_nat {fuel}%N) {lim} {cq} ["run"]%string')
                    meta.append((name, is_tail, count, cname))
        res = {}
        for prof, binary in ctx['binaries']:
            res[prof] = core.run_harness(binary, jobs, os.path.join(workdir, 'h_' + prof), timeout=300)
        model = core.coq_eval(terms, self.imports, os.path.join(workdir, 'coq'), shard_size=6, timeout=900)
        violations, samples = [], []
        distinct = 0
        n_eval = 0
        for job, m, (name, is_tail, count, cname) in zip(jobs, model, meta):
            if m is None or 'FUEL' in m:
                raise core.CheckError(f'model evaluation failed / out of fuel for {job["id"]}: {m}')
            want = m.rsplit('|', 1)[0]
            for prof, _ in ctx['binaries']:
                r = res[prof].get(job['id'])
                n_eval += 1
                if r is None or r.get('compile') != 'ok':
                    raise core.CheckError(f'C07 template does not compile: {r and r.get("compile")}\n{job["src"]}')
                got = impl_observation(r).rsplit('|', 1)[0]
                if got != want:
                    what = {'nolimits/plain-recursion': 'with the self-call in this position the interpreter does not return what ordinary recursion returns',
                            'depth6': ('a tail self-call consumed call-stack depth' if is_tail else 'a self-call that is NOT in tail position was treated differently from a real call under the depth limit'),
                            'rec=count': 'recursion limit = number of tail iterations must pass', 'rec=count-1': 'recursion limit below the number of tail iterations must end in MaximumRecursion'}[cname]
                    violations.append({'what': f'{what} (shape {name}, {count} iterations, {cname})',
                                       'case': {'src': job['src'], 'limits': job.get('limits')}, 'impl': got[:300], 'model': want[:300], 'profile': prof})
                else:
                    if count >= 2:
                        distinct += 1
                    if len(samples) < 5 and count == 10:
                        samples.append({'shape': name, 'config': cname, 'program': job['src'], 'observed': got})
        ctx['coverage'] = {'evaluations': n_eval, 'distinct_nontrivial': distinct, 'samples': samples, 'shapes': len(sh)}
        return violations


PROP = C07()
