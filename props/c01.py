"""C01 - accepted programs never go wrong.
(a) Core calculus (coq/Ty/Sound.v, soundness proved in coq/Ty/SoundProofs.v): random well-typed expressions and near-miss
    mutations of them are printed as xray programs and as Coq terms; the compiler must accept exactly what the modelled
    checker accepts, the static type it reports must be the model's, and running the accepted program must give the
    model evaluator's value - in particular it must not crash.
(b) No-crash sweep over everything else: typed random programs of the C02 generator, token-level near-miss mutations of
    them, and mutations of the shipped scripts and book examples; whatever the compiler accepts is instantiated and every
    zero-argument function is run under several limit configurations: each must end in a value, an error value or a
    violation - never a panic of the interpreter (which is how a value of the wrong shape shows: a failed downcast)."""
import glob
import os
import re

from lib import core
from lib.runner import PropertyCheck
from props.c04 import T, prim, nat, tup, fn, UNK, clist, IMPORTS as TY_IMPORTS
from props.c02 import gen_program

INT, BOOL = prim('int'), prim('bool')
IMPORTS = ('From Coq Require Import List NArith ZArith String.\nFrom Xr Require Import Base.Show Ty.Types Ty.TyInst Ty.Sound Ty.SoundInst.\n'
           'Import ListNotations.\n')
PRELUDE = ('struct Probe0(n: int)\nfn orelse<T>(o: Optional<T>, d: T) -> T { if(o.has_value(), o.value(), d) }\n'
           'fn plus(a: int, b: int) -> int { a + b }\n')


class X:
    """expression of the calculus; kinds: int bool err var tup proj seq none some orelse if lam app add ; a body = (lets, expr)"""

    def __init__(self, k, *a):
        self.k, self.a = k, a


def coq_ty(t):
    return t.coq()


class CGen:
    def __init__(self, rng):
        self.rng = rng
        self.n = 0

    def fresh(self, p='v'):
        self.n += 1
        return f'{p}{self.n}'

    def rty(self, d, spelled=False):
        rng = self.rng
        if d == 0 or rng.random() < 0.35:
            return rng.choice([INT, INT, BOOL])
        c = rng.choice(['seq', 'opt', 'tup', 'tup'] + ([] if spelled else ['fn']))
        if c == 'seq':
            return nat('Sequence', self.rty(d - 1, spelled))
        if c == 'opt':
            return nat('Optional', self.rty(d - 1, spelled))
        if c == 'tup':
            return tup(*[self.rty(d - 1, spelled) for _ in range(rng.choice([2, 2, 3]))])
        n = rng.choice([0, 1, 1, 2])
        return fn(n, [self.rty(1, True) for _ in range(n)], self.rty(d - 1, spelled))

    def blur(self, t):
        rng = self.rng
        if rng.random() < 0.25:
            return UNK
        if t.kind in ('nat', 'tup'):
            return T(t.kind, t.name, [self.blur(a) for a in t.args])
        return t

    def expr(self, t, env, d, exact=True):
        """env: list of (name, type), index 0 = innermost"""
        rng = self.rng
        if not exact and rng.random() < 0.3:
            t = self.blur(t)
        if t.kind == 'unk':
            return X('err')
        opts = []
        for i, (_, vt) in enumerate(env):
            if vt == t:
                opts += [('var', i)] * 3
        if d > 0:
            opts += ['if', 'orelse', 'proj', 'app']
            if t == INT:
                opts += ['add', 'add']
        opts += ['lit', 'lit']
        if rng.random() < 0.04:
            return X('err')
        o = rng.choice(opts)
        if isinstance(o, tuple):
            return X('var', o[1])
        if o == 'if':
            return X('if', self.expr(BOOL, env, d - 1), self.expr(t, env, d - 1, exact), self.expr(t, env, d - 1, False))
        if o == 'orelse':
            return X('orelse', self.expr(nat('Optional', t), env, d - 1, exact), self.expr(t, env, d - 1, exact if False else exact))
        if o == 'proj':
            n = rng.choice([2, 3])
            i = rng.randrange(n)
            comps = [t if j == i else self.rty(1) for j in range(n)]
            return X('proj', self.expr(tup(*comps), env, d - 1, exact), i)
        if o == 'app':
            n = rng.choice([0, 1, 1, 2])
            ps = [self.rty(1, True) for _ in range(n)]
            f = self.expr(fn(n, ps, t), env, d - 1, True) if rng.random() < 0.5 else self.lam(ps, t, env, d - 1, exact)
            return X('app', f, [self.expr(p, env, d - 1, False) for p in ps])
        if o == 'add':
            return X('add', self.expr(INT, env, d - 1), self.expr(INT, env, d - 1))
        # literal forms
        if t == INT:
            return X('int', rng.randint(0, 99))
        if t == BOOL:
            return X('bool', rng.random() < 0.5)
        if t.kind == 'tup':
            return X('tup', [self.expr(a, env, max(d - 1, 0), exact) for a in t.args])
        if t.kind == 'nat' and t.name == 'Sequence':
            el = t.args[0]
            if el.kind == 'unk':
                return X('seq', [])
            k = rng.choice([1, 2, 3])
            return X('seq', [self.expr(el, env, max(d - 1, 0), exact if j == 0 else False) for j in range(k)])
        if t.kind == 'nat' and t.name == 'Optional':
            el = t.args[0]
            if el.kind == 'unk' or (not exact and rng.random() < 0.3):
                return X('none')
            return X('some', self.expr(el, env, max(d - 1, 0), exact))
        if t.kind == 'fn':
            return self.lam(list(t.args), t.ret, env, max(d - 1, 0), True)
        raise ValueError(t.show())

    def lam(self, ps, ret, env, d, exact):
        names = [self.fresh('p') for _ in ps]
        env2 = list(zip(names, ps)) + env
        return X('lam', ps, names, self.body(ret, env2, d, exact))

    def body(self, t, env, d, exact=True):
        lets = []
        env = list(env)
        for _ in range(self.rng.choice([0, 0, 1, 2])):
            lt = self.rty(2)
            name = self.fresh('x')
            lets.append((name, self.expr(lt, env, max(d - 1, 0), True)))
            env = [(name, lt)] + env
        return (lets, self.expr(t, env, d, exact), env)

    # ---- near misses
    def nodes(self, b, acc):
        lets, e, _ = b
        for _, le in lets:
            self.enodes(le, acc)
        self.enodes(e, acc)

    def enodes(self, e, acc):
        acc.append(e)
        k = e.k
        if k in ('tup', 'seq'):
            for x in e.a[0]:
                self.enodes(x, acc)
        elif k == 'proj':
            self.enodes(e.a[0], acc)
        elif k in ('some',):
            self.enodes(e.a[0], acc)
        elif k in ('orelse', 'add'):
            self.enodes(e.a[0], acc); self.enodes(e.a[1], acc)
        elif k == 'if':
            for x in e.a:
                self.enodes(x, acc)
        elif k == 'lam':
            self.nodes(e.a[2], acc)
        elif k == 'app':
            self.enodes(e.a[0], acc)
            for x in e.a[1]:
                self.enodes(x, acc)

    def mutate(self, b):
        acc = []
        self.nodes(b, acc)
        e = self.rng.choice(acc)
        r = self.rng.random()
        if e.k == 'app' and r < 0.5:
            args = e.a[1]
            e.a = (e.a[0], args[:-1] if args and self.rng.random() < 0.5 else args + [X('int', 7)])
        elif e.k == 'proj' and r < 0.4:
            e.a = (e.a[0], e.a[1] + self.rng.choice([1, 2, 3]))
        elif e.k == 'lam' and r < 0.4 and e.a[0]:
            ps = list(e.a[0])
            ps[0] = self.rty(1, True)
            e.a = (ps, e.a[1], e.a[2])
        else:
            n = self.expr(self.rty(2), [], 1, True)
            e.k, e.a = n.k, n.a


def xr_expr(e, env):
    k = e.k
    if k == 'int':
        return str(e.a[0])
    if k == 'bool':
        return 'true' if e.a[0] else 'false'
    if k == 'err':
        return 'error("E")'
    if k == 'var':
        return env[e.a[0]][0] if e.a[0] < len(env) else 'unbound_name'
    if k == 'tup':
        return '(' + ', '.join(xr_expr(x, env) for x in e.a[0]) + ')'
    if k == 'seq':
        return '[' + ', '.join(xr_expr(x, env) for x in e.a[0]) + ']'
    if k == 'proj':
        return f'({xr_expr(e.a[0], env)})::item{e.a[1]}'
    if k == 'none':
        return 'none()'
    if k == 'some':
        return f'some({xr_expr(e.a[0], env)})'
    if k == 'orelse':
        return f'orelse({xr_expr(e.a[0], env)}, {xr_expr(e.a[1], env)})'
    if k == 'if':
        return 'if(' + ', '.join(xr_expr(x, env) for x in e.a) + ')'
    if k == 'add':
        return f'plus({xr_expr(e.a[0], env)}, {xr_expr(e.a[1], env)})'
    if k == 'lam':
        ps, names, b = e.a
        return '((' + ', '.join(f'{n}: {p.xr()}' for n, p in zip(names, ps)) + ')->{' + xr_body(b, list(zip(names, ps)) + env) + '})'
    if k == 'app':
        return f'({xr_expr(e.a[0], env)})(' + ', '.join(xr_expr(x, env) for x in e.a[1]) + ')'
    raise ValueError(k)


def xr_body_parts(b, env):
    lets, e, _ = b
    out = ''
    env = list(env)
    for name, le in lets:
        out += f'let {name} = {xr_expr(le, env)}; '
        env = [(name, None)] + env
    return out, xr_expr(e, env)


def xr_body(b, env):
    a, c = xr_body_parts(b, env)
    return a + c


def coq_expr(e):
    k = e.k

    def lst(xs):
        out = 'ENil'
        for x in reversed(xs):
            out = f'(ECons {coq_expr(x)} {out})'
        return out
    if k == 'int':
        return f'(EInt {e.a[0]}%Z)'
    if k == 'bool':
        return f'(EBool {"true" if e.a[0] else "false"})'
    if k == 'err':
        return 'EErr'
    if k == 'var':
        return f'(EVar {e.a[0]})'
    if k == 'tup':
        return f'(ETup {lst(e.a[0])})'
    if k == 'seq':
        return f'(ESeq {lst(e.a[0])})'
    if k == 'proj':
        return f'(EProj {coq_expr(e.a[0])} {e.a[1]})'
    if k == 'none':
        return 'ENone'
    if k == 'some':
        return f'(ESome {coq_expr(e.a[0])})'
    if k == 'orelse':
        return f'(EOrElse {coq_expr(e.a[0])} {coq_expr(e.a[1])})'
    if k == 'if':
        return '(EIf ' + ' '.join(coq_expr(x) for x in e.a) + ')'
    if k == 'add':
        return f'(EAdd {coq_expr(e.a[0])} {coq_expr(e.a[1])})'
    if k == 'lam':
        return f'(ELam {clist(list(e.a[0]))} {coq_body(e.a[2])})'
    if k == 'app':
        return f'(EApp {coq_expr(e.a[0])} {lst(e.a[1])})'
    raise ValueError(k)


def coq_body(b):
    lets, e, _ = b
    out = coq_expr(e)
    for _, le in reversed(lets):
        out = f'(ELet {coq_expr(le)} {out})'
    return out


def tokens_mutate(rng, src):
    """token-level near miss of a program text"""
    toks = re.findall(r'"[^"\n]*"|\d+\.\d+|\d+|[A-Za-z_]\w*|\S', src)
    if len(toks) < 8:
        return src
    for _ in range(rng.choice([1, 1, 2])):
        i = rng.randrange(len(toks))
        t = toks[i]
        r = rng.random()
        if re.fullmatch(r'\d+', t):
            toks[i] = rng.choice(['"s"', 'true', '1.5', '[]', 'none()', '(1, 2)', t])
        elif t.startswith('"'):
            toks[i] = rng.choice(['1', 'true', '[]', t])
        elif t in ('true', 'false'):
            toks[i] = rng.choice(['0', '"b"'])
        elif t == ',' and r < 0.5:
            toks[i] = ', 1,' if r < 0.25 else ', "x",'
        elif re.fullmatch(r'[A-Za-z_]\w*', t) and r < 0.5:
            others = [x for x in toks if re.fullmatch(r'[A-Za-z_]\w*', x) and x != t and x not in ('fn', 'let', 'struct', 'union', 'type', 'forward')]
            if others and t not in ('fn', 'let', 'struct', 'union', 'type', 'forward'):
                toks[i] = rng.choice(others)
        elif t in ('int', 'str', 'bool', 'float'):
            toks[i] = rng.choice(['int', 'str', 'bool', 'float'])
    out = ''
    for a in toks:
        out += a + (' ' if re.fullmatch(r'\w+|"[^"]*"', a) else '')
    return out.replace('let ', 'let ').replace('fn ', 'fn ')


def typed_ladder(rng):
    """functions nested 3-6 levels whose parameters have different types; the innermost body uses values of every
    ancestor in a type-specific way (a capture resolved to the wrong cell is a value of the wrong shape)"""
    L = rng.randint(3, 6)
    kinds = [('int', lambda k: str(k + 1), lambda x: x), ('str', lambda k: '"' + 'ab' * (k + 1) + '"', lambda x: f'len({x})'),
             ('Sequence<int>', lambda k: '[' + ', '.join('1' * 1 for _ in range(k + 1)) + ']', lambda x: f'{x}.len()'),
             ('Optional<int>', lambda k: f'some({k})', lambda x: f'{x}.value()'), ('(int, str)', lambda k: f'({k}, "t")', lambda x: f'{x}::item0')]
    uses, lines, close = [], [], []
    for k in range(L):
        ps = []
        for j in range(rng.randint(0, 2)):
            ty, mk, use = rng.choice(kinds)
            ps.append((f'p{k}_{j}', ty, mk(k + j), use))
        uses += [use(n) for n, _, _, use in ps]
        lines.append('fn lev%d(%s) -> int {' % (k, ', '.join(f'{n}: {t}' for n, t, _, _ in ps)))
        close.append('lev%d(%s)\n}' % (k, ', '.join(v for _, _, v, _ in ps)))
    rng.shuffle(uses)
    body = ' + '.join(uses[:6]) if uses else '0'
    src = '\n'.join(lines) + '\n' + body + '\n}\n' + '\n'.join(reversed(close[1:])) + '\n'
    return src + 'fn c0() -> str { to_str(' + close[0].split('\n')[0] + ') }\n'


def forward_template(rng):
    tys = [('int', '1'), ('str', '"s"'), ('Sequence<int>', '[1]'), ('bool', 'true'), ('Optional<int>', 'some(1)')]
    (r1, _), (r2, v2) = rng.choice(tys), rng.choice(tys)
    (p1, a1), (p2, _) = rng.choice(tys), rng.choice(tys)
    if rng.random() < 0.5:
        r2, v2 = r1, dict(tys)[r1]
    if rng.random() < 0.6:
        p2 = p1
    gen = '<T>' if rng.random() < 0.15 else ''
    use = {'int': 'fw(A) + 1', 'str': 'fw(A) + "x"', 'Sequence<int>': 'fw(A).push(2)', 'bool': 'fw(A) && true', 'Optional<int>': 'fw(A).map((x: int)->{x})'}[r1].replace('A', a1)
    return (f'forward fn fw(a: {p1}) -> {r1};\nfn user() -> {r1} {{ {use} }}\nfn fw{gen}(a: {p2}) -> {r2} {{ {v2} }}\n'
            f'fn c0() -> str {{ to_str(user()) }}\nfn c1() -> str {{ to_str(fw({a1})) }}\n')


def mixed_container(rng):
    vals = {'Z': 'Z(1)', 'int': '1', 'str': '"s"', 'P<int, str>': 'P(1, "s")'}
    decls = ['struct Z(n: int)', 'struct P<A,B>(a: A, b: B)']
    pairs = set()
    for _ in range(rng.randint(1, 3)):
        a, b = rng.choice(list(vals)), rng.choice(list(vals))
        if (a, b) in pairs or (a in ('int', 'str') and b in ('int', 'str')):
            continue
        pairs.add((a, b))
        decls.append(f'fn eq(x: {a}, y: {b}) -> bool {{ true }}')
        decls.append(f'fn cmp(x: {a}, y: {b}) -> int {{ 0 }}')
    fns = []
    for i in range(4):
        a, b = (rng.choice(list(pairs)) if pairs and rng.random() < 0.7 else (rng.choice(list(vals)), rng.choice(list(vals))))
        form = rng.choice(['[A] == [B]', '[A] != [B]', 'some(A) == some(B)', '(A, 1) == (B, 1)', '[[A]] == [[B]]', 'A >= B', 'A < B', '[A] < [B]', 'cmp([A], [B])', '(A, 2) < (B, 3)'])
        fns.append(f'fn c{i}() -> str {{ to_str({form.replace("A", vals[a]).replace("B", vals[b])}) }}')
    return '\n'.join(decls + fns) + '\n'


def callable_arity(rng):
    """function values with every argument-count window passed to callable parameters of every arity, then called"""
    fns = ['fn z0() -> int { 7 }', 'fn a1(a: int) -> int { a + 1 }', 'fn a2(a: int, b: int) -> int { a + b }', 'fn o12(a: int, b: int ?= 2) -> int { a + b }',
           'fn o02(a: int ?= 1, b: int ?= 2) -> int { a + b }', 'fn a3(a: int, b: int, c: int) -> int { a + b + c }']
    apps = ['fn app0(f: ()->(int)) -> int { f() }', 'fn app1(f: (int)->(int)) -> int { f(1) }', 'fn app2(f: (int, int)->(int)) -> int { f(1, 2) }',
            'fn thru(f: (int)->(int)) -> int { app1(f) + 1 }', 'fn pick1(f: (int)->(int), g: (int, int)->(int)) -> int { [f].get(0)(3) }']
    names = ['z0', 'a1', 'a2', 'o12', 'o02', 'a3', '(x: int)->{x}', '(x: int, y: int)->{x + y}', '()->{1}', '(x: int, y: int ?= 5)->{x + y}']
    calls = []
    for i in range(5):
        ap = rng.choice(['app0', 'app1', 'app2', 'thru'])
        calls.append(f'fn c{i}() -> str {{ to_str({ap}({rng.choice(names)})) }}')
    calls.append(f'fn c5() -> str {{ let h: {rng.choice(["()->(int)", "(int)->(int)", "(int, int)->(int)"])} = {rng.choice(names)}; to_str(h({", ".join(["1"] * rng.choice([0, 1, 2]))})) }}')
    return '\n'.join(fns + apps + calls) + '\n'


def two_generics(rng):
    """generic functions of two type parameters whose bodies confuse them (must be rejected); accepted ones are instantiated at (int, str) and used"""
    bodies = ['a', 'b', '[a, a]', '[a, b]', '(a, b)', '(b, a)', 'if(true, a, b)', 'some(a)', 'some(b)', 'same(a, b)', 'first(a, b)', 'first(b, a)']
    rets = ['A', 'B', 'Sequence<A>', '(A, B)', 'Optional<A>']
    uses = {'A': 'R + 1', 'B': 'R + "x"', 'Sequence<A>': 'R.get(0) + 1', '(A, B)': 'R::item0 + 1', 'Optional<A>': 'R.value() + 1'}
    ret = rng.choice(rets)
    body = rng.choice(bodies)
    src = ('fn same<T>(x: T, y: T) -> T { x }\nfn first<T, U>(x: T, y: U) -> T { x }\n'
           f'fn pick<A, B>(a: A, b: B) -> {ret} {{ {body} }}\n'
           f'fn c0() -> str {{ to_str({uses[ret].replace("R", "pick(1, " + chr(34) + "s" + chr(34) + ")")}) }}\n')
    return src


def zero_arg_functions(src):
    return list(dict.fromkeys(re.findall(r'^fn\s+(\w+)\s*\(\s*\)', src, re.M)))


class C01(PropertyCheck):
    id = 'C01'
    imports = IMPORTS
    technique = ('Coq proof of type soundness (never stuck, values have the shape of their static type) for a core calculus whose checker is built from the C04 model; '
                 'calculus differential correspondence (verdict, static type, value) + no-crash sweep over generated, mutated and shipped programs under limits')
    trusted = ['the calculus printer (one AST as xray text and as a Coq term)', 'a crash of the interpreter is observed as a panic caught by the harness (catch_unwind) or a lost job']
    assumptions = ['the theorem covers the calculus of coq/Ty/Sound.v (first-order spelled parameters, no optional parameters, no user generics except orelse); the standard '
                   'library surface beyond it is covered by the no-crash sweep only']
    rule = ('(a) calculus bodies of depth <= 4 with 0-2 lets per body, typed by construction, half of them hit by 1-2 near-miss mutations; distinct = program text; non-trivial = '
            'contains an application, projection or orelse. (b) C02 programs, token mutations of them, token mutations of test_scripts/*.xr and book examples, each accepted '
            'program run under {no limits, small depth, small call budget, small memory}; distinct = program text; non-trivial = accepted by the compiler')

    def generate(self, rng, tier):
        return []

    def extra_checks(self, ctx):
        rng, tier, workdir = ctx['rng'], ctx['tier'], ctx['workdir']
        violations, samples = [], []
        n_eval = 0
        distinct = set()
        # ------------------------------------------------------------------ (a) calculus
        n = 250 if tier == 'quick' else 2500
        jobs, terms, srcs = [], [], []
        for i in range(n):
            g = CGen(rng)
            t = g.rty(rng.choice([0, 1, 2]))
            b = g.body(t, [], rng.choice([2, 3, 3, 4]), True)
            if rng.random() < 0.5:
                for _ in range(rng.choice([1, 1, 2])):
                    g.mutate(b)
            lets_txt, final = xr_body_parts(b, [])
            src_run = PRELUDE + f'fn c0() -> str {{ {lets_txt}to_str({final}) }}\n'
            src_any = PRELUDE + f'fn c0() -> int {{ {lets_txt}let r_ = {final}; 0 }}\n'
            src_probe = PRELUDE + f'fn c0() -> int {{ {lets_txt}let probe: Probe0 = {final}; 0 }}\n'
            jobs.append({'id': f'r{i}', 'src': src_run, 'calls': ['c0']})
            jobs.append({'id': f'a{i}', 'src': src_any, 'calls': ['c0']})
            jobs.append({'id': f'p{i}', 'src': src_probe, 'calls': []})
            terms.append(f'obs_prog {coq_body(b)}')
            srcs.append(src_any)
        res = {}
        for prof, binary in ctx['binaries']:
            res[prof] = core.run_harness(binary, jobs, os.path.join(workdir, 'ha_' + prof), timeout=600)
        model = core.coq_eval(terms, self.imports, os.path.join(workdir, 'coq'), shard_size=100, timeout=600)
        verdicts = {'ok': 0, 'rej': 0}
        for i, m in enumerate(model):
            if m is None:
                raise core.CheckError('model evaluation failed: ' + terms[i])
            if 'STUCK' in m:
                raise core.CheckError('the proved-sound checker accepted a program that gets stuck (impossible): ' + terms[i])
            for prof, _ in ctx['binaries']:
                ra, rr, rp = res[prof].get(f'a{i}'), res[prof].get(f'r{i}'), res[prof].get(f'p{i}')
                n_eval += 1
                c = ra.get('compile')
                case = {'src': srcs[i], 'profile': prof}
                if c and c.startswith('panic'):
                    violations.append({'what': 'the compiler itself crashed on a calculus program', 'case': case, 'impl': c, 'model': m})
                    continue
                acc = c == 'ok'
                want_acc = m.startswith('ok:')
                if re.search(r'Overload for add is ambiguous for param types \((int,\?|\?,int|\?,\?)\)', c or ''):
                    continue      # the library overloads + on int/float/str: a bottom-typed operand is outside the calculus' single signature
                verdicts['ok' if want_acc else 'rej'] += 1
                if acc != want_acc:
                    violations.append({'what': ('the compiler ACCEPTS a program the sound checker rejects' if acc else 'the compiler REJECTS a program of the calculus that is well typed'),
                                       'case': case, 'impl': c, 'model': m})
                    continue
                if not acc:
                    continue
                mt, mv = m[3:].split('|', 1)
                outs = [ra.get('inst')] + list(ra.get('calls') or [])
                if any(str(o).startswith(('P:', 'panic')) for o in outs):
                    violations.append({'what': 'an accepted program crashed the interpreter', 'case': case, 'impl': outs, 'model': m})
                    continue
                if '->' not in mt and mt != '?':
                    pt = re.search(r'Variable probe has type (.*), but expected Probe0', rp.get('compile') or '', re.S)
                    if not pt or pt.group(1) != mt:
                        violations.append({'what': 'the static type assigned to the expression differs from the sound checker\'s', 'case': case,
                                           'impl': pt.group(1) if pt else rp.get('compile'), 'model': mt})
                        continue
                if '?' not in mt and '->' not in mt and 'FUEL' not in mv and rr.get('compile') == 'ok':
                    out = rr['calls'][0] if rr.get('calls') else rr.get('inst')
                    got = out[2:] if out.startswith('s:') else ('E' if out.startswith('E:') else out)
                    if got != mv:
                        violations.append({'what': 'the value of an accepted program differs from the reference evaluation (a value of the wrong shape or a crash)',
                                           'case': {'src': jobs[3 * i]['src'], 'profile': prof}, 'impl': out, 'model': mv})
                        continue
                if any(w in srcs[i].split('plus(a: int', 1)[1] for w in (')(', '::item', 'orelse(')):
                    distinct.add(srcs[i])
                if len(samples) < 4 and want_acc == (len(samples) % 2 == 0):
                    samples.append({'program': srcs[i].split('\n', 2)[2][:300], 'model': m[:120]})
        # ------------------------------------------------------------------ (b) no-crash sweep
        progs = []
        for _ in range(40 if tier == 'quick' else 400):
            decls, obs = gen_program(rng, nobs=4, err_rate=0.05, depth=3)
            src = '\n'.join(d.xr() for d in decls)
            progs.append(('generated', src))
            for _ in range(3):
                progs.append(('generated+mutation', tokens_mutate(rng, src)))
        for _ in range(30 if tier == 'quick' else 300):
            progs.append(('typed-ladder', typed_ladder(rng)))
            progs.append(('forward-declaration', forward_template(rng)))
            progs.append(('mixed-container-comparison', mixed_container(rng)))
            progs.append(('callable-arity', callable_arity(rng)))
            progs.append(('two-generics', two_generics(rng)))
        corpus = sorted(glob.glob('/repo/test_scripts/*.xr'))
        book = []
        for md in sorted(glob.glob('/repo/book/src/**/*.md', recursive=True)):
            for blk in re.findall(r'```xray[^\n]*\n(.*?)```', open(md, encoding='utf-8').read(), re.S):
                book.append(blk)
        pick = corpus if tier == 'thorough' else rng.sample(corpus, 60)
        for f in pick:
            src = open(f, encoding='utf-8').read()
            progs.append(('shipped', src))
            for _ in range(2 if tier == 'quick' else 6):
                progs.append(('shipped+mutation', tokens_mutate(rng, src)))
        for blk in (book if tier == 'thorough' else rng.sample(book, min(40, len(book)))):
            progs.append(('book', blk))
            progs.append(('book+mutation', tokens_mutate(rng, blk)))
        configs = [None, {'depth': 8}, {'ud_calls': 20}, {'size': 4096}, {'recursion': 5, 'search': 5}]
        sjobs = []
        for k, (kind, src) in enumerate(progs):
            fns = zero_arg_functions(src)[:6]
            for ci, lim in enumerate(configs if tier == 'thorough' else configs[:3] + [configs[3 + k % 2]]):
                j = {'id': f'n{k}c{ci}', 'src': src, 'calls': fns}
                if lim:
                    j['limits'] = dict(lim, time_ms=2000)
                else:
                    j['limits'] = {'time_ms': 2000, 'ud_calls': 200000, 'size': 1 << 26}
                sjobs.append((j, kind))
        sres = core.run_harness(ctx['binary'], [j for j, _ in sjobs], os.path.join(workdir, 'hb'), timeout=1800, single_timeout=30)
        kinds = {}
        for j, kind in sjobs:
            r = sres.get(j['id'])
            n_eval += 1
            case = {'src': j['src'], 'limits': j.get('limits'), 'origin': kind}
            if r is None:
                violations.append({'what': 'the interpreter was lost (abort / hang beyond every limit) on an accepted-or-rejected program', 'case': case, 'impl': 'no result'})
                continue
            c = r.get('compile') or ''
            if c.startswith('panic') or c.startswith('H:') or c.startswith('A:'):
                if 'not an expression' in c or c.startswith('H:'):
                    pass
                violations.append({'what': 'the compiler crashed or hung instead of accepting or rejecting the program (also C12)', 'case': case, 'impl': c[:400]})
                continue
            if c != 'ok':
                kinds[kind + ':rejected'] = kinds.get(kind + ':rejected', 0) + 1
                continue
            kinds[kind + ':accepted'] = kinds.get(kind + ':accepted', 0) + 1
            outs = [str(r.get('inst'))] + [str(x) for x in (r.get('calls') or [])]
            bad = [o for o in outs if o.startswith(('P:', 'panic'))]
            if bad:
                violations.append({'what': 'an accepted program crashed the interpreter (internal panic instead of a value, an error value or a violation)',
                                   'case': case, 'impl': bad[0][:400]})
            else:
                distinct.add(j['src'])
        ctx['coverage'] = {'evaluations': n_eval, 'distinct_nontrivial': len(distinct), 'samples': samples, 'calculus_programs': n, 'calculus_model_verdicts': verdicts,
                           'sweep_programs': len(progs), 'sweep_outcomes': kinds}
        return violations


PROP = C01()
