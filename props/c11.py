"""C11 - side effects happen only with permission.
Exhaustive over the finite part: all 64 permission assignments x every effectful entry point x call-path shapes
(direct, wrapper, closure, map/filter/reduce callback, default parameter, lazily evaluated element), with recording
doubles for the writer, the clock and the random source.  The Coq model [Rt.Perm.run] predicts, for every assignment
and every entry point (as a sequence of guarded sites), the violation named and the effects that may have happened."""
import itertools
import os

from lib import core
from lib.runner import PropertyCheck

PERMS = ['now', 'print', 'print_debug', 'random', 'regex', 'sleep']
PC = {'now': 'PNow', 'print': 'PPrint', 'print_debug': 'PPrintDebug', 'random': 'PRandom', 'regex': 'PRegex', 'sleep': 'PSleep'}
DEFAULT = {'now': True, 'print': True, 'print_debug': True, 'random': True, 'regex': False, 'sleep': False}

# name: (expression, type, [(permission, effect)] in evaluation order)
ENTRIES = {
    'display': ('display(7)', 'int', [('print', 'EWrite')]),
    'display_prefix': ('display(7, "p=")', 'int', [('print', 'EWrite')]),
    'debug': ('debug(7)', 'int', [('print_debug', 'EWrite')]),
    'now': ('now().unix()', 'float', [('now', 'EClock')]),
    'random': ('random()', 'float', [('random', 'ERng')]),
    'sample_pool': ('[1,2,3].sample(2).len()', 'int', [('random', 'ERng')]),
    'sample_pick': ('range(100000).sample(2).len()', 'int', [('random', 'ERng')]),
    'sample_counts': ('sample([1,2,3], 2, [5,5,5]).len()', 'int', [('random', 'ERng')]),
    'shuffle': ('[1,2,3].shuffle().len()', 'int', [('random', 'ERng')]),
    'random_choices': ('random_choices([1,2,3], 2).len()', 'int', [('random', 'ERng')]),
    'cont_sample': ('normal_distribution(0.0, 1.0).sample(2).len()', 'int', [('random', 'ERng')]),
    'cont_random': ('exp_distribution(1.0).random()', 'float', [('random', 'ERng')]),
    'disc_sample': ('poisson_distribution(3.0).sample(2).len()', 'int', [('random', 'ERng')]),
    'disc_random': ('uniform_distribution(1, 6).random()', 'int', [('random', 'ERng')]),
    'regex': ('regex("a+b").match("aab").has_value()', 'bool', [('regex', 'ERegex')]),
    'regex_bad': ('is_error(regex("(unclosed"))', 'bool', [('regex', 'ERegex')]),
    'sleep': ('sleep(seconds(0.0), 5)', 'int', [('sleep', 'ESleep')]),
    # two effects in sequence: left to right, the first disabled one is named
    'print_then_now': ('to_str(display(1)) + to_str(now().unix())', 'str', [('print', 'EWrite'), ('now', 'EClock')]),
    'debug_then_random': ('to_str(debug(1)) + to_str(random())', 'str', [('print_debug', 'EWrite'), ('random', 'ERng')]),
    'now_then_print': ('to_str(now().unix()) + to_str(display(2))', 'str', [('now', 'EClock'), ('print', 'EWrite')]),
}

SHAPES = {
    'direct': lambda n, e, t: f'fn {n}()->{t}{{ {e} }}',
    'wrapper': lambda n, e, t: f'fn {n}_w()->{t}{{ {e} }}\nfn {n}()->{t}{{ {n}_w() }}',
    'closure': lambda n, e, t: f'fn {n}()->{t}{{ let g = ()->{{ {e} }}; g() }}',
    'map_cb': lambda n, e, t: f'fn {n}()->{t}{{ [0].map((i:int)->{{ {e} }}).to_array()[0] }}',
    'filter_cb': lambda n, e, t: f'fn {n}()->int{{ [0].filter((i:int)->{{ to_str({e}).len() >= 0 }}).to_array().len() }}',
    'reduce_cb': lambda n, e, t: f'fn {n}()->int{{ [0,1].to_generator().reduce((a:int, b:int)->{{ to_str({e}).len() }}) }}',
    'default_param': lambda n, e, t: f'fn {n}()->{t}{{ fn w(x: {t} ?= {e})->{t}{{ x }} w() }}',
    'lazy_elem': lambda n, e, t: f'fn {n}()->{t}{{ let s = [0].map((i:int)->{{ {e} }}); s[0] }}',
}


def cfg_coq(assign):
    arms = [f'{PC[p]} => Some {"true" if v else "false"}' for p, v in assign.items() if v is not None]
    if len(arms) < len(PC):
        arms.append('_ => None')
    return '(fun p => match p with ' + ' | '.join(arms) + ' end)'


class C11(PropertyCheck):
    id = 'C11'
    imports = ('From Coq Require Import String List Bool.\nFrom Xr Require Import Base.Res Base.Show Rt.Perm.\nImport ListNotations.\n'
               'Definition show_eff (e : eff) : string := match e with EWrite => "w" | EClock => "c" | ERng => "r" | ERegex => "x" | ESleep => "s" end.\n'
               'Definition show_run (r : list (perm * eff) * option perm) : string :=\n'
               '  (String.concat "" (map (fun pe => show_eff (snd pe)) (fst r)) ++ "|" ++ match snd r with None => "ok" | Some p => perm_id p end)%string.\n')
    technique = 'Coq proof that guarded effect sites never fire without their permission, extracted site/permission tables, exhaustive 64-configuration differential run with recording doubles'
    trusted = ['translator/perms.py (reads permission table and effect sites from the Rust source text)',
               'an evaluation is abstracted to the sequence of native effect sites it executes']
    assumptions = ['effects enter the world only through the natives inventoried by the translator (stdout writes, unix_now, get_rng, thread::sleep, regex compilation)']
    rule = ('all 64 explicit permission assignments (each of the 6 permissions explicitly allowed or forbidden) plus the all-default '
            'assignment, x every entry point x every call-path shape; distinct = (assignment, entry, shape); non-trivial = at least one '
            'permission of the entry is forbidden, or the effect is observed on a recording double')

    def generate(self, rng, tier):
        return []

    def pre_build(self):
        from lib import extract
        try:
            self._info = extract.run_all()['perms']
            self._err = None
        except Exception as e:        # fails closed: the obligation below is reported as broken
            self._info = ([], [])
            self._err = str(e)

    def extracted_obligations(self):
        if self._err:
            return [('perms_translator', False, f'translator failed: {self._err}')]
        defaults, sites = self._info
        return [('perms_translator_found_sites', len(sites) >= 5 and len(defaults) == 6,
                 f'{len(sites)} sites, {len(defaults)} permissions')]

    def extra_checks(self, ctx):
        binary = ctx['binary']
        workdir = ctx['workdir']
        tier = ctx['tier']
        # program: all entry x shape functions
        fns = []
        src = []
        for en, (expr, ty, sites) in ENTRIES.items():
            for sh, mk in SHAPES.items():
                name = f'f_{en}_{sh}'
                src.append(mk(name, expr, ty))
                fns.append((name, en, sh))
        program = '\n'.join(src)
        configs = []
        for bits in itertools.product([True, False], repeat=6):
            configs.append(dict(zip(PERMS, bits)))
        configs.append({p: None for p in PERMS})          # all defaults
        if tier == 'thorough':
            # partially specified assignments (some permissions left to their defaults)
            for bits in itertools.product([True, False, None], repeat=6):
                if None in bits and sum(b is None for b in bits) in (1, 5):
                    configs.append(dict(zip(PERMS, bits)))
        jobs = []
        for ci, cfg in enumerate(configs):
            jobs.append({'id': f'c{ci}', 'src': program, 'calls': [n for n, _, _ in fns],
                         # every second configuration names the permissions by id through host-made Permission values (same id, the
                         # other default) instead of the builtin constants: the outcome must be the same
                         'limits': {'perms': {p: v for p, v in cfg.items() if v is not None}, 'perms_by_id': ci % 2 == 1}})
        res = core.run_harness(binary, jobs, os.path.join(workdir, 'h'), timeout=600)
        # model predictions: per (config, entry)
        terms = []
        keys = []
        for ci, cfg in enumerate(configs):
            for en, (expr, ty, sites) in ENTRIES.items():
                sl = '; '.join(f'mk_site (Some {PC[p]}) {e}' for p, e in sites)
                terms.append(f'show_run (run {cfg_coq(cfg)} [{sl}])')
                keys.append((ci, en))
        model = core.coq_eval(terms, self.imports, os.path.join(workdir, 'coq'))
        pred = dict(zip(keys, model))
        violations = []
        n_eval = 0
        distinct = 0
        samples = []
        for ci, cfg in enumerate(configs):
            r = res.get(f'c{ci}')
            if r is None or r.get('compile') != 'ok':
                raise core.CheckError(f'C11 program failed to compile/run: {r and r.get("compile")}')
            if r.get('inst') != 'ok':
                violations.append({'what': 'instantiation of a program that only declares functions touched a guarded effect or failed',
                                   'case': {'perms': cfg, 'src': program[:200]}, 'impl': r.get('inst')})
                continue
            prev = {'writer': 0, 'clock': 0, 'rng': 0}
            for (name, en, sh), out, touched in zip(fns, r['calls'], r['calls_touched']):
                n_eval += 1
                delta = {k: touched[k] - prev[k] for k in prev}
                prev = touched
                m = pred[(ci, en)]
                if m is None:
                    raise core.CheckError('model evaluation failed')
                effs, verdict = m.split('|')
                case = {'perms': cfg, 'entry': en, 'shape': sh, 'src': SHAPES[sh](name, *ENTRIES[en][:2]), 'call': name}
                exp_w, exp_c, exp_r = ('w' in effs), ('c' in effs), ('r' in effs)
                if verdict == 'ok':
                    if out[:2] in ('X:', 'P:', 'H:', 'A:'):
                        violations.append({'what': 'all needed permissions are enabled but the evaluation did not complete',
                                           'case': case, 'impl': out, 'model': m})
                        continue
                else:
                    want = f'X:PermissionError("{verdict}")'
                    if out != want:
                        violations.append({'what': 'a needed permission is disabled but the evaluation did not end in the permission violation naming it',
                                           'case': case, 'impl': out, 'model': m})
                        continue
                # doubles: touched iff the model says the effect happened (never when its permission is off)
                if (delta['writer'] > 0) != exp_w or (delta['clock'] > 0) != exp_c or (delta['rng'] > 0) != exp_r:
                    violations.append({'what': 'injected writer / clock / random source touched differently from what the guarded-site model allows',
                                       'case': case, 'impl': {'result': out, 'touched': delta}, 'model': m})
                    continue
                enabled_all = all((cfg[p] if cfg[p] is not None else DEFAULT[p]) for p, _ in ENTRIES[en][2])
                if (not enabled_all) or delta['writer'] or delta['clock'] or delta['rng']:
                    distinct += 1
                if len(samples) < 8 and ci in (5, 37) and sh in ('map_cb', 'default_param'):
                    samples.append({'perms': cfg, 'fn': case['src'], 'impl': out, 'touched': delta, 'model': m})
        ctx['coverage'] = {'evaluations': n_eval, 'distinct_nontrivial': distinct, 'samples': samples,
                           'exhaustive': True, 'configurations': len(configs), 'entry_points': len(ENTRIES), 'shapes': len(SHAPES)}
        return violations


PROP = C11()
