"""C19 - derived equality, hash, order and text are coherent; sorting is right.
(a) nested values (int, str, tuple, Sequence; depth <= 3, many ties): cmp / eq / ne / lt / le / gt / ge / min / max / hash /
    to_str of generated pairs are compared with vcmp of coq/Ord/Derived.v (a total order consistent with equality:
    coq/Ord/DerivedProofs.v) and with the text rendering; floats (with -0.0), optionals, stacks, sets and mappings are
    checked against the coherence laws and Python equality;
(b) sorting and order statistics of sequences of length 0-200 with ties, through the dynamic cmp and through key
    comparators (preorders), against the reference stable sort isort (permutation, ordered, stable: proved); a comparator
    that fails on a pair that every sort must compare yields that failure and leaves no accounted bytes behind;
(c) format: the documented specifier grammar [[fill]align][sign][#][0][width][grouping][mode] for int and str against a
    Python reference of the documented rules; format(x, "") == to_str(x) for int, float, str."""
import os
import re

from lib import core
from lib.runner import PropertyCheck

IMPORTS = ('From Coq Require Import List ZArith NArith String Ascii.\nFrom Xr Require Import Base.Show Ord.Derived Ord.Pad Ord.TimSort Ord.TimSortTrace.\nImport ListNotations.\nOpen Scope Z_scope.\n'
           'Fixpoint show_codes (l : list N) : string := match l with nil => EmptyString | c :: r => String (ascii_of_N c) (show_codes r) end.\n'
           'Definition show_c (c : comparison) : string := match c with Lt => "-1"%string | Eq => "0"%string | Gt => "1"%string end.\n')


class V:
    def __init__(self, k, x):
        self.k, self.x = k, x

    def xr(self):
        if self.k == 'i':
            return str(self.x) if self.x >= 0 else f'({self.x})'
        if self.k == 's':
            return '"' + self.x + '"'
        if self.k == 't':
            return '(' + ', '.join(v.xr() for v in self.x) + ')'
        return '[' + ', '.join(v.xr() for v in self.x) + ']'

    def coq(self):
        def lst(vs):
            out = 'VNil'
            for v in reversed(vs):
                out = f'(VCons {v.coq()} {out})'
            return out
        if self.k == 'i':
            return f'(VI {self.x})' if self.x >= 0 else f'(VI ({self.x}))'
        if self.k == 's':
            return '(VS [' + '; '.join(f'{ord(c)}%N' for c in self.x) + '])'
        if self.k == 't':
            return f'(VT {lst(self.x)})'
        return f'(VQ {lst(self.x)})'

    def text(self):
        if self.k == 'i':
            return str(self.x)
        if self.k == 's':
            return self.x
        if self.k == 't':
            return '(' + ', '.join(v.text() for v in self.x) + ')'
        return '[' + ', '.join(v.text() for v in self.x) + ']'


def gen_type(rng, d):
    if d == 0 or rng.random() < 0.3:
        return rng.choice(['i', 'i', 's'])
    if rng.random() < 0.5:
        return ('t', [gen_type(rng, d - 1) for _ in range(rng.choice([2, 2, 3]))])
    return ('q', gen_type(rng, d - 1))


def gen_val(rng, t):
    if t == 'i':
        return V('i', rng.choice([0, 1, 2, 3, -1, -2, 10, 2 ** 64, -(2 ** 64)]))
    if t == 's':
        return V('s', ''.join(rng.choice('abAB z') for _ in range(rng.choice([0, 1, 1, 2, 3]))))
    if t[0] == 't':
        return V('t', [gen_val(rng, c) for c in t[1]])
    return V('q', [gen_val(rng, t[1]) for _ in range(rng.choice([0, 1, 2, 2, 3, 5]))])


def mutate_val(rng, v, t):
    r = rng.random()
    if r < 0.3:
        return v
    if v.k in ('i', 's'):
        return gen_val(rng, t)
    if v.k == 't':
        i = rng.randrange(len(v.x))
        return V('t', [mutate_val(rng, c, t[1][j]) if j == i else c for j, c in enumerate(v.x)])
    xs = list(v.x)
    if xs and r < 0.6:
        i = rng.randrange(len(xs))
        xs[i] = mutate_val(rng, xs[i], t[1])
    elif r < 0.8:
        xs = xs[:-1] if xs else [gen_val(rng, t[1])]
    else:
        xs = xs + [gen_val(rng, t[1])]
    return V('q', xs)


def has_empty_seq(v):
    return (v.k == 'q' and not v.x) or (v.k in ('t', 'q') and any(has_empty_seq(c) for c in v.x))


def ty_xr(t):
    if t == 'i':
        return 'int'
    if t == 's':
        return 'str'
    if t[0] == 't':
        return '(' + ', '.join(ty_xr(c) for c in t[1]) + ')'
    return 'Sequence<' + ty_xr(t[1]) + '>'


# ---- documented format rules (lang/std_conventions.md#formatting)
def ref_format_int(x, fill, align, sign, alt, zero, width, grouping, mode):
    radix = {None: 10, 'x': 16, 'X': 16, 'o': 8, 'O': 8, 'b': 2, 'B': 2}[mode]
    mag = abs(x)
    digs = '0123456789abcdef'          # the digits of mode X are lower case too; only the alt prefix keeps the mode character
    body = ''
    if mag == 0:
        body = '0'
    while mag:
        body = digs[mag % radix] + body
        mag //= radix
    if grouping:
        parts = []
        while len(body) > 3:
            parts.insert(0, body[-3:])
            body = body[:-3]
        parts.insert(0, body)
        body = grouping.join(parts)
    sp = '-' if x < 0 else ('+' if sign == '+' else (' ' if sign == ' ' else ''))
    if alt:
        sp += '0' + mode
    if zero and align is None:
        fill, align = '0', '='
    ref_format_int.parts = (sp, body, fill or ' ', align or '>')
    if width is None:
        return sp + body
    fill = fill or ' '
    align = align or '>'
    pad = max(0, width - len(sp) - len(body))
    if align == '>':
        return fill * pad + sp + body
    if align == '<':
        return sp + body + fill * pad
    if align == '=':
        return sp + fill * pad + body
    left = pad // 2
    return fill * left + sp + body + fill * (pad - left)


def ref_format_str(s, fill, align, width):
    if width is None:
        return s
    fill = fill or ' '
    align = align or '>'
    pad = max(0, width - len(s))
    if align == '>' or align == '=':
        return fill * pad + s
    if align == '<':
        return s + fill * pad
    left = pad // 2
    return fill * left + s + fill * (pad - left)


class C19(PropertyCheck):
    id = 'C19'
    imports = IMPORTS
    technique = ('Coq proofs that the derived lexicographic comparison is a total order consistent with equality and that the reference stable sort returns an ordered, '
                 'stable permutation; value-pair, sorting and format-specifier differential correspondence; coherence laws for floats and hashed containers')
    trusted = ['the Python rendering of nested values and the Python reference of the documented format rules', 'hash coherence is checked as an implication on the interpreter\'s own outputs']
    assumptions = ['strings are ASCII in the order model (code-point order)', 'optionals, stacks, sets and mappings are checked against laws / Python equality, not modelled in Coq',
                   'float formatting with a precision or mode is not checked (only format(x, "") == to_str(x))']
    rule = ('value pairs of nested types (depth <= 3, sizes 0-5, second value a mutation of the first); sequences of length 0-200 of small ints with many ties under dynamic cmp, '
            'key comparators, reverse, order statistics, failing comparators; format specs drawn from the documented grammar; distinct = program text; non-trivial = values differ '
            'or sequence longer than 20 elements')

    def generate(self, rng, tier):
        return []

    def extra_checks(self, ctx):
        rng, tier, workdir = ctx['rng'], ctx['tier'], ctx['workdir']
        violations, samples = [], []
        n_eval, distinct = 0, set()
        # ------------------------------------------------------------------ (a) value pairs
        jobs, terms, meta = [], [], []
        for i in range(150 if tier == 'quick' else 1500):
            t = gen_type(rng, rng.choice([1, 2, 3]))
            a = gen_val(rng, t)
            b = mutate_val(rng, a, t)
            if has_empty_seq(a) or has_empty_seq(b):
                # an empty literal has the bottom element type: spell the type through a typed binding
                pass
            T = ty_xr(t)
            src = (f'fn c0() -> str {{ let a: {T} = {a.xr()}; let b: {T} = {b.xr()}; '
                   'to_str((cmp(a, b), a == b, a != b, a < b, a <= b, a > b, a >= b, hash(a) == hash(b), hash(a) >= 0 && hash(a) < 18446744073709551616, to_str(a), to_str(max(a, b)), to_str(min(a, b)))) }')
            jobs.append({'id': f'v{i}', 'src': src, 'calls': ['c0']})
            terms.append(f'show_c (vcmp {a.coq()} {b.coq()})')
            meta.append((a, b))
        res = core.run_harness(ctx['binary'], jobs, os.path.join(workdir, 'ha'), timeout=300)
        model = core.coq_eval(terms, self.imports, os.path.join(workdir, 'coq'), shard_size=200, timeout=600)
        for job, m, (a, b) in zip(jobs, model, meta):
            r = res.get(job['id'])
            n_eval += 1
            if m is None:
                raise core.CheckError('model evaluation failed')
            if r is None or r.get('compile') != 'ok':
                raise core.CheckError(f'value program failed: {r and r.get("compile")}\n{job["src"]}')
            c = int(m)
            tf = lambda x: 'true' if x else 'false'
            mx, mn = (a, b) if c >= 0 else (b, a)
            if c == 0:
                mxs = mns = {a.text()}
            else:
                mxs, mns = {mx.text()}, {mn.text()}
            want = [str(c), tf(c == 0), tf(c != 0), tf(c < 0), tf(c <= 0), tf(c > 0), tf(c >= 0), None, 'true', a.text()]
            out = r['calls'][0]
            if not out.startswith('s:('):
                violations.append({'what': 'derived comparison of nested values ended in an error', 'case': {'src': job['src']}, 'impl': out[:300], 'model': m})
                continue
            # split the rendered tuple from the left (the text fields are last)
            parts = out[3:-1].split(', ', 9)
            got = parts[:9]
            rest = parts[9] if len(parts) > 9 else ''
            ok = True
            names = ['cmp', '==', '!=', '<', '<=', '>', '>=', 'hash equality', 'hash range']
            sign = lambda s: str((int(s) > 0) - (int(s) < 0)) if re.fullmatch(r'-?\d+', s) else s
            got[0] = sign(got[0])
            for k, (g, w) in enumerate(zip(got, want)):
                if w is None:
                    if c == 0 and g != 'true':
                        violations.append({'what': 'equal values have different hashes', 'case': {'src': job['src']}, 'impl': out[:300], 'model': 'hash(a) == hash(b)'})
                        ok = False
                    continue
                if g != w:
                    violations.append({'what': f'derived {names[k]} disagrees with the lexicographic total order consistent with equality', 'case': {'src': job['src']},
                                       'impl': f'{names[k]} = {g} in {out[:200]}', 'model': f'cmp = {c}: {names[k]} = {w}'})
                    ok = False
                    break
            if ok:
                exp_tail = [a.text() + ', ' + x + ', ' + y for x in mxs for y in mns]
                if rest not in exp_tail:
                    violations.append({'what': 'to_str / max / min of nested values disagree with the derived order or the text rendering', 'case': {'src': job['src']},
                                       'impl': rest[:300], 'model': exp_tail[0][:300]})
                elif c != 0:
                    distinct.add(job['src'])
        # floats, optionals, stacks, sets, mappings: laws
        lj = []
        floats = ['0.0', '(-0.0)', '1.5', '(-1.5)', '1e300', '5e-324', '2.0', '0.1']
        for x in floats:
            for y in floats:
                lj.append(('float', f'to_str(((cmp({x}, {y}) == 0) == ({x} == {y}), ({x} < {y}) == (cmp({x}, {y}) < 0), ({x} >= {y}) == (cmp({x}, {y}) >= 0), '
                                    f'cmp({x}, {y}) == 0 - cmp({y}, {x}), format({x}, "") == to_str({x}), '
                                    f'(cmp([{x}], [{y}]) == 0) == ([{x}] == [{y}]), (max({x}, {y}) == {x}) || (max({x}, {y}) == {y})))', 's:(' + ', '.join(['true'] * 7) + ')'))
        ents = [[], [(1, 1)], [(1, 1), (2, 2)], [(2, 2), (1, 1)], [(1, 1), (2, 3)], [(1, 1), (17, 2)], [(1, 2)], [(1, 1), (2, 2), (3, 3)], [(3, 3), (2, 2), (1, 1)]]
        mk_map = lambda es: 'mapping<int>()' + ''.join(f'.set({k}, {v})' for k, v in es) if es else 'mapping<int>().set(9, 9).discard(9)'
        mk_set = lambda es: 'set<int>()' + ''.join(f'.add({k})' for k, _ in es) if es else 'set<int>().add(9).remove(9)'
        for e1 in ents:
            for e2 in ents:
                eqm = dict(e1) == dict(e2)
                eqs = set(k for k, _ in e1) == set(k for k, _ in e2)
                lj.append(('mapping', f'to_str(({mk_map(e1)} == {mk_map(e2)}, !({mk_map(e1)} == {mk_map(e2)}) || hash({mk_map(e1)}) == hash({mk_map(e2)})))', f's:({"true" if eqm else "false"}, true)'))
                lj.append(('set', f'to_str(({mk_set(e1)} == {mk_set(e2)}, !({mk_set(e1)} == {mk_set(e2)}) || hash({mk_set(e1)}) == hash({mk_set(e2)})))', f's:({"true" if eqs else "false"}, true)'))
        opts = ['some(1)', 'some(2)', 'some(1).map((x: int)->{x})', 'some(3).map((x: int)->{x - 2})']
        for x in opts:
            for y in opts:
                eq = eval(x.split('(')[1].split(')')[0]) if False else None
        optvals = {'some(1)': 1, 'some(2)': 2, 'some(0 + 1)': 1, 'some([1].len())': 1}
        for x, vx in optvals.items():
            for y, vy in optvals.items():
                lj.append(('optional', f'to_str(({x} == {y}, !({x} == {y}) || hash({x}) == hash({y})))', f's:({"true" if vx == vy else "false"}, true)'))
        # hashes stay inside [0, 2^64) also when a component's own hash is the largest admissible one (hash(-1) = hash(2^64 - 1) = 2^64 - 1),
        # and such values still work as set members / mapping keys and inside tuples and sequences
        for x, ty in [('some(0 - 1)', 'Optional<int>'), ('some(18446744073709551615)', 'Optional<int>'), ('some(some(0 - 2))', 'Optional<Optional<int>>'),
                      ('some(some(0 - 1))', 'Optional<Optional<int>>'), ('(0 - 1, 0 - 1)', '(int, int)'), ('[0 - 1, 18446744073709551615]', 'Sequence<int>'),
                      ('(some(0 - 1), 1)', '(Optional<int>, int)'), ('[some(0 - 1)]', 'Sequence<Optional<int>>'), ('some((0 - 1, "x"))', 'Optional<(int, str)>')]:
            lj.append(('hash-range', f'to_str((hash({x}) >= 0 && hash({x}) < 18446744073709551616, set<{ty}>().add({x}).contains({x}), mapping<{ty}>().set({x}, 1).lookup({x}) == some(1), hash({x}) == hash({x})))',
                       's:(true, true, true, true)'))
        stacks = {'stack().push(1).push(2)': [1, 2], 'stack().push(1).push(2).push(3).tail()': [1, 2], 'stack().push(2).push(1)': [2, 1], 'stack().push(1)': [1]}
        for x, vx in stacks.items():
            for y, vy in stacks.items():
                lj.append(('stack', f'to_str(({x} == {y}, !({x} == {y}) || hash({x}) == hash({y})))', f's:({"true" if vx == vy else "false"}, true)'))
        ljobs = [{'id': f'l{i}', 'src': f'fn c0() -> str {{ {e} }}', 'calls': ['c0']} for i, (_, e, _) in enumerate(lj)]
        lres = core.run_harness(ctx['binary'], ljobs, os.path.join(workdir, 'hl'), timeout=300)
        for job, (kind, e, want) in zip(ljobs, lj):
            r = lres.get(job['id'])
            n_eval += 1
            got = r['calls'][0] if r and r.get('compile') == 'ok' else (r and r.get('compile'))
            if r and r.get('compile') != 'ok' and kind in ('mapping', 'set', 'stack', 'optional'):
                raise core.CheckError(f'law program does not compile: {got}\n{job["src"]}')
            if got != want:
                violations.append({'what': f'{kind}: derived eq / cmp / hash / format are not coherent (each component of the tuple must be true, equality must be structural)',
                                   'case': {'src': job['src']}, 'impl': str(got)[:300], 'model': want})
            else:
                distinct.add(job['src'])
        # ------------------------------------------------------------------ (b) sorting
        sj, sterms, smeta = [], [], []
        for i in range(60 if tier == 'quick' else 600):
            n = rng.choice([0, 1, 2, 5, 19, 20, 21, 22, 25, 40, 64, 100, 200] if tier == 'thorough' else [0, 1, 2, 5, 19, 20, 21, 25, 40, 64])
            m = rng.choice([2, 3, 5, 7])
            xs = [rng.randint(0, 30) for _ in range(n)]
            if rng.random() < 0.3:
                xs.sort(reverse=rng.random() < 0.5)
            if rng.random() < 0.3 and n > 4:
                k = rng.randrange(n)
                xs[k:] = sorted(xs[k:])
            if rng.random() < 0.45 and n > 20:
                # two to four runs that are ascending BY KEY (x % m), of unequal lengths, with the same keys in every run:
                # merges with a shorter right run / shorter left run and many ties across the runs
                cuts = sorted(rng.sample(range(1, n), rng.choice([1, 1, 2, 3])))
                parts, prev = [], 0
                for c_ in cuts + [n]:
                    parts.append(sorted(xs[prev:c_], key=lambda v: v % m))
                    prev = c_
                xs = [v for p_ in parts for v in p_]
                form_force = 'key'
            else:
                form_force = None
            lit = '[' + ', '.join(map(str, xs)) + ']'
            if n == 0:
                lit = 'range(0).to_array()'
            form = form_force or rng.choice(['dyn', 'key', 'key', 'reverse', 'nsmall', 'nth', 'nlarge', 'median'])
            srt = sorted(xs)
            if form == 'dyn':
                e, want = f'{lit}.sort()', None
                term = f'show_list show_Z (isort Z.leb [{"; ".join(map(str, xs))}])'
            elif form == 'key':
                e = f'{lit}.sort((a: int, b: int)->{{a % {m} - b % {m}}})'
                # the model of the interpreter's own merge sort (Ord/TimSort.v; proved equal to isort) is what is evaluated here
                term = (f'match tsort (fun a b => Z.leb (a mod {m}) (b mod {m})) [{"; ".join(map(str, xs))}] with '
                        f'Some r => show_list show_Z r | None => "model-out-of-fuel"%string end')
            elif form == 'reverse':
                e = f'{lit}.sort_reverse()'
                term = f'show_list show_Z (rev (isort Z.leb [{"; ".join(map(str, xs))}]))'
            elif form == 'nsmall':
                k = rng.randint(0, max(0, n))
                e = f'{lit}.n_smallest({k})'
                term = f'show_list show_Z (firstn {k} (isort Z.leb [{"; ".join(map(str, xs))}]))'
            elif form == 'nlarge':
                k = rng.randint(0, max(0, n))
                e = f'{lit}.n_largest({k})'
                term = f'show_list show_Z (firstn {k} (rev (isort Z.leb [{"; ".join(map(str, xs))}])))'
            elif form == 'nth':
                if n == 0:
                    continue
                k = rng.randrange(n)
                e = f'{lit}.nth_smallest({k})'
                term = f'show_Z (nth {k} (isort Z.leb [{"; ".join(map(str, xs))}]) 0)'
            else:
                if n == 0 or n % 2 == 0:
                    continue
                e = f'{lit}.median()'
                term = f'show_Z (nth {n // 2} (isort Z.leb [{"; ".join(map(str, xs))}]) 0)'
            sj.append({'id': f's{i}', 'src': f'fn c0() -> str {{ to_str({e}) }}', 'calls': ['c0']})
            sterms.append(term)
            smeta.append((form, n))
        # failing comparators: the pair (lo, hi) is adjacent in the sorted order, so every comparison sort compares it
        fj = []
        for i in range(20 if tier == 'quick' else 200):
            n = rng.choice([2, 3, 5, 19, 21, 25, 40, 64])
            xs = rng.sample(range(0, 1000), n)
            s_ = sorted(xs)
            k = rng.randrange(n - 1)
            lo, hi = s_[k], s_[k + 1]
            lit = '[' + ', '.join(map(str, xs)) + ']'
            cmpf = f'(a: int, b: int)->{{ if((a == {lo} && b == {hi}) || (a == {hi} && b == {lo}), error("boom"), a - b) }}'
            fj.append({'id': f'f{i}', 'src': f'fn c0() -> str {{ to_str({lit}.sort({cmpf})) }}\nfn c1() -> str {{ to_str({lit}.sort((a: int, b: int)->{{a - b}})) }}', 'calls': ['c0', 'c1'],
                       'ops': None})
        for j in fj:
            j.pop('ops')
        # a comparator that fails on ONE ordered pair and says so on the output: whenever the marker was printed the sort must return that failure
        mj = []
        for i in range(40 if tier == 'quick' else 400):
            n = rng.choice([2, 3, 4, 5, 8, 19, 21, 25, 40])
            xs = rng.sample(range(0, 1000), n)
            if rng.random() < 0.5:
                k = rng.randrange(n - 1)
                X, Y = xs[k], xs[k + 1]
            else:
                X, Y = rng.sample(xs, 2)
            lit = '[' + ', '.join(map(str, xs)) + ']'
            cmpf = f'(a: int, b: int)->{{ if(a == {X} && b == {Y}, error(display("boom")), a - b) }}'
            form = rng.choice(['sort', 'sort', 'sort_reverse', 'n_smallest(2, ', 'nth_smallest(0, '])
            call = f'{lit}.{form}({cmpf})' if '(' not in form else f'{lit}.{form}{cmpf})'
            mj.append({'id': f'm{i}', 'src': f'fn c0() -> str {{ to_str({call}) }}', 'calls': ['c0']})
        # the comparator prints every pair it is called with: the printed sequence must be the call sequence of the model of the
        # interpreter's own sort (Ord/TimSortTrace.v: sortedness pre-pass, insertion sort up to 20, run detection, extension,
        # collapse rule, forward / backward merges). This ties the ALGORITHM of the proved model to the code, not just its result.
        tj, tterms = [], []
        for i in range(30 if tier == 'quick' else 300):
            n = rng.choice([2, 3, 5, 19, 20, 21, 22, 25, 31, 40, 64, 100] + ([150, 200] if tier == 'thorough' else []))
            m = rng.choice([2, 3, 7, 50, 1000])
            xs = [rng.randrange(1000) for _ in range(n)]
            shape = rng.random()
            if shape < 0.3 and n > 4:
                k = rng.randrange(1, n)
                xs = sorted(xs[:k], key=lambda v: v % m) + sorted(xs[k:], key=lambda v: -(v % m))
            elif shape < 0.5 and n > 6:
                cuts = sorted(rng.sample(range(1, n), rng.choice([2, 3, 4])))
                parts, prev = [], 0
                for c_ in cuts + [n]:
                    parts.append(sorted(xs[prev:c_], key=lambda v: v % m, reverse=rng.random() < 0.3))
                    prev = c_
                xs = [v for p_ in parts for v in p_]
            elif shape < 0.55:
                xs.sort(key=lambda v: v % m)
            lit = '[' + ', '.join(map(str, xs)) + ']'
            tj.append({'id': f't{i}', 'src': f'fn c0() -> str {{ to_str({lit}.sort((a: int, b: int)->{{display(a*1000+b)*0 + a % {m} - b % {m}}})) }}', 'calls': ['c0']})
            tterms.append(f'let \'(o, t) := xsortT (fun a b => Z.compare (a mod {m}) (b mod {m})) [{"; ".join(map(str, xs))}] in '
                          f'((match o with Some r => show_list show_Z r | None => "model-failure" end) ++ "|" ++ show_list show_Z (map (fun p => fst p * 1000 + snd p) t))%string')
        sres = core.run_harness(ctx['binary'], sj + fj + mj + tj, os.path.join(workdir, 'hs'), timeout=300)
        tmodel = core.coq_eval(tterms, self.imports, os.path.join(workdir, 'coqt'), shard_size=10, timeout=900)
        n_trace = 0
        for job, m in zip(tj, tmodel):
            r = sres.get(job['id'])
            n_eval += 1
            if m is None or m.startswith('model-failure'):
                raise core.CheckError('sort trace model evaluation failed: ' + str(m)[:200])
            if r is None or r.get('compile') != 'ok':
                violations.append({'what': 'sort with a printing comparator did not run', 'case': {'src': job['src']}, 'impl': str(r and r.get('compile'))[:300], 'model': m[:200]})
                continue
            got = r['calls'][0][2:] + '|[' + ', '.join((r.get('stdout') or '').split()) + ']'
            if got != m:
                gv, gt = got.split('|')
                mv, mt = m.split('|')
                if gv != mv:
                    violations.append({'what': 'sort with a key comparator: the result is not what the reference stable sort gives', 'case': {'src': job['src']}, 'impl': gv[:400], 'model': mv[:400]})
                else:
                    violations.append({'what': 'the comparator calls made by the interpreter\'s sort are not those of the model of its algorithm (Ord/TimSortTrace.v): '
                                               'the theorem C19_sort_builtin_is_reference_sort no longer speaks about this code', 'broken_correspondence': 'Ord/TimSortTrace.v xsortT',
                                       'case': {'src': job['src']}, 'impl': gt[:400], 'model': mt[:400]})
            else:
                n_trace += 1
                distinct.add(job['src'])
        smodel = core.coq_eval(sterms, self.imports, os.path.join(workdir, 'coqs'), shard_size=40, timeout=900)
        for job, m, (form, n) in zip(sj, smodel, smeta):
            r = sres.get(job['id'])
            n_eval += 1
            if m is None:
                raise core.CheckError('sort model evaluation failed')
            got = r['calls'][0] if r and r.get('compile') == 'ok' else (r and r.get('compile'))
            if got != 's:' + m:
                violations.append({'what': f'{form}: the result is not what the reference stable sort gives (ordered permutation, ties in original order)', 'case': {'src': job['src']},
                                   'impl': str(got)[:400], 'model': m[:400]})
            elif n > 20:
                distinct.add(job['src'])
        for job in fj:
            r = sres.get(job['id'])
            n_eval += 1
            c0, c1 = (r['calls'] if r and r.get('compile') == 'ok' else (str(r and r.get('compile')), ''))
            if c0 != 'E:boom' or not c1.startswith('s:['):
                violations.append({'what': 'a comparator that fails on a pair every sort must compare did not yield that failure (or the plain sort failed)', 'case': {'src': job['src']},
                                   'impl': [c0[:100], c1[:100]], 'model': ['E:boom', 'sorted']})
                continue
            b = r.get('bytes') or {}
            if b.get('after_drop') != b.get('base'):
                violations.append({'what': 'a failed sort left bytes accounted after every value was dropped (elements leaked or double-freed)', 'case': {'src': job['src']},
                                   'impl': b, 'model': 'after_drop == base'})
            else:
                distinct.add(job['src'])
        for job in mj:
            r = sres.get(job['id'])
            n_eval += 1
            if r is None or r.get('compile') != 'ok':
                continue              # an order-statistic form that does not take a comparator in this position
            out = r['calls'][0]
            seen = 'boom' in (r.get('stdout') or '')
            if seen and out != 'E:boom':
                violations.append({'what': 'the comparator failed (its marker was printed) but the failure was swallowed: the call returned something else',
                                   'case': {'src': job['src']}, 'impl': out[:200], 'model': 'E:boom'})
            elif not seen and not out.startswith('s:'):
                violations.append({'what': 'the comparator never failed, yet the call did not return a value', 'case': {'src': job['src']}, 'impl': out[:200], 'model': 'a value'})
            else:
                distinct.add(job['src'])
        # ------------------------------------------------------------------ (c) format
        fjobs, fwant = [], []
        pad_terms, pad_idx = [], []
        for i in range(150 if tier == 'quick' else 1500):
            x = rng.choice([0, 1, 5, 42, 255, 1234567, -1, -42, -1234567, 2 ** 63, -(2 ** 63), 10 ** 20, -(10 ** 20), -(2 ** 64) - 1])
            align = rng.choice([None, None, '>', '<', '^', '='])
            fill = rng.choice([None, '*', '0', 'é', ' ']) if align else None
            sign = rng.choice([None, None, '+', '-', ' '])
            mode = rng.choice([None, None, 'x', 'X', 'b', 'o'])
            alt = mode is not None and rng.random() < 0.3
            zero = align is None and rng.random() < 0.25
            width = rng.choice([None, 1, 3, 6, 10, 15])
            grouping = rng.choice([None, None, ',', '_']) if mode is None else None
            spec = (fill or '') + (align or '') + (sign or '') + ('#' if alt else '') + ('0' if zero else '') + (str(width) if width else '') + (grouping or '') + (mode or '')
            want = ref_format_int(x, fill, align, sign if sign != '-' else None, alt, zero, width, grouping, mode)
            if fill is not None and not fill.isascii() and width is not None:
                want = None          # the implementation deliberately restricts the fill character to ASCII: an error value, not a crash
            xs_ = str(x) if x >= 0 else f'({x})'
            fjobs.append({'id': f'i{i}', 'src': f'fn c0() -> str {{ format({xs_}, "{spec}") }}\nfn c1() -> bool {{ format({xs_}, "") == to_str({xs_}) }}', 'calls': ['c0', 'c1']})
            fwant.append(('int', spec, ('s:' + want) if want is not None else 'E:invalid format spec'))
            sp_, body_, fill_, al_ = ref_format_int.parts
            if want is not None and width is not None and fill_.isascii():
                codes = lambda t: '[' + '; '.join(f'{ord(ch)}%N' for ch in t) + ']'
                alc = {'>': 'ARight', '<': 'ALeft', '^': 'ACenter', '=': 'AAfterSign'}[al_]
                pad_terms.append(f'show_codes (pad {ord(fill_)}%N {alc} {width} {codes(sp_)} {codes(body_)})')
                pad_idx.append(len(fjobs) - 1)
        for i in range(80 if tier == 'quick' else 800):
            s = rng.choice(['', 'a', 'ab', 'héé', 'é', '👋x', 'hello'])
            align = rng.choice([None, '>', '<', '^'])
            fill = rng.choice([None, '*', 'é', '-']) if align else None
            width = rng.choice([None, 1, 3, 5, 8])
            spec = (fill or '') + (align or '') + (str(width) if width else '')
            fjobs.append({'id': f't{i}', 'src': f'fn c0() -> str {{ format("{s}", "{spec}") }}\nfn c1() -> bool {{ format("{s}", "") == to_str("{s}") }}', 'calls': ['c0', 'c1']})
            fwant.append(('str', spec, ('s:' + ref_format_str(s, fill, align, width)) if (fill is None or fill.isascii() or width is None) else 'E:invalid format spec'))
        fres = core.run_harness(ctx['binary'], fjobs, os.path.join(workdir, 'hf'), timeout=300)
        pmodel = core.coq_eval(pad_terms, self.imports, os.path.join(workdir, 'coqp'), shard_size=200, timeout=600)
        for k_, m_ in zip(pad_idx, pmodel):
            n_eval += 1
            if m_ is None:
                raise core.CheckError('pad model evaluation failed')
            got_ = fres[fjobs[k_]['id']]['calls'][0]
            if got_ != 's:' + m_:
                violations.append({'what': 'format: the padded text differs from the padding rule of the specifier grammar (proved model: exactly the width, only fill characters added)',
                                   'case': {'src': fjobs[k_]['src']}, 'impl': got_, 'model': m_})
        for job, (kind, spec, want) in zip(fjobs, fwant):
            r = fres.get(job['id'])
            n_eval += 1
            if r is None or r.get('compile') != 'ok':
                raise core.CheckError(f'format program failed: {r and r.get("compile")}\n{job["src"]}')
            c0, c1 = r['calls']
            if c1 != 'b:true':
                violations.append({'what': f'format(x, "") differs from to_str(x) ({kind})', 'case': {'src': job['src']}, 'impl': c1, 'model': 'b:true'})
            elif c0 != want:
                violations.append({'what': f'format of {kind} with specifier "{spec}" does not pad / align / sign / group as the documented grammar says', 'case': {'src': job['src']},
                                   'impl': c0, 'model': want})
            else:
                distinct.add(job['src'])
        ctx['coverage'] = {'evaluations': n_eval, 'distinct_nontrivial': len(distinct), 'samples': samples, 'value_pairs': len(jobs), 'law_programs': len(lj), 'sort_cases': len(sj), 'sort_traces_agreeing': n_trace,
                           'failing_comparators': len(fj), 'format_cases': len(fjobs)}
        return violations


PROP = C19()
