"""C20 - documented conversions are mutually inverse and canonical.
Dates / Julian days (+-3,000,000 and beyond, negative included), datetimes / Unix seconds (+-1e11, negative and
fractional), fractions (numerators/denominators up to 2^70, negative and zero), integer <-> text in every base 2..36,
code point <-> character, and JSON serialise / deserialise against an independent JSON parser (Python's json)."""
import json
import math
import os

from lib import core
from lib.runner import Case, PropertyCheck
from props import c20_json


def lit(n):
    return f'(-{-n})' if n < 0 else str(n)


def big(n):
    return lit(n) if abs(n) < 2 ** 100 else f'"{n}".to_int()'


def days_in_month(y, m):
    if m == 2:
        return 29 if (y % 4 == 0 and y % 100 != 0) or y % 400 == 0 else 28
    return 30 if m in (4, 6, 9, 11) else 31


def to_base(n, b):
    digs = '0123456789abcdefghijklmnopqrstuvwxyz'
    if n == 0:
        return '0'
    s, m = '', abs(n)
    while m:
        s = digs[m % b] + s
        m //= b
    return ('-' if n < 0 else '') + s


class C20(PropertyCheck):
    extra_vo = ['Conv/JsonInst.vo']          # model files evaluated by the correspondence that Props/<id>.v does not depend on
    id = 'C20'
    imports = ('From Coq Require Import List ZArith String.\nFrom Xr Require Import Base.Res Base.Show Conv.Dates Conv.Fractions Conv.ConvInst.\n'
               'Import ListNotations.\nOpen Scope Z_scope.\n')
    batch = 40
    technique = 'Coq proofs: Julian-day/date and Unix/datetime round trips for ALL integers (400-year periodicity + exhaustive period sweep), fraction canonicity and exact arithmetic, JSON serialise/read round trip for every document below the reader depth limit (strings with all escapes, four number layouts, arrays, objects); correspondence incl. JSON against the Coq model and an independent parser'
    trusted = ['float arithmetic of datetime() on integral seconds below 2^53 is exact (modelled over Z)', "Python's json module is the independent JSON parser",
               'JSON: float -> shortest decimal digits (Rust {:?} / Grisu) is NOT modelled; the correspondence supplies the decimal of each float (Python repr) and the model covers the layout of the text and the reader',
               'serde_json is represented by the RFC 8259 reader of coq/Conv/Json.v (recursion limit 128, no lone surrogates, no raw control characters); number texts are kept to <= 15 significant digits so that each denotes one double']
    assumptions = ['include.rs date/fraction functions as transcribed in coq/Conv (checked by the correspondence)']
    rule = ('Julian days in +-3,000,000 (+ far outside), valid dates incl. leap days and negative years, Unix times in +-1e11 incl. negative and fractional, '
            'fraction operands up to 2^70 incl. negative and zero, ints x bases 2..36, scalar values at UTF-8 boundaries and surrogates, JSON documents of nesting <= 5; '
            'distinct = distinct call texts; non-trivial = negative / huge / boundary operand or an error result')

    def generate(self, rng, tier):
        n = 700 if tier == 'quick' else 7000
        cases, seen = [], set()

        def add(kind, body, coq, expect, nt=True):
            if body in seen:
                return
            seen.add(body)
            cases.append(Case(f'{kind}|{body}', kind, body, coq, 'str', '', {'nt': nt}, None, expect))
        for _ in range(n):
            r = rng.random()
            if r < 0.2:
                j = rng.choice([rng.randint(-3000000, 3000000), rng.randint(-3000000, 3000000), rng.randint(-10 ** 9, 10 ** 9), 0, -1, 1, 2440588, -146097, 146097,
                                rng.choice([-1, 1]) * 2 ** rng.randint(40, 70)])
                add('jd_date', f'to_str(date({big(j)})) + "|" + to_str(date({big(j)}).julian_day()) + "|" + to_str(date({big(j)}).weekday())',
                    f'(show_date (date_of ({j})) ++ "|" ++ show_Z (julian_day (date_of ({j}))) ++ "|" ++ show_Z (weekday (date_of ({j}))))%string',
                    None, j < 0 or abs(j) > 3000000)
            elif r < 0.35:
                y = rng.choice([rng.randint(-5000, 5000), 1900, 2000, 2024, 2100, -4, 0, 400, -400, rng.randint(-10 ** 6, 10 ** 6)])
                m = rng.randint(1, 12)
                d = rng.choice([1, 28, days_in_month(y, m), rng.randint(1, days_in_month(y, m))])
                add('date_jd', f'to_str(Date({lit(y)}, {m}, {d}).julian_day().date()) + "|" + to_str(Date({lit(y)}, {m}, {d}).julian_day())',
                    f'(show_date (date_of (julian_day (mkdate ({y}) {m} {d}))) ++ "|" ++ show_Z (julian_day (mkdate ({y}) {m} {d})))%string',
                    None, y <= 0 or (m == 2 and d == 29))
            elif r < 0.47:
                t = rng.choice([rng.randint(-10 ** 11, 10 ** 11), rng.randint(-100000, 100000), 0, -1, 86399, -86400, -86401, 951782400, -2208988800])
                tf = f'(-{-t}.0)' if t < 0 else f'{t}.0'
                add('unix_int', f'to_str(datetime({tf}).members()::item1) + ":" + to_str(datetime({tf}).members()::item2) + "|" + to_str(datetime({tf})::date) + "|" + to_str(floor(datetime({tf}).unix()))',
                    f'(show_Z (hours (datetime_of ({t}))) ++ ":" ++ show_Z (minutes (datetime_of ({t}))) ++ "|" ++ show_date (dt_date (datetime_of ({t}))) ++ "|" ++ show_Z (unix (datetime_of ({t}))))%string',
                    None, t < 0)
            elif r < 0.52:
                t = rng.choice([-0.5, 0.25, -86400.75, 1e11 - 0.5, -1e11 + 0.125, rng.uniform(-1e11, 1e11), rng.uniform(-1e5, 1e5)])
                tl = f'(-{-t!r})' if t < 0 else repr(t)
                # fractional seconds: compared with the Python oracle only, with a tolerance (never bit-compare floats)
                add('unix_frac', f'to_str(abs(datetime({tl}).unix() - {tl}) < 0.001) + to_str(datetime({tl})::seconds >= 0.0 && datetime({tl})::seconds < 60.0)', None, 'truetrue', t < 0)
            elif r < 0.75:
                def operand():
                    return rng.choice([0, 1, -1, 2, -3, 6, 2 ** 63, -2 ** 63, 2 ** 64 + 1, 2 ** 70, -(2 ** 70) + 1, rng.randint(-2 ** 70, 2 ** 70), rng.randint(-50, 50)])
                a, b, c, d = operand(), operand(), operand(), operand()
                kind = rng.choice(['make', 'add', 'sub', 'mul', 'div', 'cmp', 'floor', 'from_float', 'pow', 'pow'])
                if kind == 'from_float':
                    import fractions
                    fl = rng.choice([0.5, -0.75, 4503599627370496.0, -4503599627370496.0, -9007199254740992.0, 1e300, -1e300, 5e-324, -5e-324, 0.1, -0.1, 3.0, -3.0,
                                     rng.uniform(-1e6, 1e6), float(rng.randint(-2 ** 62, 2 ** 62)), -1.7976931348623157e308, 2.0 ** -1000])
                    fr = fractions.Fraction(fl)
                    rr = repr(abs(fl))
                    if 'e' in rr and '.' not in rr:
                        mm, ee = rr.split('e')
                        rr = mm + '.0e' + ee
                    rr = rr.replace('e+', 'e')
                    fll = f'(-{rr})' if fl < 0 else rr
                    add('fraction/from_float', f'to_str(members(fraction({fll})))', None, f'({fr.numerator}, {fr.denominator})')
                    continue
                if kind == 'pow':
                    a, b = rng.choice([0, 1, -1, 2, -2, -3, 5, 6, -7, 10]), rng.choice([1, 2, 3, -3, 4, 6, -9])
                    e_ = rng.choice([0, 1, 2, 3, -1, -2, -3, -5, 7])
                    add('fraction/pow', f'to_str(members(fraction({big(a)}, {big(b)}) ** {big(e_)}))', f'rfrac (do x <- fraction ({a}) ({b}); fpow x ({e_}))', None)
                    continue
                if kind == 'make':
                    add('fraction', f'to_str(members(fraction({big(a)}, {big(b)})))', f'rfrac (fraction ({a}) ({b}))', None)
                elif kind in ('add', 'sub', 'mul', 'div'):
                    if b == 0 or d == 0:
                        continue
                    cf = {'add': 'fadd', 'sub': 'fsub', 'mul': 'fmul', 'div': 'fdiv'}[kind]
                    add('fraction/' + kind, f'to_str(members(fraction({big(a)}, {big(b)}).{kind}(fraction({big(c)}, {big(d)}))))',
                        f'rfrac (do x <- fraction ({a}) ({b}); do y <- fraction ({c}) ({d}); {cf} x y)', None)
                elif kind == 'cmp':
                    if b == 0 or d == 0:
                        continue
                    add('fraction/cmp', f'to_str(sign(fraction({big(a)}, {big(b)}).cmp(fraction({big(c)}, {big(d)})))) + to_str(fraction({big(a)}, {big(b)}) == fraction({big(c)}, {big(d)}))',
                        f'show_res (fun x => x) (do x <- fraction ({a}) ({b}); do y <- fraction ({c}) ({d}); Val (show_Z (Z.sgn (fcmp x y)) ++ show_bool (feq x y))%string)', None)
                else:
                    if b == 0:
                        continue
                    add('fraction/floor', f'to_str(fraction({big(a)}, {big(b)}).floor()) + "," + to_str(fraction({big(a)}, {big(b)}).ceil())',
                        f'show_res (fun x => x) (do x <- fraction ({a}) ({b}); Val (show_Z (ffloor x) ++ "," ++ show_Z (fceil x))%string)', None)
            elif r < 0.9:
                v = rng.choice([0, 1, -1, 35, 36, 2 ** 63, -2 ** 63, 2 ** 64, -(2 ** 127) - 1, 2 ** 127, rng.randint(-2 ** 200, 2 ** 200), rng.randint(-1000, 1000)])
                b = rng.choice(list(range(2, 37)) + [1, 0, 37, -2])
                txt = to_base(v, b) if 2 <= b <= 36 else '10'
                if rng.random() < 0.15:
                    txt = rng.choice(['', '-', '+', 'zz', '1_0', ' 1', '0x10', txt.upper(), '+' + txt.lstrip('-')])
                cps = '; '.join(str(ord(c)) for c in txt)
                add('to_int', f'to_str("{txt}".to_int({lit(b)}))', f'show_res show_Z (to_int [{cps}]%Z ({b}))', None, abs(v) >= 2 ** 63)
                if b in (2, 8, 16) and rng.random() < 0.5:
                    spec = {2: 'b', 8: 'o', 16: 'x'}[b]
                    add('format_to_int', f'to_str(({big(v)}).abs().format("{spec}").to_int({b}) == ({big(v)}).abs())', None, 'true', abs(v) >= 2 ** 63)
                    # signed: text in the base and back, also below -2^63
                    add('format_to_int_signed', f'to_str(({big(v)}).format("{spec}").to_int({b}) == ({big(v)})) + ({big(v)}).format("{spec}")', None,
                        'true' + to_base(v, b), abs(v) >= 2 ** 63)
            else:
                c = rng.choice([0, 0x41, 0x7f, 0x80, 0x7ff, 0x800, 0xffff, 0x10000, 0x10ffff, 0xd7ff, 0xe000, 0xd800, 0xdfff, 0x110000, -1, 2 ** 32, rng.randint(0, 0x10ffff)])
                valid = 0 <= c <= 0x10ffff and not (0xd800 <= c <= 0xdfff)
                add('chr', f'to_str(chr({lit(c)}).code_point()) + to_str(chr({lit(c)}).len())', None, f'{c}1' if valid else None, True)
        # designated: negative integers below -2^63 written in bases 2 / 8 / 16 and read back
        for v in [-(2 ** 64), -(2 ** 127) - 1, -(10 ** 30), -(2 ** 63) - 1, 2 ** 64, -(2 ** 63)]:
            for b, spec in ((2, 'b'), (8, 'o'), (16, 'x')):
                add('format_to_int_signed', f'to_str(({big(v)}).format("{spec}").to_int({b}) == ({big(v)})) + ({big(v)}).format("{spec}")', None, 'true' + to_base(v, b), True)
        return cases

    def nontrivial(self, case, impl, model):
        return bool(case.meta.get('nt')) or impl.startswith('E:')

    def agree(self, case, impl, model):
        if case.coq is None and case.expect is None:
            return impl.startswith('E:')
        if model is not None and model.startswith('E:'):
            return impl.startswith('E:')
        return impl == model

    # ---- JSON against an independent parser
    def gen_json(self, rng, depth=0):
        r = rng.random()
        if depth >= 5 or r < 0.45:
            k = rng.random()
            if k < 0.2:
                return rng.choice([None, True, False])
            if k < 0.5:
                return rng.choice([0, 1, -1, 12345, 2 ** 53, -2 ** 53 + 1, rng.randint(-10 ** 9, 10 ** 9)])
            if k < 0.7:
                return rng.choice([0.5, -0.25, 1e308, -1e308, 5e-324, 1e-7, 123456.789, 1.7976931348623157e308, rng.uniform(-1e6, 1e6)])
            return ''.join(rng.choice(['a', 'b', ' ', '"', '\\', '/', '\n', '\t', '\r', '\x01', '\x1f', '\x7f', 'é', '€', '\U0001F600', '​', '퟿', '{', ']', ':']) for _ in range(rng.randint(0, 6)))
        if r < 0.75:
            return [self.gen_json(rng, depth + 1) for _ in range(rng.randint(0, 4))]
        keys = set()
        out = {}
        for _ in range(rng.randint(0, 4)):
            k = ''.join(rng.choice(['k', 'x', '"', '\\', 'é', '\n', ' ', '\x02', '\U0001F600']) for _ in range(rng.randint(0, 3)))
            if k not in keys:
                keys.add(k)
                out[k] = self.gen_json(rng, depth + 1)
        return out

    def extra_checks(self, ctx):
        rng = ctx['rng']
        tier = ctx['tier']
        n = 120 if tier == 'quick' else 1500
        jobs, docs = [], []

        def xr_str(s):
            m = {'\\': '\\\\', '"': '\\"', '\n': '\\n', '\t': '\\t', '\r': '\\r', '\0': '\\0'}
            return '"' + ''.join(m.get(c, c) for c in s) + '"'
        for i in range(n):
            doc = self.gen_json(rng)
            text = json.dumps(doc, ensure_ascii=rng.random() < 0.5)
            src = (f'let t = {xr_str(text)};\nlet v = json_deserialize(t);\nlet s = v.serialize();\n'
                   f'fn f()->str{{ s }}\nfn g()->bool{{ json_deserialize(s) == v }}')
            jobs.append({'id': f'j{i}', 'src': src, 'calls': ['f', 'g']})
            docs.append((doc, text))
        res = core.run_harness(ctx['binary'], jobs, os.path.join(ctx['workdir'], 'h_json'))
        violations, samples = [], []
        distinct = 0

        def norm(x):
            # numbers: xray's JSON has one numeric type; ints below 2^53 and floats compare by value
            if isinstance(x, bool) or x is None or isinstance(x, str):
                return x
            if isinstance(x, (int, float)):
                return float(x)
            if isinstance(x, list):
                return [norm(y) for y in x]
            return {k: norm(v) for k, v in x.items()}
        for job, (doc, text) in zip(jobs, docs):
            r = res.get(job['id'])
            if r is None or r.get('compile') != 'ok':
                raise core.CheckError(f'JSON job failed to compile: {r and r.get("compile")}\n{job["src"][:300]}')
            if r.get('inst') != 'ok':
                violations.append({'what': 'deserialising / serialising a valid JSON document did not produce a value', 'case': {'src': job['src']}, 'impl': r.get('inst')})
                continue
            out, again = r['calls']
            case = {'src': job['src'], 'document': text}
            if not out.startswith('s:'):
                violations.append({'what': 'serialising a JSON value failed', 'case': case, 'impl': out[:200]})
                continue
            try:
                back = json.loads(out[2:])
            except Exception as e:
                violations.append({'what': 'serialised JSON is rejected by an independent JSON parser', 'case': case, 'impl': out[:300], 'model': str(e)})
                continue
            if norm(back) != norm(doc):
                violations.append({'what': 'an independent JSON parser reads the serialised text as a different document', 'case': case, 'impl': out[:300], 'model': text[:300]})
                continue
            if again != 'b:true':
                violations.append({'what': 'deserialising the serialised text does not return an equal value', 'case': case, 'impl': again})
                continue
            distinct += 1
            if len(samples) < 4:
                samples.append({'document': text[:120], 'serialised': out[2:122]})
        # ---- JSON against the proved Coq model (serialiser text, reader verdicts and documents, depth limit)
        mv, m_evals, m_distinct, m_cov = c20_json.run(ctx, rng, tier)
        violations.extend(mv)
        ctx['coverage'] = dict({'evaluations': len(jobs) + m_evals, 'distinct_nontrivial': distinct + m_distinct, 'samples': samples, 'json_documents': len(jobs)}, **m_cov)
        return violations


PROP = C20()
