"""C05 - overload resolution is ranked, unambiguous and stable.
Sets of 1-6 same-named user overloads (generic / non-generic, optional parameters, declared at the top level and inside
the calling function, under a fresh name or under a standard-library name that has exact and dynamic overloads) are
compiled by the real compiler; every call site returns the tag of the body that ran, or ends in AmbiguousOverload /
NoOverload.  The outcome is compared with resolve_call of coq/Ty/Overload.v (whose order-, irrelevance- and
renaming-invariance and ranking are proved in coq/Ty/OverloadProofs.v, coq/Ty/Rename.v), and re-observed on metamorphic
variants of the same set: permuted declarations, alpha-renamed generic parameters, added non-matching overloads,
declarations moved between scope levels."""
import itertools
import os
import re

from lib import core
from lib.runner import PropertyCheck
from props.c04 import T, prim, gen, nat, tup, comp, fn, clist, nat_lit, IMPORTS

INT, STR, FLT, BOOL = prim('int'), prim('str'), prim('float'), prim('bool')
ARG_POOL = [INT, STR, FLT, BOOL, nat('Sequence', INT), nat('Sequence', STR), nat('Optional', INT), comp('Z'), tup(INT, STR), nat('Sequence', nat('Sequence', INT)),
            comp('P', INT, STR), nat('Mapping', INT, STR)]
ARG_EXPR = {INT: '1', STR: '"s"', FLT: '1.5', BOOL: 'true', nat('Sequence', INT): '[1]', nat('Sequence', STR): '["a"]', nat('Optional', INT): 'some(1)',
            comp('Z'): 'Z(1)', tup(INT, STR): '(1, "s")', nat('Sequence', nat('Sequence', INT)): '[[1]]', comp('P', INT, STR): 'P(1, "s")',
            nat('Mapping', INT, STR): 'mapping<int>().set(1, "s")'}
F0, F1, F2, F12 = fn(0, [], INT), fn(1, [INT], INT), fn(2, [INT, INT], INT), fn(1, [INT, INT], INT)
UNIT = tup()
ARG_POOL += [F0, F1, F2, F12, UNIT]
ARG_EXPR[UNIT] = '()'
ARG_EXPR.update({F0: '(()->{5})', F1: '((x: int)->{x})', F2: '((x: int, y: int)->{x})', F12: '((x: int, y: int ?= 2)->{x})'})
PRELUDE = 'struct P<A,B>(a: A, b: B)\nstruct Z(n: int)\n'


def param_pool(g1, g2):
    a, b = gen(g1), gen(g2)
    return [INT, INT, STR, FLT, nat('Sequence', INT), comp('Z'), a, a, nat('Sequence', a), nat('Optional', a), tup(a, b), comp('P', a, b), b, nat('Sequence', nat('Sequence', a)),
            nat('Mapping', a, b), F0, F1, F1, F2, fn(1, [a], INT), fn(1, [INT], a), UNIT]


def default_expr(t):
    # an expression of a type that fits the parameter type whatever the generics are: error() is the bottom type
    return 'error("d")'


class Ov:
    def __init__(self, tag, params, nreq, level):
        self.tag, self.params, self.nreq, self.level = tag, params, nreq, level

    def gens(self):
        out = []
        for p in self.params:
            for s in p.subterms():
                if s.kind == 'gen' and s.name not in out:
                    out.append(s.name)
        return out

    def rename(self, m):
        def r(t):
            if t.kind == 'gen':
                return gen(m.get(t.name, t.name))
            return T(t.kind, t.name, [r(a) for a in t.args], t.nreq, r(t.ret) if t.ret else None)
        return Ov(self.tag, [r(p) for p in self.params], self.nreq, self.level)

    def decl(self, name):
        gs = self.gens()
        ps = ', '.join(f'p{i}: {p.xr()}' + (f' ?= {default_expr(p)}' if i >= self.nreq else '') for i, p in enumerate(self.params))
        return f'fn {name}' + (f'<{", ".join(gs)}>' if gs else '') + f'({ps}) -> str {{ "#tag{self.tag}#" }}'

    def coq(self):
        from props.c04 import GENS
        own = '[' + '; '.join(str(GENS[g]) for g in self.gens()) + ']'
        return f'({self.tag}, {own}, {nat_lit(self.nreq)}, {clist(self.params)})'


# standard-library candidates of the colliding name, by argument type: (class, id)
def lib_to_str(args):
    if len(args) != 1:
        return None
    a = args[0]
    if a.kind == 'prim':
        return 'exact'
    if a.kind in ('nat', 'tup') and a.name in ('Sequence', 'Optional', None):
        return 'dynamic'
    return None


def program(name, ovs, args):
    top = [o.decl(name) for o in ovs if o.level == 0]
    inner = [o.decl(name) for o in ovs if o.level == 1]
    call = f'{name}(' + ', '.join(ARG_EXPR[a] for a in args) + ')'
    return PRELUDE + '\n'.join(top) + '\nfn c0() -> str {\n' + '\n'.join(inner) + f'\n{call}\n}}\n'


def observe(r):
    c = r.get('compile')
    if c == 'ok':
        if r.get('inst') != 'ok' or not r.get('calls'):
            return 'bad:' + str(r.get('inst'))
        out = r['calls'][0]
        m = re.match(r's:#tag(\d+)#$', out)
        if m:
            return 'chosen:' + m.group(1)
        if out.startswith('s:'):
            return 'chosen:100'          # a standard-library overload ran
        return 'bad:' + out
    m = re.search(r'\[(\w+)\]\s*$', c or '')
    cls = m.group(1) if m else None
    if cls == 'AmbiguousOverload':
        k = re.search(r'(\d+) possible overloads', c)
        return 'ambiguous:' + (k.group(1) if k else '?')
    if cls == 'NoOverload':
        return 'none'
    return 'bad:' + str(c)


class C05(PropertyCheck):
    id = 'C05'
    imports = IMPORTS
    technique = 'Coq proofs of permutation / irrelevance / alpha invariance and of the ranking of resolve_call; overload-set differential correspondence with metamorphic variants'
    trusted = ['the class (exact / dynamic) of the standard library\'s to_str overloads per argument type is a small table in props/c05.py, self-checked against the compiler on every run']
    assumptions = ['call sites with fully known argument types only (the property\'s quantifier); unknown-typed arguments and short-circuit overloads are not checked',
                   'matching of a user overload is func_bind_own of coq/Ty/Types.v (see C04)']
    rule = ('overload sets of 1-6 user overloads over parameter types {int,str,float,Sequence<int>,Z,T,Sequence<T>,Optional<T>,(T,U),P<T,U>,U,...}, 0-1 optional '
            'parameters, two scope levels, fresh name or to_str; 3 call sites per set from 12 argument types; variants: all permutations (<= 4 overloads) or 6 sampled, '
            'alpha-renaming, 1-2 added non-matching overloads, level flips; distinct = (set, call); non-trivial = at least two user overloads match or library collides')

    def generate(self, rng, tier):
        return []

    def extra_checks(self, ctx):
        rng, tier, workdir = ctx['rng'], ctx['tier'], ctx['workdir']
        nsets = 60 if tier == 'quick' else 600
        jobs, terms, meta = [], [], []
        pool = param_pool('T', 'U')
        # designated sets (always run): a user overload of a library name against the library's exact and dynamic overloads of that name
        designated = []
        for params in ([gen('T')], [nat('Sequence', gen('T'))], [nat('Sequence', INT)], [nat('Optional', gen('T'))], [tup(gen('T'), gen('U'))], [INT], [comp('Z')]):
            for arg in (nat('Sequence', INT), nat('Optional', INT), tup(INT, STR), INT, comp('Z'), nat('Sequence', nat('Sequence', INT))):
                designated.append(([Ov(1, list(params), 1, 0)], [arg]))
        designated.append(([Ov(1, [gen('T')], 1, 0), Ov(2, [nat('Sequence', gen('T'))], 1, 1)], [nat('Sequence', INT)]))
        designated.append(([Ov(1, [gen('T')], 1, 0), Ov(2, [nat('Sequence', INT)], 1, 0)], [nat('Sequence', INT)]))
        for si in range(nsets + len(designated)):
            fixed = designated[si - nsets] if si >= nsets else None
            name = 'to_str' if (fixed or rng.random() < 0.25) else 'ov'
            n = rng.choice([1, 2, 2, 3, 3, 4, 5, 6]) if not fixed else 0
            ovs = list(fixed[0]) if fixed else []
            for k in range(n):
                ar = rng.choice([1, 1, 1, 2, 2, 3])
                params = [rng.choice(pool) for _ in range(ar)]
                nreq = ar if rng.random() < 0.7 else ar - 1
                ovs.append(Ov(k + 1, params, nreq, 1 if rng.random() < 0.3 else 0))
            if not fixed and rng.random() < 0.15 and ovs:
                o = rng.choice(ovs)                   # an exact duplicate signature at the other level
                ovs.append(Ov(len(ovs) + 1, o.params, o.nreq, 1 - o.level))
            for ci in range(3 if not fixed else 1):
                # call site: mostly derived from one overload's parameters so that something matches
                o = rng.choice(ovs)
                args = []
                for p in o.params[:rng.choice([o.nreq, len(o.params)])]:
                    cands = [a for a in ARG_POOL]
                    if p.kind != 'gen' and rng.random() < 0.7:
                        same = [a for a in ARG_POOL if a.kind == p.kind and a.name == p.name]
                        cands = same or cands
                    args.append(rng.choice(cands))
                if rng.random() < 0.15:
                    args = args + [rng.choice(ARG_POOL)] if rng.random() < 0.5 or not args else args[:-1]
                if name == 'to_str' and rng.random() < 0.6:
                    args = [rng.choice(ARG_POOL)]
                if fixed:
                    args = list(fixed[1])
                variants = [('original', ovs)]
                perms = list(itertools.permutations(ovs)) if len(ovs) <= 4 else [tuple(rng.sample(ovs, len(ovs))) for _ in range(6)]
                if tier == 'quick' and len(perms) > 6:
                    perms = rng.sample(perms, 6)
                for pi, p in enumerate(perms[1:] if len(ovs) <= 4 else perms):
                    variants.append((f'permutation{pi}', list(p)))
                variants.append(('alpha', [o2.rename({'T': 'X', 'U': 'Y'}) for o2 in ovs]))
                variants.append(('alpha-swap', [o2.rename({'T': 'U', 'U': 'T'}) for o2 in ovs]))
                variants.append(('level-flip', [Ov(o2.tag, o2.params, o2.nreq, 1 - o2.level) for o2 in ovs]))
                extra = [Ov(90, [comp('Z')] * 4, 4, rng.choice([0, 1])), Ov(91, [nat('Mapping', STR, comp('Z')), gen('T')], 2, 0)]
                variants.append(('added-nonmatching', extra[:1] + ovs + extra[1:]))
                for vname, vovs in variants:
                    statics = list(vovs)
                    if name == 'to_str':
                        term = f'obs_resolve_to_str [{"; ".join(o2.coq() for o2 in statics)}] {clist(args)}'
                    else:
                        term = f'obs_resolve [{"; ".join(o2.coq() for o2 in statics)}] [] {clist(args)}'
                    jobs.append({'id': f's{si}c{ci}{vname}', 'src': program(name, vovs, args), 'calls': ['c0']})
                    terms.append(term)
                    meta.append({'set': si, 'call': ci, 'variant': vname, 'name': name, 'arguments': [a.show() for a in args],
                                 'overloads': [o2.decl(name) + f'  // level {o2.level}' for o2 in vovs]})
        # ---------- family 2: a forward-declared overload called from inside the body of ANOTHER overload of the same name
        fjobs, fterms, fmeta = [], [], []
        simple = [INT, STR, FLT, comp('Z'), nat('Sequence', INT), gen('T'), nat('Sequence', gen('T')), nat('Optional', gen('T'))]
        for fi in range(30 if tier == 'quick' else 300):
            n = rng.choice([2, 2, 3, 4])
            ovs = []
            sigs = set()
            while len(ovs) < n:
                ar = rng.choice([1, 1, 2])
                params = [rng.choice(simple) for _ in range(ar)]
                key = tuple(p.key() for p in params)
                if key in sigs:
                    continue
                sigs.add(key)
                ovs.append(Ov(len(ovs) + 1, params, ar, 0))
            a, b = rng.sample(ovs, 2)          # a: forward declared, b: its caller

            def inst_args(o):
                out = []
                for p_ in o.params:
                    same = [x for x in ARG_POOL if x.kind == p_.kind and x.name == p_.name and x.kind != 'fn'] if p_.kind != 'gen' else []
                    out.append(rng.choice(same or [INT, STR, comp('Z')]))
                return out
            args_a, args_b = inst_args(a), inst_args(b)
            lines = [PRELUDE, f'forward fn ov{("<" + ", ".join(a.gens()) + ">") if a.gens() else ""}(' + ', '.join(f'p{i}: {p_.xr()}' for i, p_ in enumerate(a.params)) + ') -> str;']
            order = [o for o in ovs if o is not a]
            rng.shuffle(order)
            pos_b = order.index(b)
            for o in order[:pos_b + 1]:
                if o is b:
                    gs = o.gens()
                    ps = ', '.join(f'p{i}: {p_.xr()}' for i, p_ in enumerate(o.params))
                    inner = 'ov(' + ', '.join(ARG_EXPR[x] for x in args_a) + ')'
                    lines.append(f'fn ov' + (f'<{", ".join(gs)}>' if gs else '') + f'({ps}) -> str {{ {inner} + "#tag{o.tag}#" }}')
                else:
                    lines.append(o.decl('ov'))
            lines.append(a.decl('ov'))
            for o in order[pos_b + 1:]:
                lines.append(o.decl('ov'))
            lines.append('fn c0() -> str { ov(' + ', '.join(ARG_EXPR[x] for x in args_b) + ') }')
            # candidates visible inside b's body: b itself (recursion cell), a (forward), and the overloads declared before b
            vis_inner = [o for o in order[:pos_b + 1]] + [a]
            # a depth limit: a generated body may legitimately call itself for ever (that case is not compared)
            fjobs.append({'id': f'f{fi}', 'src': '\n'.join(lines), 'calls': ['c0'], 'limits': {'depth': 40}})
            fterms.append(f'obs_resolve [{"; ".join(o.coq() for o in vis_inner)}] [] {clist(args_a)}')
            fterms.append(f'obs_resolve [{"; ".join(o.coq() for o in ovs)}] [] {clist(args_b)}')
            fmeta.append({'forward': a.tag, 'caller': b.tag, 'inner_arguments': [x.show() for x in args_a], 'outer_arguments': [x.show() for x in args_b]})
        # ---------- family 2b: a nested function whose recursive call competes with a same-named overload of an enclosing scope
        rjobs, rterms, rmeta = [], [], []
        for ri in range(20 if tier == 'quick' else 200):
            sig = [rng.choice(simple[:5]) for _ in range(rng.choice([1, 1, 2]))]
            other = [rng.choice(simple[:5]) for _ in range(len(sig))] if rng.random() < 0.5 else list(sig)
            outer_o, inner_o = Ov(1, other, len(other), 0), Ov(2, sig, len(sig), 1)
            args = inst_args(inner_o)
            ps = ', '.join(f'p{i}: {p_.xr()}' for i, p_ in enumerate(sig))
            call = 'ov(' + ', '.join(ARG_EXPR[x] for x in args) + ')'
            src = (PRELUDE + outer_o.decl('ov') + f'\nfn c0() -> str {{\nfn ov({ps}) -> str {{ if(false, {call}, "#tag2#") }}\n"never calls ov"\n}}\n')
            rjobs.append({'id': f'r{ri}', 'src': src, 'calls': ['c0']})
            rterms.append(f'obs_resolve [{outer_o.coq()}; {inner_o.coq()}] [] {clist(args)}')
            rmeta.append({'outer': outer_o.decl('ov'), 'inner_signature': ps, 'recursive_call': call})
        # ---------- family 3: comparison operators are dynamic functions that look up the user's cmp overloads
        ojobs, oterms, ometa = [], [], []
        ctypes = [comp('Z'), INT, STR, comp('P', INT, STR), nat('Sequence', INT), gen('T')]
        for oi in range(25 if tier == 'quick' else 250):
            n = rng.choice([1, 2, 2, 3, 4])
            ovs, sigs = [], set()
            while len(ovs) < n:
                params = [rng.choice(ctypes), rng.choice(ctypes)]
                if all(p_.kind == 'prim' for p_ in params) or tuple(p_.key() for p_ in params) in sigs:
                    continue
                sigs.add(tuple(p_.key() for p_ in params))
                ovs.append(Ov(len(ovs) + 1, params, 2, 0))
            decls = []
            for o in ovs:
                gs = o.gens()
                decls.append('fn cmp' + (f'<{", ".join(gs)}>' if gs else '') + f'(p0: {o.params[0].xr()}, p1: {o.params[1].xr()}) -> int {{ let d = display("#tag{o.tag}#"); 0 }}')
            for ci in range(3):
                o = rng.choice(ovs)
                args = []
                for p_ in o.params:
                    same = [x for x in [comp('Z'), INT, STR, comp('P', INT, STR), nat('Sequence', INT)] if x.kind == p_.kind and x.name == p_.name] if p_.kind != 'gen' else []
                    args.append(rng.choice(same or [comp('Z'), INT, STR]))
                if rng.random() < 0.3:
                    args[rng.randrange(2)] = rng.choice([comp('Z'), INT, STR, comp('P', INT, STR)])
                if all(x.kind == 'prim' for x in args) or any(x.kind == 'nat' for x in args) and args[0] == args[1]:
                    continue          # the library has its own exact / dynamic cmp there
                for op in ['cmp', 'lt', 'gt', 'le', 'ge']:
                    ojobs.append({'id': f'o{oi}c{ci}{op}', 'src': PRELUDE + '\n'.join(decls) + f'\nfn c0() -> str {{ to_str({op}({ARG_EXPR[args[0]]}, {ARG_EXPR[args[1]]})) }}', 'calls': ['c0']})
                    oterms.append(f'obs_resolve [{"; ".join(o2.coq() for o2 in ovs)}] [] {clist(args)}')
                    ometa.append({'operator': op, 'arguments': [x.show() for x in args], 'overloads': decls})
        # ---------- family 4: container equality / inequality are dynamic functions that look up eq for the ELEMENT types (t0, t1)
        ejobs, eterms, emeta = [], [], []
        etypes = [comp('Z'), INT, STR, comp('P', INT, STR), gen('T')]
        evals_ = {comp('Z'): 'Z(1)', INT: '1', STR: '"s"', comp('P', INT, STR): 'P(1, "s")'}
        for ei in range(25 if tier == 'quick' else 250):
            n = rng.choice([1, 2, 2, 3])
            ovs, sigs = [], set()
            while len(ovs) < n:
                params = [rng.choice(etypes), rng.choice(etypes)]
                if all(p_.kind == 'prim' for p_ in params) or tuple(p_.key() for p_ in params) in sigs:
                    continue
                sigs.add(tuple(p_.key() for p_ in params))
                ovs.append(Ov(len(ovs) + 1, params, 2, 0))
            decls = []
            for o in ovs:
                gs = o.gens()
                decls.append('fn eq' + (f'<{", ".join(gs)}>' if gs else '') + f'(p0: {o.params[0].xr()}, p1: {o.params[1].xr()}) -> bool {{ let d = display("#tag{o.tag}#"); true }}')
            for ci in range(3):
                o = rng.choice(ovs)
                a = [rng.choice([x for x in evals_ if (p_.kind == 'gen' or x == p_)] or list(evals_)) for p_ in o.params]
                if rng.random() < 0.3:
                    a[rng.randrange(2)] = rng.choice(list(evals_))
                if all(x.kind == 'prim' for x in a):
                    continue
                forms = [('seq-eq', f'[{evals_[a[0]]}] == [{evals_[a[1]]}]'), ('seq-ne', f'[{evals_[a[0]]}] != [{evals_[a[1]]}]'),
                         ('opt-eq', f'some({evals_[a[0]]}) == some({evals_[a[1]]})'), ('tuple-eq', f'({evals_[a[0]]}, 1) == ({evals_[a[1]]}, 1)')]
                wrap = {'seq-eq': lambda x: nat('Sequence', x), 'seq-ne': lambda x: nat('Sequence', x), 'opt-eq': lambda x: nat('Optional', x), 'tuple-eq': lambda x: tup(x, INT)}
                for fname, ex in forms:
                    ejobs.append({'id': f'e{ei}c{ci}{fname}', 'src': PRELUDE + '\n'.join(decls) + f'\nfn c0() -> str {{ to_str({ex}) }}', 'calls': ['c0']})
                    eterms.append(f'obs_resolve [{"; ".join(o2.coq() for o2 in ovs)}] [] {clist(a)}')
                    emeta.append({'form': fname, 'element_types': [x.show() for x in a], 'overloads': decls,
                                  'outer': (f'obs_resolve [{"; ".join(o2.coq() for o2 in ovs)}] [(100, DYN)] {clist([wrap[fname](a[0]), wrap[fname](a[1])])}')})
        # self-check of the library table
        table_jobs = []
        for a in ARG_POOL:
            table_jobs.append({'id': 'lib' + a.show(), 'src': PRELUDE + f'fn c0() -> str {{ to_str({ARG_EXPR[a]}) }}', 'calls': ['c0']})
        res = core.run_harness(ctx['binary'], jobs + table_jobs + fjobs + ojobs + ejobs + rjobs, os.path.join(workdir, 'h'), timeout=600)
        for a in ARG_POOL:
            r = res['lib' + a.show()]
            has = r.get('compile') == 'ok'
            if has != (lib_to_str([a]) is not None):
                raise core.CheckError(f'library table for to_str is out of date for {a.show()}: compile={r.get("compile")}')
        model = core.coq_eval(terms, self.imports, os.path.join(workdir, 'coq'), shard_size=300, timeout=600)
        violations, samples = [], []
        distinct, n_eval = set(), 0
        base = {}
        for job, m, mt in zip(jobs, model, meta):
            if m is None:
                raise core.CheckError('model evaluation failed for ' + job['id'])
            r = res.get(job['id'])
            got = observe(r)
            n_eval += 1
            key = (mt['set'], mt['call'])
            if mt['variant'] == 'original':
                base[key] = got
            if got.startswith('bad:'):
                violations.append({'what': 'overloaded call neither ran a candidate nor ended in AmbiguousOverload / NoOverload', 'case': {'src': job['src'], **mt}, 'impl': got, 'model': m})
            elif got != m:
                if mt['variant'] != 'original' and base.get(key) == m:
                    what = f'the chosen overload changed under a variant that must not matter ({mt["variant"]}): original outcome {base[key]}, now {got}'
                else:
                    what = 'overload resolution differs from the documented ranking (non-generic, then generic, then dynamic; several best = ambiguity; none = error)'
                violations.append({'what': what, 'case': {'src': job['src'], **mt}, 'impl': got, 'model': m})
            else:
                if m.startswith('ambiguous') or mt['name'] == 'to_str' or len(mt['overloads']) > 1:
                    distinct.add(key)
                if len(samples) < 5 and mt['variant'] == 'original' and (len(samples) % 2 == 0) == m.startswith('chosen'):
                    samples.append({'overloads': mt['overloads'], 'arguments': mt['arguments'], 'outcome': m})
        fmodel = core.coq_eval(fterms, self.imports, os.path.join(workdir, 'coqf'), shard_size=300, timeout=600)
        for k, (job, mt) in enumerate(zip(fjobs, fmeta)):
            inner, outer = fmodel[2 * k], fmodel[2 * k + 1]
            r = res.get(job['id'])
            n_eval += 1
            c = r.get('compile')
            got = ('ok:' + r['calls'][0]) if c == 'ok' and r.get('calls') else 'rejected'
            if not inner.startswith('chosen') or not outer.startswith('chosen'):
                want = 'rejected'
            else:
                it, ot = inner.split(':')[1], outer.split(':')[1]
                want = 'ok:s:' + (f'#tag{it}##tag{ot}#' if int(ot) == mt['caller'] else f'#tag{ot}#')
                if int(ot) == mt['caller'] and int(it) == mt['caller']:
                    continue          # unbounded self recursion: not a resolution question
            if c != 'ok' and '[MissingForwardImplementation]' in (c or ''):
                continue
            if got != want:
                violations.append({'what': 'a forward-declared overload is not resolved like any other visible overload from inside another overload of the same name',
                                   'case': {'src': job['src'], **mt}, 'impl': got if got != 'rejected' else c, 'model': f'inner call: {inner}; outer call: {outer}; expected {want}'})
            else:
                distinct.add(('forward', k))
        rmodel = core.coq_eval(rterms, self.imports, os.path.join(workdir, 'coqr'), shard_size=300, timeout=600)
        for job, m, mt in zip(rjobs, rmodel, rmeta):
            r = res.get(job['id'])
            n_eval += 1
            c = r.get('compile') or ''
            got = 'accepted' if c == 'ok' else ('ambiguous' if '[AmbiguousOverload]' in c else ('none' if '[NoOverload]' in c else 'bad:' + c[:200]))
            want = 'accepted' if m.startswith('chosen') else m.split(':')[0]
            if got != want:
                violations.append({'what': 'the recursive call inside a nested function is not resolved against all visible overloads of the name (an equally ranked overload of an enclosing scope must make it ambiguous)',
                                   'case': {'src': job['src'], **mt}, 'impl': got if got != 'accepted' else 'compiles', 'model': m})
            else:
                distinct.add(('rec', job['id']))
        omodel = core.coq_eval(oterms, self.imports, os.path.join(workdir, 'coqo'), shard_size=300, timeout=600)
        for job, m, mt in zip(ojobs, omodel, ometa):
            r = res.get(job['id'])
            n_eval += 1
            c = r.get('compile')
            tags = re.findall(r'#tag(\d+)#', r.get('stdout', '') or '')
            got = ('chosen:' + tags[0]) if c == 'ok' and tags else ('rejected' if c != 'ok' else 'ran-no-user-overload')
            want = m if m.startswith('chosen') else 'rejected'
            if got != want:
                violations.append({'what': f'the dynamic operator function {mt["operator"]} does not run the unique best cmp overload for its operand types (inner lookup of overloads)',
                                   'case': {'src': job['src'], **mt}, 'impl': got if c == 'ok' else c, 'model': m})
            else:
                distinct.add(('op', job['id']))
        emodel_inner = core.coq_eval(eterms, self.imports, os.path.join(workdir, 'coqe'), shard_size=300, timeout=600)
        # the outer call: user overloads on the container types (a generic eq<T>(T, T) matches them too) before the dynamic library function,
        # which matches when the inner lookup finds a single best overload (for tuples the second component is int: the builtin)
        outer_terms = [mt.pop('outer').replace('DYN', 'true' if mi.startswith('chosen') else 'false') for mi, mt in zip(emodel_inner, emeta)]
        emodel_outer = core.coq_eval(outer_terms, self.imports, os.path.join(workdir, 'coqe2'), shard_size=300, timeout=600)
        emodel = [(mi if mo == 'chosen:100' else mo) for mi, mo in zip(emodel_inner, emodel_outer)]
        for job, m, mt in zip(ejobs, emodel, emeta):
            r = res.get(job['id'])
            n_eval += 1
            c = r.get('compile')
            outs = [str(r.get('inst'))] + [str(x) for x in (r.get('calls') or [])]
            if any(o.startswith(('P:', 'panic')) for o in outs):
                violations.append({'what': f'{mt["form"]}: the dynamic container comparison crashed the interpreter: it ran an eq overload that does not accept the element types',
                                   'case': {'src': job['src'], **mt}, 'impl': outs, 'model': m})
                continue
            tags = re.findall(r'#tag(\d+)#', r.get('stdout', '') or '')
            got = ('chosen:' + tags[0]) if c == 'ok' and tags else ('rejected' if c != 'ok' else 'ran-no-user-overload')
            want = m if m.startswith('chosen') else 'rejected'
            if got != want:
                violations.append({'what': f'{mt["form"]}: the dynamic container comparison does not use the unique best eq overload for its element types (inner lookup of overloads)',
                                   'case': {'src': job['src'], **mt}, 'impl': got if c == 'ok' else c[:300], 'model': m})
            else:
                distinct.add(('eq', job['id']))
        outcomes = {}
        for m in model:
            outcomes[m.split(':')[0]] = outcomes.get(m.split(':')[0], 0) + 1
        ctx['coverage'] = {'evaluations': n_eval, 'distinct_nontrivial': len(distinct), 'samples': samples, 'overload_sets': nsets, 'model_outcomes': outcomes}
        return violations


PROP = C05()
